"""Generators for the family `loaders` (property C19): key store / trust store files with their block descriptors,
rule set documents with untyped values in every position the rule factory looks at, scripts for the background
loops and the request goroutines.

Key and certificate material comes from tools/gen_loaders_pool.json (generated once by the harness operation
`pool`; regenerate with `python3 tools/gen_loaders.py --regenerate-pool`).  Every case carries the concrete bytes
for the implementation side and the descriptor of those bytes for the model side."""
import base64
import copy
import json
import os
import sys

HERE = os.path.dirname(os.path.abspath(__file__))
with open(os.path.join(HERE, "gen_loaders_pool.json")) as _fh:
    POOL = json.load(_fh)
KEYS, CERTS, PASSWORD = POOL["keys"], POOL["certs"], POOL["password"]
KEY_ID = {name: i + 1 for i, name in enumerate(sorted(KEYS))}
CERT_ID = {name: 100 + i for i, name in enumerate(sorted(CERTS))}
LABEL = {"pkcs1": "RSA PRIVATE KEY", "sec1": "EC PRIVATE KEY", "pkcs8": "PRIVATE KEY",
         "encrypted": "ENCRYPTED PRIVATE KEY", "public": "PUBLIC KEY"}
JUNK = {"is": "junk"}


# ---------------------------------------------------------------------------------------------------------------
# blocks: (pem text, descriptor)

def _pem_label(pem):
    return pem.split("\n", 1)[0][len("-----BEGIN "):-len("-----")]


def _with_kid(pem, kid):
    if not kid:
        return pem
    first, rest = pem.split("\n", 1)
    return f"{first}\nX-Key-ID: {kid}\n\n{rest}"


def key_block(name, form, kid="", password=PASSWORD):
    k = KEYS[name]
    pem = k["forms"][form]
    label = _pem_label(pem)
    parses = form in ("pkcs1", "sec1", "pkcs8") or (form == "encrypted" and password == PASSWORD)
    content = ({"is": "key", "id": KEY_ID[name], "alg": k["kind"], "bits": k["bits"], "auto_kid": k["kid"]}
               if parses else JUNK)
    return _with_kid(pem, kid), {"type": label, "kid": kid, "content": content}


def cert_block(name):
    c = CERTS[name]
    content = {"is": "cert", "cid": CERT_ID[name], "key": KEY_ID[c["key"]], "subject": c["subject"],
               "issuer": c["issuer"], "ski": c["ski"], "aki": c["aki"], "serial": c["serial"], "valid": c["valid"],
               "ca": c["ca"], "digsig": c["digsig"]}
    return c["pem"], {"type": "CERTIFICATE", "kid": "", "content": content}


def junk_block(rng, label):
    raw = bytes(rng.randrange(256) for _ in range(rng.choice([1, 16, 48, 200])))
    b64 = base64.b64encode(raw).decode()
    lines = "\n".join(b64[i:i + 64] for i in range(0, len(b64), 64))
    return f"-----BEGIN {label}-----\n{lines}\n-----END {label}-----\n", {"type": label, "kid": "", "content": JUNK}


class PemFile:
    """a file assembled from blocks and free text; knows where every block ends"""

    def __init__(self, parts):
        self.text = ""
        self.blocks = []      # (descriptor, offset just behind the closing dashes)
        for p in parts:
            if isinstance(p, str):
                self.text += p
            else:
                pem, desc = p
                self.text += pem
                self.blocks.append((desc, len(self.text) - (1 if pem.endswith("\n") else 0)))

    def view(self, cut=None):
        """(text, descriptors of the complete blocks, anything left after the last complete block) for the prefix
        of length `cut`"""
        k = len(self.text) if cut is None else cut
        text = self.text[:k]
        done = [(d, e) for d, e in self.blocks if e <= k]
        if not done:
            return text, [], k > 0
        last = done[-1][1]
        if last < k and self.text[last] == "\n":
            last += 1
        return text, [d for d, _ in done], k > last


# ---------------------------------------------------------------------------------------------------------------
# stores

def store(*items, kids=None, password=PASSWORD):
    """items: 'key:<name>:<form>' | 'cert:<name>' | free text"""
    parts = []
    n = 0
    for it in items:
        if it.startswith("key:"):
            _, name, form = it.split(":")
            kid = (kids or {}).get(n, "")
            n += 1
            parts.append(key_block(name, form, kid, password))
        elif it.startswith("cert:"):
            parts.append(cert_block(it[5:]))
        else:
            parts.append(it)
    return parts


GOOD = {
    "rsa2048+cert": ["key:rsa2048_0:pkcs1", "cert:ss_rsa2048"],
    "ec256+cert": ["key:ec256_0:sec1", "cert:ss_ec256"],
    "ec384 bare": ["key:ec384_0:pkcs8"],
    "rsa3072 chain3": ["key:rsa3072_0:pkcs8", "cert:leaf3_rsa3072", "cert:inter", "cert:root"],
    "ec256b chain2": ["key:ec256_1:sec1", "cert:leaf2_ec256b", "cert:root"],
    "rsa4096 encrypted": ["key:rsa4096_0:encrypted", "cert:ss_rsa4096"],
    "ec521+cert": ["key:ec521_0:sec1", "cert:ss_ec521"],
    "two keys": ["key:rsa2048_0:pkcs8", "cert:ss_rsa2048", "key:ec256_0:pkcs8", "cert:ss_ec256"],
    "certs first": ["cert:root", "cert:leaf2_ec256b", "key:ec256_1:pkcs8"],
    "cross certified": ["key:ec256_0:sec1", "cert:leaf_cross", "cert:cross_a", "cert:cross_b"],
    "leaf without issuer": ["key:rsa3072_0:pkcs1", "cert:leaf3_rsa3072"],
    "leaf and intermediate": ["key:rsa3072_0:pkcs1", "cert:leaf3_rsa3072", "cert:inter"],
    "with comments": ["Bag Attributes\n    friendlyName: x\n", "key:ec256_0:sec1", "\n# certificate\n", "cert:ss_ec256",
                      "\n"],
}
HOSTILE = {
    "empty": [],
    "white space": ["\n \n"],
    "text": ["hello world\n"],
    "binary": ["\x00\x01\x02\xff-----BEGIN"],
    "certificate only": ["cert:ss_rsa2048"],
    "rsa1024": ["key:rsa1024_0:pkcs1", "cert:ss_rsa1024"],
    "rsa1024 bare": ["key:rsa1024_0:pkcs8"],
    "rsa1536 chain3": ["key:rsa1536_0:pkcs1", "cert:leaf3_rsa1536", "cert:inter", "cert:root"],
    "ec224": ["key:ec224_0:sec1", "cert:ss_ec224"],
    "ed25519": ["key:ed25519_0:pkcs8"],
    "supported then unsupported": ["key:ec256_0:sec1", "cert:ss_ec256", "key:rsa1024_0:pkcs1"],
    "unsupported then supported": ["key:ec224_0:sec1", "key:ec256_0:sec1", "cert:ss_ec256"],
    "mislabelled rsa": ["key:rsa2048_0:mislabelled"],
    "mislabelled ec": ["key:ec256_0:mislabelled"],
    "public key": ["key:rsa2048_0:public"],
    "key then public key": ["key:rsa2048_0:pkcs1", "key:rsa2048_0:public"],
    "same key twice": ["key:ec256_0:sec1", "key:ec256_0:pkcs8"],
    "renewed certificate": ["key:ec256_0:sec1", "cert:ss_ec256", "cert:ss_ec256_renewed"],
    "renewed certificate (ski)": ["key:rsa2048_0:pkcs1", "cert:ss_rsa2048_renewed", "cert:ss_rsa2048"],
    "cross certified authority key": ["key:rsa4096_0:pkcs1", "cert:cross_b", "cert:cross_a"],
    "cross certified other order": ["cert:cross_b", "cert:cross_a", "cert:leaf_cross", "key:ec256_0:pkcs8"],
    "expired": ["key:ec256_1:sec1", "cert:ss_ec256b_expired"],
    "expired before valid": ["key:ec256_1:sec1", "cert:ss_ec256b_expired", "cert:leaf2_ec256b", "cert:root"],
    "valid before expired": ["key:ec256_1:sec1", "cert:leaf2_ec256b", "cert:root", "cert:ss_ec256b_expired"],
    "no signature usage": ["key:ec384_0:sec1", "cert:ss_ec384_nousage"],
    "authority certificate as leaf": ["key:ec384_0:sec1", "cert:root"],
    "foreign certificate": ["key:ec256_0:sec1", "cert:ss_rsa2048"],
    "leaf and root without intermediate": ["key:rsa3072_0:pkcs1", "cert:leaf3_rsa3072", "cert:root"],
}
ALL_KEYS = [(n, f) for n in sorted(KEYS) for f in sorted(KEYS[n]["forms"])]
ALL_CERTS = sorted(CERTS)
JUNK_LABELS = ["RSA PRIVATE KEY", "EC PRIVATE KEY", "PRIVATE KEY", "ENCRYPTED PRIVATE KEY", "CERTIFICATE",
               "DSA PRIVATE KEY", "CERTIFICATE REQUEST", "X509 CRL"]
TEXTS = ["", "", "", "\n", "# x\n", "subject=CN = a\n", " \n\t\n"]
CONSUMERS = ["jwt", "tls", "httpsig"]


def random_parts(rng, password=PASSWORD):
    parts = []
    n = rng.choice([1, 1, 2, 2, 3, 3, 4, 5, 6])
    for _ in range(n):
        r = rng.random()
        if r < 0.4:
            name, form = rng.choice(ALL_KEYS)
            kid = rng.choice(["", "", "", "k1", "k2"])
            parts.append(key_block(name, form, kid, password))
        elif r < 0.85:
            parts.append(cert_block(rng.choice(ALL_CERTS)))
        else:
            parts.append(junk_block(rng, rng.choice(JUNK_LABELS)))
        t = rng.choice(TEXTS)
        if t:
            parts.append(t)
    return parts


def gen_file(rng, password=PASSWORD):
    """(PemFile, label of the scenario)"""
    r = rng.random()
    if r < 0.3:
        name = rng.choice(sorted(GOOD))
        return PemFile(store(*GOOD[name], password=password)), "good:" + name
    if r < 0.65:
        name = rng.choice(sorted(HOSTILE))
        return PemFile(store(*HOSTILE[name], password=password)), "hostile:" + name
    if r < 0.72:
        name = rng.choice(["two keys", "rsa2048+cert", "ec256+cert"])
        kids = rng.choice([{0: "k1", 1: "k2"}, {0: "k1", 1: "k1"}, {0: "k1"}, {1: "k2"}])
        return PemFile(store(*GOOD[name], kids=kids, password=password)), "kids:" + name
    return PemFile(random_parts(rng, password)), "random"


def material_case(rng, consumer, first, second, cut=None, label="", key_id="", password=PASSWORD, strict=True):
    text, blocks, trailing = second.view(cut)
    c = {"fam": "loaders", "op": "material", "consumer": consumer, "second": text, "blocks": blocks,
         "password": password, "key_id": key_id, "label": label}
    if consumer == "trust":
        c["strict"] = strict
        c["trailing"] = trailing
    elif consumer != "keystore":
        if first is None:
            c["first"], c["first_blocks"] = None, None
        else:
            ftext, fblocks, _ = first.view()
            c["first"], c["first_blocks"] = ftext, fblocks
    if cut is not None:
        c["cut"] = cut
    return c


def gen_material(rng):
    password = rng.choice([PASSWORD, PASSWORD, PASSWORD, "", "wrong"])
    consumer = rng.choice(CONSUMERS + CONSUMERS + ["keystore", "trust"])
    second, label = gen_file(rng, password)
    cut = None
    if rng.random() < 0.3 and second.text:
        cut = rng.randrange(len(second.text) + 1)
        label += "+cut"
    key_id = ""
    if rng.random() < 0.2:
        key_id = rng.choice(["k1", "k2", "nope", KEYS["ec256_0"]["kid"], KEYS["rsa2048_0"]["kid"]])
    first = None
    if consumer in CONSUMERS and rng.random() < 0.8:
        name = rng.choice(["rsa2048+cert", "ec256+cert", "rsa3072 chain3", "two keys"])
        first = PemFile(store(*GOOD[name], password=password))
        if rng.random() < 0.1:
            first = PemFile(store(*HOSTILE[rng.choice(sorted(HOSTILE))], password=password))
    return material_case(rng, consumer, first, second, cut, label, key_id, password, strict=rng.random() < 0.6)


def truncation_grid(names, consumers, step=1):
    """every prefix of the named stores, for every consumer; the file loaded before is the complete store"""
    cases = []
    allst = dict(GOOD)
    allst.update(HOSTILE)
    for name in names:
        f = PemFile(store(*allst[name]))
        for consumer in consumers:
            first = f if consumer in CONSUMERS else None
            for k in range(0, len(f.text) + 1, step):
                cases.append(material_case(None, consumer, first, f, k, "grid:" + name))
    return cases


def scenario_grid():
    """every named store for every consumer, loaded over a good one"""
    cases = []
    allst = dict(GOOD)
    allst.update(HOSTILE)
    base = PemFile(store(*GOOD["rsa2048+cert"]))
    for name in sorted(allst):
        f = PemFile(store(*allst[name]))
        for consumer in CONSUMERS + ["keystore", "trust"]:
            cases.append(material_case(None, consumer, base if consumer in CONSUMERS else None, f, None,
                                       "scenario:" + name))
            if consumer == "trust":
                cases.append(material_case(None, consumer, None, f, None, "scenario:" + name, strict=False))
    return cases


# ---------------------------------------------------------------------------------------------------------------
# rule sets

OTHER = {"$other": True}      # a map with a non-string key; written as {1: x} in the YAML text
REFS = {"authenticator": ["anon", "jwt", "intro"], "authorizer": ["allow", "cel"], "contextualizer": ["ctx"],
        "finalizer": ["hdr", "noop"], "error_handler": ["dflt", "redir"]}
CONFUSED = [None, 42, 0, True, False, ["anon"], [], {"id": "anon"}, {}, OTHER, 3, ""]
GOOD_OVERRIDES = {
    "anon": [{"subject": "x"}],
    "jwt": [{"cache_ttl": "5s"}, {"assertions": {"audience": ["a"]}}],
    "intro": [{"cache_ttl": "5s"}],
    "allow": [{"whatever": 1}, {"a": {"b": [1]}}],
    "cel": [{"expressions": [{"expression": "1 == 1"}]}],
    "ctx": [{"values": {"a": "b"}}],
    "hdr": [{"headers": {"X-B": "c"}}],
    "noop": [{"x": 1}],
    "dflt": [],
    "redir": [],
}
BAD_OVERRIDES = {
    "anon": [{"nope": 1}, {"subject": {"a": 1}}],
    "jwt": [{"nope": 1}, {"cache_ttl": "x"}, {"jwks_endpoint": {"url": "http://127.0.0.1:1/x"}}],
    "intro": [{"nope": 1}, {"cache_ttl": [1]}],
    "allow": [],
    "cel": [{"expressions": [{"expression": "1 +"}]}, {"expressions": 5}, {"nope": 1}],
    "ctx": [{"nope": 1}, {"values": 5}],
    "hdr": [{"headers": 5}, {"nope": 1}],
    "noop": [],
    "dflt": [{"x": 1}],
    "redir": [{"nope": 1}, {"to": "http://127.0.0.1:1/other"}],
}
SCOPES = [["a", "b"], [], [1], ["a", 2], "a", 5, None, True, {"values": ["a"]}, {"values": "a"}, {"values": [1]},
          {"matching_strategy": "wildcard", "values": ["a"]}, {"matching_strategy": "hierarchic", "values": []},
          {"matching_strategy": "exact", "values": ["a"]}, {"matching_strategy": "nope", "values": ["a"]},
          {"matching_strategy": 5, "values": ["a"]}, {"matching_strategy": None, "values": ["a"]},
          {"matching_strategy": "exact"}, {}, {"values": None}, {"values": {"a": 1}}, OTHER,
          {"matching_strategy": ["exact"], "values": [1]}, [[]], [None]]
COMPILES = ["true", "Request.Method == 'GET'", "1 == 1", "Request.Nope == 1"]
NOT_COMPILES = ["1 +", "foo", "'a'", "nosuchfunction(1)"]
ACCEPTS = GOOD_OVERRIDES


def gen_ref(rng, key):
    r = rng.random()
    if r < 0.88:
        return rng.choice(REFS[key])
    if r < 0.92:
        return rng.choice(["unknown", "anon", "hdr", "dflt"])
    return copy.deepcopy(rng.choice(CONFUSED))


def gen_config(rng, ref):
    """returns (present, value)"""
    r = rng.random()
    if r < 0.6:
        return False, None
    if r < 0.68:
        return True, rng.choice([None, {}])
    if isinstance(ref, str) and ref in ("jwt", "intro") and r < 0.84:
        return True, {"assertions": {"scopes": copy.deepcopy(rng.choice(SCOPES))}}
    if isinstance(ref, str) and ref in GOOD_OVERRIDES and r < 0.94:
        pool = GOOD_OVERRIDES[ref] + GOOD_OVERRIDES[ref] + BAD_OVERRIDES[ref]
        if pool:
            return True, copy.deepcopy(rng.choice(pool))
    if r < 0.94:
        return False, None
    return True, copy.deepcopy(rng.choice(["x", 5, True, ["a"], [{"a": 1}], OTHER, 0, ""]))


def gen_if(rng):
    r = rng.random()
    if r < 0.65:
        return False, None
    if r < 0.87:
        return True, rng.choice(COMPILES)
    if r < 0.93:
        return True, rng.choice(NOT_COMPILES)
    return True, copy.deepcopy(rng.choice([None, "", 5, True, ["true"], {"a": 1}, OTHER]))


def gen_step(rng, key):
    r = rng.random()
    if r < 0.03:
        return copy.deepcopy(rng.choice([None, "anon", 42, ["a"], {}, OTHER, True]))
    step = {}
    ref = gen_ref(rng, key)
    step[key] = ref
    if rng.random() < 0.05:
        other = rng.choice(sorted(REFS))
        step.setdefault(other, gen_ref(rng, other))
    present, cfg = gen_config(rng, ref)
    if present:
        step["config"] = cfg
    present, cond = gen_if(rng)
    if present:
        step["if"] = cond
    if rng.random() < 0.03:
        step["extra"] = 1
    return step


def gen_execute(rng):
    r = rng.random()
    if r < 0.04:
        return copy.deepcopy(rng.choice([None, [], {}, "anon", 5, OTHER, {"authenticator": "anon"}]))
    steps = []
    for _ in range(rng.choice([1, 1, 1, 2])):
        steps.append(gen_step(rng, "authenticator"))
    for _ in range(rng.choice([0, 0, 1, 1, 2])):
        steps.append(gen_step(rng, rng.choice(["authorizer", "contextualizer"])))
    for _ in range(rng.choice([0, 0, 1])):
        steps.append(gen_step(rng, "finalizer"))
    if rng.random() < 0.1:
        rng.shuffle(steps)
    if rng.random() < 0.04:
        steps = steps[1:]
    return steps


def gen_on_error(rng):
    r = rng.random()
    if r < 0.5:
        return False, None
    if r < 0.56:
        return True, copy.deepcopy(rng.choice([None, [], {}, "dflt", 5, OTHER, [None], ["dflt"], [5]]))
    return True, [gen_step(rng, "error_handler") for _ in range(rng.choice([1, 1, 2]))]


def gen_rule(rng, rid):
    rule = {"id": rid, "execute": gen_execute(rng)}
    present, oe = gen_on_error(rng)
    if present:
        rule["on_error"] = oe
    return rule


def gen_doc(rng, ids=("r1", "r2", "r3")):
    r = rng.random()
    if r < 0.04:
        return {"kind": "empty"}
    if r < 0.09:
        return {"kind": "unparsable", "text": rng.choice(["\x00\x01{{{", "{\"version\": ", "- a\n- b\n", "version: [",
                                                           "\t\tx: y", "%YAML 9.9\n---\n@"])}
    n = rng.choice([1, 1, 2, 3])
    chosen = list(ids)
    rng.shuffle(chosen)
    doc = {"kind": "doc", "version_ok": rng.random() > 0.04, "rules": [gen_rule(rng, i) for i in sorted(chosen[:n])]}
    if rng.random() < 0.02:
        doc["rules"] = []
    if rng.random() < 0.04:
        doc["kind"] = "vanished"
    return doc


def simple_doc(ids):
    return {"kind": "doc", "version_ok": True,
            "rules": [{"id": i, "execute": [{"authenticator": "anon"}]} for i in ids]}


def _yaml_value(v):
    """JSON text is YAML flow style; the marker object becomes a flow mapping with an integer key"""
    if isinstance(v, dict):
        if "$other" in v:
            return "{1: x}"
        return "{" + ", ".join(json.dumps(k) + ": " + _yaml_value(x) for k, x in v.items()) + "}"
    if isinstance(v, list):
        return "[" + ", ".join(_yaml_value(x) for x in v) + "]"
    return json.dumps(v)


def doc_text(doc):
    """the bytes of a rule set file for a document descriptor (None: no file)"""
    if doc is None:
        return None
    if doc["kind"] == "empty":
        return ""
    if doc["kind"] == "unparsable":
        return doc["text"]
    rules = []
    for r in doc["rules"]:
        rule = {"id": r["id"], "match": {"routes": [{"path": "/" + r["id"]}]}}
        if "execute" in r:
            rule["execute"] = r["execute"]
        if "on_error" in r:
            rule["on_error"] = r["on_error"]
        rules.append(rule)
    top = {"version": "1alpha4" if doc.get("version_ok", True) else "0", "name": "verif", "rules": rules}
    return _yaml_value(top)


def ruleset_case(first, second, label=""):
    ids = sorted({r["id"] for d in (first, second) if d and "rules" in d for r in d["rules"]} | {"r1"})
    return {"fam": "loaders", "op": "ruleset", "first": doc_text(first), "second": doc_text(second),
            "vanish": bool(second and second["kind"] == "vanished"),
            "first_doc": first, "second_doc": second, "probes": ["/" + i for i in ids], "ids": ids,
            "accepts": ACCEPTS, "compiles": COMPILES, "label": label}


def gen_ruleset(rng):
    r = rng.random()
    if r < 0.15:
        first = None
    elif r < 0.75:
        first = simple_doc(rng.choice([["r1"], ["r1", "r2"], ["r2", "r3"]]))
    else:
        first = gen_doc(rng)
        if first["kind"] == "vanished":
            first["kind"] = "doc"
    second = None if rng.random() < 0.03 else gen_doc(rng)
    return ruleset_case(first, second, "random")


def ruleset_grid():
    """every confused value under every key the factory looks at, over a loaded rule set"""
    base = simple_doc(["r1", "r2"])
    cases = []

    def one(execute, on_error=None, label=""):
        rule = {"id": "r1", "execute": execute}
        if on_error is not None:
            rule["on_error"] = on_error
        cases.append(ruleset_case(base, {"kind": "doc", "version_ok": True, "rules": [rule]}, label))

    values = CONFUSED + ["anon", "unknown"]
    for key in ("authenticator", "authorizer", "contextualizer", "finalizer"):
        for v in values:
            head = [] if key == "authenticator" else [{"authenticator": "anon"}]
            one(head + [{key: copy.deepcopy(v)}], None, f"grid:{key}")
            one(head + [{key: REFS[key][0], "config": copy.deepcopy(v)}], None, f"grid:{key}.config")
            one(head + [{key: REFS[key][0], "if": copy.deepcopy(v)}], None, f"grid:{key}.if")
    for v in values:
        one([{"authenticator": "anon"}], [{"error_handler": copy.deepcopy(v)}], "grid:error_handler")
        one([{"authenticator": "anon"}], [{"error_handler": "redir", "config": copy.deepcopy(v)}],
            "grid:error_handler.config")
        one([{"authenticator": "anon"}], [{"error_handler": "dflt", "if": copy.deepcopy(v)}], "grid:error_handler.if")
        one([{"authenticator": "anon"}], copy.deepcopy(v), "grid:on_error")
        one([{"authenticator": "anon"}], [copy.deepcopy(v)], "grid:on_error[]")
        one(copy.deepcopy(v), None, "grid:execute")
        one([copy.deepcopy(v)], None, "grid:execute[]")
    for ref in ("jwt", "intro"):
        for s in SCOPES:
            one([{"authenticator": ref, "config": {"assertions": {"scopes": copy.deepcopy(s)}}}], None, "grid:scopes")
    for ref, lst in list(GOOD_OVERRIDES.items()) + list(BAD_OVERRIDES.items()):
        key = [k for k, ids in REFS.items() if ref in ids][0]
        for o in lst:
            if key == "error_handler":
                one([{"authenticator": "anon"}], [{key: ref, "config": copy.deepcopy(o)}], "grid:override")
            else:
                head = [] if key == "authenticator" else [{"authenticator": "anon"}]
                one(head + [{key: ref, "config": copy.deepcopy(o)}], None, "grid:override")
    for e in COMPILES + NOT_COMPILES:
        one([{"authenticator": "anon"}, {"authorizer": "allow", "if": e}], None, "grid:cel")
    return cases


def text_truncations(doc, step=1):
    """every prefix of the text of a rule set that loads; no model prediction, judged by the specification"""
    text = doc_text(doc)
    base = simple_doc(["r1", "r2"])
    cases = []
    for k in range(0, len(text) + 1, step):
        cases.append({"fam": "loaders", "op": "ruleset", "first": doc_text(base), "second": text[:k],
                      "probes": ["/r1", "/r2", "/r3"], "ids": ["r1", "r2", "r3"], "label": "text-cut", "cut": k,
                      "judge_only": True})
    return cases


def mutate_text(rng, doc):
    """byte-level damage of a rule set text: no model prediction, judged by the specification"""
    text = doc_text(doc)
    b = bytearray(text.encode())
    for _ in range(rng.choice([1, 1, 2, 4])):
        r = rng.random()
        pos = rng.randrange(len(b) + 1)
        if r < 0.3 and b:
            b[pos % len(b)] = rng.randrange(256)
        elif r < 0.5:
            b[pos:pos] = bytes([rng.choice(b"{}[]:,\"'-#&*!|>%@`\n\t\x00")])
        elif r < 0.7 and b:
            del b[pos % len(b)]
        elif r < 0.85:
            q = rng.randrange(len(b) + 1)
            b[pos:pos] = b[min(pos, q):max(pos, q)][:64]
        else:
            b = b[:pos]
    return {"fam": "loaders", "op": "ruleset", "first": doc_text(simple_doc(["r1", "r2"])),
            "second": b.decode("latin-1"), "latin1": True, "probes": ["/r1", "/r2", "/r3"], "ids": ["r1", "r2", "r3"],
            "label": "text-mutation", "judge_only": True}


# ---------------------------------------------------------------------------------------------------------------
# goroutines

def gen_script(rng, op):
    n = rng.choice([1, 2, 3, 4, 6])
    events = [rng.choice(["ok", "ok", "error", "panic"]) for _ in range(n)]
    return {"fam": "loaders", "op": op, "mode": "script", "events": events, "label": "script"}


def watch_material_case(consumer, names, label=""):
    allst = dict(GOOD)
    allst.update(HOSTILE)
    files = [PemFile(store(*allst[n])) for n in names]
    return {"fam": "loaders", "op": "watch", "mode": "material", "consumer": consumer, "key_id": "",
            "contents": [f.text for f in files], "blocks_list": [f.view()[1] for f in files], "names": names,
            "password": PASSWORD, "label": label or "watch:" + consumer}


def gen_serve(rng, server):
    n = rng.choice([1, 2, 3, 5])
    return {"fam": "loaders", "op": "serve", "server": server,
            "requests": [rng.choice(["ok", "ok", "error", "panic"]) for _ in range(n)], "label": "serve:" + server}


# ---------------------------------------------------------------------------------------------------------------
# remote responses and requests

SIGNING_KEY = KEYS["ec256_0"]["forms"]["pkcs8"]
JSON_CT = "application/json"
VALID_BODY = {
    "intro": {"active": True, "sub": "bob", "iss": "verif", "exp": 4102444800, "scope": "a b", "aud": ["x"]},
    "idinfo": {"sub": "carl", "groups": ["a", "b"], "nested": {"k": 1}},
    "authz": {"allowed": True, "why": ["x"]},
    "ctx": {"a": [1, 2], "b": {"c": "d"}},
}
MECHS = ["jwt", "intro", "idinfo", "authz", "ctx"]
JSON_CONFUSED = [None, 5, -1, 1e308, True, "x", "", [], {}, [None], {"a": None}, [[]], "\u0000"]


def material_request():
    return {"fam": "loaders", "op": "remote", "material": True, "key_pem": SIGNING_KEY}


def _b64url(obj):
    raw = obj if isinstance(obj, bytes) else json.dumps(obj, separators=(",", ":")).encode()
    return base64.urlsafe_b64encode(raw).decode().rstrip("=")


def confuse(rng, tree):
    """replace one randomly chosen subtree of a JSON value by a value of another type"""
    tree = copy.deepcopy(tree)
    paths = []

    def walk(v, path):
        paths.append(path)
        if isinstance(v, dict):
            for k in v:
                walk(v[k], path + [k])
        elif isinstance(v, list):
            for i, x in enumerate(v):
                walk(x, path + [i])

    walk(tree, [])
    path = rng.choice(paths)
    new = copy.deepcopy(rng.choice(JSON_CONFUSED))
    if not path:
        return new
    cur = tree
    for k in path[:-1]:
        cur = cur[k]
    cur[path[-1]] = new
    return tree


def gen_token(rng, mat):
    """(token, valid?)"""
    tok = mat["token"]
    r = rng.random()
    if r < 0.35:
        return tok, True
    if r < 0.55:
        return tok[:rng.randrange(len(tok))], False
    if r < 0.65:
        # a header of another shape: the signature may still verify (the header is not what is signed over alone,
        # but e.g. a missing kid makes heimdall try every key), so there is no expectation
        parts = tok.split(".")
        hdr = confuse(rng, {"alg": "ES256", "kid": "k1", "typ": "JWT"})
        return ".".join([_b64url(hdr), parts[1], parts[2]]), None
    if r < 0.75:
        parts = tok.split(".")
        claims = confuse(rng, {"iss": "verif", "sub": "alice", "exp": 4102444800, "aud": ["x"], "scope": "a b"})
        return ".".join([parts[0], _b64url(claims), parts[2]]), False
    if r < 0.85:
        parts = tok.split(".")
        rng.shuffle(parts)
        cand = ".".join(parts[:rng.choice([1, 2, 3])] + ["x"] * rng.choice([0, 0, 3]))
        return cand, (True if cand == tok else False)
    return rng.choice(["", ".", "..", "a.b.c", "a.b.c.d.e", "\u00e9.\u00e9.\u00e9", _b64url(b"\x00") * 3, "A" * 5000,
                       _b64url({"alg": "none"}) + "." + _b64url({"sub": "x"}) + "."]), False


def gen_remote(rng, mat):
    mech = rng.choice(MECHS)
    valid = json.loads(mat["jwks"]) if mech == "jwt" else VALID_BODY[mech]
    text = mat["jwks"] if mech == "jwt" else json.dumps(valid)
    status, ctype, body, body_valid, kind = 200, JSON_CT, text, True, "valid"
    r = rng.random()
    if r < 0.3:
        pass
    elif r < 0.5:
        k = rng.randrange(len(text))
        body, body_valid, kind = text[:k], False, "truncated"
    elif r < 0.75:
        body, body_valid, kind = json.dumps(confuse(rng, valid)), None, "confused"
    elif r < 0.82:
        body, body_valid, kind = rng.choice(["", "null", "[]", "5", "\"x\"", "{", "\x00\x01", "<html>", "a=b&c=d",
                                             "[" * 3000, "{\"a\":" * 2000 + "1" + "}" * 2000]), False, "other"
    elif r < 0.9:
        ctype, body_valid, kind = rng.choice(["", "text/plain", "application/x-www-form-urlencoded", "application/yaml",
                                              "application/json; charset=\x00", "a/b/c"]), None, "content-type"
    else:
        status, body_valid, kind = rng.choice([204, 301, 400, 401, 403, 404, 500, 503]), False, "status"
    token, token_valid = ("t", True)
    if mech == "jwt":
        token, token_valid = gen_token(rng, mat)
    expect = None
    if body_valid is True and token_valid is True and kind == "valid":
        expect = "ok"
    elif mech == "jwt" and token_valid is False:
        expect = "error"
    elif mech in ("jwt", "intro") and body_valid is False:
        expect = "error"
    return {"fam": "loaders", "op": "remote", "mech": mech, "token": token, "status": status, "ctype": ctype,
            "body": body, "kind": kind, "expect": expect, "label": "remote:" + mech}


def remote_grid(mat):
    """every truncation of the valid token and of every valid response body"""
    cases = []
    tok = mat["token"]
    for k in range(len(tok) + 1):
        cases.append({"fam": "loaders", "op": "remote", "mech": "jwt", "token": tok[:k], "status": 200,
                      "ctype": JSON_CT, "body": mat["jwks"], "kind": "token-cut",
                      "expect": "ok" if k == len(tok) else "error", "label": "remote:jwt"})
    for mech in MECHS:
        text = mat["jwks"] if mech == "jwt" else json.dumps(VALID_BODY[mech])
        for k in range(len(text) + 1):
            cases.append({"fam": "loaders", "op": "remote", "mech": mech, "token": tok if mech == "jwt" else "t",
                          "status": 200, "ctype": JSON_CT, "body": text[:k], "kind": "body-cut",
                          "expect": "ok" if k == len(text) else ("error" if mech in ("jwt", "intro") else None),
                          "label": "remote:" + mech})
    return cases


REQUESTS = [
    "GET /anon HTTP/1.1\r\nHost: heimdall.test\r\n\r\n",
    "GET /anon/a/b?x=1&y=%20z HTTP/1.1\r\nHost: heimdall.test\r\nCookie: c=d; e\r\nX-Forwarded-For: 1.2.3.4\r\n\r\n",
    "POST /body?q=1 HTTP/1.1\r\nHost: heimdall.test\r\nContent-Type: application/json\r\nX-In: v\r\n"
    "Content-Length: 27\r\n\r\n{\"a\": [1, {\"b\": null}], \"c\": 1}",
    "POST /body HTTP/1.1\r\nHost: heimdall.test\r\nContent-Type: application/x-www-form-urlencoded\r\n"
    "Content-Length: 11\r\n\r\na=b&c=%20d&e",
    "PUT /body HTTP/1.1\r\nHost: heimdall.test\r\nContent-Type: application/yaml\r\nContent-Length: 14\r\n\r\n"
    "a: [1, 2]\nb: c\n",
    "POST /body HTTP/1.1\r\nHost: heimdall.test\r\nContent-Type: application/json\r\nTransfer-Encoding: chunked\r\n\r\n"
    "7\r\n{\"a\":1}\r\n0\r\n\r\n",
    "GET http://other.test/anon HTTP/1.1\r\nHost: heimdall.test\r\n\r\n",
    "GET /nope HTTP/1.0\r\n\r\n",
]
HOSTILE_REQUESTS = [
    "", "\r\n", "GET\r\n\r\n", "GET / HTTP/9.9\r\n\r\n", "GET /%zz HTTP/1.1\r\nHost: a\r\n\r\n",
    "GET /anon?%zz=%zz HTTP/1.1\r\nHost: a\r\n\r\n", "G\x00T /anon HTTP/1.1\r\nHost: a\r\n\r\n",
    "GET /anon HTTP/1.1\r\nHost: a\r\nX: \x00\r\n\r\n", "GET /anon HTTP/1.1\r\n: x\r\n\r\n",
    "GET /anon HTTP/1.1\r\nHost: a\r\nHost: b\r\n\r\n", "GET /anon HTTP/1.1\r\nHost: a\r\nContent-Length: -1\r\n\r\n",
    "POST /body HTTP/1.1\r\nHost: a\r\nContent-Length: 5\r\nContent-Length: 6\r\n\r\nhello!",
    "POST /body HTTP/1.1\r\nHost: a\r\nContent-Type: application/json\r\nContent-Length: 3\r\n\r\n{\"a",
    "POST /body HTTP/1.1\r\nHost: a\r\nContent-Type: application/json\r\nContent-Length: 4000\r\n\r\n" + "[" * 4000,
    "POST /body HTTP/1.1\r\nHost: a\r\nContent-Type: application/yaml\r\nContent-Length: 30\r\n\r\n"
    "a: &a [*a]\nb: !!binary \"=\"\n....",
    "POST /body HTTP/1.1\r\nHost: a\r\nContent-Type: application/x-www-form-urlencoded\r\nContent-Length: 9\r\n\r\n"
    "a=%zz&%=;",
    "POST /body HTTP/1.1\r\nHost: a\r\nContent-Type: \r\nContent-Length: 1\r\n\r\nx",
    "POST /body HTTP/1.1\r\nHost: a\r\nContent-Type: multipart/form-data; boundary=\r\nContent-Length: 4\r\n\r\n--\r\n",
    "POST /body HTTP/1.1\r\nHost: a\r\nTransfer-Encoding: chunked\r\n\r\nzz\r\n",
    "POST /body HTTP/1.1\r\nHost: a\r\nTransfer-Encoding: chunked\r\n\r\nffffffffffffffff\r\nx",
    "GET /anon HTTP/1.1\r\nHost: a\r\nCookie: c=\"\x7f; =; ;;\r\n\r\n",
    "GET /anon HTTP/1.1\r\nHost: a\r\nX-Forwarded-For: not-an-ip, ::::\r\nForwarded: for=\"[\r\n\r\n",
    "GET /anon HTTP/1.1\r\nHost: a\r\n" + "X-Long: " + "a" * 20000 + "\r\n\r\n",
    "GET /" + "a/" * 3000 + " HTTP/1.1\r\nHost: a\r\n\r\n",
    "GET /anon/../../etc/passwd HTTP/1.1\r\nHost: a\r\n\r\n", "GET //anon//%2f%2F HTTP/1.1\r\nHost: a\r\n\r\n",
    "CONNECT a:1 HTTP/1.1\r\nHost: a\r\n\r\n", "OPTIONS * HTTP/1.1\r\nHost: a\r\n\r\n",
    "PRI * HTTP/2.0\r\n\r\nSM\r\n\r\n", "\x16\x03\x01\x02\x00\x01\x00\x01\xfc\x03\x03",
    "GET /anon HTTP/1.1\r\nHost: a\r\nExpect: 100-continue\r\nContent-Length: 5\r\n\r\n",
    "GET /anon HTTP/1.1\r\nHost: \xff\xfe\r\n\r\n", "GET /anon\x00 HTTP/1.1\r\nHost: a\r\n\r\n",
    "GET /anon HTTP/1.1\nHost: a\n\n", "GET /anon HTTP/1.1\r\nHost: a\r\nUpgrade: h2c\r\nConnection: Upgrade\r\n\r\n",
]


def gen_raw(rng):
    reqs = []
    for _ in range(rng.choice([1, 2, 4])):
        r = rng.random()
        if r < 0.25:
            reqs.append(rng.choice(REQUESTS))
        elif r < 0.5:
            reqs.append(rng.choice(HOSTILE_REQUESTS))
        elif r < 0.75:
            base = rng.choice(REQUESTS)
            reqs.append(base[:rng.randrange(len(base) + 1)])
        else:
            b = list(rng.choice(REQUESTS + HOSTILE_REQUESTS))
            for _ in range(rng.choice([1, 2, 5])):
                if b:
                    b[rng.randrange(len(b))] = chr(rng.randrange(256))
            reqs.append("".join(b))
    return {"fam": "loaders", "op": "raw", "requests": reqs, "label": "raw"}


def raw_grid():
    cases = [{"fam": "loaders", "op": "raw", "requests": [r], "label": "raw"} for r in REQUESTS + HOSTILE_REQUESTS]
    for base in REQUESTS[2:5]:
        cases.append({"fam": "loaders", "op": "raw", "requests": [base[:k] for k in range(len(base) + 1)],
                      "label": "raw-cut"})
    return cases


if __name__ == "__main__" and "--regenerate-pool" in sys.argv:
    sys.path.insert(0, HERE)
    import tempfile
    import vlib
    tmp = tempfile.mkdtemp()
    exe, log = vlib.build_harness(tmp)
    if exe is None:
        sys.exit(log)
    out = vlib.run_cases([exe], [{"fam": "loaders", "op": "pool"}])[0]
    with open(os.path.join(HERE, "gen_loaders_pool.json"), "w") as fh:
        json.dump(out, fh, indent=0, sort_keys=True)
    print("pool regenerated:", len(out["keys"]), "keys,", len(out["certs"]), "certificates")
