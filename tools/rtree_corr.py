#!/usr/bin/env python3
"""Structural correspondence of the byte-level Lean model `RTree` (lean/HeimdallModel/Model/RTree.lean) with the real
`radixtree.Tree`: both sides execute the same operation sequences (family `rtree` = case format of family `trie`
plus `{"op":"dump"}`); after every batch the complete structure of the two trees is compared (paths, kinds,
priorities, order and index bytes of the static children, wildcard / catch-all children, value ids, wildcard keys,
backtracking flags), and every lookup result.

    check(R, exe, cases) -> list of (case, impl_result, model_result) that differ
    python3 tools/rtree_corr.py [N] [seed]   -> runs N random cases of tools/gen_trie.py, prints the disagreements
"""
import copy
import json
import os
import random
import sys
import tempfile
import time

sys.path.insert(0, os.path.dirname(os.path.abspath(__file__)))
import gen_trie  # noqa: E402
import vlib  # noqa: E402


def with_dumps(case):
    """the same case for family rtree, with a dump after every batch and at the end"""
    ops = []
    for op in case["ops"]:
        ops.append(copy.deepcopy(op))
        if op["op"] == "batch":
            ops.append({"op": "dump"})
    ops.append({"op": "dump"})
    return {"fam": "rtree", "ops": ops}


def extra_cases(rng, n):
    """cases stressing prefix splits / merges: many literals sharing prefixes, deletes in random order"""
    lits = ["a", "ab", "abc", "abd", "abcd", "abce", "b", "ba", "ab:c", "ab*d", "a*b", "\\:a", "\\:ab", "\\*b",
            "\\\\c", "\\\\cd", ":", "*", "a:", "a\\:b", "a\\", "\\", "\\a"]
    wilds = [":x", ":y", ":*", ":ab"]
    catch = ["*r", "**", "*x"]
    res = []
    for _ in range(n):
        exprs = []
        for _ in range(rng.choice([3, 5, 8, 12])):
            k = rng.choice([1, 1, 2, 2, 3])
            parts = []
            for i in range(k):
                r = rng.random()
                if r < 0.7:
                    parts.append(rng.choice(lits))
                elif r < 0.9 or i < k - 1:
                    parts.append(rng.choice(wilds))
                else:
                    parts.append(rng.choice(catch))
            e = "/" + "/".join(parts)
            r = rng.random()
            if r < 0.1:
                e += "/"
            elif r < 0.15:
                e = e[1:]
            elif r < 0.2:
                e = e.replace("/", "//", 1)
            exprs.append(e)
        ops = []
        live = {}
        nid = 1
        for _ in range(rng.randrange(4, 16)):
            r = rng.random()
            if r < 0.5 or not live:
                items = []
                for _ in range(rng.choice([1, 1, 2, 3])):
                    e = rng.choice(exprs)
                    items.append({"k": "add", "p": e, "id": nid, "src": rng.choice([0, 0, 0, 1]),
                                  "bt": rng.random() < 0.5, "pp": None})
                    live[nid] = e
                    nid += 1
                ops.append({"op": "batch", "items": items})
            elif r < 0.8:
                items = []
                for _ in range(rng.choice([1, 1, 2])):
                    vid = rng.choice(sorted(live))
                    e = live[vid] if rng.random() < 0.9 else rng.choice(exprs)
                    items.append({"k": "del", "p": e, "ids": [vid]})
                    if e == live[vid]:
                        del live[vid]
                    if not live:
                        break
                ops.append({"op": "batch", "items": items})
            else:
                e = rng.choice(exprs)
                ids = sorted(live)
                ops.append({"op": "find", "path": gen_trie.instantiate(rng, e),
                            "acc": sorted(rng.sample(ids, rng.randrange(0, len(ids) + 1)))})
        res.append({"fam": "trie", "ops": ops})
    return res


def abstract_dump(d):
    """what of a structural dump can be observed through Add / Delete / Find: the shape of the tree (paths of static
    nodes, kinds, children by index byte), value ids in order, wildcard keys, the backtracking flag of nodes that hold
    values. Not compared: priorities and the order static children are kept in (a lookup visits at most one static
    child per index byte), the placeholder path of wildcard nodes, the flag of nodes without values."""
    if not isinstance(d, dict) or "kind" not in d:
        return d
    kind = d.get("kind")
    return {
        "path": d.get("path") if kind == "static" else "",
        "kind": kind,
        "static": [[e[0], abstract_dump(e[1])] for e in d.get("static", [])],
        "wild": abstract_dump(d.get("wild")),
        "catch": abstract_dump(d.get("catch")),
        "values": d.get("values"),
        "keys": d.get("keys"),
        "bt": d.get("bt") if d.get("values") else None,
    }


def comparable(results, ops):
    """results of one case with dumps reduced to their observable part; (list, number of unobservable differences is
    counted by the caller)"""
    if not isinstance(results, list):
        return results
    return [abstract_dump(r) if isinstance(o, dict) and o.get("op") == "dump" else r for o, r in zip(ops, results)] + \
        list(results[len(ops):])


def check(R, exe, cases):
    """run the implementation harness `exe` and the Lean driver on `cases` (family trie or rtree cases; trie cases are
    converted and get dump ops); returns the differing cases as (case, impl, model)"""
    cs = [c if c.get("fam") == "rtree" else with_dumps(c) for c in cases]
    impl = vlib.run_cases([exe], cs)
    model = vlib.run_cases(vlib.driver_cmd(), cs)
    bad = []
    stats = {"wf_false": 0, "refine_bad": 0, "abs_bad": 0, "dumps": 0, "finds": 0, "batches_ok": 0,
             "dumps_unavailable": 0, "cases_differing_only_in_unobservable_structure": 0}
    for c, i, m in zip(cs, impl, model):
        st = m.get("stats", {}) if isinstance(m, dict) else {}
        for k in ("wf_false", "refine_bad", "abs_bad"):
            stats[k] += st.get(k, 0)
        mr = vlib.res_of(m)
        if isinstance(i, list) and isinstance(mr, list) and "nodump" in i:
            # the white-box dump helper does not compile against this tree: behaviour only
            stats["dumps_unavailable"] += i.count("nodump")
            mr = ["nodump" if x == "nodump" else y for x, y in zip(i, mr)] + mr[len(i):]
        ia, ma = comparable(i, c["ops"]), comparable(mr, c["ops"])
        if vlib.canon(ia) != vlib.canon(ma) or any(st.get(k, 0) for k in ("wf_false", "refine_bad", "abs_bad")):
            bad.append((c, i, m))
        elif vlib.canon(i) != vlib.canon(mr):
            stats["cases_differing_only_in_unobservable_structure"] += 1
        for o, r in zip(c["ops"], i if isinstance(i, list) else []):
            if o["op"] == "dump":
                stats["dumps"] += 1
            elif o["op"] == "find":
                stats["finds"] += 1
            elif r == "ok":
                stats["batches_ok"] += 1
    if R is not None:
        R.coverage.setdefault("rtree_corr", {}).update(stats)
    check.last_stats = stats
    return bad


def first_diff(i, m):
    m = vlib.res_of(m)
    if isinstance(i, list) and isinstance(m, list):
        for k, (a, b) in enumerate(zip(i, m)):
            if a != b:
                return k, a, b
    return None, i, m


def main():
    n = int(sys.argv[1]) if len(sys.argv) > 1 else 20000
    seed = int(sys.argv[2]) if len(sys.argv) > 2 else int(os.environ.get("VERIF_SEED", "1"))
    rng = random.Random(seed)
    t0 = time.time()
    tmp = tempfile.mkdtemp(prefix="verif-rtree-")
    exe, log = vlib.build_harness(tmp)
    if exe is None:
        print("harness does not build:\n" + log[-3000:])
        sys.exit(2)
    if not os.path.exists(vlib.driver_cmd()[0]):
        print("driver not built: cd lean && python3 ../tools/gen_root.py && lake build driver")
        sys.exit(2)
    t1 = time.time()
    nx = n // 4
    cases = [gen_trie.gen_trie_case(rng) for _ in range(n - nx)] + extra_cases(rng, nx)
    bad = check(None, exe, cases)
    t2 = time.time()
    print(json.dumps({"cases": len(cases), "disagreements": len(bad), **check.last_stats,
                      "build_s": round(t1 - t0, 1), "run_s": round(t2 - t1, 1), "seed": seed}))
    for c, i, m in bad[:3]:
        k, a, b = first_diff(i, m)
        print("DIFF case:", json.dumps(c))
        print("  op", k, json.dumps(c["ops"][k]) if k is not None else None)
        print("  impl :", json.dumps(a)[:1500])
        print("  model:", json.dumps(b)[:1500])
        print("  stats:", json.dumps(m.get("stats") if isinstance(m, dict) else None))
    sys.exit(1 if bad else 0)


if __name__ == "__main__":
    main()
