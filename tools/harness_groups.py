#!/usr/bin/env python3
"""Which harness files a check needs. The harness is one binary for all families; when it does not build against the
tree under test because of a file that belongs to ANOTHER family (a white-box inject file naming a private field that
was renamed, say), a check falls back to the smallest set of harness files its own families need.

    files_for(pid) -> (main files, inject files [(dir, file)])
    python3 tools/harness_groups.py            prints the groups
    python3 tools/harness_groups.py --verify   builds every group against /repo
"""
import os
import re
import sys

sys.path.insert(0, os.path.dirname(os.path.abspath(__file__)))

ROOT = os.path.dirname(os.path.dirname(os.path.abspath(__file__)))
MAIN = os.path.join(ROOT, "harness", "main")
INJ = os.path.join(ROOT, "harness", "inject")
ALWAYS = ["main.go", "netutil.go"]
GO_KEYWORDS = set("break default func interface select case defer go map struct chan else goto package switch const "
                  "fallthrough if range type continue for import return var".split())


def _decls(code):
    names = set(re.findall(r"^func (\w+)\(", code, re.M))
    names |= set(re.findall(r"^type (\w+)", code, re.M))
    names |= set(re.findall(r"^(?:var|const) (\w+)", code, re.M))
    for block in re.findall(r"^(?:var|const|type) \((.*?)^\)", code, re.M | re.S):
        names |= set(re.findall(r"^\t(\w+)", block, re.M))
    return names - GO_KEYWORDS - {"_", "init", "main"}


def _idents(code):
    code = re.sub(r'"(?:\\.|[^"\\])*"|`[^`]*`', '""', code)
    code = re.sub(r"//[^\n]*", "", code)
    return set(re.findall(r"\b[A-Za-z_]\w*\b", code))


def _closure(files, roots):
    """files: {name: code}; roots: names -> all files reachable through used top-level identifiers"""
    decl = {f: _decls(c) for f, c in files.items()}
    used = {f: _idents(c) for f, c in files.items()}
    owner = {}
    for f, ds in decl.items():
        for d in ds:
            owner.setdefault(d, set()).add(f)
    todo, seen = list(roots), set(roots)
    while todo:
        f = todo.pop()
        for ident in used[f] - decl[f]:
            for g in owner.get(ident, ()):
                if g not in seen:
                    seen.add(g)
                    todo.append(g)
    return seen


def families_of(pid):
    """families named by the property's check module and the generator modules it imports"""
    tools = os.path.join(ROOT, "tools")
    seen, todo, fams = set(), [os.path.join(tools, "props", pid.lower() + ".py")], set()
    while todo:
        p = todo.pop()
        if p in seen or not os.path.exists(p):
            continue
        seen.add(p)
        code = open(p).read()
        fams |= set(re.findall(r'"fam":\s*"(\w+)"', code)) | set(re.findall(r"fam\s*=\s*\"(\w+)\"", code))
        for m in re.findall(r"^(?:import|from) ([\w, ]+)", code, re.M):
            for mod in re.split(r"[, ]+", m):
                if mod.startswith("gen_") or mod in ("repo_common", "rtree_corr"):
                    todo.append(os.path.join(tools, mod + ".py"))
    return fams


def files_for(pid, optional=True):
    """optional=False: without the files marked `@optional` (white-box extras a family can run without)"""
    main = {f: open(os.path.join(MAIN, f)).read() for f in sorted(os.listdir(MAIN)) if f.endswith(".go")}
    opt = {f: m.group(1) for f, c in main.items() for m in [re.search(r"// @optional for (\S+\.go)", c)] if m}
    if not optional:
        main = {f: c for f, c in main.items() if f not in opt}
    fams = families_of(pid)
    roots = {f for f, c in main.items() if any(re.search(r'families\["%s"\]' % re.escape(x), c) for x in fams)}
    roots |= {f for f in ALWAYS if f in main}
    need = _closure(main, roots)
    if optional:
        # an optional file registers itself with a file of the group (it is not referenced by it)
        for f, host in opt.items():
            if host in need:
                need |= _closure(main, {f})
    verif = set()
    for f in need:
        verif |= {x for x in _idents(main[f]) if x.startswith("Verif")}
    inject = []
    for d in sorted(os.listdir(INJ)):
        files = {f: open(os.path.join(INJ, d, f)).read() for f in sorted(os.listdir(os.path.join(INJ, d))) if f.endswith(".go")}
        roots_d = {f for f, c in files.items() if set(re.findall(r"\b(Verif\w+)\b", "\n".join(
            re.findall(r"^(?:func (?:\([^)]*\) )?|type |var |const )(\w+)", c, re.M)))) & verif}
        for f in sorted(_closure(files, roots_d)) if roots_d else []:
            inject.append((d, f))
    return sorted(need), inject


def main():
    import vlib
    import tempfile
    ids = ["C%02d" % i for i in range(1, 21)]
    for pid in ids:
        m, inj = files_for(pid)
        print(pid, sorted(families_of(pid)), len(m), "main files,", len(inj), "inject files")
        if "--verify" in sys.argv:
            t = tempfile.mkdtemp(prefix="verif-grp-")
            exe, log = vlib.build_harness(t, only=(m, inj))
            print("    builds" if exe else "    DOES NOT BUILD: " + log[-600:])
            import shutil
            shutil.rmtree(t, ignore_errors=True)


if __name__ == "__main__":
    main()
