#!/usr/bin/env python3
"""Entry point of every registered check:  python3 tools/check.py <PROPERTY> [--tier quick|thorough]"""
import argparse
import importlib
import os
import sys
import traceback

sys.path.insert(0, os.path.dirname(os.path.abspath(__file__)))
import vlib  # noqa: E402


def main():
    ap = argparse.ArgumentParser()
    ap.add_argument("pid")
    ap.add_argument("--tier", default=os.environ.get("VERIF_TIER", "quick"), choices=["quick", "thorough"])
    ap.add_argument("--replay", default=None)
    a = ap.parse_args()
    seed = int(os.environ.get("VERIF_SEED", "1"))
    mod = importlib.import_module("props." + a.pid.lower())
    R = vlib.Run(a.pid, a.tier, seed)
    try:
        if a.replay:
            mod.replay(R, a.replay)
        else:
            mod.run(R)
    except Exception:
        tb = traceback.format_exc()
        print(tb)
        R.violation("check crashed: " + tb.strip().splitlines()[-1], {"traceback": tb}, no_input=True)
        R.coverage.setdefault("obligations", 1)
        R.coverage.setdefault("discharged", 0)
        R.coverage.setdefault("checker_cmd", "lake build")
        R.coverage.setdefault("trusted_base", [])
    sys.exit(R.finish())


if __name__ == "__main__":
    main()
