"""Generators for rule-set histories and lookups (family repo): C03, C06, C08."""
import gen_trie

METHODS = ["GET", "POST", "PUT", "DELETE", "HEAD", "PATCH"]
HOSTS = ["a.example.com", "b.example.com", "example.org", "a.b.example.com", "localhost", "abc", "a.example.com:8080",
         "A.Example.Com", "abexample.com"]
SEG_VALUES = ["a", "b", "ab", "abc", "abd", "v1", "v2", "x", "zz", "a.b", "a-b", "a~b", "A_1", ":a", "*b",
              "%5Bid%5D", "a%20b", "%41", "a%2Fb", "a%2fb", "%2F", "a%25b", "a+b", "a@b",
              "%C3%A9", "%E2%82%AC", "%ff", "%80", "Admin-1", "v1.0", "jkz", "Zz9"]
# placeholders a former implementation of unescape used; octets a path may not contain (the request context
# percent-encodes them, an encoded slash next to them has to stay what it is); raw UTF-8
RAW_OCTET_VALUES = ["$$$escaped-slash$$$", "$$$escaped-lc-slash$$$", "a^b", "a|b", "{a}", "a%2Fb^", "%2f|", "\"a\"", "<a>",
                    "`a", "a%2Fb{", "\u00e9", "caf\u00e9%2fb", "\u20ac"]
# static segments covering every class of unreserved characters (letters of both cases incl. the hex letters, digits,
# "-", ".", "_", "~"): re-encoding any of them must not change the rule that answers
RICH_LITS = ["Admin-1", "v1.0", "a~b", "A_1", "jkz", "Zz9", "x-y.z_w~q", "0", "k.m", "fade", "CAFE", "b-e"]
HOST_GLOBS = ["a*", "b*", "e*", "*.example.com", "**", "a.*.com", "*", "?.example.com", "**.com", "a.**", "local*"]
HOST_REGEXES = ["^a\\.", "^a.e", "example\\.org$", "^abc$", "b\\.example", "^localhost$", "com$", "^A\\.", ":8080$"]
UNRESERVED = set("abcdefghijklmnopqrstuvwxyzABCDEFGHIJKLMNOPQRSTUVWXYZ0123456789-._~")


def reencode(rng, path, p=0.25):
    """percent-encode a random subset of the unreserved octets, random hex case; existing escapes untouched"""
    out = []
    i = 0
    while i < len(path):
        c = path[i]
        if c == "%" and i + 2 < len(path) + 0:
            out.append(path[i:i + 3])
            i += 3
            continue
        if c in UNRESERVED and rng.random() < p:
            h = "%02X" % ord(c)
            if rng.random() < 0.5:
                h = h.lower()
            out.append("%" + h)
        else:
            out.append(c)
        i += 1
    return "".join(out)


def gen_tm(rng, values, sep):
    v = rng.choice(values)
    r = rng.random()
    if r < 0.45:
        return {"type": "exact", "value": v}
    lit = "".join(ch for ch in v if ch.isalnum())[: rng.choice([1, 2, 3])] or "a"
    if r < 0.75:
        return {"type": "glob", "value": rng.choice([lit + "*", lit + "*", "*" + lit, lit + "**", lit + "?", "**", "*",
                                                     lit[:1] + "*" + lit[-1:]])}
    return {"type": "regex", "value": rng.choice(["^" + lit, "^" + lit, lit + "$", "^" + lit + "$", lit, "^" + lit[:1] + ".",
                                                  "^.$", "^..$"])}


UP_HOSTS = ["up.local:8080", "10.0.0.7", "upstream.example.com", "[::1]:9000"]
ADD_PREFIXES = ["/x", "/v2/app", "/x", "/svc-1", "/~u", "/a%2Fb", "/%7Euser", "/p q", "/a!", "/caf\u00e9", "/100%25", "x"]
STRIP_QUERY = [["a"], ["x"], ["a", "q"], ["b c"], ["zz"]]


def literal_prefixes(routes):
    """leading literal segments of the path expressions of a rule: what `strip_path_prefix` is meant for"""
    res = []
    for rt in routes:
        segs = rt["path"].split("/")[1:]
        lit = []
        for sg in segs:
            if not sg or sg[0] in ":*\\" or "%" in sg:
                break
            lit.append(sg)
            res.append("/" + "/".join(lit))
    return res


def gen_forward_to(rng, routes):
    """`forward_to` of a rule: host and every shape of `rewrite` (none / scheme / strip_path_prefix / add_path_prefix /
    both / query parameters to remove); the prefix to strip is mostly a literal prefix of one of the rule's
    expressions (sometimes with a trailing slash, cut inside a segment, spelled with an escape, or foreign)"""
    fw = {"host": rng.choice(UP_HOSTS)}
    shape = rng.choice(["none", "scheme", "strip", "strip", "strip", "add", "both", "both", "query", "all"])
    if shape == "none":
        return fw
    rw = {}
    if shape in ("scheme", "all"):
        rw["scheme"] = rng.choice(["https", "http", "ws"])
    if shape in ("strip", "both", "all"):
        cand = literal_prefixes(routes)
        r = rng.random()
        if cand and r < 0.8:
            rw["strip"] = rng.choice(cand)
        elif cand and r < 0.86:
            rw["strip"] = rng.choice(cand) + "/"
        elif cand and r < 0.92:
            c = rng.choice(cand)
            rw["strip"] = c[:max(1, len(c) - 1)]
        elif cand and r < 0.96:
            c = rng.choice(cand)
            rw["strip"] = "/" + "%%%02X" % ord(c[1]) + c[2:]
        else:
            rw["strip"] = rng.choice(["/zz", "/", "/a"])
    if shape in ("add", "both", "all"):
        rw["add"] = rng.choice(ADD_PREFIXES)
    if shape in ("query", "all"):
        rw["strip_query"] = rng.choice(STRIP_QUERY)
    fw["rewrite"] = rw
    return fw


VERSION = [0]   # every generated rule object is a version of its own (observable: which version answers a request)


def gen_rule(rng, rid, exprs, rich=False, fwd=0.0):
    """rich: also values outside ASCII (UTF-8 in the JSON case; only for harnesses reading strings as UTF-8);
    fwd: share of rules with a backend (`forward_to`); 0 draws nothing from the generator"""
    routes = []
    for _ in range(rng.choice([1, 1, 1, 2, 2, 3])):
        e = rng.choice(exprs)
        pp = []
        names = [n for n in gen_trie.wild_names(e) if n != "*"]
        if names and rng.random() < 0.45:
            for n in rng.sample(names, rng.choice([1, 1, min(2, len(names))])):
                pp.append(dict(gen_tm(rng, ["a", "b", "ab", "abc", "v1", "v2", "[id]", "a b", "a/b", "a%2Fb", "A", "ab/c", "Admin-1", "v1.0"] +
                                       (["\u00e9", "\u20ac"] if rich else []), "/"),
                               name=n))
        routes.append({"path": e, "pp": pp})
    methods = []
    r = rng.random()
    if r < 0.35:
        methods = []
    elif r < 0.58:
        methods = rng.sample(METHODS, rng.choice([1, 2, 3]))
    elif r < 0.8:
        methods = ["ALL"] + ["!" + m for m in rng.sample(METHODS, rng.choice([0, 1, 2]))]
    elif r < 0.93:
        methods = rng.sample(METHODS, 2) + ["!" + rng.choice(METHODS)] + rng.choice([[], ["ALL"], [METHODS[0]]])
    else:
        # lists whose effective content is empty, duplicates, an empty entry
        m = rng.choice(METHODS)
        methods = rng.choice([["!" + m], [m, "!" + m], [m, m], ["ALL", "ALL"], [m, ""], ["!" + m, "!" + m]])
    hosts = []
    if rng.random() < 0.4:
        for _ in range(rng.choice([1, 2, 2, 3])):
            r = rng.random()
            h = rng.choice(HOSTS)
            if r < 0.5:
                hosts.append({"type": "exact", "value": h})
            elif r < 0.78:
                hosts.append({"type": "glob", "value": rng.choice(HOST_GLOBS)})
            else:
                hosts.append({"type": "regex", "value": rng.choice(HOST_REGEXES)})
    VERSION[0] += 1
    rule = {"id": rid, "bt": rng.choice([True, False, None]), "esh": rng.choice(["", "", "off", "on", "no_decode"]),
            "scheme": rng.choice(["", "", "", "http", "https"]), "methods": methods, "hosts": hosts, "routes": routes,
            "ver": VERSION[0]}
    if fwd and rng.random() < fwd:
        rule["forward_to"] = gen_forward_to(rng, routes)
    return rule


def gen_target(rng, exprs, raw=False, extra=()):
    """raw: also octets outside what a path may contain (only for harnesses and models of the request context that
    follow extractURL there); extra: further segment values"""
    values = SEG_VALUES + (RAW_OCTET_VALUES if raw else []) + list(extra)
    e = rng.choice(exprs)
    segs = e.split("/")
    out = []
    for s in segs:
        if s.startswith(":"):
            out.append(rng.choice(values + [""]))
        elif s.startswith("*"):
            out.append("/".join(rng.choice(values) for _ in range(rng.choice([0, 1, 1, 2, 3]))))
        elif s.startswith("\\") and len(s) > 1 and s[1] in ":*\\":
            out.append(s[1:])
        else:
            out.append(s)
    p = "/".join(out)
    r = rng.random()
    if r < 0.1:
        p += "/"
    elif r < 0.2 and out:
        i = rng.randrange(len(out))
        out[i] = rng.choice(values)
        p = "/".join(out)
    elif r < 0.25:
        p += "/" + rng.choice(values)
    if not p.startswith("/"):
        p = "/" + p
    p = p.replace("\\", "")
    if rng.random() < 0.5:
        p = reencode(rng, p, rng.choice([0.1, 0.3, 0.6]))
    if rng.random() < 0.15:
        p += "?" + rng.choice(["a=b", "x=%2F", "q"] + (["a=1&b=2&%61=3", "b+c=1&x", "q=%zz&a", "&&a"] if extra else []))
    return p


def rich_exprs(rng):
    """literal expressions over the whole unreserved alphabet next to wildcard expressions matching the same paths"""
    k = rng.choice([1, 2, 2, 3])
    base = [rng.choice(RICH_LITS) for _ in range(k)]
    exprs = ["/" + "/".join(base)]
    for _ in range(rng.choice([2, 3, 4])):
        parts = [b if rng.random() < 0.55 else rng.choice(gen_trie.WILDS) for b in base]
        if rng.random() < 0.3:
            parts = parts[: rng.randrange(0, k)] + [rng.choice(gen_trie.CATCH)]
        exprs.append("/" + "/".join(parts))
    exprs.append(rng.choice(["/**", "/*rest", "/:x"]))
    return exprs


def http_exprs(rng):
    """expressions whose literal segments can be sent in a request line"""
    r = rng.random()
    if r < 0.25:
        exprs = rich_exprs(rng)
    elif r < 0.7:
        exprs, base = gen_trie.overlap_exprs(rng)
        exprs.append("/" + "/".join(base))
    else:
        exprs = [gen_trie.gen_expr(rng, weird=0.05) for _ in range(rng.choice([2, 3, 4, 6]))]
    exprs = [e for e in exprs if e.startswith("/")] or ["/a"]
    return exprs


def rename_case(rng):
    """a wildcard is renamed by an update / re-creation while another rule set owns an expression below it"""
    lit = rng.choice(["api", "a", "ab"])
    n1, n2, n3 = rng.sample(["id", "user", "name", "x", "y"], 3)
    tail = rng.choice(["details", "x", ":z", "*rest"])
    def r(i, p):
        return {"id": i, "bt": rng.choice([True, False, None]), "esh": "", "scheme": "", "methods": [], "hosts": [],
                "routes": [{"path": p, "pp": []}]}
    ops = [{"op": "add", "src": "s1", "rules": [r("A", f"/{lit}/:{n1}")]},
           {"op": "add", "src": "s2", "rules": [r("B", f"/{lit}/:{n1}/{tail}")]}]
    if rng.random() < 0.5:
        ops.append({"op": "upd", "src": "s1", "rules": [r("A", f"/{lit}/:{n2}")]})
    else:
        ops += [{"op": "del", "src": "s1"}, {"op": "add", "src": "s3", "rules": [r("C", f"/{lit}/:{n3}")]}]
    for t in (f"/{lit}/7", f"/{lit}/7/details", f"/{lit}/7/x/y"):
        ops.append({"op": "find", "method": "GET", "host": "a.example.com", "target": t})
    return {"fam": "repo", "envoy": True, "dr": rng.random() < 0.5, "dr_bt": False, "ops": ops}


def reorder_case(rng):
    """an update that only permutes the rules of a rule set whose rules share a path expression: the first rule whose
    conditions hold answers, the order of the current version decides"""
    e = rng.choice(["/a/:x", "/a/b", "/:x", "/a/*r"])
    less = rng.choice(["/**", "/:y/:z", "/*all"])

    def r(i, methods, bt):
        VERSION[0] += 1
        return {"id": i, "bt": bt, "esh": "", "scheme": "", "methods": methods, "hosts": [], "routes": [{"path": e, "pp": []}],
                "ver": VERSION[0]}
    rules = [r("A", rng.choice([["GET"], ["GET", "POST"]]), rng.choice([True, False])), r("B", [], rng.choice([True, False]))]
    if rng.random() < 0.5:
        rules.append(r("C", ["POST"], rng.choice([True, False])))
    other = r("Z", [], None)
    other["routes"] = [{"path": less, "pp": []}]
    perm = rules[:]
    while perm == rules:
        rng.shuffle(perm)
    t = e.replace(":x", "7").replace("*r", "7/8")
    finds = [{"op": "find", "method": m, "host": "a.example.com", "target": t} for m in ("GET", "POST", "DELETE")]
    ops = [{"op": "add", "src": "s1", "rules": rules}, {"op": "add", "src": "s2", "rules": [other]}] + finds + \
          [{"op": "upd", "src": "s1", "rules": perm}] + finds
    return {"fam": "repo", "envoy": True, "dr": rng.random() < 0.5, "dr_bt": False, "ops": ops}


def gen_repo_case(rng, max_ops=12, fwd=0.0):
    x = rng.random()
    if x < 0.04:
        return rename_case(rng)
    if x < 0.08:
        return reorder_case(rng)
    base = http_exprs(rng)
    srcs = ["s1", "s2", "s3"]
    # half of the cases: most expressions of a source live below its own subtree, so that several sources are loaded
    # side by side (updates and deletions next to foreign subtrees); the other half: one shared pool, where the
    # one-source-per-expression constraint rejects many changes
    if rng.random() < 0.5:
        pool = {x: ["/" + x + e if e.startswith("/") else "/" + x + "/" + e for e in base] +
                rng.sample(base, min(len(base), rng.choice([0, 1, 1]))) for x in srcs}
    else:
        pool = {x: base for x in srcs}
    exprs = sorted({e for p in pool.values() for e in p})
    ops = []
    live = {}  # src -> rules
    nid = [0]

    def new_rules(src, old=None):
        rules = []
        if old and rng.random() < 0.8:
            for r in old:
                x = rng.random()
                if x < 0.5:
                    rules.append(r)                      # unchanged
                elif x < 0.75:
                    r2 = gen_rule(rng, r["id"], pool[src], rich=True, fwd=fwd)   # changed, same id
                    rules.append(r2)
                # else removed
            if rng.random() < 0.4:
                rng.shuffle(rules)
        for _ in range(rng.choice([0, 1, 1, 2, 3]) if rules else rng.choice([1, 2, 3, 4])):
            nid[0] += 1
            rid = "r%d" % nid[0]
            if rules and rng.random() < 0.05:
                rid = rules[0]["id"]     # duplicate id inside one rule set
            rules.insert(rng.randrange(len(rules) + 1), gen_rule(rng, rid, pool[src], rich=True, fwd=fwd))
        return rules

    def find_op():
        op = {"op": "find", "method": rng.choice(METHODS), "host": rng.choice(HOSTS), "target": gen_target(rng, exprs, raw=True)}
        if rng.random() < 0.35:
            op["scheme"] = rng.choice(["https", "https", "http", "HTTPS", "ws"])
        return op

    for _ in range(rng.randrange(3, max_ops)):
        r = rng.random()
        change = True
        if r < 0.25 or not live:
            src = rng.choice(srcs)
            rules = new_rules(src)
            ops.append({"op": "add", "src": src, "rules": rules})
            live.setdefault(src, [])
            live[src] = live[src] + rules   # optimistic bookkeeping, only used to derive updates
        elif r < 0.45:
            src = rng.choice(sorted(live))
            rules = new_rules(src, live[src])
            ops.append({"op": "upd", "src": src, "rules": rules})
            live[src] = rules
        elif r < 0.55:
            src = rng.choice(sorted(live) + srcs[:1])
            ops.append({"op": "del", "src": src})
            live.pop(src, None)
        else:
            ops.append(find_op())
            change = False
        if change and rng.random() < 0.7:
            # matching is looked at after (nearly) every prefix of the history
            for _ in range(rng.choice([1, 2])):
                ops.append(find_op())
    for _ in range(4):
        ops.append(find_op())
    # envoy: every lookup is also made through the request context of the Envoy ext_authz service
    return {"fam": "repo", "envoy": True, "dr": rng.random() < 0.5, "dr_bt": rng.random() < 0.5, "ops": ops}
