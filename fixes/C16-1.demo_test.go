// Demonstration for fixes/C16-1.patch (package finalizers, white-box): fails on a32e1b8, passes with the patch.
// cp fixes/C16-1.demo_test.go <tree>/internal/rules/mechanisms/finalizers/zz_c16_1_demo_test.go &&
//   go test -count=1 -run TestProbeReloadBetweenHashAndSign ./internal/rules/mechanisms/finalizers/
// The key store is reloaded when the finalizer asks for the pipeline outputs the first time, i.e. after
// calculateCacheKey has read the signer hash and before Sign reads the signer.

package finalizers

import (
	"context"
	"crypto/ecdsa"
	"crypto/elliptic"
	"crypto/rand"
	"os"
	"path/filepath"
	"strings"
	"testing"

	"github.com/go-jose/go-jose/v4"
	"github.com/go-jose/go-jose/v4/jwt"
	"github.com/rs/zerolog"
	"github.com/stretchr/testify/mock"
	"github.com/stretchr/testify/require"

	"github.com/dadrus/heimdall/internal/cache"
	"github.com/dadrus/heimdall/internal/cache/memory"
	"github.com/dadrus/heimdall/internal/heimdall"
	"github.com/dadrus/heimdall/internal/keyholder"
	keyholdermocks "github.com/dadrus/heimdall/internal/keyholder/mocks"
	certmocks "github.com/dadrus/heimdall/internal/otel/metrics/certificate/mocks"
	"github.com/dadrus/heimdall/internal/rules/mechanisms/subject"
	watchermocks "github.com/dadrus/heimdall/internal/watcher/mocks"
	"github.com/dadrus/heimdall/internal/x/pkix/pemx"
)

type probeCtx struct {
	app     context.Context
	outputs map[string]any
	calls   int
	hook    func()
	header  string
}

func (c *probeCtx) Request() *heimdall.Request          { return nil }
func (c *probeCtx) AddHeaderForUpstream(_, v string)    { c.header = v }
func (c *probeCtx) AddCookieForUpstream(string, string) {}
func (c *probeCtx) AppContext() context.Context         { return c.app }
func (c *probeCtx) SetPipelineError(error)              {}
func (c *probeCtx) Outputs() map[string]any {
	c.calls++
	if c.calls == 1 && c.hook != nil {
		c.hook()
	}

	return c.outputs
}

func TestProbeReloadBetweenHashAndSign(t *testing.T) {
	mk := func(kid string) []byte {
		k, err := ecdsa.GenerateKey(elliptic.P256(), rand.Reader)
		require.NoError(t, err)
		b, err := pemx.BuildPEM(pemx.WithECDSAPrivateKey(k, pemx.WithHeader("X-Key-ID", kid)))
		require.NoError(t, err)

		return b
	}
	pemA, pemB := mk("a"), mk("b")
	pemFile := filepath.Join(t.TempDir(), "keystore.pem")
	require.NoError(t, os.WriteFile(pemFile, pemA, 0o600))

	wm := watchermocks.NewWatcherMock(t)
	wm.EXPECT().Add(pemFile, mock.Anything).Return(nil)

	var holder keyholder.KeyHolder

	khr := keyholdermocks.NewRegistryMock(t)
	khr.EXPECT().AddKeyHolder(mock.Anything).Run(func(kh keyholder.KeyHolder) { holder = kh })

	co := certmocks.NewObserverMock(t)
	co.EXPECT().Add(mock.Anything)

	cctx := NewCreationContextMock(t)
	cctx.EXPECT().Watcher().Return(wm)
	cctx.EXPECT().KeyHolderRegistry().Return(khr)
	cctx.EXPECT().CertificateObserver().Return(co)

	fin, err := CreatePrototype(cctx, "jwt", FinalizerJwt, map[string]any{
		"signer": map[string]any{"key_store": map[string]any{"path": pemFile}}, "ttl": "10m",
	})
	require.NoError(t, err)

	signer := fin.(*jwtFinalizer).signer
	cch, err := memory.NewCache(nil, nil, nil)
	require.NoError(t, err)

	app := cache.WithContext(context.Background(), cch)
	sub := &subject.Subject{ID: "alice", Attributes: map[string]any{}}

	// request 1: the key store is rotated to B while the request is between calculateCacheKey and Sign
	c1 := &probeCtx{app: app, outputs: map[string]any{}, hook: func() {
		require.NoError(t, os.WriteFile(pemFile, pemB, 0o600))
		signer.OnChanged(zerolog.Nop())
	}}
	require.NoError(t, fin.Execute(c1, sub))

	// the rotation is rolled back
	require.NoError(t, os.WriteFile(pemFile, pemA, 0o600))
	signer.OnChanged(zerolog.Nop())

	// request 2
	c2 := &probeCtx{app: app, outputs: map[string]any{}}
	require.NoError(t, fin.Execute(c2, sub))

	raw := strings.TrimPrefix(c2.header, "Bearer ")
	tok, err := jwt.ParseSigned(raw, []jose.SignatureAlgorithm{jose.ES256})
	require.NoError(t, err)

	t.Logf("active key id now: %s, token names key id: %s, same token as request 1: %v",
		holder.Keys()[0].KeyID, tok.Headers[0].KeyID, c1.header == c2.header)

	var claims jwt.Claims
	err = tok.Claims(jose.JSONWebKeySet{Keys: holder.Keys()}, &claims)
	t.Logf("verification against the published set: %v", err)
	require.NoError(t, err)
}
