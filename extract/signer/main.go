// Command signer reads the synchronisation protocol of jwtSigner off the current heimdall source and prints it as
// a Lean module (HeimdallModel/Gen/Signer.lean): for every method of the type the ordered events lock / unlock /
// deferred unlock of its mutex, reads and writes of its fields, control structure and returns. A call of another
// method of the signer is inlined at the call site, so that a method split into helpers shows the same events as
// before. Everything else C16 needs to know about the code (claim set, headers, key selection, algorithm per key
// size, public JWKs) is observed from the running code by the correspondence check, not read from the source.
//
// Only go/ast, go/parser and go/token are used. It fails closed: a shape it does not understand aborts the
// extraction with exit code 3.
package main

import (
	"flag"
	"fmt"
	"go/ast"
	"go/parser"
	"go/token"
	"os"
	"path/filepath"
	"sort"
	"strings"
)

var (
	fset = token.NewFileSet()
	srcs = map[string][]byte{}
)

func fail(n ast.Node, format string, args ...any) {
	pos := "?"
	if n != nil {
		pos = fset.Position(n.Pos()).String()
	}

	fmt.Fprintf(os.Stderr, "signer: %s: %s\n", pos, fmt.Sprintf(format, args...))
	os.Exit(3)
}

// src returns the source text of a node with white space normalised
func src(n ast.Node) string {
	if n == nil {
		return ""
	}

	p, e := fset.Position(n.Pos()), fset.Position(n.End())
	raw := string(srcs[p.Filename][p.Offset:e.Offset])

	return strings.Join(strings.Fields(raw), " ")
}

func parse(path string) *ast.File {
	data, err := os.ReadFile(path)
	if err != nil {
		fail(nil, "%v", err)
	}

	srcs[path] = data

	f, err := parser.ParseFile(fset, path, data, 0)
	if err != nil {
		fail(nil, "%v", err)
	}

	return f
}

// ---------------------------------------------------------------------------------------------------------------
// synchronisation events

type walker struct {
	recv    string
	mutexes map[string]bool
	fields  map[string]bool
	methods map[string]*ast.FuncDecl
	events  []string
	closure int
	stack   []string // methods being inlined
}

func (w *walker) emit(format string, args ...any) {
	ev := fmt.Sprintf(format, args...)
	if n := len(w.events); n > 0 && strings.HasPrefix(ev, "read ") && w.events[n-1] == ev {
		return
	}

	w.events = append(w.events, ev)
}

// chain: r.a.b -> [a b] when rooted at the receiver
func (w *walker) chain(x ast.Expr) ([]string, bool) {
	var parts []string

	for {
		switch v := x.(type) {
		case *ast.SelectorExpr:
			parts = append([]string{v.Sel.Name}, parts...)
			x = v.X
		case *ast.ParenExpr:
			x = v.X
		case *ast.Ident:
			if v.Name == w.recv {
				return parts, true
			}

			return nil, false
		default:
			return nil, false
		}
	}
}

func (w *walker) expr(x ast.Expr) {
	if x == nil {
		return
	}

	switch v := x.(type) {
	case *ast.CallExpr:
		if parts, ok := w.chain(v.Fun); ok {
			switch {
			case len(parts) == 2 && w.mutexes[parts[0]]:
				if len(v.Args) != 0 {
					fail(v, "mutex call with arguments")
				}

				w.emit("%s %s", strings.ToLower(parts[1]), parts[0])

				return
			case len(parts) == 1 && w.methods[parts[0]] != nil:
				for _, a := range v.Args {
					w.expr(a)
				}

				w.inline(v, parts[0])

				return
			case len(parts) >= 1 && w.mutexes[parts[0]]:
				fail(v, "unsupported use of the mutex")
			}
		}

		w.expr(v.Fun)

		for _, a := range v.Args {
			w.expr(a)
		}
	case *ast.SelectorExpr:
		if parts, ok := w.chain(v); ok && len(parts) >= 1 {
			if w.mutexes[parts[0]] {
				fail(v, "mutex used outside a lock call")
			}

			if w.fields[parts[0]] {
				w.emit("read %s", parts[0])

				return
			}

			if w.methods[parts[0]] != nil {
				fail(v, "method value of the receiver")
			}

			fail(v, "unknown member %s of the receiver", parts[0])
		}

		w.expr(v.X)
	case *ast.Ident:
		if v.Name == w.recv {
			w.emit("escape receiver")
		}
	case *ast.FuncLit:
		saved := w.recv

		for _, p := range v.Type.Params.List {
			for _, n := range p.Names {
				if n.Name == w.recv {
					w.recv = "\x00shadowed"
				}
			}
		}

		w.closure++
		w.block(v.Body.List)
		w.closure--
		w.recv = saved
	case *ast.BinaryExpr:
		w.expr(v.X)
		w.expr(v.Y)
	case *ast.UnaryExpr:
		if v.Op == token.AND {
			if parts, ok := w.chain(v.X); ok && len(parts) >= 1 {
				w.emit("addr %s", parts[0])

				return
			}
		}

		w.expr(v.X)
	case *ast.ParenExpr:
		w.expr(v.X)
	case *ast.IndexExpr:
		w.expr(v.X)
		w.expr(v.Index)
	case *ast.IndexListExpr:
		w.expr(v.X)
	case *ast.SliceExpr:
		w.expr(v.X)
		w.expr(v.Low)
		w.expr(v.High)
		w.expr(v.Max)
	case *ast.StarExpr:
		w.expr(v.X)
	case *ast.CompositeLit:
		for _, el := range v.Elts {
			w.expr(el)
		}
	case *ast.KeyValueExpr:
		w.expr(v.Value)
	case *ast.TypeAssertExpr:
		w.expr(v.X)
	case *ast.BasicLit, *ast.ArrayType, *ast.MapType, *ast.FuncType, *ast.StructType, *ast.InterfaceType,
		*ast.ChanType:
	default:
		fail(x, "unsupported expression %T", x)
	}
}

func (w *walker) block(stmts []ast.Stmt) {
	for _, s := range stmts {
		w.stmt(s)
	}
}

func (w *walker) stmt(s ast.Stmt) {
	switch v := s.(type) {
	case *ast.ExprStmt:
		w.expr(v.X)
	case *ast.DeferStmt:
		if parts, ok := w.chain(v.Call.Fun); ok && len(parts) == 2 && w.mutexes[parts[0]] && w.closure == 0 {
			w.emit("defer %s %s", strings.ToLower(parts[1]), parts[0])

			return
		}

		fail(v, "unsupported defer")
	case *ast.AssignStmt:
		for _, r := range v.Rhs {
			w.expr(r)
		}

		for _, l := range v.Lhs {
			if parts, ok := w.chain(l); ok && len(parts) >= 1 {
				if !w.fields[parts[0]] {
					fail(l, "assignment to unknown member %s", parts[0])
				}

				w.emit("write %s", parts[0])

				continue
			}

			switch lv := l.(type) {
			case *ast.Ident:
			case *ast.IndexExpr:
				w.expr(lv.X)
				w.expr(lv.Index)
			case *ast.StarExpr:
				w.expr(lv.X)
			case *ast.SelectorExpr:
				w.expr(lv.X)
			default:
				fail(l, "unsupported assignment target %T", l)
			}
		}
	case *ast.IfStmt:
		if v.Init != nil {
			w.stmt(v.Init)
		}

		w.expr(v.Cond)
		w.emit("if {")
		w.block(v.Body.List)
		w.emit("}")

		if v.Else != nil {
			w.emit("else {")

			switch el := v.Else.(type) {
			case *ast.BlockStmt:
				w.block(el.List)
			default:
				w.stmt(el)
			}

			w.emit("}")
		}
	case *ast.ReturnStmt:
		for _, r := range v.Results {
			w.expr(r)
		}

		if w.closure == 0 {
			if n := len(v.Results); n > 0 {
				if id, ok := v.Results[n-1].(*ast.Ident); ok && id.Name == "nil" {
					w.emit("return nil")
				} else {
					w.emit("return value")
				}
			} else {
				w.emit("return")
			}
		}
	case *ast.RangeStmt:
		w.expr(v.X)
		w.emit("loop {")
		w.block(v.Body.List)
		w.emit("}")
	case *ast.ForStmt:
		if v.Init != nil {
			w.stmt(v.Init)
		}

		w.expr(v.Cond)
		w.emit("loop {")
		w.block(v.Body.List)

		if v.Post != nil {
			w.stmt(v.Post)
		}

		w.emit("}")
	case *ast.BlockStmt:
		w.block(v.List)
	case *ast.DeclStmt:
		gd, ok := v.Decl.(*ast.GenDecl)
		if !ok {
			fail(v, "unsupported declaration")
		}

		for _, sp := range gd.Specs {
			if vs, isVal := sp.(*ast.ValueSpec); isVal {
				for _, val := range vs.Values {
					w.expr(val)
				}
			}
		}
	case *ast.EmptyStmt:
	case *ast.IncDecStmt:
		if parts, ok := w.chain(v.X); ok && len(parts) >= 1 {
			w.emit("write %s", parts[0])

			return
		}

		w.expr(v.X)
	case *ast.BranchStmt:
		if v.Tok == token.GOTO {
			fail(v, "goto")
		}

		w.emit("%s", v.Tok.String())
	case *ast.SwitchStmt:
		if v.Init != nil {
			w.stmt(v.Init)
		}

		w.expr(v.Tag)
		w.emit("switch {")

		for _, c := range v.Body.List {
			cc, ok := c.(*ast.CaseClause)
			if !ok {
				fail(c, "unsupported switch body")
			}

			for _, x := range cc.List {
				w.expr(x)
			}

			w.emit("case {")
			w.block(cc.Body)
			w.emit("}")
		}

		w.emit("}")
	case *ast.GoStmt:
		w.emit("go {")
		w.expr(v.Call)
		w.emit("}")
	default:
		fail(s, "unsupported statement %T", s)
	}
}

// inline: a call of another method of the receiver contributes that method's events at the call site. Its returns
// end the callee, not the caller, so they are dropped; an unlock it deferred runs when it returns, i.e. here.
func (w *walker) inline(call ast.Node, name string) {
	for _, n := range w.stack {
		if n == name {
			fail(call, "recursive call of %s", name)
		}
	}

	if w.closure != 0 {
		fail(call, "receiver method %s called inside a function literal", name)
	}

	fd := w.methods[name]
	sub := &walker{recv: recvName(fd), mutexes: w.mutexes, fields: w.fields, methods: w.methods,
		stack: append(append([]string{}, w.stack...), name)}
	sub.block(fd.Body.List)

	var deferred []string

	w.emit("enter {")

	for _, ev := range sub.events {
		switch {
		case strings.HasPrefix(ev, "defer "):
			deferred = append([]string{strings.TrimPrefix(ev, "defer ")}, deferred...)
		case ev == "return" || strings.HasPrefix(ev, "return "):
		default:
			w.events = append(w.events, ev)
		}
	}

	w.events = append(w.events, deferred...)
	w.emit("}")
}

// ---------------------------------------------------------------------------------------------------------------

func recvTypeName(fd *ast.FuncDecl) string {
	rt := fd.Recv.List[0].Type
	if st, ok := rt.(*ast.StarExpr); ok {
		rt = st.X
	}

	if id, ok := rt.(*ast.Ident); ok {
		return id.Name
	}

	return ""
}

func recvName(fd *ast.FuncDecl) string {
	if len(fd.Recv.List[0].Names) == 1 {
		return fd.Recv.List[0].Names[0].Name
	}

	return "_"
}

// ---------------------------------------------------------------------------------------------------------------

func q(s string) string {
	return "\"" + strings.ReplaceAll(strings.ReplaceAll(s, "\\", "\\\\"), "\"", "\\\"") + "\""
}

func strList(l []string, indent string) string {
	if len(l) == 0 {
		return "[]"
	}

	parts := make([]string, len(l))
	for i, s := range l {
		parts[i] = indent + "  " + q(s)
	}

	return "[\n" + strings.Join(parts, ",\n") + "\n" + indent + "]"
}

func main() {
	repo := flag.String("repo", "/repo", "heimdall source tree")
	flag.Parse()

	sf := parse(filepath.Join(*repo, "internal/rules/mechanisms/finalizers/jwt_signer.go"))

	const typ = "jwtSigner"

	mutexes := map[string]bool{}
	fields := map[string]bool{}

	var fieldOrder []string

	found := false

	ast.Inspect(sf, func(n ast.Node) bool {
		ts, ok := n.(*ast.TypeSpec)
		if !ok || ts.Name.Name != typ {
			return true
		}

		st, ok := ts.Type.(*ast.StructType)
		if !ok {
			return true
		}

		found = true

		for _, fld := range st.Fields.List {
			t := src(fld.Type)

			if len(fld.Names) == 0 {
				fail(fld, "embedded field in %s", typ)
			}

			for _, nm := range fld.Names {
				if strings.HasSuffix(t, "Mutex") {
					mutexes[nm.Name] = true
				} else {
					fields[nm.Name] = true
				}

				fieldOrder = append(fieldOrder, nm.Name+" : "+t)
			}
		}

		return false
	})

	if !found {
		fail(sf, "struct type %s not found", typ)
	}

	methods := map[string]*ast.FuncDecl{}

	var decls []*ast.FuncDecl

	for _, d := range sf.Decls {
		fd, ok := d.(*ast.FuncDecl)
		if ok && fd.Recv != nil && len(fd.Recv.List) == 1 && fd.Body != nil && recvTypeName(fd) == typ {
			methods[fd.Name.Name] = fd
			decls = append(decls, fd)
		}
	}

	sort.Slice(decls, func(i, j int) bool { return decls[i].Name.Name < decls[j].Name.Name })

	// other functions of the file: assignments to a field of the type (constructors use composite literals)
	var outside []string

	for _, d := range sf.Decls {
		fd, ok := d.(*ast.FuncDecl)
		if !ok || fd.Body == nil || (fd.Recv != nil && recvTypeName(fd) == typ) {
			continue
		}

		ast.Inspect(fd.Body, func(n ast.Node) bool {
			if as, isAssign := n.(*ast.AssignStmt); isAssign {
				for _, l := range as.Lhs {
					if sel, isSel := l.(*ast.SelectorExpr); isSel && (fields[sel.Sel.Name] || mutexes[sel.Sel.Name]) {
						outside = append(outside, fd.Name.Name+": "+src(as))
					}
				}
			}

			return true
		})
	}

	var b strings.Builder

	fmt.Fprintf(&b, "-- generated by /verif/extract/signer from internal/rules/mechanisms/finalizers/jwt_signer.go of the checked\n")
	fmt.Fprintf(&b, "-- source tree; do not edit\n")
	fmt.Fprintf(&b, "namespace Heimdall.Gen.Signer\n\n")

	var mnames []string
	for m := range mutexes {
		mnames = append(mnames, m)
	}

	sort.Strings(mnames)

	fmt.Fprintf(&b, "def mutexes : List String := %s\n\n", strList(mnames, ""))
	fmt.Fprintf(&b, "def fields : List String := %s\n\n", strList(fieldOrder, ""))
	fmt.Fprintf(&b, "/-- assignments to fields of the signer outside its methods -/\n")
	fmt.Fprintf(&b, "def outsideWrites : List String := %s\n\n", strList(outside, ""))
	fmt.Fprintf(&b, "/-- per method the synchronisation events in source order; calls of other methods of the signer are inlined -/\n")
	fmt.Fprintf(&b, "def protocol : List (String × List String) := [\n")

	for i, fd := range decls {
		w := &walker{recv: recvName(fd), mutexes: mutexes, fields: fields, methods: methods, stack: []string{fd.Name.Name}}
		w.block(fd.Body.List)

		sep := ","
		if i == len(decls)-1 {
			sep = ""
		}

		fmt.Fprintf(&b, "  (%s, %s)%s\n", q(fd.Name.Name), strList(w.events, "  "), sep)
	}

	fmt.Fprintf(&b, "]\n\nend Heimdall.Gen.Signer\n")

	fmt.Print(b.String())
}
