// Command signer reads the facts the C16 proofs are stated about off the current heimdall source and prints
// them as a Lean module (HeimdallModel/Gen/Signer.lean):
//
//   - the synchronisation events of every method of jwtSigner (lock / unlock / deferred unlock / receiver field
//     reads and writes with the exact source of the written value / receiver calls / control structure / returns),
//   - the claim program of jwtSigner.Sign: the merge of the custom claims and the assignments to the claims map in
//     source order, each with the source of its value, local definitions resolved,
//   - how Sign builds the JOSE signer (signing key, header options),
//   - the assignments of jwtSigner.load that select the active entry and build the published list,
//   - the fields of the composite literal returned by keystore.Entry.JWK, the key size -> algorithm tables, the
//     sizes keystore.Entry.CheckJOSESupport accepts and the statements of keystore.SelectKey.
//
// Only go/ast, go/parser and go/token are used. It fails closed: a shape it does not understand aborts the
// extraction with exit code 3.
package main

import (
	"flag"
	"fmt"
	"go/ast"
	"go/parser"
	"go/token"
	"os"
	"path/filepath"
	"sort"
	"strconv"
	"strings"
)

var (
	fset = token.NewFileSet()
	srcs = map[string][]byte{}
)

func fail(n ast.Node, format string, args ...any) {
	pos := "?"
	if n != nil {
		pos = fset.Position(n.Pos()).String()
	}

	fmt.Fprintf(os.Stderr, "signer: %s: %s\n", pos, fmt.Sprintf(format, args...))
	os.Exit(3)
}

// src returns the source text of a node with white space normalised
func src(n ast.Node) string {
	if n == nil {
		return ""
	}

	p, e := fset.Position(n.Pos()), fset.Position(n.End())
	raw := string(srcs[p.Filename][p.Offset:e.Offset])

	return strings.Join(strings.Fields(raw), " ")
}

func parse(path string) *ast.File {
	data, err := os.ReadFile(path)
	if err != nil {
		fail(nil, "%v", err)
	}

	srcs[path] = data

	f, err := parser.ParseFile(fset, path, data, 0)
	if err != nil {
		fail(nil, "%v", err)
	}

	return f
}

// ---------------------------------------------------------------------------------------------------------------
// synchronisation events

type walker struct {
	recv    string
	mutexes map[string]bool
	fields  map[string]bool
	methods map[string]bool
	events  []string
	closure int
}

func (w *walker) emit(format string, args ...any) {
	ev := fmt.Sprintf(format, args...)
	if n := len(w.events); n > 0 && strings.HasPrefix(ev, "read ") && w.events[n-1] == ev {
		return
	}

	w.events = append(w.events, ev)
}

// chain: r.a.b -> [a b] when rooted at the receiver
func (w *walker) chain(x ast.Expr) ([]string, bool) {
	var parts []string

	for {
		switch v := x.(type) {
		case *ast.SelectorExpr:
			parts = append([]string{v.Sel.Name}, parts...)
			x = v.X
		case *ast.ParenExpr:
			x = v.X
		case *ast.Ident:
			if v.Name == w.recv {
				return parts, true
			}

			return nil, false
		default:
			return nil, false
		}
	}
}

func (w *walker) expr(x ast.Expr) {
	if x == nil {
		return
	}

	switch v := x.(type) {
	case *ast.CallExpr:
		if parts, ok := w.chain(v.Fun); ok {
			switch {
			case len(parts) == 2 && w.mutexes[parts[0]]:
				if len(v.Args) != 0 {
					fail(v, "mutex call with arguments")
				}

				w.emit("%s %s", strings.ToLower(parts[1]), parts[0])

				return
			case len(parts) == 1 && w.methods[parts[0]]:
				for _, a := range v.Args {
					w.expr(a)
				}

				w.emit("call %s", parts[0])

				return
			case len(parts) >= 1 && w.mutexes[parts[0]]:
				fail(v, "unsupported use of the mutex")
			}
		}

		w.expr(v.Fun)

		for _, a := range v.Args {
			w.expr(a)
		}
	case *ast.SelectorExpr:
		if parts, ok := w.chain(v); ok && len(parts) >= 1 {
			if w.mutexes[parts[0]] {
				fail(v, "mutex used outside a lock call")
			}

			if w.fields[parts[0]] {
				w.emit("read %s", parts[0])

				return
			}

			if w.methods[parts[0]] {
				fail(v, "method value of the receiver")
			}

			fail(v, "unknown member %s of the receiver", parts[0])
		}

		w.expr(v.X)
	case *ast.Ident:
		if v.Name == w.recv {
			w.emit("escape receiver")
		}
	case *ast.FuncLit:
		saved := w.recv

		for _, p := range v.Type.Params.List {
			for _, n := range p.Names {
				if n.Name == w.recv {
					w.recv = "\x00shadowed"
				}
			}
		}

		w.closure++
		w.block(v.Body.List)
		w.closure--
		w.recv = saved
	case *ast.BinaryExpr:
		w.expr(v.X)
		w.expr(v.Y)
	case *ast.UnaryExpr:
		if v.Op == token.AND {
			if parts, ok := w.chain(v.X); ok && len(parts) >= 1 {
				w.emit("addr %s", parts[0])

				return
			}
		}

		w.expr(v.X)
	case *ast.ParenExpr:
		w.expr(v.X)
	case *ast.IndexExpr:
		w.expr(v.X)
		w.expr(v.Index)
	case *ast.IndexListExpr:
		w.expr(v.X)
	case *ast.SliceExpr:
		w.expr(v.X)
		w.expr(v.Low)
		w.expr(v.High)
		w.expr(v.Max)
	case *ast.StarExpr:
		w.expr(v.X)
	case *ast.CompositeLit:
		for _, el := range v.Elts {
			w.expr(el)
		}
	case *ast.KeyValueExpr:
		w.expr(v.Value)
	case *ast.TypeAssertExpr:
		w.expr(v.X)
	case *ast.BasicLit, *ast.ArrayType, *ast.MapType, *ast.FuncType, *ast.StructType, *ast.InterfaceType,
		*ast.ChanType:
	default:
		fail(x, "unsupported expression %T", x)
	}
}

func (w *walker) block(stmts []ast.Stmt) {
	for _, s := range stmts {
		w.stmt(s)
	}
}

func (w *walker) stmt(s ast.Stmt) {
	switch v := s.(type) {
	case *ast.ExprStmt:
		w.expr(v.X)
	case *ast.DeferStmt:
		if parts, ok := w.chain(v.Call.Fun); ok && len(parts) == 2 && w.mutexes[parts[0]] && w.closure == 0 {
			w.emit("defer %s %s", strings.ToLower(parts[1]), parts[0])

			return
		}

		fail(v, "unsupported defer")
	case *ast.AssignStmt:
		for _, r := range v.Rhs {
			w.expr(r)
		}

		for i, l := range v.Lhs {
			if parts, ok := w.chain(l); ok && len(parts) >= 1 {
				if !w.fields[parts[0]] {
					fail(l, "assignment to unknown member %s", parts[0])
				}

				rhs := "?"
				if len(v.Rhs) == len(v.Lhs) {
					rhs = src(v.Rhs[i])
				} else if len(v.Rhs) == 1 {
					rhs = src(v.Rhs[0]) + "#" + strconv.Itoa(i)
				}

				if len(parts) > 1 {
					rhs = "(" + strings.Join(parts[1:], ".") + ") " + rhs
				}

				if v.Tok != token.ASSIGN {
					rhs = v.Tok.String() + " " + rhs
				}

				w.emit("write %s <- %s", parts[0], rhs)

				continue
			}

			switch lv := l.(type) {
			case *ast.Ident:
			case *ast.IndexExpr:
				w.expr(lv.X)
				w.expr(lv.Index)
			case *ast.StarExpr:
				w.expr(lv.X)
			case *ast.SelectorExpr:
				w.expr(lv.X)
			default:
				fail(l, "unsupported assignment target %T", l)
			}
		}
	case *ast.IfStmt:
		if v.Init != nil {
			w.stmt(v.Init)
		}

		w.expr(v.Cond)
		w.emit("if {")
		w.block(v.Body.List)
		w.emit("}")

		if v.Else != nil {
			w.emit("else {")

			switch el := v.Else.(type) {
			case *ast.BlockStmt:
				w.block(el.List)
			default:
				w.stmt(el)
			}

			w.emit("}")
		}
	case *ast.ReturnStmt:
		for _, r := range v.Results {
			w.expr(r)
		}

		if w.closure == 0 {
			if n := len(v.Results); n > 0 {
				if id, ok := v.Results[n-1].(*ast.Ident); ok && id.Name == "nil" {
					w.emit("return nil")
				} else {
					w.emit("return value")
				}
			} else {
				w.emit("return")
			}
		}
	case *ast.RangeStmt:
		w.expr(v.X)
		w.emit("loop {")
		w.block(v.Body.List)
		w.emit("}")
	case *ast.ForStmt:
		if v.Init != nil {
			w.stmt(v.Init)
		}

		w.expr(v.Cond)
		w.emit("loop {")
		w.block(v.Body.List)

		if v.Post != nil {
			w.stmt(v.Post)
		}

		w.emit("}")
	case *ast.BlockStmt:
		w.block(v.List)
	case *ast.DeclStmt:
		gd, ok := v.Decl.(*ast.GenDecl)
		if !ok {
			fail(v, "unsupported declaration")
		}

		for _, sp := range gd.Specs {
			if vs, isVal := sp.(*ast.ValueSpec); isVal {
				for _, val := range vs.Values {
					w.expr(val)
				}
			}
		}
	case *ast.EmptyStmt:
	case *ast.IncDecStmt:
		if parts, ok := w.chain(v.X); ok && len(parts) >= 1 {
			w.emit("write %s <- %s", parts[0], v.Tok.String())

			return
		}

		w.expr(v.X)
	case *ast.BranchStmt:
		if v.Tok == token.GOTO {
			fail(v, "goto")
		}

		w.emit("%s", v.Tok.String())
	case *ast.SwitchStmt:
		if v.Init != nil {
			w.stmt(v.Init)
		}

		w.expr(v.Tag)
		w.emit("switch {")

		for _, c := range v.Body.List {
			cc, ok := c.(*ast.CaseClause)
			if !ok {
				fail(c, "unsupported switch body")
			}

			for _, x := range cc.List {
				w.expr(x)
			}

			w.emit("case {")
			w.block(cc.Body)
			w.emit("}")
		}

		w.emit("}")
	case *ast.GoStmt:
		w.emit("go {")
		w.expr(v.Call)
		w.emit("}")
	default:
		fail(s, "unsupported statement %T", s)
	}
}

// ---------------------------------------------------------------------------------------------------------------
// helpers on function bodies

func funcDecl(f *ast.File, recvType, name string) *ast.FuncDecl {
	for _, d := range f.Decls {
		fd, ok := d.(*ast.FuncDecl)
		if !ok || fd.Name.Name != name || fd.Body == nil {
			continue
		}

		if recvType == "" && fd.Recv == nil {
			return fd
		}

		if fd.Recv != nil && len(fd.Recv.List) == 1 && recvTypeName(fd) == recvType {
			return fd
		}
	}

	fail(f, "function %s.%s not found", recvType, name)

	return nil
}

func recvTypeName(fd *ast.FuncDecl) string {
	rt := fd.Recv.List[0].Type
	if st, ok := rt.(*ast.StarExpr); ok {
		rt = st.X
	}

	if id, ok := rt.(*ast.Ident); ok {
		return id.Name
	}

	return ""
}

func recvName(fd *ast.FuncDecl) string {
	if len(fd.Recv.List[0].Names) == 1 {
		return fd.Recv.List[0].Names[0].Name
	}

	return "_"
}

// every assignment / short variable declaration / range clause of a function body in source order as (lhs, rhs)
func assignments(fd *ast.FuncDecl) [][2]string {
	var res [][2]string

	ast.Inspect(fd.Body, func(n ast.Node) bool {
		switch v := n.(type) {
		case *ast.AssignStmt:
			lhs := make([]string, len(v.Lhs))
			for i, l := range v.Lhs {
				lhs[i] = src(l)
			}

			rhs := make([]string, len(v.Rhs))
			for i, r := range v.Rhs {
				rhs[i] = src(r)
			}

			op := ""
			if v.Tok != token.ASSIGN && v.Tok != token.DEFINE {
				op = v.Tok.String() + " "
			}

			res = append(res, [2]string{strings.Join(lhs, ", "), op + strings.Join(rhs, ", ")})
		case *ast.RangeStmt:
			res = append(res, [2]string{"range " + src(v.Key) + ", " + src(v.Value), src(v.X)})
		case *ast.IncDecStmt:
			res = append(res, [2]string{src(v.X), v.Tok.String()})
		}

		return true
	})

	return res
}

// ---------------------------------------------------------------------------------------------------------------
// the claim program of Sign

type claimOp struct{ kind, key, val string }

// claimProgram: the variable handed to `.Claims(x)` is the claims map; returns every statement that touches it
func claimProgram(fd *ast.FuncDecl) (ops []claimOp, params []string) {
	for _, p := range fd.Type.Params.List {
		for _, n := range p.Names {
			params = append(params, n.Name)
		}
	}

	claimsVar := ""

	ast.Inspect(fd.Body, func(n ast.Node) bool {
		call, ok := n.(*ast.CallExpr)
		if !ok {
			return true
		}

		if sel, isSel := call.Fun.(*ast.SelectorExpr); isSel && sel.Sel.Name == "Claims" && len(call.Args) == 1 {
			if id, isIdent := call.Args[0].(*ast.Ident); isIdent {
				if claimsVar != "" && claimsVar != id.Name {
					fail(call, "two different claim sets are serialised")
				}

				claimsVar = id.Name
			} else {
				fail(call, "claims handed to the builder are not a plain variable")
			}
		}

		return true
	})

	if claimsVar == "" {
		fail(fd, "no .Claims(x) call found in Sign")
	}

	locals := map[string]string{}

	mentions := func(n ast.Node) bool {
		found := false

		ast.Inspect(n, func(m ast.Node) bool {
			if id, ok := m.(*ast.Ident); ok && id.Name == claimsVar {
				found = true
			}

			return !found
		})

		return found
	}

	// resolve local definitions inside a value expression (one pass per identifier, innermost first)
	var resolve func(x ast.Expr, depth int) string

	resolve = func(x ast.Expr, depth int) string {
		if depth > 8 {
			fail(x, "cyclic local definitions")
		}

		switch v := x.(type) {
		case *ast.Ident:
			if def, ok := locals[v.Name]; ok {
				return "(" + def + ")"
			}

			return v.Name
		case *ast.SelectorExpr:
			return resolve(v.X, depth+1) + "." + v.Sel.Name
		case *ast.CallExpr:
			args := make([]string, len(v.Args))
			for i, a := range v.Args {
				args[i] = resolve(a, depth+1)
			}

			return resolve(v.Fun, depth+1) + "(" + strings.Join(args, ", ") + ")"
		case *ast.BasicLit:
			return v.Value
		case *ast.BinaryExpr:
			return "(" + resolve(v.X, depth+1) + " " + v.Op.String() + " " + resolve(v.Y, depth+1) + ")"
		case *ast.ParenExpr:
			return resolve(v.X, depth+1)
		case *ast.UnaryExpr:
			return v.Op.String() + resolve(v.X, depth+1)
		case *ast.StarExpr:
			return "*" + resolve(v.X, depth+1)
		default:
			return src(x)
		}
	}

	var walk func(stmts []ast.Stmt, nested bool)

	walk = func(stmts []ast.Stmt, nested bool) {
		for _, s := range stmts {
			switch v := s.(type) {
			case *ast.AssignStmt:
				// claims[<lit>] = value
				if len(v.Lhs) == 1 && len(v.Rhs) == 1 {
					if ix, ok := v.Lhs[0].(*ast.IndexExpr); ok {
						if id, isIdent := ix.X.(*ast.Ident); isIdent && id.Name == claimsVar {
							lit, isLit := ix.Index.(*ast.BasicLit)
							if !isLit || lit.Kind != token.STRING || v.Tok != token.ASSIGN {
								fail(v, "claim assignment with a computed key")
							}

							key, _ := strconv.Unquote(lit.Value)
							kind := "set"
							if nested {
								kind = "condset"
							}

							ops = append(ops, claimOp{kind, key, resolve(v.Rhs[0], 0)})

							continue
						}
					}

					if id, ok := v.Lhs[0].(*ast.Ident); ok {
						if id.Name == claimsVar {
							kind := "init"
							if nested {
								kind = "condinit"
							}

							ops = append(ops, claimOp{kind, "", src(v.Rhs[0])})

							continue
						}

						if v.Tok == token.DEFINE && !mentions(v.Rhs[0]) {
							locals[id.Name] = resolve(v.Rhs[0], 0)

							continue
						}
					}
				}

				if mentions(v) {
					for _, l := range v.Lhs {
						if mentions(l) {
							fail(v, "unsupported statement touching the claims")
						}
					}

					kind := "use"
					if nested {
						kind = "conduse"
					}

					rhs := make([]string, len(v.Rhs))
					for i, r := range v.Rhs {
						rhs[i] = src(r)
					}

					ops = append(ops, claimOp{kind, "", strings.Join(rhs, ", ")})
				}

				// other definitions: forget what they define
				for _, l := range v.Lhs {
					if id, ok := l.(*ast.Ident); ok {
						delete(locals, id.Name)
					}
				}
			case *ast.ExprStmt:
				if !mentions(v) {
					continue
				}

				call, ok := v.X.(*ast.CallExpr)
				if !ok {
					fail(v, "unsupported statement touching the claims")
				}

				args := make([]string, len(call.Args))
				for i, a := range call.Args {
					args[i] = src(a)
				}

				kind := "call"
				if nested {
					kind = "condcall"
				}

				ops = append(ops, claimOp{kind, src(call.Fun), strings.Join(args, ", ")})
			case *ast.IfStmt:
				if v.Init != nil && mentions(v.Init) {
					walk([]ast.Stmt{v.Init}, nested)
				}

				walk(v.Body.List, true)

				if v.Else != nil {
					if b, ok := v.Else.(*ast.BlockStmt); ok {
						walk(b.List, true)
					} else {
						walk([]ast.Stmt{v.Else}, true)
					}
				}
			case *ast.BlockStmt:
				walk(v.List, nested)
			case *ast.ReturnStmt, *ast.DeclStmt, *ast.EmptyStmt:
				if mentions(v) {
					if _, isRet := v.(*ast.ReturnStmt); !isRet {
						fail(v, "unsupported statement touching the claims")
					}
				}
			case *ast.RangeStmt, *ast.ForStmt, *ast.SwitchStmt, *ast.DeferStmt, *ast.GoStmt:
				if mentions(v) {
					fail(v, "claims touched inside a loop / switch / defer / go statement")
				}
			default:
				if mentions(v) {
					fail(v, "unsupported statement touching the claims")
				}
			}
		}
	}

	walk(fd.Body.List, false)

	return ops, params
}

// ---------------------------------------------------------------------------------------------------------------
// how Sign configures the JOSE signer

func signerSetup(fd *ast.FuncDecl) [][2]string {
	var res [][2]string

	ast.Inspect(fd.Body, func(n ast.Node) bool {
		switch v := n.(type) {
		case *ast.CompositeLit:
			if strings.HasSuffix(src(v.Type), "SigningKey") {
				for _, el := range v.Elts {
					kv, ok := el.(*ast.KeyValueExpr)
					if !ok {
						fail(el, "positional SigningKey literal")
					}

					res = append(res, [2]string{"SigningKey." + src(kv.Key), src(kv.Value)})
				}
			}
		case *ast.CallExpr:
			sel, ok := v.Fun.(*ast.SelectorExpr)
			if !ok {
				return true
			}

			switch sel.Sel.Name {
			case "WithType", "WithContentType", "WithBase64":
				args := make([]string, len(v.Args))
				for i, a := range v.Args {
					args[i] = src(a)
				}

				res = append(res, [2]string{sel.Sel.Name, strings.Join(args, ", ")})
			case "WithHeader":
				if len(v.Args) != 2 {
					fail(v, "WithHeader arity")
				}

				res = append(res, [2]string{"WithHeader " + src(v.Args[0]), src(v.Args[1])})
			}
		}

		return true
	})

	sort.Slice(res, func(i, j int) bool { return res[i][0] < res[j][0] })

	return res
}

// ---------------------------------------------------------------------------------------------------------------
// keystore.Entry.JWK and the algorithm tables

func jwkLiteral(fd *ast.FuncDecl) [][2]string {
	if len(fd.Body.List) != 1 {
		fail(fd, "Entry.JWK is not a single return statement")
	}

	ret, ok := fd.Body.List[0].(*ast.ReturnStmt)
	if !ok || len(ret.Results) != 1 {
		fail(fd, "Entry.JWK is not a single return statement")
	}

	lit, ok := ret.Results[0].(*ast.CompositeLit)
	if !ok || !strings.HasSuffix(src(lit.Type), "JSONWebKey") {
		fail(ret, "Entry.JWK does not return a JSONWebKey literal")
	}

	var res [][2]string

	for _, el := range lit.Elts {
		kv, isKV := el.(*ast.KeyValueExpr)
		if !isKV {
			fail(el, "positional JSONWebKey literal")
		}

		res = append(res, [2]string{src(kv.Key), src(kv.Value)})
	}

	sort.Slice(res, func(i, j int) bool { return res[i][0] < res[j][0] })

	return res
}

func intConsts(f *ast.File) map[string]string {
	res := map[string]string{}

	for _, d := range f.Decls {
		gd, ok := d.(*ast.GenDecl)
		if !ok || gd.Tok != token.CONST {
			continue
		}

		for _, sp := range gd.Specs {
			vs := sp.(*ast.ValueSpec) //nolint:forcetypeassert
			for i, n := range vs.Names {
				if i < len(vs.Values) {
					if lit, isLit := vs.Values[i].(*ast.BasicLit); isLit {
						res[n.Name] = lit.Value
					}
				}
			}
		}
	}

	return res
}

// switch <param> { case c: return jose.X ... default: panic } -> (size, alg) pairs in source order
func sizeTable(fd *ast.FuncDecl, consts map[string]string) [][2]string {
	if len(fd.Body.List) != 1 {
		fail(fd, "%s is not a single switch", fd.Name.Name)
	}

	sw, ok := fd.Body.List[0].(*ast.SwitchStmt)
	if !ok || sw.Init != nil {
		fail(fd, "%s is not a single switch", fd.Name.Name)
	}

	if len(fd.Type.Params.List) != 1 || len(fd.Type.Params.List[0].Names) != 1 ||
		src(sw.Tag) != fd.Type.Params.List[0].Names[0].Name {
		fail(sw, "%s does not switch on its parameter", fd.Name.Name)
	}

	var res [][2]string

	for _, c := range sw.Body.List {
		cc := c.(*ast.CaseClause) //nolint:forcetypeassert
		if cc.List == nil {
			if len(cc.Body) != 1 || !strings.HasPrefix(src(cc.Body[0]), "panic(") {
				fail(cc, "default case of %s does not panic", fd.Name.Name)
			}

			res = append(res, [2]string{"default", "panic"})

			continue
		}

		if len(cc.Body) != 1 {
			fail(cc, "unsupported case body")
		}

		ret, isRet := cc.Body[0].(*ast.ReturnStmt)
		if !isRet || len(ret.Results) != 1 {
			fail(cc, "unsupported case body")
		}

		for _, x := range cc.List {
			val := src(x)
			if v, known := consts[val]; known {
				val = v
			}

			if _, err := strconv.Atoi(val); err != nil {
				fail(x, "case value %s is not an integer constant", val)
			}

			res = append(res, [2]string{val, src(ret.Results[0])})
		}
	}

	return res
}

// switch e.Alg { case AlgRSA: return getRSAAlgorithm(e.KeySize) ... }
func familyTable(fd *ast.FuncDecl) [][2]string {
	if len(fd.Body.List) != 1 {
		fail(fd, "JOSEAlgorithm is not a single switch")
	}

	sw, ok := fd.Body.List[0].(*ast.SwitchStmt)
	if !ok {
		fail(fd, "JOSEAlgorithm is not a single switch")
	}

	res := [][2]string{{"switch", src(sw.Tag)}}

	for _, c := range sw.Body.List {
		cc := c.(*ast.CaseClause) //nolint:forcetypeassert
		if len(cc.Body) != 1 {
			fail(cc, "unsupported case body")
		}

		body := src(cc.Body[0])
		if cc.List == nil {
			if !strings.HasPrefix(body, "panic(") {
				fail(cc, "default case of JOSEAlgorithm does not panic")
			}

			res = append(res, [2]string{"default", "panic"})

			continue
		}

		for _, x := range cc.List {
			res = append(res, [2]string{src(x), body})
		}
	}

	return res
}

// ---------------------------------------------------------------------------------------------------------------

func q(s string) string {
	return "\"" + strings.ReplaceAll(strings.ReplaceAll(s, "\\", "\\\\"), "\"", "\\\"") + "\""
}

func strList(l []string, indent string) string {
	if len(l) == 0 {
		return "[]"
	}

	parts := make([]string, len(l))
	for i, s := range l {
		parts[i] = indent + "  " + q(s)
	}

	return "[\n" + strings.Join(parts, ",\n") + "\n" + indent + "]"
}

func pairList(l [][2]string) string {
	if len(l) == 0 {
		return "[]"
	}

	parts := make([]string, len(l))
	for i, p := range l {
		parts[i] = "  (" + q(p[0]) + ", " + q(p[1]) + ")"
	}

	return "[\n" + strings.Join(parts, ",\n") + "\n]"
}

// flow: the statements of a small function as text, in source order: "if <cond> {", "}", "else {", "return <results>",
// "<lhs> = <rhs>"; anything else aborts the extraction
func flow(fd *ast.FuncDecl) []string {
	var (
		res  []string
		walk func(stmts []ast.Stmt)
	)

	walk = func(stmts []ast.Stmt) {
		for _, st := range stmts {
			switch v := st.(type) {
			case *ast.IfStmt:
				if v.Init != nil {
					walk([]ast.Stmt{v.Init})
				}

				res = append(res, "if "+src(v.Cond)+" {")
				walk(v.Body.List)
				res = append(res, "}")

				if v.Else != nil {
					res = append(res, "else {")

					if b, ok := v.Else.(*ast.BlockStmt); ok {
						walk(b.List)
					} else {
						walk([]ast.Stmt{v.Else})
					}

					res = append(res, "}")
				}
			case *ast.ReturnStmt:
				parts := make([]string, len(v.Results))
				for i, r := range v.Results {
					parts[i] = src(r)
				}

				res = append(res, "return "+strings.Join(parts, ", "))
			case *ast.AssignStmt:
				lhs := make([]string, len(v.Lhs))
				for i, l := range v.Lhs {
					lhs[i] = src(l)
				}

				rhs := make([]string, len(v.Rhs))
				for i, r := range v.Rhs {
					rhs[i] = src(r)
				}

				res = append(res, strings.Join(lhs, ", ")+" = "+strings.Join(rhs, ", "))
			case *ast.BlockStmt:
				walk(v.List)
			case *ast.EmptyStmt:
			default:
				fail(st, "unsupported statement %T in %s", st, fd.Name.Name)
			}
		}
	}

	walk(fd.Body.List)

	return res
}

// supportTable: CheckJOSESupport is `switch e.Alg { case X: switch e.KeySize { case a, b, c: return nil }; return err
// ... default: return err }`; returns per family the sizes for which nil is returned
func supportTable(fd *ast.FuncDecl, consts map[string]string) string {
	if len(fd.Body.List) != 1 {
		fail(fd, "CheckJOSESupport is not a single switch")
	}

	sw, ok := fd.Body.List[0].(*ast.SwitchStmt)
	if !ok || src(sw.Tag) != "e.Alg" {
		fail(fd, "CheckJOSESupport does not switch on e.Alg")
	}

	var parts []string

	for _, c := range sw.Body.List {
		cc := c.(*ast.CaseClause) //nolint:forcetypeassert
		if cc.List == nil {
			if len(cc.Body) != 1 || strings.HasPrefix(src(cc.Body[0]), "return nil") {
				fail(cc, "default case of CheckJOSESupport does not return an error")
			}

			continue
		}

		if len(cc.List) != 1 || len(cc.Body) != 2 {
			fail(cc, "unsupported case of CheckJOSESupport")
		}

		inner, isSwitch := cc.Body[0].(*ast.SwitchStmt)
		if !isSwitch || src(inner.Tag) != "e.KeySize" || strings.HasPrefix(src(cc.Body[1]), "return nil") {
			fail(cc, "unsupported case of CheckJOSESupport")
		}

		var sizes []string

		for _, ic := range inner.Body.List {
			icc := ic.(*ast.CaseClause) //nolint:forcetypeassert
			if icc.List == nil || len(icc.Body) != 1 || src(icc.Body[0]) != "return nil" {
				fail(icc, "unsupported size case of CheckJOSESupport")
			}

			for _, x := range icc.List {
				val := src(x)
				if v, known := consts[val]; known {
					val = v
				}

				if _, err := strconv.Atoi(val); err != nil {
					fail(x, "size %s is not an integer constant", val)
				}

				sizes = append(sizes, val)
			}
		}

		parts = append(parts, "("+q(src(cc.List[0]))+", ["+strings.Join(sizes, ", ")+"])")
	}

	return "[" + strings.Join(parts, ", ") + "]"
}

// natTable: (size, jose.X) pairs as Lean (Nat × String) list; the default case must be the final panic
func natTable(t [][2]string) string {
	if len(t) == 0 || t[len(t)-1] != [2]string{"default", "panic"} {
		fail(nil, "algorithm table without a panicking default case")
	}

	parts := []string{}

	for _, p := range t[:len(t)-1] {
		if p[0] == "default" || !strings.HasPrefix(p[1], "jose.") {
			fail(nil, "unsupported algorithm table entry %v", p)
		}

		parts = append(parts, "("+p[0]+", "+q(strings.TrimPrefix(p[1], "jose."))+")")
	}

	return "[" + strings.Join(parts, ", ") + "]"
}

func main() {
	repo := flag.String("repo", "/repo", "heimdall source tree")
	flag.Parse()

	signerPath := filepath.Join(*repo, "internal/rules/mechanisms/finalizers/jwt_signer.go")
	entryPath := filepath.Join(*repo, "internal/keystore/entry.go")
	sf := parse(signerPath)
	ef := parse(entryPath)

	// --- struct jwtSigner
	const typ = "jwtSigner"

	mutexes := map[string]bool{}
	fields := map[string]bool{}

	var fieldOrder []string

	found := false

	ast.Inspect(sf, func(n ast.Node) bool {
		ts, ok := n.(*ast.TypeSpec)
		if !ok || ts.Name.Name != typ {
			return true
		}

		st, ok := ts.Type.(*ast.StructType)
		if !ok {
			return true
		}

		found = true

		for _, fld := range st.Fields.List {
			t := src(fld.Type)

			if len(fld.Names) == 0 {
				fail(fld, "embedded field in %s", typ)
			}

			for _, nm := range fld.Names {
				if strings.HasSuffix(t, "Mutex") {
					mutexes[nm.Name] = true
					fieldOrder = append(fieldOrder, nm.Name+" : "+t)
				} else {
					fields[nm.Name] = true
					fieldOrder = append(fieldOrder, nm.Name+" : "+t)
				}
			}
		}

		return false
	})

	if !found {
		fail(sf, "struct type %s not found", typ)
	}

	methods := map[string]bool{}

	var decls []*ast.FuncDecl

	for _, d := range sf.Decls {
		fd, ok := d.(*ast.FuncDecl)
		if ok && fd.Recv != nil && len(fd.Recv.List) == 1 && fd.Body != nil && recvTypeName(fd) == typ {
			methods[fd.Name.Name] = true
			decls = append(decls, fd)
		}
	}

	sort.Slice(decls, func(i, j int) bool { return decls[i].Name.Name < decls[j].Name.Name })

	// other functions of the file that touch a value of the type (constructors): fields set in composite literals only
	var outside []string

	for _, d := range sf.Decls {
		fd, ok := d.(*ast.FuncDecl)
		if !ok || fd.Body == nil || (fd.Recv != nil && recvTypeName(fd) == typ) {
			continue
		}

		ast.Inspect(fd.Body, func(n ast.Node) bool {
			if as, isAssign := n.(*ast.AssignStmt); isAssign {
				for _, l := range as.Lhs {
					if sel, isSel := l.(*ast.SelectorExpr); isSel && (fields[sel.Sel.Name] || mutexes[sel.Sel.Name]) {
						outside = append(outside, fd.Name.Name+": "+src(as))
					}
				}
			}

			return true
		})
	}

	var b strings.Builder

	fmt.Fprintf(&b, "-- generated by /verif/extract/signer from internal/rules/mechanisms/finalizers/jwt_signer.go,\n")
	fmt.Fprintf(&b, "-- internal/keystore/entry.go and internal/keystore/key_store.go of the checked source tree; do not edit\n")
	fmt.Fprintf(&b, "namespace Heimdall.Gen.Signer\n\n")

	var mnames []string
	for m := range mutexes {
		mnames = append(mnames, m)
	}

	sort.Strings(mnames)

	fmt.Fprintf(&b, "def mutexes : List String := %s\n\n", strList(mnames, ""))
	fmt.Fprintf(&b, "def fields : List String := %s\n\n", strList(fieldOrder, ""))
	fmt.Fprintf(&b, "/-- assignments to fields of the signer outside its methods -/\n")
	fmt.Fprintf(&b, "def outsideWrites : List String := %s\n\n", strList(outside, ""))

	fmt.Fprintf(&b, "def protocol : List (String × List String) := [\n")

	for i, fd := range decls {
		w := &walker{recv: recvName(fd), mutexes: mutexes, fields: fields, methods: methods}
		w.block(fd.Body.List)

		sep := ","
		if i == len(decls)-1 {
			sep = ""
		}

		fmt.Fprintf(&b, "  (%s, %s)%s\n", q(fd.Name.Name), strList(w.events, "  "), sep)
	}

	fmt.Fprintf(&b, "]\n\n")

	// --- Sign
	sign := funcDecl(sf, typ, "Sign")
	ops, params := claimProgram(sign)

	fmt.Fprintf(&b, "def signParams : List String := %s\n\n", strList(params, ""))
	fmt.Fprintf(&b, "def signReceiver : String := %s\n\n", q(recvName(sign)))
	fmt.Fprintf(&b, "/-- (kind, key / callee, value source / arguments) of every statement of Sign touching the serialised claims -/\n")
	fmt.Fprintf(&b, "def claimOps : List (String × String × String) := [\n")

	for i, o := range ops {
		sep := ","
		if i == len(ops)-1 {
			sep = ""
		}

		fmt.Fprintf(&b, "  (%s, %s, %s)%s\n", q(o.kind), q(o.key), q(o.val), sep)
	}

	fmt.Fprintf(&b, "]\n\n")
	fmt.Fprintf(&b, "def signerSetup : List (String × String) := %s\n\n", pairList(signerSetup(sign)))
	fmt.Fprintf(&b, "def signAssignments : List (String × String) := %s\n\n", pairList(assignments(sign)))

	// --- load
	load := funcDecl(sf, typ, "load")
	fmt.Fprintf(&b, "def loadAssignments : List (String × String) := %s\n\n", pairList(assignments(load)))

	// --- entry.go
	consts := intConsts(ef)

	fmt.Fprintf(&b, "def jwkLiteral : List (String × String) := %s\n\n", pairList(jwkLiteral(funcDecl(ef, "Entry", "JWK"))))
	fmt.Fprintf(&b, "def joseAlgorithm : List (String × String) := %s\n\n",
		pairList(familyTable(funcDecl(ef, "Entry", "JOSEAlgorithm"))))
	fmt.Fprintf(&b, "/-- key size -> JOSE algorithm, in source order; every other size panics -/\n")
	fmt.Fprintf(&b, "def rsaAlgorithms : List (Nat × String) := %s\n\n",
		natTable(sizeTable(funcDecl(ef, "", "getRSAAlgorithm"), consts)))
	fmt.Fprintf(&b, "def ecdsaAlgorithms : List (Nat × String) := %s\n\n",
		natTable(sizeTable(funcDecl(ef, "", "getECDSAAlgorithm"), consts)))
	fmt.Fprintf(&b, "/-- `Entry.CheckJOSESupport`: per key family the sizes it accepts; everything else is an error -/\n")
	fmt.Fprintf(&b, "def joseSupport : List (String × List Nat) := %s\n\n",
		supportTable(funcDecl(ef, "Entry", "CheckJOSESupport"), consts))

	kf := parse(filepath.Join(*repo, "internal/keystore/key_store.go"))
	fmt.Fprintf(&b, "/-- `keystore.SelectKey`, statement by statement -/\n")
	fmt.Fprintf(&b, "def selectKey : List String := %s\n\n", strList(flow(funcDecl(kf, "", "SelectKey")), ""))
	fmt.Fprintf(&b, "end Heimdall.Gen.Signer\n")

	fmt.Print(b.String())
}
