module verif/extract/signer

go 1.23
