module verif/extract/guards

go 1.23
