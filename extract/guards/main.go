// Command guards reads, with go/parser only, where heimdall recovers from panics on the goroutines that handle
// reloadable input and requests, and prints the facts as a Lean module (property C19):
//
//   - internal/watcher/watcher_impl.go: every `go` statement of fireOnChange and whether the started function
//     begins with a deferred function that calls recover()
//   - internal/watcher/watcher_impl.go: what leaves the for/select loop of startWatching besides the returns taken
//     when one of the two channels has been closed
//   - internal/rules/provider/filesystem/provider.go: every call in watchFiles that is handed the event, and
//     whether the callee recovers
//   - internal/rules/ruleset_processor_impl.go: whether loadRules recovers
//   - internal/handler/{decision,proxy}/service.go: the constructors in the alice.New(...) middleware chain
//   - internal/handler/envoyextauth/grpcv3/service.go: the constructors in the unary interceptor list
//
// It fails closed: a function or shape it does not find ends the extraction with an error.
package main

import (
	"flag"
	"fmt"
	"go/ast"
	"go/parser"
	"go/token"
	"os"
	"path/filepath"
	"strings"
)

func die(format string, args ...any) {
	fmt.Fprintf(os.Stderr, "guards: "+format+"\n", args...)
	os.Exit(1)
}

func parse(path string) *ast.File {
	f, err := parser.ParseFile(token.NewFileSet(), path, nil, 0)
	if err != nil {
		die("%v", err)
	}

	return f
}

func funcDecl(f *ast.File, name string) *ast.FuncDecl {
	for _, d := range f.Decls {
		if fd, ok := d.(*ast.FuncDecl); ok && fd.Name.Name == name && fd.Body != nil {
			return fd
		}
	}

	return nil
}

// recovers: the body has, at its top level, `defer func() { ... recover() ... }()`
func recovers(body *ast.BlockStmt) bool {
	if body == nil {
		return false
	}

	for _, st := range body.List {
		ds, ok := st.(*ast.DeferStmt)
		if !ok {
			continue
		}

		lit, ok := ds.Call.Fun.(*ast.FuncLit)
		if !ok {
			continue
		}

		found := false

		ast.Inspect(lit.Body, func(n ast.Node) bool {
			if call, ok := n.(*ast.CallExpr); ok {
				if id, ok := call.Fun.(*ast.Ident); ok && id.Name == "recover" {
					found = true
				}
			}

			return true
		})

		if found {
			return true
		}
	}

	return false
}

func exprName(e ast.Expr) string {
	switch t := e.(type) {
	case *ast.Ident:
		return t.Name
	case *ast.SelectorExpr:
		return exprName(t.X) + "." + t.Sel.Name
	case *ast.FuncLit:
		return "func literal"
	case *ast.CallExpr:
		return exprName(t.Fun)
	case *ast.IndexExpr:
		return exprName(t.X)
	case *ast.UnaryExpr:
		return t.Op.String() + exprName(t.X)
	}

	return "?"
}

// calleeRecovers: a function literal is looked at directly, a method or function of the same file by its declaration
func calleeRecovers(f *ast.File, fun ast.Expr) bool {
	switch t := fun.(type) {
	case *ast.FuncLit:
		return recovers(t.Body)
	case *ast.SelectorExpr:
		if fd := funcDecl(f, t.Sel.Name); fd != nil {
			return recovers(fd.Body)
		}
	case *ast.Ident:
		if fd := funcDecl(f, t.Name); fd != nil {
			return recovers(fd.Body)
		}
	}

	return false
}

type fact struct {
	name    string
	guarded bool
}

func leanFacts(name, doc string, facts []fact) string {
	var b strings.Builder

	fmt.Fprintf(&b, "/-- %s -/\ndef %s : List (String × Bool) := [", doc, name)

	for i, f := range facts {
		if i > 0 {
			b.WriteString(", ")
		}

		fmt.Fprintf(&b, "(%q, %v)", f.name, f.guarded)
	}

	b.WriteString("]\n\n")

	return b.String()
}

func leanNames(name, doc string, names []string) string {
	quoted := make([]string, len(names))
	for i, n := range names {
		quoted[i] = fmt.Sprintf("%q", n)
	}

	return fmt.Sprintf("/-- %s -/\ndef %s : List String := [%s]\n\n", doc, name, strings.Join(quoted, ", "))
}

func usesIdent(e ast.Expr, name string) bool {
	found := false

	ast.Inspect(e, func(n ast.Node) bool {
		if id, ok := n.(*ast.Ident); ok && id.Name == name {
			found = true
		}

		return true
	})

	return found
}

// loopExits lists what leaves the `for { select {…} }` loop of fn: return, goto, break/continue to a label outside,
// panic and os.Exit calls - except returns inside `if !ok {…}` where ok is the second value of the receive of the
// comm clause they are in (the channel has been closed: the watcher is being shut down). Function literals are not
// entered (a return there leaves the literal). Second result: the number of such loops found.
func loopExits(file *ast.File, fn *ast.FuncDecl) ([]string, int) {
	exits := []string{}
	loops := 0

	var inClause func(n ast.Node, closedFlag string, clause string)

	inClause = func(n ast.Node, closedFlag string, clause string) {
		ast.Inspect(n, func(m ast.Node) bool {
			switch t := m.(type) {
			case *ast.FuncLit:
				return false
			case *ast.IfStmt:
				if un, ok := t.Cond.(*ast.UnaryExpr); ok && un.Op == token.NOT && closedFlag != "" &&
					exprName(un.X) == closedFlag && t.Init == nil {
					// the shut-down branch; its else branch (if any) is ordinary code
					if t.Else != nil {
						inClause(t.Else, closedFlag, clause)
					}

					return false
				}
			case *ast.ReturnStmt:
				exits = append(exits, "return in "+clause)
			case *ast.BranchStmt:
				if t.Tok == token.GOTO || (t.Label != nil && (t.Tok == token.BREAK || t.Tok == token.CONTINUE)) {
					exits = append(exits, t.Tok.String()+" "+exprName(t.Label)+" in "+clause)
				}
			case *ast.CallExpr:
				if name := exprName(t.Fun); name == "panic" || name == "os.Exit" || name == "runtime.Goexit" {
					exits = append(exits, name+" in "+clause)
				}
			}

			return true
		})
	}

	ast.Inspect(fn.Body, func(n ast.Node) bool {
		loop, ok := n.(*ast.ForStmt)
		if !ok {
			return true
		}

		for _, st := range loop.Body.List {
			sel, ok := st.(*ast.SelectStmt)
			if !ok {
				continue
			}

			loops++

			for _, cl := range sel.Body.List {
				cc, ok := cl.(*ast.CommClause)
				if !ok {
					continue
				}

				flag, clause := "", "default"

				if as, ok := cc.Comm.(*ast.AssignStmt); ok && len(as.Rhs) == 1 {
					clause = "case " + exprName(as.Rhs[0])
					if len(as.Lhs) == 2 {
						flag = exprName(as.Lhs[1])
					}
				} else if es, ok := cc.Comm.(*ast.ExprStmt); ok {
					clause = "case " + exprName(es.X)
				}

				for _, body := range cc.Body {
					inClause(body, flag, clause)
				}
			}
		}

		return false
	})

	return exits, loops
}

func main() {
	repo := flag.String("repo", "/repo", "root of the heimdall source tree")
	flag.Parse()

	var out strings.Builder

	out.WriteString("-- generated by /verif/extract/guards from the working tree of /repo; do not edit\n")
	out.WriteString("namespace Heimdall.Gen.LoaderGuards\n\n")

	// --- watcher
	wf := parse(filepath.Join(*repo, "internal/watcher/watcher_impl.go"))

	fire := funcDecl(wf, "fireOnChange")
	if fire == nil {
		die("internal/watcher/watcher_impl.go: func fireOnChange not found")
	}

	var listeners []fact

	ast.Inspect(fire.Body, func(n ast.Node) bool {
		if gs, ok := n.(*ast.GoStmt); ok {
			listeners = append(listeners, fact{exprName(gs.Call.Fun), calleeRecovers(wf, gs.Call.Fun)})
		}

		return true
	})

	if len(listeners) == 0 {
		die("internal/watcher/watcher_impl.go: fireOnChange starts no goroutine (unrecognised shape)")
	}

	out.WriteString(leanFacts("listenerGoroutines",
		"the goroutines `watcher.fireOnChange` starts per listener, and whether what they run begins with a deferred recover",
		listeners))

	// --- watcher: what leaves the event loop
	start := funcDecl(wf, "startWatching")
	if start == nil {
		die("internal/watcher/watcher_impl.go: func startWatching not found")
	}

	exits, loops := loopExits(wf, start)
	if loops != 1 {
		die("internal/watcher/watcher_impl.go: startWatching has %d for loops around a select (unrecognised shape)", loops)
	}

	out.WriteString(leanNames("watcherLoopExits",
		"the statements of `watcher.startWatching` that leave its `for { select { … } }` loop, other than the returns "+
			"guarded by the \"channel closed\" check of the receive they belong to", exits))

	// --- file_system provider
	pf := parse(filepath.Join(*repo, "internal/rules/provider/filesystem/provider.go"))

	watch := funcDecl(pf, "watchFiles")
	if watch == nil {
		die("internal/rules/provider/filesystem/provider.go: func watchFiles not found")
	}

	loopRecovers := false // a recover at the top of watchFiles itself would end the loop: not a guard

	var calls []fact

	var visit func(n ast.Node, guarded bool)

	visit = func(n ast.Node, guarded bool) {
		ast.Inspect(n, func(m ast.Node) bool {
			switch t := m.(type) {
			case *ast.FuncLit:
				if m != n {
					visit(t.Body, guarded || recovers(t.Body))

					return false
				}
			case *ast.CallExpr:
				handsEvent := false

				for _, a := range t.Args {
					if usesIdent(a, "evt") {
						handsEvent = true
					}
				}

				if sel, ok := t.Fun.(*ast.SelectorExpr); ok && handsEvent && exprName(sel.X) == "p" {
					calls = append(calls, fact{exprName(t.Fun), guarded || calleeRecovers(pf, t.Fun)})
				}
			}

			return true
		})
	}

	visit(watch.Body, loopRecovers)

	if len(calls) == 0 {
		die("internal/rules/provider/filesystem/provider.go: watchFiles hands the event to nobody (unrecognised shape)")
	}

	out.WriteString(leanFacts("providerEventCalls",
		"the methods `Provider.watchFiles` hands a file system event to, and whether they run below a recover", calls))

	// --- rule set processor
	rf := parse(filepath.Join(*repo, "internal/rules/ruleset_processor_impl.go"))

	load := funcDecl(rf, "loadRules")
	if load == nil {
		die("internal/rules/ruleset_processor_impl.go: func loadRules not found")
	}

	fmt.Fprintf(&out, "/-- `ruleSetProcessor.loadRules` begins with a deferred recover -/\ndef processorRecovers : Bool := %v\n\n",
		recovers(load.Body))

	// --- HTTP services
	for _, svc := range []string{"decision", "proxy"} {
		sf := parse(filepath.Join(*repo, "internal/handler", svc, "service.go"))

		ns := funcDecl(sf, "newService")
		if ns == nil {
			die("internal/handler/%s/service.go: func newService not found", svc)
		}

		var chain []string

		ast.Inspect(ns.Body, func(n ast.Node) bool {
			if call, ok := n.(*ast.CallExpr); ok && exprName(call.Fun) == "alice.New" && chain == nil {
				for _, a := range call.Args {
					chain = append(chain, exprName(a))
				}
			}

			return true
		})

		if len(chain) == 0 {
			die("internal/handler/%s/service.go: no alice.New(...) middleware chain found", svc)
		}

		out.WriteString(leanNames(svc+"Chain", "the middleware chain of the "+svc+" service, outermost first", chain))
	}

	// --- gRPC service
	gf := parse(filepath.Join(*repo, "internal/handler/envoyextauth/grpcv3/service.go"))

	gs := funcDecl(gf, "newService")
	if gs == nil {
		die("internal/handler/envoyextauth/grpcv3/service.go: func newService not found")
	}

	var unary []string

	ast.Inspect(gs.Body, func(n ast.Node) bool {
		as, ok := n.(*ast.AssignStmt)
		if !ok || len(as.Lhs) != 1 || len(as.Rhs) != 1 || exprName(as.Lhs[0]) != "unaryInterceptors" || unary != nil {
			return true
		}

		if lit, ok := as.Rhs[0].(*ast.CompositeLit); ok {
			for _, e := range lit.Elts {
				unary = append(unary, exprName(e))
			}
		}

		return true
	})

	if len(unary) == 0 {
		die("internal/handler/envoyextauth/grpcv3/service.go: unaryInterceptors literal not found")
	}

	out.WriteString(leanNames("grpcUnaryInterceptors",
		"the unary interceptors of the Envoy gRPC service at the head of the chain, outermost first", unary))

	out.WriteString("end Heimdall.Gen.LoaderGuards\n")
	fmt.Print(out.String())
}
