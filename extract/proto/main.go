// Command proto extracts the synchronisation protocol of a Go type's methods: the ordered events
// (lock / unlock / deferred unlock / field reads and writes / clone / calls on the receiver / returns)
// of every method of the given receiver type in one file, and prints them as a Lean constant.
// It fails closed: any statement shape it does not understand aborts the extraction.
//
// To keep the extracted protocol stable under behaviour-preserving refactorings
//   - fields can be given role names by their type (-roles "K=sync.Mutex,index=*radixtree.Tree"): a field whose type
//     starts with the given text gets the name $<role> if it is the only such field,
//   - the local variable bound to the result of a call on a shared field (x := r.index.Clone()) is printed as
//     $<method> in lower case ($clone), whatever it is called in the source,
//   - calls of unexported methods of the same receiver type whose bodies (transitively) touch a mutex or a shared
//     field are inlined at the call site (parameters replaced by the printed arguments); a return inside such a
//     helper which is not its last statement is reported as event "inline-return" (not understood by the model),
//   - a deferred mutex operation inside an inlined helper is printed as that operation at the end of the helper,
//   - a return whose last result is the identifier nil is printed as "return nil", any other as "return nonnil".
//
// What is reported beyond the events of the methods, so that the obligations see every access to shared state:
//   - "pass $field callee": a shared field handed to a function or method as an argument (the callee may keep or
//     change what it is given); "alias x $field": a shared field stored in a local variable,
//   - the list <name>Foreign: exported methods other than the entry methods (-methods) that touch shared state,
//     helper methods touching shared state that are referenced outside the entry methods and those helpers, and
//     functions of the package (all files of the directory) that are not methods of the type but select one of
//     its shared field names.
package main

import (
	"flag"
	"fmt"
	"go/ast"
	"go/parser"
	"go/token"
	"os"
	"path/filepath"
	"sort"
	"strings"
)

type extractor struct {
	recv    string
	closure int
	inline  int
	events  []string
	mutexes map[string]bool
	fields  map[string]bool
	alias   map[string]string        // local name -> canonical text
	roles   map[string]string        // field name -> printed name
	decls   map[string]*ast.FuncDecl // methods of the receiver type
	touches map[string]bool          // methods whose bodies reach a mutex or a shared field

	lastOfInlined map[*ast.ReturnStmt]bool
	deferred      []string // deferred mutex operations of the helper being inlined
}

func (e *extractor) fname(n string) string {
	if r, ok := e.roles[n]; ok {
		return r
	}

	return n
}

func (e *extractor) str(x ast.Expr) string {
	switch v := x.(type) {
	case *ast.Ident:
		if a, ok := e.alias[v.Name]; ok {
			return a
		}

		return v.Name
	case *ast.SelectorExpr:
		return e.str(v.X) + "." + v.Sel.Name
	case *ast.CallExpr:
		return e.str(v.Fun) + "(..)"
	default:
		return "_"
	}
}

func (e *extractor) emit(format string, args ...any) {
	ev := fmt.Sprintf(format, args...)
	if n := len(e.events); n > 0 && strings.HasPrefix(ev, "read ") && e.events[n-1] == ev {
		return
	}

	e.events = append(e.events, ev)
}

func fail(fset *token.FileSet, n ast.Node, msg string) {
	fmt.Fprintf(os.Stderr, "proto: %s: %s\n", fset.Position(n.Pos()), msg)
	os.Exit(3)
}

// selector chain r.a.b -> ["a","b"] if rooted at the receiver
func (e *extractor) chain(x ast.Expr) ([]string, bool) {
	var parts []string

	for {
		switch v := x.(type) {
		case *ast.SelectorExpr:
			parts = append([]string{v.Sel.Name}, parts...)
			x = v.X
		case *ast.Ident:
			if v.Name == e.recv {
				return parts, true
			}

			return nil, false
		default:
			return nil, false
		}
	}
}

func exprString(x ast.Expr) string {
	switch v := x.(type) {
	case *ast.Ident:
		return v.Name
	case *ast.SelectorExpr:
		return exprString(v.X) + "." + v.Sel.Name
	case *ast.CallExpr:
		return exprString(v.Fun) + "(..)"
	default:
		return "_"
	}
}

func (e *extractor) expr(fset *token.FileSet, x ast.Expr) {
	if x == nil {
		return
	}

	switch v := x.(type) {
	case *ast.CallExpr:
		if parts, ok := e.chain(v.Fun); ok {
			switch {
			case len(parts) == 2 && e.mutexes[parts[0]]:
				e.emit("%s %s", strings.ToLower(parts[1]), e.fname(parts[0]))

				return
			case len(parts) == 2 && e.fields[parts[0]]:
				for _, a := range v.Args {
					e.expr(fset, a)
					e.passed(fset, a, e.fname(parts[0])+"."+parts[1])
				}

				e.emit("read %s", e.fname(parts[0]))
				e.emit("call %s.%s", e.fname(parts[0]), parts[1])

				return
			case len(parts) == 1 && e.touches[parts[0]]:
				e.inlineCall(fset, v, e.decls[parts[0]])

				return
			case len(parts) == 1:
				for _, a := range v.Args[min(1, len(v.Args)):] {
					e.expr(fset, a)
					e.passed(fset, a, parts[0])
				}

				arg0 := "-"
				if len(v.Args) > 0 {
					arg0 = e.str(v.Args[0])
					if _, rooted := e.chain(v.Args[0]); rooted {
						e.expr(fset, v.Args[0])
					}
				}

				e.emit("call %s %s", parts[0], arg0)

				return
			}
		}

		e.expr(fset, v.Fun)

		for _, a := range v.Args {
			e.expr(fset, a)
			e.passed(fset, a, e.str(v.Fun))
		}
	case *ast.SelectorExpr:
		if parts, ok := e.chain(v); ok && len(parts) >= 1 {
			if e.mutexes[parts[0]] {
				fail(fset, v, "mutex used outside a lock call")
			}

			e.emit("read %s", e.fname(parts[0]))

			return
		}

		e.expr(fset, v.X)
	case *ast.FuncLit:
		// closures run inside the calling statement (filters, matchers); a parameter may shadow the receiver
		saved := e.recv

		for _, p := range v.Type.Params.List {
			for _, n := range p.Names {
				if n.Name == e.recv {
					e.recv = "\x00shadowed"
				}
			}
		}

		e.closure++
		e.block(fset, v.Body.List)
		e.closure--
		e.recv = saved
	case *ast.BinaryExpr:
		e.expr(fset, v.X)
		e.expr(fset, v.Y)
	case *ast.UnaryExpr:
		e.expr(fset, v.X)
	case *ast.ParenExpr:
		e.expr(fset, v.X)
	case *ast.IndexExpr:
		e.expr(fset, v.X)
		e.expr(fset, v.Index)
	case *ast.IndexListExpr:
		e.expr(fset, v.X)
	case *ast.StarExpr:
		e.expr(fset, v.X)
	case *ast.CompositeLit:
		for _, el := range v.Elts {
			e.expr(fset, el)
		}
	case *ast.KeyValueExpr:
		e.expr(fset, v.Value)
	case *ast.TypeAssertExpr:
		e.expr(fset, v.X)
	case *ast.Ident, *ast.BasicLit, *ast.ArrayType, *ast.MapType, *ast.FuncType, *ast.StructType, *ast.InterfaceType:
	default:
		fail(fset, x, fmt.Sprintf("unsupported expression %T", x))
	}
}

func (e *extractor) block(fset *token.FileSet, stmts []ast.Stmt) {
	for _, s := range stmts {
		e.stmt(fset, s)
	}
}

func (e *extractor) stmt(fset *token.FileSet, s ast.Stmt) {
	switch v := s.(type) {
	case *ast.ExprStmt:
		e.expr(fset, v.X)
	case *ast.DeferStmt:
		if parts, ok := e.chain(v.Call.Fun); ok && len(parts) == 2 && e.mutexes[parts[0]] {
			if e.inline > 0 {
				// runs when the helper returns, i.e. at the end of the inlined body
				e.deferred = append(e.deferred, fmt.Sprintf("%s %s", strings.ToLower(parts[1]), e.fname(parts[0])))
			} else {
				e.emit("defer %s %s", strings.ToLower(parts[1]), e.fname(parts[0]))
			}

			return
		}

		fail(fset, v, "unsupported defer")
	case *ast.AssignStmt:
		for _, r := range v.Rhs {
			e.expr(fset, r)
		}

		for _, l := range v.Lhs {
			if parts, ok := e.chain(l); ok && len(parts) >= 1 {
				src := "-"
				if len(v.Rhs) == 1 {
					src = e.str(v.Rhs[0])
				}

				e.emit("write %s %s", e.fname(parts[0]), src)
			} else if id, isIdent := l.(*ast.Ident); isIdent && len(v.Rhs) == 1 {
				if parts, rooted := e.chain(v.Rhs[0]); rooted && len(parts) == 1 && e.fields[parts[0]] && id.Name != "_" {
					e.emit("alias %s %s", id.Name, e.fname(parts[0]))
				}

				if call, isCall := v.Rhs[0].(*ast.CallExpr); isCall {
					if parts, rooted := e.chain(call.Fun); rooted && len(parts) == 2 && e.fields[parts[0]] {
						if len(v.Lhs) == 1 && id.Name != "_" {
							e.alias[id.Name] = "$" + strings.ToLower(parts[1])
						}

						e.emit("bind %s %s.%s", e.str(id), e.fname(parts[0]), parts[1])
					}
				}
			}
		}
	case *ast.IfStmt:
		if v.Init != nil {
			e.stmt(fset, v.Init)
		}

		e.expr(fset, v.Cond)
		e.emit("if {")
		e.block(fset, v.Body.List)
		e.emit("}")

		if v.Else != nil {
			e.emit("else {")

			switch el := v.Else.(type) {
			case *ast.BlockStmt:
				e.block(fset, el.List)
			default:
				e.stmt(fset, el)
			}

			e.emit("}")
		}
	case *ast.ReturnStmt:
		kind := "return"

		for _, r := range v.Results {
			e.expr(fset, r)
		}

		if n := len(v.Results); n > 0 {
			if id, ok := v.Results[n-1].(*ast.Ident); ok {
				if id.Name == "nil" {
					kind = "return nil"
				} else {
					kind = "return nonnil"
				}
			} else {
				kind = "return nonnil"
			}
		}

		switch {
		case e.closure > 0:
		case e.inline > 0:
			if !e.lastOfInlined[v] {
				e.emit("inline-return")
			}
		default:
			e.emit("%s", kind)
		}
	case *ast.RangeStmt:
		e.expr(fset, v.X)
		e.emit("loop {")
		e.block(fset, v.Body.List)
		e.emit("}")
	case *ast.ForStmt:
		if v.Init != nil {
			e.stmt(fset, v.Init)
		}

		e.expr(fset, v.Cond)
		e.emit("loop {")
		e.block(fset, v.Body.List)

		if v.Post != nil {
			e.stmt(fset, v.Post)
		}

		e.emit("}")
	case *ast.BlockStmt:
		e.block(fset, v.List)
	case *ast.DeclStmt, *ast.EmptyStmt:
	case *ast.IncDecStmt:
		e.expr(fset, v.X)
	case *ast.BranchStmt:
		e.emit("%s", v.Tok.String())
	case *ast.SwitchStmt:
		if v.Init != nil {
			e.stmt(fset, v.Init)
		}

		e.expr(fset, v.Tag)
		e.emit("switch {")

		for _, c := range v.Body.List {
			cc := c.(*ast.CaseClause) //nolint:forcetypeassert
			for _, x := range cc.List {
				e.expr(fset, x)
			}

			e.emit("case {")
			e.block(fset, cc.Body)
			e.emit("}")
		}

		e.emit("}")
	case *ast.GoStmt:
		e.emit("go {")
		e.expr(fset, v.Call)
		e.emit("}")
	default:
		fail(fset, s, fmt.Sprintf("unsupported statement %T", s))
	}
}

// inlineCall emits the events of the body of a helper method of the receiver at the call site
func (e *extractor) inlineCall(fset *token.FileSet, call *ast.CallExpr, fd *ast.FuncDecl) {
	if e.inline > 8 {
		fail(fset, call, "helper methods nested too deeply (recursion?)")
	}

	// arguments are evaluated at the call site
	var params []string

	for _, p := range fd.Type.Params.List {
		for _, n := range p.Names {
			params = append(params, n.Name)
		}
	}

	if len(params) != len(call.Args) {
		fail(fset, call, "helper method with variadic or unnamed parameters")
	}

	sub := &extractor{
		recv: "_", mutexes: e.mutexes, fields: e.fields, roles: e.roles, decls: e.decls, touches: e.touches,
		alias: map[string]string{}, inline: e.inline + 1, closure: e.closure, lastOfInlined: e.lastOfInlined,
	}

	if len(fd.Recv.List[0].Names) == 1 {
		sub.recv = fd.Recv.List[0].Names[0].Name
	}

	for i, a := range call.Args {
		e.expr(fset, a)
		sub.alias[params[i]] = e.str(a)
	}

	if n := len(fd.Body.List); n > 0 {
		if ret, ok := fd.Body.List[n-1].(*ast.ReturnStmt); ok {
			e.lastOfInlined[ret] = true
		}
	}

	sub.events = e.events
	sub.block(fset, fd.Body.List)

	for i := len(sub.deferred) - 1; i >= 0; i-- {
		sub.emit("%s", sub.deferred[i])
	}

	e.events = sub.events
}

// passed reports a shared field handed to somebody else as an argument
func (e *extractor) passed(_ *token.FileSet, a ast.Expr, callee string) {
	if u, ok := a.(*ast.UnaryExpr); ok {
		a = u.X
	}

	if parts, rooted := e.chain(a); rooted && len(parts) == 1 && e.fields[parts[0]] {
		if callee == "len" || callee == "cap" {
			return
		}

		e.emit("pass %s %s", e.fname(parts[0]), callee)
	}

	if id, ok := a.(*ast.Ident); ok && id.Name == e.recv && e.recv != "_" {
		e.emit("pass receiver %s", callee)
	}
}

// rooted reports whether the body mentions a mutex or shared field of its receiver, or calls a method that does
func computeTouches(decls map[string]*ast.FuncDecl, mutexes, fields map[string]bool) map[string]bool {
	direct := map[string]bool{}
	calls := map[string][]string{}

	for name, fd := range decls {
		recv := ""
		if len(fd.Recv.List[0].Names) == 1 {
			recv = fd.Recv.List[0].Names[0].Name
		}

		ast.Inspect(fd.Body, func(n ast.Node) bool {
			sel, ok := n.(*ast.SelectorExpr)
			if !ok {
				return true
			}

			if id, isIdent := sel.X.(*ast.Ident); isIdent && id.Name == recv && recv != "" {
				switch {
				case mutexes[sel.Sel.Name] || fields[sel.Sel.Name]:
					direct[name] = true
				case decls[sel.Sel.Name] != nil:
					calls[name] = append(calls[name], sel.Sel.Name)
				}
			}

			return true
		})
	}

	for changed := true; changed; {
		changed = false

		for name, cs := range calls {
			if direct[name] {
				continue
			}

			for _, c := range cs {
				if direct[c] {
					direct[name] = true
					changed = true
				}
			}
		}
	}

	return direct
}

// foreignAccess lists every way shared state of the type can be reached other than through the entry methods
func foreignAccess(fset *token.FileSet, file, typ string, decls map[string]*ast.FuncDecl, touches, entry,
	mutexes, fields map[string]bool,
) []string {
	var res []string

	for name := range decls {
		if touches[name] && !entry[name] && ast.IsExported(name) {
			res = append(res, "exported method "+name+" touches shared state")
		}
	}

	dir := filepath.Dir(file)

	ents, err := os.ReadDir(dir)
	if err != nil {
		return append(res, "cannot read "+dir)
	}

	// field names other struct types of the package declare as well: a selector with such a name in a function that
	// never mentions the type is taken to be about the other struct (no type information is used)
	var files []*ast.File

	declaredElsewhere := map[string]bool{}

	for _, ent := range ents {
		n := ent.Name()
		if ent.IsDir() || !strings.HasSuffix(n, ".go") || strings.HasSuffix(n, "_test.go") ||
			strings.HasPrefix(n, "zz_verif_") {
			continue
		}

		f, err := parser.ParseFile(fset, filepath.Join(dir, n), nil, 0)
		if err != nil {
			res = append(res, "cannot parse "+n)

			continue
		}

		files = append(files, f)

		ast.Inspect(f, func(nd ast.Node) bool {
			ts, ok := nd.(*ast.TypeSpec)
			if !ok || ts.Name.Name == typ {
				return true
			}

			if st, isStruct := ts.Type.(*ast.StructType); isStruct {
				for _, fld := range st.Fields.List {
					for _, nm := range fld.Names {
						declaredElsewhere[nm.Name] = true
					}
				}
			}

			return true
		})
	}

	for _, f := range files {
		n := filepath.Base(fset.Position(f.Pos()).Filename)

		for _, d := range f.Decls {
			fd, ok := d.(*ast.FuncDecl)
			if !ok || fd.Body == nil {
				continue
			}

			own := false

			if fd.Recv != nil && len(fd.Recv.List) == 1 {
				rt := fd.Recv.List[0].Type
				if st, isStar := rt.(*ast.StarExpr); isStar {
					rt = st.X
				}

				if id, isIdent := rt.(*ast.Ident); isIdent && id.Name == typ {
					own = true
				}
			}

			inside := own && (entry[fd.Name.Name] || touches[fd.Name.Name])
			mentions := false

			ast.Inspect(fd, func(nd ast.Node) bool {
				if id, ok := nd.(*ast.Ident); ok && id.Name == typ {
					mentions = true
				}

				return true
			})

			ast.Inspect(fd.Body, func(nd ast.Node) bool {
				sel, ok := nd.(*ast.SelectorExpr)
				if !ok {
					return true
				}

				switch {
				case !own && (mutexes[sel.Sel.Name] || fields[sel.Sel.Name]) &&
					(mentions || !declaredElsewhere[sel.Sel.Name]):
					res = append(res, fmt.Sprintf("field %s selected in %s (%s)", sel.Sel.Name, fd.Name.Name, n))
				case !inside && touches[sel.Sel.Name] && !entry[sel.Sel.Name] && decls[sel.Sel.Name] != nil:
					res = append(res, fmt.Sprintf("helper %s referenced in %s (%s)", sel.Sel.Name, fd.Name.Name, n))
				}

				return true
			})
		}
	}

	sort.Strings(res)

	return res
}

func typeString(x ast.Expr) string {
	switch v := x.(type) {
	case *ast.Ident:
		return v.Name
	case *ast.SelectorExpr:
		return typeString(v.X) + "." + v.Sel.Name
	case *ast.StarExpr:
		return "*" + typeString(v.X)
	case *ast.ArrayType:
		return "[]" + typeString(v.Elt)
	case *ast.IndexExpr:
		return typeString(v.X) + "[" + typeString(v.Index) + "]"
	case *ast.MapType:
		return "map[" + typeString(v.Key) + "]" + typeString(v.Value)
	default:
		return "_"
	}
}

func leanString(s string) string {
	return "\"" + strings.ReplaceAll(strings.ReplaceAll(s, "\\", "\\\\"), "\"", "\\\"") + "\""
}

func main() {
	file := flag.String("file", "", "Go source file")
	typ := flag.String("type", "", "receiver type")
	name := flag.String("name", "protocol", "Lean constant name")
	ns := flag.String("namespace", "Heimdall.Gen", "Lean namespace")
	methodsFlag := flag.String("methods", "", "comma separated method names (default: all)")
	rolesFlag := flag.String("roles", "", "comma separated role=type-prefix pairs: a field whose type starts with "+
		"the prefix is printed as $role if it is the only such field")
	flag.Parse()

	fset := token.NewFileSet()

	f, err := parser.ParseFile(fset, *file, nil, 0)
	if err != nil {
		fmt.Fprintln(os.Stderr, "proto:", err)
		os.Exit(3)
	}

	mutexes := map[string]bool{}
	fields := map[string]bool{}
	ftypes := map[string]string{}
	found := false

	ast.Inspect(f, func(n ast.Node) bool {
		ts, ok := n.(*ast.TypeSpec)
		if !ok || ts.Name.Name != *typ {
			return true
		}

		st, ok := ts.Type.(*ast.StructType)
		if !ok {
			return true
		}

		found = true

		for _, fld := range st.Fields.List {
			t := typeString(fld.Type)
			for _, nm := range fld.Names {
				ftypes[nm.Name] = t

				if strings.HasSuffix(t, "Mutex") {
					mutexes[nm.Name] = true
				} else {
					fields[nm.Name] = true
				}
			}
		}

		return false
	})

	if !found {
		fmt.Fprintf(os.Stderr, "proto: struct type %s not found in %s\n", *typ, *file)
		os.Exit(3)
	}

	want := map[string]bool{}
	for _, m := range strings.Split(*methodsFlag, ",") {
		if m != "" {
			want[m] = true
		}
	}

	roles := map[string]string{}

	for _, rp := range strings.Split(*rolesFlag, ",") {
		role, prefix, ok := strings.Cut(rp, "=")
		if !ok {
			continue
		}

		var hits []string

		for nm, t := range ftypes {
			if strings.HasPrefix(t, prefix) {
				hits = append(hits, nm)
			}
		}

		if len(hits) == 1 {
			roles[hits[0]] = "$" + role
		}
	}

	decls := map[string]*ast.FuncDecl{}

	for _, d := range f.Decls {
		fd, ok := d.(*ast.FuncDecl)
		if !ok || fd.Recv == nil || len(fd.Recv.List) != 1 || fd.Body == nil {
			continue
		}

		rt := fd.Recv.List[0].Type
		if st, isStar := rt.(*ast.StarExpr); isStar {
			rt = st.X
		}

		if id, isIdent := rt.(*ast.Ident); isIdent && id.Name == *typ {
			decls[fd.Name.Name] = fd
		}
	}

	touches := computeTouches(decls, mutexes, fields)

	type method struct {
		name   string
		events []string
	}

	var methods []method

	for _, d := range f.Decls {
		fd, ok := d.(*ast.FuncDecl)
		if !ok || fd.Recv == nil || len(fd.Recv.List) != 1 || fd.Body == nil {
			continue
		}

		rt := fd.Recv.List[0].Type
		if st, isStar := rt.(*ast.StarExpr); isStar {
			rt = st.X
		}

		if id, isIdent := rt.(*ast.Ident); !isIdent || id.Name != *typ {
			continue
		}

		if len(want) > 0 && !want[fd.Name.Name] {
			continue
		}

		recv := "_"
		if len(fd.Recv.List[0].Names) == 1 {
			recv = fd.Recv.List[0].Names[0].Name
		}

		e := &extractor{
			recv: recv, mutexes: mutexes, fields: fields, alias: map[string]string{}, roles: roles, decls: decls,
			touches: touches, lastOfInlined: map[*ast.ReturnStmt]bool{},
		}
		e.block(fset, fd.Body.List)
		methods = append(methods, method{fd.Name.Name, e.events})
	}

	sort.Slice(methods, func(i, j int) bool { return methods[i].name < methods[j].name })

	foreign := foreignAccess(fset, *file, *typ, decls, touches, want, mutexes, fields)

	var mnames []string
	for m := range mutexes {
		if r, ok := roles[m]; ok {
			m = r
		}

		mnames = append(mnames, m)
	}

	sort.Strings(mnames)

	fmt.Printf("-- generated by /verif/extract/proto from %s (type %s); do not edit\n", *file, *typ)
	fmt.Printf("namespace %s\n\n", *ns)
	fmt.Printf("def %sMutexes : List String := [%s]\n\n", *name, strings.Join(mapStr(mnames, leanString), ", "))
	fmt.Printf("def %sForeign : List String := [%s]\n\n", *name, strings.Join(mapStr(foreign, leanString), ", "))
	fmt.Printf("def %s : List (String × List String) := [\n", *name)

	for i, m := range methods {
		fmt.Printf("  (%s, [\n", leanString(m.name))

		for j, ev := range m.events {
			sep := ","
			if j == len(m.events)-1 {
				sep = ""
			}

			fmt.Printf("    %s%s\n", leanString(ev), sep)
		}

		sep := ","
		if i == len(methods)-1 {
			sep = ""
		}

		fmt.Printf("  ])%s\n", sep)
	}

	fmt.Printf("]\n\nend %s\n", *ns)
}

func mapStr(l []string, f func(string) string) []string {
	res := make([]string, len(l))
	for i, s := range l {
		res[i] = f(s)
	}

	return res
}
