// Command proto extracts the synchronisation protocol of a Go type's methods: the ordered events
// (lock / unlock / deferred unlock / field reads and writes / clone / calls on the receiver / returns)
// of every method of the given receiver type in one file, and prints them as a Lean constant.
// It fails closed: any statement shape it does not understand aborts the extraction.
package main

import (
	"flag"
	"fmt"
	"go/ast"
	"go/parser"
	"go/token"
	"os"
	"sort"
	"strings"
)

type extractor struct {
	recv    string
	closure int
	events  []string
	mutexes map[string]bool
	fields  map[string]bool
}

func (e *extractor) emit(format string, args ...any) {
	ev := fmt.Sprintf(format, args...)
	if n := len(e.events); n > 0 && strings.HasPrefix(ev, "read ") && e.events[n-1] == ev {
		return
	}

	e.events = append(e.events, ev)
}

func fail(fset *token.FileSet, n ast.Node, msg string) {
	fmt.Fprintf(os.Stderr, "proto: %s: %s\n", fset.Position(n.Pos()), msg)
	os.Exit(3)
}

// selector chain r.a.b -> ["a","b"] if rooted at the receiver
func (e *extractor) chain(x ast.Expr) ([]string, bool) {
	var parts []string

	for {
		switch v := x.(type) {
		case *ast.SelectorExpr:
			parts = append([]string{v.Sel.Name}, parts...)
			x = v.X
		case *ast.Ident:
			if v.Name == e.recv {
				return parts, true
			}

			return nil, false
		default:
			return nil, false
		}
	}
}

func exprString(x ast.Expr) string {
	switch v := x.(type) {
	case *ast.Ident:
		return v.Name
	case *ast.SelectorExpr:
		return exprString(v.X) + "." + v.Sel.Name
	case *ast.CallExpr:
		return exprString(v.Fun) + "(..)"
	default:
		return "_"
	}
}

func (e *extractor) expr(fset *token.FileSet, x ast.Expr) {
	if x == nil {
		return
	}

	switch v := x.(type) {
	case *ast.CallExpr:
		if parts, ok := e.chain(v.Fun); ok {
			switch {
			case len(parts) == 2 && e.mutexes[parts[0]]:
				e.emit("%s %s", strings.ToLower(parts[1]), parts[0])

				return
			case len(parts) == 2 && e.fields[parts[0]]:
				for _, a := range v.Args {
					e.expr(fset, a)
				}

				e.emit("read %s", parts[0])
				e.emit("call %s.%s", parts[0], parts[1])

				return
			case len(parts) == 1:
				for _, a := range v.Args[min(1, len(v.Args)):] {
					e.expr(fset, a)
				}

				arg0 := "-"
				if len(v.Args) > 0 {
					arg0 = exprString(v.Args[0])
					if _, rooted := e.chain(v.Args[0]); rooted {
						e.expr(fset, v.Args[0])
					}
				}

				e.emit("call %s %s", parts[0], arg0)

				return
			}
		}

		e.expr(fset, v.Fun)

		for _, a := range v.Args {
			e.expr(fset, a)
		}
	case *ast.SelectorExpr:
		if parts, ok := e.chain(v); ok && len(parts) >= 1 {
			if e.mutexes[parts[0]] {
				fail(fset, v, "mutex used outside a lock call")
			}

			e.emit("read %s", parts[0])

			return
		}

		e.expr(fset, v.X)
	case *ast.FuncLit:
		// closures run inside the calling statement (filters, matchers); a parameter may shadow the receiver
		saved := e.recv

		for _, p := range v.Type.Params.List {
			for _, n := range p.Names {
				if n.Name == e.recv {
					e.recv = "\x00shadowed"
				}
			}
		}

		e.closure++
		e.block(fset, v.Body.List)
		e.closure--
		e.recv = saved
	case *ast.BinaryExpr:
		e.expr(fset, v.X)
		e.expr(fset, v.Y)
	case *ast.UnaryExpr:
		e.expr(fset, v.X)
	case *ast.ParenExpr:
		e.expr(fset, v.X)
	case *ast.IndexExpr:
		e.expr(fset, v.X)
		e.expr(fset, v.Index)
	case *ast.IndexListExpr:
		e.expr(fset, v.X)
	case *ast.StarExpr:
		e.expr(fset, v.X)
	case *ast.CompositeLit:
		for _, el := range v.Elts {
			e.expr(fset, el)
		}
	case *ast.KeyValueExpr:
		e.expr(fset, v.Value)
	case *ast.TypeAssertExpr:
		e.expr(fset, v.X)
	case *ast.Ident, *ast.BasicLit, *ast.ArrayType, *ast.MapType, *ast.FuncType, *ast.StructType, *ast.InterfaceType:
	default:
		fail(fset, x, fmt.Sprintf("unsupported expression %T", x))
	}
}

func (e *extractor) block(fset *token.FileSet, stmts []ast.Stmt) {
	for _, s := range stmts {
		e.stmt(fset, s)
	}
}

func (e *extractor) stmt(fset *token.FileSet, s ast.Stmt) {
	switch v := s.(type) {
	case *ast.ExprStmt:
		e.expr(fset, v.X)
	case *ast.DeferStmt:
		if parts, ok := e.chain(v.Call.Fun); ok && len(parts) == 2 && e.mutexes[parts[0]] {
			e.emit("defer %s %s", strings.ToLower(parts[1]), parts[0])

			return
		}

		fail(fset, v, "unsupported defer")
	case *ast.AssignStmt:
		for _, r := range v.Rhs {
			e.expr(fset, r)
		}

		for _, l := range v.Lhs {
			if parts, ok := e.chain(l); ok && len(parts) >= 1 {
				src := "-"
				if len(v.Rhs) == 1 {
					src = exprString(v.Rhs[0])
				}

				e.emit("write %s %s", parts[0], src)
			} else if id, isIdent := l.(*ast.Ident); isIdent && len(v.Rhs) == 1 {
				if call, isCall := v.Rhs[0].(*ast.CallExpr); isCall {
					if parts, rooted := e.chain(call.Fun); rooted && len(parts) == 2 && e.fields[parts[0]] {
						e.emit("bind %s %s.%s", id.Name, parts[0], parts[1])
					}
				}
			}
		}
	case *ast.IfStmt:
		if v.Init != nil {
			e.stmt(fset, v.Init)
		}

		e.expr(fset, v.Cond)
		e.emit("if {")
		e.block(fset, v.Body.List)
		e.emit("}")

		if v.Else != nil {
			e.emit("else {")

			switch el := v.Else.(type) {
			case *ast.BlockStmt:
				e.block(fset, el.List)
			default:
				e.stmt(fset, el)
			}

			e.emit("}")
		}
	case *ast.ReturnStmt:
		kind := "return"

		for _, r := range v.Results {
			e.expr(fset, r)
		}

		if n := len(v.Results); n > 0 {
			if id, ok := v.Results[n-1].(*ast.Ident); ok {
				kind = "return " + id.Name
			} else {
				kind = "return value"
			}
		}

		if e.closure == 0 {
			e.emit("%s", kind)
		}
	case *ast.RangeStmt:
		e.expr(fset, v.X)
		e.emit("loop {")
		e.block(fset, v.Body.List)
		e.emit("}")
	case *ast.ForStmt:
		if v.Init != nil {
			e.stmt(fset, v.Init)
		}

		e.expr(fset, v.Cond)
		e.emit("loop {")
		e.block(fset, v.Body.List)

		if v.Post != nil {
			e.stmt(fset, v.Post)
		}

		e.emit("}")
	case *ast.BlockStmt:
		e.block(fset, v.List)
	case *ast.DeclStmt, *ast.EmptyStmt:
	case *ast.IncDecStmt:
		e.expr(fset, v.X)
	case *ast.BranchStmt:
		e.emit("%s", v.Tok.String())
	case *ast.SwitchStmt:
		if v.Init != nil {
			e.stmt(fset, v.Init)
		}

		e.expr(fset, v.Tag)
		e.emit("switch {")

		for _, c := range v.Body.List {
			cc := c.(*ast.CaseClause) //nolint:forcetypeassert
			for _, x := range cc.List {
				e.expr(fset, x)
			}

			e.emit("case {")
			e.block(fset, cc.Body)
			e.emit("}")
		}

		e.emit("}")
	case *ast.GoStmt:
		e.emit("go {")
		e.expr(fset, v.Call)
		e.emit("}")
	default:
		fail(fset, s, fmt.Sprintf("unsupported statement %T", s))
	}
}

func leanString(s string) string {
	return "\"" + strings.ReplaceAll(strings.ReplaceAll(s, "\\", "\\\\"), "\"", "\\\"") + "\""
}

func main() {
	file := flag.String("file", "", "Go source file")
	typ := flag.String("type", "", "receiver type")
	name := flag.String("name", "protocol", "Lean constant name")
	ns := flag.String("namespace", "Heimdall.Gen", "Lean namespace")
	methodsFlag := flag.String("methods", "", "comma separated method names (default: all)")
	flag.Parse()

	fset := token.NewFileSet()

	f, err := parser.ParseFile(fset, *file, nil, 0)
	if err != nil {
		fmt.Fprintln(os.Stderr, "proto:", err)
		os.Exit(3)
	}

	mutexes := map[string]bool{}
	fields := map[string]bool{}
	found := false

	ast.Inspect(f, func(n ast.Node) bool {
		ts, ok := n.(*ast.TypeSpec)
		if !ok || ts.Name.Name != *typ {
			return true
		}

		st, ok := ts.Type.(*ast.StructType)
		if !ok {
			return true
		}

		found = true

		for _, fld := range st.Fields.List {
			t := exprString(fld.Type)
			for _, nm := range fld.Names {
				if strings.HasSuffix(t, "Mutex") {
					mutexes[nm.Name] = true
				} else {
					fields[nm.Name] = true
				}
			}
		}

		return false
	})

	if !found {
		fmt.Fprintf(os.Stderr, "proto: struct type %s not found in %s\n", *typ, *file)
		os.Exit(3)
	}

	want := map[string]bool{}
	for _, m := range strings.Split(*methodsFlag, ",") {
		if m != "" {
			want[m] = true
		}
	}

	type method struct {
		name   string
		events []string
	}

	var methods []method

	for _, d := range f.Decls {
		fd, ok := d.(*ast.FuncDecl)
		if !ok || fd.Recv == nil || len(fd.Recv.List) != 1 || fd.Body == nil {
			continue
		}

		rt := fd.Recv.List[0].Type
		if st, isStar := rt.(*ast.StarExpr); isStar {
			rt = st.X
		}

		if id, isIdent := rt.(*ast.Ident); !isIdent || id.Name != *typ {
			continue
		}

		if len(want) > 0 && !want[fd.Name.Name] {
			continue
		}

		recv := "_"
		if len(fd.Recv.List[0].Names) == 1 {
			recv = fd.Recv.List[0].Names[0].Name
		}

		e := &extractor{recv: recv, mutexes: mutexes, fields: fields}
		e.block(fset, fd.Body.List)
		methods = append(methods, method{fd.Name.Name, e.events})
	}

	sort.Slice(methods, func(i, j int) bool { return methods[i].name < methods[j].name })

	var mnames []string
	for m := range mutexes {
		mnames = append(mnames, m)
	}

	sort.Strings(mnames)

	fmt.Printf("-- generated by /verif/extract/proto from %s (type %s); do not edit\n", *file, *typ)
	fmt.Printf("namespace %s\n\n", *ns)
	fmt.Printf("def %sMutexes : List String := [%s]\n\n", *name, strings.Join(mapStr(mnames, leanString), ", "))
	fmt.Printf("def %s : List (String × List String) := [\n", *name)

	for i, m := range methods {
		fmt.Printf("  (%s, [\n", leanString(m.name))

		for j, ev := range m.events {
			sep := ","
			if j == len(m.events)-1 {
				sep = ""
			}

			fmt.Printf("    %s%s\n", leanString(ev), sep)
		}

		sep := ","
		if i == len(methods)-1 {
			sep = ""
		}

		fmt.Printf("  ])%s\n", sep)
	}

	fmt.Printf("]\n\nend %s\n", *ns)
}

func mapStr(l []string, f func(string) string) []string {
	res := make([]string, len(l))
	for i, s := range l {
		res[i] = f(s)
	}

	return res
}
