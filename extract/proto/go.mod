module verif/extract/proto

go 1.23
