// Command reqview extracts from the current heimdall sources the facts the C09 theorems are stated about and
// prints them as a Lean module (HeimdallModel/Gen/ReqView.lean). Only go/ast, go/parser, go/token and the
// standard library are used. The extractor fails closed: a shape it does not recognise aborts with exit code 2.
//
// Facts:
//   - stripSet   the literals of `untrustedHeader` (trustedproxy/handler.go), and the proof of shape that New deletes
//     exactly these names when `!trustedProxies.Contains(...)`
//   - readSet    every literal header name passed to `<expr>.Header.Get|Values(...)` in the non-test files of
//     requestcontext/, proxy/ and decision/ (canonicalised)
//   - mentioned  every string literal of these packages that looks like a forwarding header name
//     (`Forwarded`, `X-...`), wherever it occurs
//   - dynamicReaders  functions reading request headers under a computed name (these serve mechanisms)
//   - outDel/outSet   literals passed to `proxyReq.Out.Header.Del|Set` in proxy/request_context.go
//   - chainDecision/chainProxy   the middleware constructors of the alice chain of both services, in order
package main

import (
	"fmt"
	"go/ast"
	"go/parser"
	"go/token"
	"net/textproto"
	"os"
	"path/filepath"
	"regexp"
	"sort"
	"strconv"
	"strings"
)

func die(format string, args ...any) {
	fmt.Fprintf(os.Stderr, "reqview extractor: "+format+"\n", args...)
	os.Exit(2)
}

func parseDir(fset *token.FileSet, dir string) map[string]*ast.File {
	entries, err := os.ReadDir(dir)
	if err != nil {
		die("cannot read %s: %v", dir, err)
	}

	files := map[string]*ast.File{}

	for _, e := range entries {
		name := e.Name()
		if e.IsDir() || !strings.HasSuffix(name, ".go") || strings.HasSuffix(name, "_test.go") ||
			strings.HasPrefix(name, "zz_verif_") {
			continue
		}

		f, err := parser.ParseFile(fset, filepath.Join(dir, name), nil, 0)
		if err != nil {
			die("cannot parse %s: %v", name, err)
		}

		files[name] = f
	}

	if len(files) == 0 {
		die("no Go files in %s", dir)
	}

	return files
}

func strLit(e ast.Expr) (string, bool) {
	bl, ok := e.(*ast.BasicLit)
	if !ok || bl.Kind != token.STRING {
		return "", false
	}

	s, err := strconv.Unquote(bl.Value)
	if err != nil {
		return "", false
	}

	return s, true
}

// isHeaderSel reports whether e has the shape <expr>.Header (a field selection, not the method call Header()).
func isHeaderSel(e ast.Expr) bool {
	sel, ok := e.(*ast.SelectorExpr)

	return ok && sel.Sel.Name == "Header"
}

func exprString(e ast.Expr) string {
	switch v := e.(type) {
	case *ast.Ident:
		return v.Name
	case *ast.SelectorExpr:
		return exprString(v.X) + "." + v.Sel.Name
	case *ast.CallExpr:
		return exprString(v.Fun) + "()"
	case *ast.StarExpr:
		return "*" + exprString(v.X)
	}

	return "?"
}

var headerLike = regexp.MustCompile(`^(?i:forwarded|x-[a-z0-9]+(-[a-z0-9]+)*)$`)

type facts struct {
	strip, read, mentioned, dynamic, outDel, outSet, chainDecision, chainProxy []string
}

func uniqSorted(in []string) []string {
	m := map[string]bool{}
	for _, s := range in {
		m[s] = true
	}

	out := make([]string, 0, len(m))
	for s := range m {
		out = append(out, s)
	}

	sort.Strings(out)

	return out
}

func extractStrip(repo string, fc *facts) {
	var rawStrip []string

	fset := token.NewFileSet()
	path := filepath.Join(repo, "internal/handler/middleware/http/trustedproxy/handler.go")

	f, err := parser.ParseFile(fset, path, nil, 0)
	if err != nil {
		die("cannot parse %s: %v", path, err)
	}

	found := false

	for _, d := range f.Decls {
		gd, ok := d.(*ast.GenDecl)
		if !ok || gd.Tok != token.VAR {
			continue
		}

		for _, sp := range gd.Specs {
			vs := sp.(*ast.ValueSpec) //nolint:forcetypeassert
			for i, n := range vs.Names {
				if n.Name != "untrustedHeader" || i >= len(vs.Values) {
					continue
				}

				cl, ok := vs.Values[i].(*ast.CompositeLit)
				if !ok {
					die("untrustedHeader is not a composite literal")
				}

				for _, el := range cl.Elts {
					s, ok := strLit(el)
					if !ok {
						die("untrustedHeader contains a non-literal element")
					}

					rawStrip = append(rawStrip, s)
					fc.strip = append(fc.strip, textproto.CanonicalMIMEHeaderKey(s))
				}

				found = true
			}
		}
	}

	if !found {
		die("var untrustedHeader not found in trustedproxy/handler.go")
	}

	// shape: if !<x>.Contains(...) { for _, name := range untrustedHeader { <y>.Header.Del(name) } }
	shape := false

	ast.Inspect(f, func(n ast.Node) bool {
		ifs, ok := n.(*ast.IfStmt)
		if !ok || ifs.Else != nil {
			return true
		}

		un, ok := ifs.Cond.(*ast.UnaryExpr)
		if !ok || un.Op != token.NOT {
			return true
		}

		call, ok := un.X.(*ast.CallExpr)
		if !ok {
			return true
		}

		if sel, ok := call.Fun.(*ast.SelectorExpr); !ok || sel.Sel.Name != "Contains" {
			return true
		}

		for _, st := range ifs.Body.List {
			rs, ok := st.(*ast.RangeStmt)
			if !ok {
				continue
			}

			if id, ok := rs.X.(*ast.Ident); !ok || id.Name != "untrustedHeader" {
				continue
			}

			val, ok := rs.Value.(*ast.Ident)
			if !ok {
				continue
			}

			for _, bs := range rs.Body.List {
				es, ok := bs.(*ast.ExprStmt)
				if !ok {
					continue
				}

				c, ok := es.X.(*ast.CallExpr)
				if !ok {
					continue
				}

				// delete(<y>.Header, name): works for names written in canonical form only
				if id, ok := c.Fun.(*ast.Ident); ok && id.Name == "delete" && len(c.Args) == 2 && isHeaderSel(c.Args[0]) {
					if arg, ok := c.Args[1].(*ast.Ident); ok && arg.Name == val.Name {
						for _, s := range rawStrip {
							if textproto.CanonicalMIMEHeaderKey(s) != s {
								die("untrustedHeader is deleted with delete(), but %q is not in canonical form", s)
							}
						}

						shape = true
					}

					continue
				}

				if len(c.Args) != 1 {
					continue
				}

				sel, ok := c.Fun.(*ast.SelectorExpr)
				if !ok || sel.Sel.Name != "Del" || !isHeaderSel(sel.X) {
					continue
				}

				if arg, ok := c.Args[0].(*ast.Ident); ok && arg.Name == val.Name {
					shape = true
				}
			}
		}

		return true
	})

	if !shape {
		die("trustedproxy.New: `if !….Contains(…) { for _, n := range untrustedHeader { ….Header.Del(n) } }` not found")
	}
}

func extractReads(repo string, fc *facts) {
	for _, pkg := range []string{"requestcontext", "proxy", "decision"} {
		fset := token.NewFileSet()
		dir := filepath.Join(repo, "internal/handler", pkg)

		for fname, f := range parseDir(fset, dir) {
			for _, d := range f.Decls {
				fn, isFn := d.(*ast.FuncDecl)
				fnName := "<toplevel>"

				if isFn {
					fnName = fn.Name.Name
				}

				ast.Inspect(d, func(n ast.Node) bool {
					switch v := n.(type) {
					case *ast.BasicLit:
						if s, ok := strLit(v); ok && headerLike.MatchString(s) {
							fc.mentioned = append(fc.mentioned, textproto.CanonicalMIMEHeaderKey(s))
						}
					case *ast.CallExpr:
						sel, ok := v.Fun.(*ast.SelectorExpr)
						if !ok || !isHeaderSel(sel.X) {
							return true
						}

						out := strings.HasSuffix(exprString(sel.X), ".Out.Header")

						switch sel.Sel.Name {
						case "Get", "Values":
							if len(v.Args) != 1 {
								die("%s/%s: %s with %d arguments", pkg, fname, sel.Sel.Name, len(v.Args))
							}

							if s, ok := strLit(v.Args[0]); ok {
								fc.read = append(fc.read, textproto.CanonicalMIMEHeaderKey(s))
							} else {
								fc.dynamic = append(fc.dynamic, pkg+"."+fnName)
							}
						case "Del", "Set", "Add":
							if !out && pkg != "proxy" {
								die("%s/%s: request header modified outside of the proxy's rewriteRequest: %s.%s",
									pkg, fname, exprString(sel.X), sel.Sel.Name)
							}

							if len(v.Args) < 1 {
								die("%s/%s: %s without arguments", pkg, fname, sel.Sel.Name)
							}

							if s, ok := strLit(v.Args[0]); ok {
								if sel.Sel.Name == "Del" {
									fc.outDel = append(fc.outDel, textproto.CanonicalMIMEHeaderKey(s))
								} else {
									fc.outSet = append(fc.outSet, textproto.CanonicalMIMEHeaderKey(s))
								}
							}
						case "Clone", "Write", "WriteSubset":
						default:
							die("%s/%s: unknown use of a request header map: %s.%s", pkg, fname, exprString(sel.X),
								sel.Sel.Name)
						}
					case *ast.IndexExpr:
						if isHeaderSel(v.X) {
							if s, ok := strLit(v.Index); ok {
								fc.read = append(fc.read, textproto.CanonicalMIMEHeaderKey(s))
							} else {
								fc.dynamic = append(fc.dynamic, pkg+"."+fnName)
							}
						}
					case *ast.RangeStmt:
						if isHeaderSel(v.X) {
							fc.dynamic = append(fc.dynamic, pkg+"."+fnName)
						}
					}

					return true
				})
			}
		}
	}
}

func extractChain(repo, pkg string) []string {
	fset := token.NewFileSet()
	path := filepath.Join(repo, "internal/handler", pkg, "service.go")

	f, err := parser.ParseFile(fset, path, nil, 0)
	if err != nil {
		die("cannot parse %s: %v", path, err)
	}

	var chain []string

	ast.Inspect(f, func(n ast.Node) bool {
		call, ok := n.(*ast.CallExpr)
		if !ok {
			return true
		}

		if exprString(call.Fun) != "alice.New" {
			return true
		}

		for _, a := range call.Args {
			switch v := a.(type) {
			case *ast.CallExpr:
				chain = append(chain, exprString(v.Fun))
			default:
				chain = append(chain, exprString(a))
			}
		}

		return false
	})

	if len(chain) == 0 {
		die("%s/service.go: alice.New(...) chain not found", pkg)
	}

	return chain
}

func leanList(xs []string) string {
	q := make([]string, len(xs))
	for i, x := range xs {
		q[i] = strconv.Quote(x)
	}

	return "[" + strings.Join(q, ", ") + "]"
}

func main() {
	if len(os.Args) != 2 {
		die("usage: reqview <repo>")
	}

	repo := os.Args[1]
	fc := &facts{}

	extractStrip(repo, fc)
	extractReads(repo, fc)
	fc.chainDecision = extractChain(repo, "decision")
	fc.chainProxy = extractChain(repo, "proxy")

	fmt.Println("/-! GENERATED by extract/reqview from the current heimdall sources on every check run — do not edit. -/")
	fmt.Println("namespace Heimdall.Gen.ReqView")
	fmt.Println()
	fmt.Println("/-- `untrustedHeader` of trustedproxy/handler.go, in source order -/")
	fmt.Println("def stripSet : List String := " + leanList(fc.strip))
	fmt.Println("/-- literal names passed to `….Header.Get/Values` in requestcontext/, proxy/, decision/ (sorted) -/")
	fmt.Println("def readSet : List String := " + leanList(uniqSorted(fc.read)))
	fmt.Println("/-- every string literal of these packages that looks like a forwarding header name (sorted) -/")
	fmt.Println("def mentioned : List String := " + leanList(uniqSorted(fc.mentioned)))
	fmt.Println("/-- functions reading request headers under a computed name (sorted) -/")
	fmt.Println("def dynamicReaders : List String := " + leanList(uniqSorted(fc.dynamic)))
	fmt.Println("/-- `proxyReq.Out.Header.Del` literals of rewriteRequest (sorted) -/")
	fmt.Println("def outDel : List String := " + leanList(uniqSorted(fc.outDel)))
	fmt.Println("/-- `proxyReq.Out.Header.Set` literals of rewriteRequest (sorted) -/")
	fmt.Println("def outSet : List String := " + leanList(uniqSorted(fc.outSet)))
	fmt.Println("/-- middleware constructors of the decision service, in chain order -/")
	fmt.Println("def chainDecision : List String := " + leanList(fc.chainDecision))
	fmt.Println("/-- middleware constructors of the proxy service, in chain order -/")
	fmt.Println("def chainProxy : List String := " + leanList(fc.chainProxy))
	fmt.Println()
	fmt.Println("end Heimdall.Gen.ReqView")
}
