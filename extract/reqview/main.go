// Command reqview extracts from the current heimdall sources the few C09 facts that cannot be observed by running the
// code, and prints them as JSON. Only go/ast, go/parser, go/token and the standard library are used.
//
// Which headers the trusted-proxy middleware deletes, which headers influence the request view and the forwarded
// headers sent upstream are NOT extracted here any more: they are measured on the running services by
// tools/props/c09.py (behavioural facts), so that code motion, helper functions, constants, inverted conditions or
// slices helpers cannot break the tie. What remains syntactic is a deliberately shape-independent inventory:
//
//   - mentioned  every string literal (including the values of constants) of the packages trustedproxy,
//     requestcontext, proxy and decision that looks like a forwarding header name (`Forwarded`, `X-...`), wherever and
//     however it is used — the candidates whose influence is then measured;
//   - astReads   every such name that is passed (as literal or as package constant) to a method called Get or Values
//     or used as a map index — names the code evidently asks a header map for;
//   - dynamicReaders  functions that ask a `….Header` map for a name that is not a literal or a package constant
//     (informational: these serve mechanisms, `Header(name)` / `Headers()`).
//
// The extractor fails closed only where it cannot read or parse the packages.
package main

import (
	"encoding/json"
	"fmt"
	"go/ast"
	"go/parser"
	"go/token"
	"net/textproto"
	"os"
	"path/filepath"
	"regexp"
	"sort"
	"strconv"
	"strings"
)

func die(format string, args ...any) {
	fmt.Fprintf(os.Stderr, "reqview extractor: "+format+"\n", args...)
	os.Exit(2)
}

func parseDir(fset *token.FileSet, dir string) map[string]*ast.File {
	entries, err := os.ReadDir(dir)
	if err != nil {
		die("cannot read %s: %v", dir, err)
	}

	files := map[string]*ast.File{}

	for _, e := range entries {
		name := e.Name()
		if e.IsDir() || !strings.HasSuffix(name, ".go") || strings.HasSuffix(name, "_test.go") ||
			strings.HasPrefix(name, "zz_verif_") {
			continue
		}

		f, err := parser.ParseFile(fset, filepath.Join(dir, name), nil, 0)
		if err != nil {
			die("cannot parse %s: %v", name, err)
		}

		files[name] = f
	}

	if len(files) == 0 {
		die("no Go files in %s", dir)
	}

	return files
}

func strLit(e ast.Expr) (string, bool) {
	bl, ok := e.(*ast.BasicLit)
	if !ok || bl.Kind != token.STRING {
		return "", false
	}

	s, err := strconv.Unquote(bl.Value)
	if err != nil {
		return "", false
	}

	return s, true
}

// constTable maps the package level string constants (and string variables initialised once with a literal) of a
// package to their values.
func constTable(files map[string]*ast.File) map[string]string {
	tab := map[string]string{}

	for _, f := range files {
		for _, d := range f.Decls {
			gd, ok := d.(*ast.GenDecl)
			if !ok || (gd.Tok != token.CONST && gd.Tok != token.VAR) {
				continue
			}

			for _, sp := range gd.Specs {
				vs, ok := sp.(*ast.ValueSpec)
				if !ok {
					continue
				}

				for i, n := range vs.Names {
					if i < len(vs.Values) {
						if s, ok := strLit(vs.Values[i]); ok {
							tab[n.Name] = s
						}
					}
				}
			}
		}
	}

	return tab
}

// resolve gives the string an expression denotes if it is a literal or a package constant
func resolve(e ast.Expr, consts map[string]string) (string, bool) {
	if s, ok := strLit(e); ok {
		return s, true
	}

	if p, ok := e.(*ast.ParenExpr); ok {
		return resolve(p.X, consts)
	}

	if id, ok := e.(*ast.Ident); ok {
		s, ok := consts[id.Name]

		return s, ok
	}

	return "", false
}

func isHeaderSel(e ast.Expr) bool {
	sel, ok := e.(*ast.SelectorExpr)

	return ok && sel.Sel.Name == "Header"
}

var headerLike = regexp.MustCompile(`^(?i:forwarded|x-[a-z0-9]+(-[a-z0-9]+)*)$`)

func uniqSorted(in []string) []string {
	m := map[string]bool{}
	for _, s := range in {
		m[s] = true
	}

	out := make([]string, 0, len(m))
	for s := range m {
		out = append(out, s)
	}

	sort.Strings(out)

	return out
}

func main() {
	if len(os.Args) != 2 {
		die("usage: reqview <repo>")
	}

	repo := os.Args[1]

	var mentioned, reads, dynamic []string

	for _, pkg := range []string{
		"internal/handler/middleware/http/trustedproxy", "internal/handler/requestcontext", "internal/handler/proxy",
		"internal/handler/decision",
	} {
		fset := token.NewFileSet()
		files := parseDir(fset, filepath.Join(repo, pkg))
		consts := constTable(files)
		short := filepath.Base(pkg)

		for _, f := range files {
			for _, d := range f.Decls {
				fnName := "<toplevel>"
				if fn, ok := d.(*ast.FuncDecl); ok {
					fnName = fn.Name.Name
				}

				ast.Inspect(d, func(n ast.Node) bool {
					switch v := n.(type) {
					case *ast.BasicLit:
						if s, ok := strLit(v); ok && headerLike.MatchString(s) {
							mentioned = append(mentioned, textproto.CanonicalMIMEHeaderKey(s))
						}
					case *ast.CallExpr:
						sel, ok := v.Fun.(*ast.SelectorExpr)
						if !ok || (sel.Sel.Name != "Get" && sel.Sel.Name != "Values") || len(v.Args) != 1 {
							return true
						}

						if s, ok := resolve(v.Args[0], consts); ok {
							if headerLike.MatchString(s) {
								reads = append(reads, textproto.CanonicalMIMEHeaderKey(s))
							}
						} else if isHeaderSel(sel.X) {
							dynamic = append(dynamic, short+"."+fnName)
						}
					case *ast.IndexExpr:
						if s, ok := resolve(v.Index, consts); ok {
							if headerLike.MatchString(s) {
								reads = append(reads, textproto.CanonicalMIMEHeaderKey(s))
							}
						} else if isHeaderSel(v.X) {
							dynamic = append(dynamic, short+"."+fnName)
						}
					case *ast.RangeStmt:
						if isHeaderSel(v.X) {
							dynamic = append(dynamic, short+"."+fnName)
						}
					}

					return true
				})
			}
		}
	}

	out, _ := json.Marshal(map[string][]string{
		"mentioned": uniqSorted(mentioned), "astReads": uniqSorted(reads), "dynamicReaders": uniqSorted(dynamic),
	})
	fmt.Println(string(out))
}
