module verif/extract/reqview

go 1.23
