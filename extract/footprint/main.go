// Command footprint extracts, with go/ssa, the write footprint of every mechanism method of heimdall.
//
// For every named type of the packages authenticators / authorizers / contextualizers / finalizers / errorhandlers
// that implements the package's mechanism interface, and for the mechanism factory, it analyses every interface
// method (Execute, WithConfig, ID, IsFallbackOnErrorAllowed / ContinueOnError, Create*) together with everything
// the method can call inside the heimdall module (static calls, interface calls resolved over all heimdall types
// implementing the interface, calls of function values resolved over all address-taken heimdall functions with
// an identical signature) and reports
//
//	writes  : stores / map updates / deletes / appends / copies / channel sends whose target address is derived
//	          from the receiver (grouped by the receiver field the address was reached through),
//	globals : the same for addresses derived from package level variables,
//	ext     : calls of functions outside the module that get receiver- or global-derived mutable memory as
//	          *receiver* (their effect is unknown to the analysis; the Lean side compares them with the list of
//	          library calls trusted to be free of unsynchronised writes),
//	reads   : the receiver fields the method closure reads.
//
// Values derived from the other parameters (the per-request heimdall.Context, the subject, the rule level
// configuration map) are per-call data and are not reported.
//
// The analysis is a flow-insensitive, field-insensitive taint analysis of "which parameter / free variable / global
// can this reference be derived from" (objects allocated locally are told apart per allocation site, together with
// what is stored into them) with function summaries iterated to a fixpoint. The effects of a closure on what it
// has captured are accounted where the closure is created (the captured variables' roots are known there); a
// closure that is called through a reference found in shared memory has its captured state counted as part of that
// memory. The analysis over-approximates; whatever it cannot resolve is reported under the root "unknown" (the Lean
// obligation demands that list to be empty as well).
//
// Output: the Lean module HeimdallModel.Gen.Footprints on stdout, details (with source positions) as JSON in the
// file given by -json. Exit code != 0 (fail closed) if a package, interface or method cannot be found.
package main

import (
	"encoding/json"
	"flag"
	"fmt"
	"go/token"
	"go/types"
	"os"
	"sort"
	"strings"

	"golang.org/x/tools/go/packages"
	"golang.org/x/tools/go/ssa"
	"golang.org/x/tools/go/ssa/ssautil"
)

const module = "github.com/dadrus/heimdall/"

// ---------------------------------------------------------------------------------------------------------------
// roots

type rootSet map[string]struct{}

func (r rootSet) add(k string) bool {
	if _, ok := r[k]; ok {
		return false
	}

	r[k] = struct{}{}

	return true
}

func (r rootSet) addAll(o rootSet) bool {
	ch := false

	for k := range o {
		if r.add(k) {
			ch = true
		}
	}

	return ch
}

func (r rootSet) has(k string) bool { _, ok := r[k]; return ok }

func (r rootSet) sorted() []string {
	res := make([]string, 0, len(r))
	for k := range r {
		res = append(res, k)
	}

	sort.Strings(res)

	return res
}

const (
	fresh   = "fresh"
	unknown = "unknown"
)

// shared roots are everything but "fresh" and what a closure has captured ("c:<root>": the effects of a closure on
// its captured variables are accounted where the closure is created, with the roots the variables have there)
func isShared(k string) bool { return !isFreshKey(k) && !strings.HasPrefix(k, "c:") }

// "fresh" (new memory obtained from a call) or "fresh#<n>" (allocation site n of the function being analysed)
func isFreshKey(k string) bool { return k == fresh || strings.HasPrefix(k, "fresh#") }

func captured(r rootSet) rootSet {
	res := rootSet{}

	for k := range r {
		if isFreshKey(k) || strings.HasPrefix(k, "c:") {
			res.add(k)
		} else {
			res.add("c:" + k)
		}
	}

	return res
}

func uncaptured(r rootSet) rootSet {
	res := rootSet{}
	for k := range r {
		res.add(strings.TrimPrefix(k, "c:"))
	}

	return res
}

// the memory a closure value stored under these roots keeps alive: captured variables of a closure that is
// itself reachable from shared memory are shared memory
func storedClosure(r rootSet) rootSet {
	res := rootSet{}

	for k := range r {
		if isShared(k) {
			res.add(k)
		}
	}

	return res
}

// effect of a function in terms of its own parameters ("p<i>", "p<i>.<field>"), free variables ("f<i>"),
// globals ("g:<pkg>.<name>") and "unknown"
type effect struct {
	Root string `json:"root"`
	Kind string `json:"kind"` // store | mapupdate | delete | append | copy | send | ext | sync
	What string `json:"what"` // function and access path, or the external function's name
	Pos  string `json:"pos"`
}

type summary struct {
	effects map[effect]struct{}
	ret     rootSet
	reads   map[string]struct{} // fields of parameter 0 read while parameter 0 is the receiver itself
}

func newSummary() *summary {
	return &summary{effects: map[effect]struct{}{}, ret: rootSet{}, reads: map[string]struct{}{}}
}

// ---------------------------------------------------------------------------------------------------------------

type analyzer struct {
	prog      *ssa.Program
	fset      *token.FileSet
	sums      map[*ssa.Function]*summary
	changed   bool
	reach     map[*ssa.Function]bool
	order     []*ssa.Function
	named     []*types.Named // all named non-interface types of the module (no mocks)
	implCache map[*types.Interface][]types.Type
	addrTaken []*ssa.Function
	notes     map[string]struct{}
	// free variables of closures that are the cell of the creating method's receiver ("a" captured by a closure)
	selfFree map[*ssa.Function]map[int]bool
}

func homePkg(fn *ssa.Function) string {
	for fn != nil {
		if fn.Pkg != nil {
			return fn.Pkg.Pkg.Path()
		}

		if o := fn.Origin(); o != nil {
			fn = o

			continue
		}

		if obj := fn.Object(); obj != nil && obj.Pkg() != nil {
			return obj.Pkg().Path()
		}

		if fn.Parent() != nil {
			fn = fn.Parent()

			continue
		}

		return ""
	}

	return ""
}

func inModule(path string) bool {
	return strings.HasPrefix(path, module) && !strings.Contains(path, "/mocks") && !strings.Contains(path, "/zzverif")
}

// analysable: has a body and belongs to the module, or is a synthetic wrapper (bound method, thunk, instantiation)
func (a *analyzer) analysable(fn *ssa.Function) bool {
	if fn == nil || len(fn.Blocks) == 0 {
		return false
	}

	p := homePkg(fn)

	return inModule(p) || (p == "" && fn.Synthetic != "")
}

func pointerLike(t types.Type) bool { return pointerLikeRec(t, 0) }

func pointerLikeRec(t types.Type, depth int) bool {
	if depth > 6 {
		return true
	}

	switch u := t.Underlying().(type) {
	case *types.Basic:
		return u.Kind() == types.UnsafePointer
	case *types.Pointer, *types.Map, *types.Slice, *types.Chan, *types.Signature, *types.Interface:
		return true
	case *types.Struct:
		for i := 0; i < u.NumFields(); i++ {
			if pointerLikeRec(u.Field(i).Type(), depth+1) {
				return true
			}
		}

		return false
	case *types.Array:
		return pointerLikeRec(u.Elem(), depth+1)
	case *types.Tuple:
		for i := 0; i < u.Len(); i++ {
			if pointerLikeRec(u.At(i).Type(), depth+1) {
				return true
			}
		}

		return false
	default:
		return true
	}
}

func (a *analyzer) pos(p token.Pos) string {
	if !p.IsValid() {
		return ""
	}

	pp := a.fset.Position(p)
	f := pp.Filename

	if i := strings.Index(f, "/internal/"); i >= 0 {
		f = f[i+1:]
	}

	return fmt.Sprintf("%s:%d", f, pp.Line)
}

func (a *analyzer) summaryOf(fn *ssa.Function) *summary {
	s, ok := a.sums[fn]
	if !ok {
		s = newSummary()
		a.sums[fn] = s
	}

	if !a.reach[fn] {
		a.reach[fn] = true
		a.order = append(a.order, fn)
		a.changed = true
	}

	return s
}

// heimdall types implementing an interface
func (a *analyzer) implementers(iface *types.Interface) []types.Type {
	if r, ok := a.implCache[iface]; ok {
		return r
	}

	var res []types.Type

	for _, n := range a.named {
		if types.Implements(n, iface) {
			res = append(res, n)
		} else if p := types.NewPointer(n); types.Implements(p, iface) {
			res = append(res, p)
		}
	}

	a.implCache[iface] = res

	return res
}

// ---------------------------------------------------------------------------------------------------------------
// trusted knowledge about functions outside the module

// functions outside the module that write through one of their arguments (index in Call.Args, receiver first)
var mutators = map[string][]int{
	"encoding/json.Unmarshal":            {1},
	"(*encoding/json.Decoder).Decode":    {1},
	"maps.Copy":                          {0},
	"sort.Strings":                       {0},
	"sort.Slice":                         {0},
	"sort.SliceStable":                   {0},
	"sort.Sort":                          {0},
	"sort.Stable":                        {0},
	"slices.Sort":                        {0},
	"slices.SortFunc":                    {0},
	"slices.SortStableFunc":              {0},
	"slices.Reverse":                     {0},
	"io.ReadFull":                        {1},
	"gopkg.in/yaml.v3.Unmarshal":         {1},
	"github.com/goccy/go-json.Unmarshal": {1},
	"(*github.com/go-viper/mapstructure/v2.Decoder).Decode": {},
}

// functions outside the module whose result is new memory, not derived from the arguments
var freshResult = map[string]bool{
	"maps.Clone": true, "slices.Clone": true, "bytes.Clone": true, "strings.Split": true, "strings.Fields": true,
	"encoding/json.Marshal": true, "io.ReadAll": true, "net/url.ParseQuery": true, "net/url.Parse": true,
	"crypto/sha256.New": true, "errors.New": true, "fmt.Errorf": true, "fmt.Sprintf": true,
	"net/http.NewRequestWithContext": true, "strings.NewReader": true, "bytes.NewBufferString": true,
	"bytes.NewBuffer": true, "bytes.NewReader": true,
}

func extName(fn *ssa.Function) string {
	if o := fn.Origin(); o != nil {
		fn = o
	}

	if fn.Signature.Recv() != nil {
		rt := fn.Signature.Recv().Type()
		ptr := ""

		if p, ok := rt.(*types.Pointer); ok {
			rt = p.Elem()
			ptr = "*"
		}

		if n, ok := rt.(*types.Named); ok && n.Obj().Pkg() != nil {
			return "(" + ptr + n.Obj().Pkg().Path() + "." + n.Obj().Name() + ")." + fn.Name()
		}

		return "(" + ptr + rt.String() + ")." + fn.Name()
	}

	if fn.Pkg != nil {
		return fn.Pkg.Pkg.Path() + "." + fn.Name()
	}

	if obj := fn.Object(); obj != nil && obj.Pkg() != nil {
		return obj.Pkg().Path() + "." + fn.Name()
	}

	return fn.String()
}

// ---------------------------------------------------------------------------------------------------------------
// per function analysis

type fstate struct {
	a    *analyzer
	fn   *ssa.Function
	sum  *summary
	val  map[ssa.Value]rootSet
	self map[ssa.Value]bool // value is parameter 0 itself
	// local variable holding parameter 0 (a receiver captured by a closure is spilled), and local variables into
	// which something else is stored
	selfCell, otherCell map[ssa.Value]bool
	content             map[string]rootSet // what has been stored into each local allocation site
	site                map[ssa.Value]string
	ch                  bool
}

func (s *fstate) freshKey(v ssa.Value) string {
	k, ok := s.site[v]
	if !ok {
		k = fmt.Sprintf("fresh#%d", len(s.site))
		s.site[v] = k
	}

	return k
}

func (s *fstate) contentOf(k string) rootSet {
	c, ok := s.content[k]
	if !ok {
		c = rootSet{}
		s.content[k] = c
	}

	return c
}

// everything reachable from r through local allocation sites, local sites collapsed to "fresh"
func (s *fstate) reach(r rootSet) rootSet {
	res := rootSet{}
	seen := map[string]bool{}

	var walk func(k string)

	walk = func(k string) {
		if seen[k] {
			return
		}

		seen[k] = true

		if isFreshKey(k) {
			res.add(fresh)

			for c := range s.contentOf(k) {
				walk(c)
			}

			return
		}

		if strings.HasPrefix(k, "c:fresh") {
			res.add(fresh)

			return
		}

		res.add(k)
	}

	for k := range r {
		walk(k)
	}

	return res
}

func (s *fstate) roots(v ssa.Value) rootSet {
	switch x := v.(type) {
	case *ssa.Const, *ssa.Function, *ssa.Builtin:
		return rootSet{}
	case *ssa.Global:
		p := ""
		if x.Pkg != nil {
			p = x.Pkg.Pkg.Path()
		}

		return rootSet{"g:" + p + "." + x.Name(): {}}
	}

	r, ok := s.val[v]
	if !ok {
		r = rootSet{}
		s.val[v] = r
	}

	return r
}

func (s *fstate) set(v ssa.Value, r rootSet) {
	if !pointerLike(v.Type()) {
		return
	}

	cur := s.roots(v)
	if cur.addAll(r) {
		s.ch = true
	}
}

// what is obtained by dereferencing / indexing / iterating a reference with roots r
func (s *fstate) deref(r rootSet) rootSet {
	res := rootSet{}

	for k := range r {
		res.add(k)

		if isFreshKey(k) {
			res.addAll(s.contentOf(k))
		}
	}

	return res
}

func (s *fstate) stored(target rootSet, v ssa.Value) {
	if !pointerLike(v.Type()) {
		return
	}

	for k := range target {
		if isFreshKey(k) {
			if s.contentOf(k).addAll(s.roots(v)) {
				s.ch = true
			}
		}
	}
}

func (s *fstate) effectOn(target rootSet, kind, what string, pos token.Pos) {
	for k := range target {
		if !isShared(k) {
			continue
		}

		e := effect{Root: k, Kind: kind, What: what, Pos: s.a.pos(pos)}
		if _, ok := s.sum.effects[e]; !ok {
			s.sum.effects[e] = struct{}{}
			s.a.changed = true
		}
	}
}

func fieldName(t types.Type, idx int) string {
	if p, ok := t.Underlying().(*types.Pointer); ok {
		t = p.Elem()
	}

	if st, ok := t.Underlying().(*types.Struct); ok && idx < st.NumFields() {
		return st.Field(idx).Name()
	}

	return fmt.Sprintf("#%d", idx)
}

// access path of an address, for the report only
func (s *fstate) path(v ssa.Value, depth int) string {
	if depth > 8 {
		return "…"
	}

	switch x := v.(type) {
	case *ssa.Parameter:
		return x.Name()
	case *ssa.FreeVar:
		return x.Name()
	case *ssa.Global:
		return x.Name()
	case *ssa.FieldAddr:
		return s.path(x.X, depth+1) + "." + fieldName(x.X.Type(), x.Field)
	case *ssa.Field:
		return s.path(x.X, depth+1) + "." + fieldName(x.X.Type(), x.Field)
	case *ssa.IndexAddr:
		return s.path(x.X, depth+1) + "[·]"
	case *ssa.UnOp:
		if x.Op == token.MUL {
			return s.path(x.X, depth+1)
		}
	case *ssa.Alloc:
		return "local"
	case *ssa.Phi:
		if len(x.Edges) > 0 {
			return s.path(x.Edges[0], depth+1)
		}
	case *ssa.MakeInterface:
		return s.path(x.X, depth+1)
	case *ssa.ChangeType:
		return s.path(x.X, depth+1)
	case *ssa.Call:
		return "result of " + callName(x.Common())
	}

	return v.Name()
}

func callName(c *ssa.CallCommon) string {
	if c.IsInvoke() {
		return c.Value.Type().String() + "." + c.Method.Name()
	}

	if f := c.StaticCallee(); f != nil {
		return extName(f)
	}

	return "func value"
}

// refine "p<i>" to "p<i>.<field>" when a field of the parameter itself is taken
func refine(r rootSet, field string) rootSet {
	res := rootSet{}

	for k := range r {
		if len(k) >= 2 && k[0] == 'p' && !strings.Contains(k, ".") && k != "" && isParamKey(k) {
			res.add(k + "." + field)
		} else {
			res.add(k)
		}
	}

	return res
}

func isParamKey(k string) bool {
	if len(k) < 2 || k[0] != 'p' {
		return false
	}

	for _, c := range k[1:] {
		if c < '0' || c > '9' {
			return false
		}
	}

	return true
}

// translate a callee root into the caller's roots
func translate(k string, args []rootSet, closure rootSet, selfArg bool) rootSet {
	switch {
	case strings.HasPrefix(k, "c:"):
		return captured(translate(k[2:], args, closure, selfArg))
	case strings.HasPrefix(k, "g:") || k == unknown:
		return rootSet{k: {}}
	case k == fresh:
		return rootSet{fresh: {}}
	case k[0] == 'f':
		return closure
	case k[0] == 'p':
		base, field := k, ""
		if i := strings.Index(k, "."); i >= 0 {
			base, field = k[:i], k[i+1:]
		}

		var idx int

		fmt.Sscanf(base[1:], "%d", &idx)

		if idx >= len(args) {
			return rootSet{unknown: {}}
		}

		// "p0.<field>" names a top-level field of the receiver; it survives only while the receiver itself is passed on
		if field == "" || idx != 0 || !selfArg {
			return args[idx]
		}

		return refine(args[idx], field)
	}

	return rootSet{unknown: {}}
}

func (s *fstate) applySummary(callee *ssa.Function, args []rootSet, selfArg bool, closure rootSet, site ssa.Instruction,
	result ssa.Value,
) {
	cs := s.a.summaryOf(callee)

	for e := range cs.effects {
		tr := translate(e.Root, args, closure, selfArg)
		for k := range tr {
			if !isShared(k) {
				continue
			}

			ne := effect{Root: k, Kind: e.Kind, What: e.What, Pos: e.Pos}
			if _, ok := s.sum.effects[ne]; !ok {
				s.sum.effects[ne] = struct{}{}
				s.a.changed = true
			}
		}
	}

	if selfArg {
		for f := range cs.reads {
			if _, ok := s.sum.reads[f]; !ok {
				s.sum.reads[f] = struct{}{}
				s.a.changed = true
			}
		}
	}

	if result != nil {
		res := rootSet{}
		for k := range cs.ret {
			if k[0] == 'f' {
				res.addAll(uncaptured(translate(k, args, closure, selfArg)))
			} else {
				res.addAll(translate(k, args, closure, selfArg))
			}
		}

		s.set(result, res)
	}
}

func (s *fstate) call(c *ssa.CallCommon, site ssa.Instruction, result ssa.Value) {
	// argument roots, receiver first
	var (
		args  []rootSet
		argVs []ssa.Value
	)

	if c.IsInvoke() {
		args = append(args, s.roots(c.Value))
		argVs = append(argVs, c.Value)
	}

	for _, v := range c.Args {
		args = append(args, s.roots(v))
		argVs = append(argVs, v)
	}

	// what a function outside the module may hand back: new memory or (part of) what an argument refers to directly
	direct := rootSet{}
	for _, x := range args {
		direct.addAll(x)
	}

	// a callee can reach whatever is stored in the local objects it is handed
	for i := range args {
		full := rootSet{}
		full.addAll(args[i])

		for k := range s.reach(args[i]) {
			if k != fresh {
				full.add(k)
			}
		}

		args[i] = full
	}

	union := func() rootSet { return direct }

	selfArg := len(argVs) > 0 && s.self[argVs[0]]

	if c.IsInvoke() {
		iface, _ := c.Value.Type().Underlying().(*types.Interface)
		resolved := false

		if iface != nil {
			for _, t := range s.a.implementers(iface) {
				sel := s.a.prog.MethodSets.MethodSet(t).Lookup(c.Method.Pkg(), c.Method.Name())
				if sel == nil {
					continue
				}

				m := s.a.prog.MethodValue(sel)
				if s.a.analysable(m) {
					resolved = true

					s.applySummary(m, args, false, nil, site, result)
				}
			}
		}

		// an interface declared outside the module, or without implementation inside it: effect unknown to us
		ifaceHome := ""
		if n, ok := c.Value.Type().(*types.Named); ok && n.Obj().Pkg() != nil {
			ifaceHome = n.Obj().Pkg().Path()
		}

		if !resolved || !inModule(ifaceHome) {
			name := "(" + c.Value.Type().String() + ")." + c.Method.Name()
			s.external(name, args, argVs, true, site, result, union())
		}

		return
	}

	switch callee := c.Value.(type) {
	case *ssa.Builtin:
		s.builtin(callee.Name(), c, site, result)

		return
	case *ssa.Function:
		if s.a.analysable(callee) {
			s.applySummary(callee, args, selfArg && callee.Signature.Recv() != nil, nil, site, result)
		} else {
			s.external(extName(callee), args, argVs, callee.Signature.Recv() != nil, site, result, union())
		}

		return
	case *ssa.MakeClosure:
		fn, _ := callee.Fn.(*ssa.Function)
		if s.a.analysable(fn) {
			s.applySummary(fn, args, false, s.roots(callee), site, result)

			return
		}
	}

	// call of a function value: every address-taken function of the module with an identical signature
	sig, _ := c.Value.Type().Underlying().(*types.Signature)
	cl := s.roots(c.Value)
	found := false

	if sig != nil {
		for _, fn := range s.a.addrTaken {
			if types.Identical(fn.Signature, sig) {
				found = true

				s.applySummary(fn, args, false, cl, site, result)
			}
		}
	}

	if !found {
		// nothing inside the module can be meant: a function value from a library
		if result != nil {
			r := union()
			r.addAll(cl)
			s.set(result, r)
		}

		s.a.notes["call of a function value without candidate in the module: "+c.Value.Type().String()] = struct{}{}

		name := "func value " + c.Value.Type().String()
		s.effectOn(cl, "ext", name, site.Pos())

		for i := range args {
			if i < len(argVs) && pointerLike(argVs[i].Type()) {
				s.effectOn(args[i], "ext", name, site.Pos())
			}
		}
	}
}

// calls into package sync and sync/atomic: a read of an atomic and the lock operations are reported as "sync" (the
// Lean side admits read locks only), everything else of sync/atomic is a write
func externalKind(name string) string {
	bare := strings.NewReplacer("(", "", ")", "", "*", "").Replace(name)

	switch {
	case strings.HasPrefix(bare, "sync/atomic."):
		method := bare[strings.LastIndex(bare, ".")+1:]
		if strings.HasPrefix(method, "Load") {
			return "sync"
		}

		return "store"
	case strings.HasPrefix(bare, "sync."):
		return "sync"
	default:
		return "ext"
	}
}

func (s *fstate) external(name string, args []rootSet, argVs []ssa.Value, hasRecv bool, site ssa.Instruction,
	result ssa.Value, union rootSet,
) {
	if idx, ok := mutators[name]; ok {
		for _, i := range idx {
			if i < len(args) {
				s.effectOn(args[i], "store", "argument of "+name, site.Pos())
			}
		}
	}

	// whatever shared memory a function outside the module is handed - as receiver or as argument, directly or
	// inside a local object - it may write: every such call is reported and has to be on the reviewed list
	// (Footprint.trustedExt / trustedSync on the Lean side)
	_ = hasRecv

	for i := range args {
		if i >= len(argVs) || !pointerLike(argVs[i].Type()) {
			continue
		}

		s.effectOn(args[i], externalKind(name), name, site.Pos())
	}

	if result != nil {
		if freshResult[name] {
			s.set(result, rootSet{fresh: {}})
		} else {
			r := rootSet{}
			r.addAll(union)

			if len(r) == 0 {
				r.add(fresh)
			}

			s.set(result, r)
		}
	}
}

func (s *fstate) builtin(name string, c *ssa.CallCommon, site ssa.Instruction, result ssa.Value) {
	switch name {
	case "append":
		// may write into the spare capacity of the first argument
		if len(c.Args) > 0 {
			s.effectOn(s.roots(c.Args[0]), "append", "append to "+s.path(c.Args[0], 0)+" in "+s.fn.String(), site.Pos())

			if result != nil {
				k := s.freshKey(result)
				r := rootSet{k: {}}
				r.addAll(s.roots(c.Args[0]))

				if len(c.Args) > 1 {
					// the appended elements end up in the (possibly new) backing array
					if s.contentOf(k).addAll(s.deref(s.roots(c.Args[1]))) {
						s.ch = true
					}

					for t := range s.roots(c.Args[0]) {
						if isFreshKey(t) {
							if s.contentOf(t).addAll(s.deref(s.roots(c.Args[1]))) {
								s.ch = true
							}
						}
					}
				}

				s.set(result, r)
			}
		}
	case "copy":
		if len(c.Args) > 0 {
			s.effectOn(s.roots(c.Args[0]), "copy", "copy into "+s.path(c.Args[0], 0)+" in "+s.fn.String(), site.Pos())
			s.stored(s.roots(c.Args[0]), c.Args[1])
		}
	case "delete":
		if len(c.Args) > 0 {
			s.effectOn(s.roots(c.Args[0]), "delete", "delete from "+s.path(c.Args[0], 0)+" in "+s.fn.String(), site.Pos())
		}
	case "clear":
		if len(c.Args) > 0 {
			s.effectOn(s.roots(c.Args[0]), "delete", "clear "+s.path(c.Args[0], 0)+" in "+s.fn.String(), site.Pos())
		}
	default:
		if result != nil && pointerLike(result.Type()) {
			r := rootSet{}
			for _, v := range c.Args {
				r.addAll(s.roots(v))
			}

			s.set(result, r)
		}
	}
}

func (s *fstate) run() {
	fn := s.fn

	for i, p := range fn.Params {
		s.set(p, rootSet{fmt.Sprintf("p%d", i): {}})

		if i == 0 && fn.Signature.Recv() != nil {
			s.self[p] = true
		}
	}

	for i, fv := range fn.FreeVars {
		s.set(fv, rootSet{fmt.Sprintf("f%d", i): {}})

		if s.a.selfFree[fn][i] {
			s.selfCell[fv] = true
		}
	}

	for iter := 0; iter < 50; iter++ {
		s.ch = false

		for _, b := range fn.Blocks {
			for _, ins := range b.Instrs {
				s.instr(ins)
			}
		}

		if !s.ch {
			break
		}
	}
}

func (s *fstate) instr(ins ssa.Instruction) {
	switch x := ins.(type) {
	case *ssa.Alloc:
		s.set(x, rootSet{s.freshKey(x): {}})
	case *ssa.MakeMap, *ssa.MakeSlice, *ssa.MakeChan:
		s.set(x.(ssa.Value), rootSet{s.freshKey(x.(ssa.Value)): {}})
	case *ssa.MakeClosure:
		r := rootSet{s.freshKey(x): {}}
		for _, b := range x.Bindings {
			r.addAll(captured(s.reach(s.roots(b))))
		}

		s.set(x, r)

		// the effects of the closure on what it captures are accounted here, where the captured variables' roots
		// are known one by one ("creating it = calling it"); its effects on its own parameters where it is called
		if f, ok := x.Fn.(*ssa.Function); ok && s.a.analysable(f) {
			cs := s.a.summaryOf(f)

			for j, b := range x.Bindings {
				if s.selfCell[b] && !s.otherCell[b] {
					if s.a.selfFree[f] == nil {
						s.a.selfFree[f] = map[int]bool{}
					}

					if !s.a.selfFree[f][j] {
						s.a.selfFree[f][j] = true
						s.a.changed = true
					}
				}
			}

			// the receiver fields the closure reads are read by the method
			if len(s.a.selfFree[f]) != 0 {
				for fld := range cs.reads {
					if _, ok := s.sum.reads[fld]; !ok {
						s.sum.reads[fld] = struct{}{}
						s.a.changed = true
					}
				}
			}

			for e := range cs.effects {
				if len(e.Root) < 2 || e.Root[0] != 'f' {
					continue
				}

				var idx int

				fmt.Sscanf(e.Root[1:], "%d", &idx)

				if idx < len(x.Bindings) {
					s.effectOn(s.reach(s.roots(x.Bindings[idx])), e.Kind, e.What, token.NoPos)
				}
			}
		}
	case *ssa.FieldAddr:
		r := s.roots(x.X)
		if s.self[x.X] {
			f := fieldName(x.X.Type(), x.Field)
			if _, ok := s.sum.reads[f]; !ok {
				s.sum.reads[f] = struct{}{}
				s.a.changed = true
			}
		}

		if s.self[x.X] {
			r = refine(r, fieldName(x.X.Type(), x.Field))
		}

		if cur := s.roots(x); cur.addAll(r) {
			s.ch = true
		}
	case *ssa.Field:
		s.set(x, s.roots(x.X))
	case *ssa.IndexAddr:
		if cur := s.roots(x); cur.addAll(s.roots(x.X)) {
			s.ch = true
		}
	case *ssa.Index:
		s.set(x, s.roots(x.X))
	case *ssa.Lookup:
		s.set(x, s.deref(s.roots(x.X)))
	case *ssa.Range:
		if cur := s.roots(x); cur.addAll(s.roots(x.X)) {
			s.ch = true
		}
	case *ssa.Next:
		s.set(x, s.deref(s.roots(x.Iter)))
	case *ssa.Slice:
		s.set(x, s.roots(x.X))
	case *ssa.UnOp:
		switch x.Op {
		case token.MUL:
			s.set(x, s.deref(s.roots(x.X)))

			if s.selfCell[x.X] && !s.otherCell[x.X] && !s.self[x] {
				s.self[x] = true
				s.ch = true
			}
		case token.ARROW:
			s.set(x, s.deref(s.roots(x.X)))
		}
	case *ssa.Phi:
		for _, e := range x.Edges {
			s.set(x, s.roots(e))

			if s.self[e] && !s.self[x] {
				s.self[x] = true
				s.ch = true
			}
		}
	case *ssa.ChangeType:
		s.set(x, s.roots(x.X))
		s.copySelf(x, x.X)
	case *ssa.Convert:
		s.set(x, s.roots(x.X))
	case *ssa.MultiConvert:
		s.set(x, s.roots(x.X))
	case *ssa.ChangeInterface:
		s.set(x, s.roots(x.X))
	case *ssa.SliceToArrayPointer:
		s.set(x, s.roots(x.X))
	case *ssa.MakeInterface:
		s.set(x, s.roots(x.X))
		s.copySelf(x, x.X)
	case *ssa.TypeAssert:
		s.set(x, s.roots(x.X))
	case *ssa.Extract:
		s.set(x, s.roots(x.Tuple))
	case *ssa.Select:
		r := rootSet{}
		for _, st := range x.States {
			r.addAll(s.deref(s.roots(st.Chan)))

			if st.Send != nil {
				s.effectOn(s.roots(st.Chan), "send", "send on "+s.path(st.Chan, 0)+" in "+s.fn.String(), x.Pos())
			}
		}

		s.set(x, r)
	case *ssa.Store:
		if _, ok := x.Addr.(*ssa.Alloc); ok {
			if s.self[x.Val] {
				if !s.selfCell[x.Addr] {
					s.selfCell[x.Addr] = true
					s.ch = true
				}
			} else if !s.otherCell[x.Addr] {
				s.otherCell[x.Addr] = true
				s.ch = true
			}
		}

		target := s.roots(x.Addr)
		s.effectOn(target, "store", s.path(x.Addr, 0)+" in "+s.fn.String(), x.Pos())
		s.stored(target, x.Val)
	case *ssa.MapUpdate:
		target := s.roots(x.Map)
		s.effectOn(target, "mapupdate", s.path(x.Map, 0)+"[…] in "+s.fn.String(), x.Pos())
		s.stored(target, x.Value)
		s.stored(target, x.Key)
	case *ssa.Send:
		s.effectOn(s.roots(x.Chan), "send", "send on "+s.path(x.Chan, 0)+" in "+s.fn.String(), x.Pos())
	case *ssa.Call:
		s.call(x.Common(), x, x)
	case *ssa.Go:
		s.call(x.Common(), x, nil)
	case *ssa.Defer:
		s.call(x.Common(), x, nil)
	case *ssa.Return:
		for _, r := range x.Results {
			if pointerLike(r.Type()) {
				if s.sum.ret.addAll(s.reach(s.roots(r))) {
					s.a.changed = true
				}
			}
		}
	}
}

func (s *fstate) copySelf(dst, src ssa.Value) {
	if s.self[src] && !s.self[dst] {
		s.self[dst] = true
		s.ch = true
	}
}

func (a *analyzer) analyse(fn *ssa.Function) {
	st := &fstate{
		a: a, fn: fn, sum: a.summaryOf(fn), val: map[ssa.Value]rootSet{}, self: map[ssa.Value]bool{},
		selfCell: map[ssa.Value]bool{}, otherCell: map[ssa.Value]bool{},
		content: map[string]rootSet{}, site: map[ssa.Value]string{},
	}
	st.run()
}

// ---------------------------------------------------------------------------------------------------------------

type entry struct {
	Kind    string   `json:"kind"`
	Type    string   `json:"type"`
	Method  string   `json:"method"`
	Fields  []string `json:"fields"`
	Reads   []string `json:"reads"`
	Writes  []effect `json:"writes"`
	Globals []effect `json:"globals"`
	Ext     []effect `json:"ext"`
	Sync    []effect `json:"sync"`
	Unknown []effect `json:"unknown"`
	Leaves  []leaf   `json:"leaves"`
	fn      *ssa.Function
}

type family struct{ pkg, iface, kind string }

var familiesList = []family{
	{"internal/rules/mechanisms/authenticators", "Authenticator", "authenticator"},
	{"internal/rules/mechanisms/authorizers", "Authorizer", "authorizer"},
	{"internal/rules/mechanisms/contextualizers", "Contextualizer", "contextualizer"},
	{"internal/rules/mechanisms/finalizers", "Finalizer", "finalizer"},
	{"internal/rules/mechanisms/errorhandlers", "ErrorHandler", "error_handler"},
}

// leaf fields of a struct: fields of embedded by-value structs declared in the module are followed; a leaf is a
// reference if it is a pointer, map, slice, interface, func or chan
type leaf struct {
	Name string `json:"name"`
	Ref  bool   `json:"ref"`
}

func leavesOf(t types.Type, prefix string, depth int) []leaf {
	st, ok := t.Underlying().(*types.Struct)
	if !ok || depth > 6 {
		return nil
	}

	var res []leaf

	for i := 0; i < st.NumFields(); i++ {
		f := st.Field(i)
		name := prefix + f.Name()

		if _, isStruct := f.Type().Underlying().(*types.Struct); isStruct {
			if n, ok := f.Type().(*types.Named); ok && n.Obj().Pkg() != nil && inModule(n.Obj().Pkg().Path()+"/") ||
				func() bool { _, anon := f.Type().(*types.Struct); return anon }() {
				res = append(res, leavesOf(f.Type(), name+".", depth+1)...)

				continue
			}
		}

		switch f.Type().Underlying().(type) {
		case *types.Pointer, *types.Map, *types.Slice, *types.Interface, *types.Signature, *types.Chan:
			res = append(res, leaf{name, true})
		default:
			res = append(res, leaf{name, false})
		}
	}

	return res
}

// package level variables of the mechanism packages (and of the helper packages they are built from: template,
// cellib, values, oauth2, endpoint, ...): name, type and the function whose result the package initialiser stores
// into it (`sync.OnceValue`, `errors.New`, ...).  Not an obligation: what a memoising initialiser or a lazily filled
// package variable does inside a library (text/template's shared name space of a template set, for instance) is
// invisible to the write footprint; the check uses the list to decide which histories it searches for a replay.
type pkgVar struct {
	Pkg  string `json:"pkg"`
	Name string `json:"name"`
	Type string `json:"type"`
	Init string `json:"init"`
}

func packageState(prog *ssa.Program) []pkgVar {
	res := []pkgVar{}

	for _, p := range prog.AllPackages() {
		path := p.Pkg.Path()
		if !strings.HasPrefix(path, module+"internal/rules/mechanisms") && !strings.HasPrefix(path, module+"internal/rules/endpoint") {
			continue
		}

		inits := map[string]string{}

		if init := p.Func("init"); init != nil {
			for _, b := range init.Blocks {
				for _, ins := range b.Instrs {
					st, ok := ins.(*ssa.Store)
					if !ok {
						continue
					}

					g, ok := st.Addr.(*ssa.Global)
					if !ok {
						continue
					}

					v := st.Val
					for {
						if mi, ok := v.(*ssa.MakeInterface); ok {
							v = mi.X

							continue
						}

						if cv, ok := v.(*ssa.ChangeType); ok {
							v = cv.X

							continue
						}

						break
					}

					switch x := v.(type) {
					case *ssa.Call:
						inits[g.Name()] = callName(x.Common())
					case *ssa.MakeClosure, *ssa.Function:
						inits[g.Name()] = "func"
					case *ssa.Alloc, *ssa.MakeMap, *ssa.MakeSlice, *ssa.MakeChan:
						inits[g.Name()] = "alloc"
					case *ssa.Const:
						inits[g.Name()] = "const"
					default:
						inits[g.Name()] = "other"
					}
				}
			}
		}

		for name, m := range p.Members {
			g, ok := m.(*ssa.Global)
			if !ok || strings.HasPrefix(name, "init$") {
				continue
			}

			t := g.Type()
			if pt, ok := t.(*types.Pointer); ok {
				t = pt.Elem()
			}

			res = append(res, pkgVar{
				Pkg: strings.TrimPrefix(path, module), Name: name, Type: types.TypeString(t, nil), Init: inits[name],
			})
		}
	}

	sort.Slice(res, func(i, j int) bool {
		if res[i].Pkg != res[j].Pkg {
			return res[i].Pkg < res[j].Pkg
		}

		return res[i].Name < res[j].Name
	})

	return res
}

func fail(format string, args ...any) {
	fmt.Fprintf(os.Stderr, "footprint: "+format+"\n", args...)
	os.Exit(2)
}

func leanStr(s string) string {
	s = strings.ReplaceAll(s, "\\", "\\\\")
	s = strings.ReplaceAll(s, "\"", "\\\"")

	return "\"" + s + "\""
}

func leanStrs(xs []string) string {
	q := make([]string, len(xs))
	for i, x := range xs {
		q[i] = leanStr(x)
	}

	return "[" + strings.Join(q, ", ") + "]"
}

func main() {
	repo := flag.String("repo", "/repo", "heimdall working tree")
	jsonOut := flag.String("json", "", "write details to this file")
	flag.Parse()

	cfg := &packages.Config{Mode: packages.LoadAllSyntax, Dir: *repo, Tests: false}

	pkgs, err := packages.Load(cfg, "./internal/rules/mechanisms/...", "./internal/rules/endpoint/...",
		"./internal/handler/requestcontext/...", "./internal/cache/...")
	if err != nil {
		fail("load: %v", err)
	}

	if packages.PrintErrors(pkgs) > 0 {
		fail("packages have errors")
	}

	prog, _ := ssautil.AllPackages(pkgs, ssa.InstantiateGenerics)
	prog.Build()

	a := &analyzer{
		prog: prog, fset: prog.Fset, sums: map[*ssa.Function]*summary{}, reach: map[*ssa.Function]bool{},
		implCache: map[*types.Interface][]types.Type{}, notes: map[string]struct{}{},
		selfFree: map[*ssa.Function]map[int]bool{},
	}

	// all named types of the module; all address-taken functions of the module
	for _, p := range prog.AllPackages() {
		if !inModule(p.Pkg.Path()) {
			continue
		}

		for _, m := range p.Members {
			if t, ok := m.(*ssa.Type); ok {
				if n, ok := t.Type().(*types.Named); ok && !types.IsInterface(n) && n.TypeParams().Len() == 0 {
					a.named = append(a.named, n)
				}
			}
		}
	}

	sort.Slice(a.named, func(i, j int) bool { return a.named[i].String() < a.named[j].String() })

	taken := map[*ssa.Function]bool{}

	for fn := range ssautil.AllFunctions(prog) {
		if !a.analysable(fn) {
			continue
		}

		if fn.Parent() != nil { // anonymous function
			taken[fn] = true
		}

		for _, b := range fn.Blocks {
			for _, ins := range b.Instrs {
				var ops [16]*ssa.Value

				isCall, callee := false, ssa.Value(nil)

				if c, ok := ins.(ssa.CallInstruction); ok {
					isCall, callee = true, c.Common().Value
				}

				for _, op := range ins.Operands(ops[:0]) {
					if op == nil || *op == nil {
						continue
					}

					if f, ok := (*op).(*ssa.Function); ok && a.analysable(f) {
						if isCall && *op == callee {
							continue
						}

						taken[f] = true
					}
				}
			}
		}
	}

	for fn := range taken {
		a.addrTaken = append(a.addrTaken, fn)
	}

	sort.Slice(a.addrTaken, func(i, j int) bool { return a.addrTaken[i].String() < a.addrTaken[j].String() })

	// entries
	var entries []*entry

	findPkg := func(suffix string) *ssa.Package {
		for _, p := range prog.AllPackages() {
			if p.Pkg.Path() == module+suffix {
				return p
			}
		}

		fail("package %s not found", suffix)

		return nil
	}

	for _, fam := range familiesList {
		p := findPkg(fam.pkg)

		obj := p.Pkg.Scope().Lookup(fam.iface)
		if obj == nil {
			fail("interface %s.%s not found", fam.pkg, fam.iface)
		}

		iface, ok := obj.Type().Underlying().(*types.Interface)
		if !ok {
			fail("%s.%s is not an interface", fam.pkg, fam.iface)
		}

		n := 0

		names := p.Pkg.Scope().Names()
		for _, name := range names {
			tn, ok := p.Pkg.Scope().Lookup(name).(*types.TypeName)
			if !ok || tn.IsAlias() || types.IsInterface(tn.Type()) {
				continue
			}

			var recv types.Type = types.NewPointer(tn.Type())
			if !types.Implements(recv, iface) {
				continue
			}

			n++

			var fields []string
			if st, ok := tn.Type().Underlying().(*types.Struct); ok {
				for i := 0; i < st.NumFields(); i++ {
					fields = append(fields, st.Field(i).Name())
				}
			}

			for i := 0; i < iface.NumMethods(); i++ {
				m := iface.Method(i)
				sel := prog.MethodSets.MethodSet(recv).Lookup(m.Pkg(), m.Name())

				if sel == nil {
					fail("method %s of %s not found", m.Name(), name)
				}

				fn := prog.MethodValue(sel)
				if fn == nil || len(fn.Blocks) == 0 {
					fail("method %s of %s has no body", m.Name(), name)
				}

				entries = append(entries, &entry{
					Kind: fam.kind, Type: name, Method: m.Name(), Fields: fields, fn: fn, Leaves: leavesOf(tn.Type(), "", 0),
				})
			}
		}

		if n == 0 {
			fail("no type implementing %s.%s", fam.pkg, fam.iface)
		}
	}

	// the mechanism factory and its repository
	{
		p := findPkg("internal/rules/mechanisms")

		for _, tname := range []string{"mechanismsFactory", "mechanismRepository"} {
			tn, ok := p.Pkg.Scope().Lookup(tname).(*types.TypeName)
			if !ok {
				fail("type mechanisms.%s not found", tname)
			}

			recv := types.NewPointer(tn.Type())
			ms := prog.MethodSets.MethodSet(recv)

			if ms.Len() == 0 {
				fail("mechanisms.%s has no methods", tname)
			}

			var fields []string
			if st, ok := tn.Type().Underlying().(*types.Struct); ok {
				for i := 0; i < st.NumFields(); i++ {
					fields = append(fields, st.Field(i).Name())
				}
			}

			for i := 0; i < ms.Len(); i++ {
				fn := prog.MethodValue(ms.At(i))
				if fn == nil || len(fn.Blocks) == 0 {
					fail("method %s of %s has no body", ms.At(i).Obj().Name(), tname)
				}

				entries = append(entries, &entry{Kind: "factory", Type: tname, Method: ms.At(i).Obj().Name(), Fields: fields, fn: fn})
			}
		}
	}

	// reload callbacks (watcher.ChangeListener) of objects mechanisms refer to: the only writers of loaded state that
	// are meant to exist; reported as kind "reload" (not subject to the write-freeness obligation, but to "writes
	// happen under the write lock")
	for _, n := range a.named {
		path := n.Obj().Pkg().Path()
		if !strings.HasPrefix(path, module+"internal/rules/") {
			continue
		}

		recv := types.NewPointer(n)
		sel := prog.MethodSets.MethodSet(recv).Lookup(n.Obj().Pkg(), "OnChanged")

		if sel == nil {
			continue
		}

		fn := prog.MethodValue(sel)
		if fn == nil || len(fn.Blocks) == 0 {
			fail("reload callback of %s has no body", n.Obj().Name())
		}

		var fields []string
		if st, ok := n.Underlying().(*types.Struct); ok {
			for i := 0; i < st.NumFields(); i++ {
				fields = append(fields, st.Field(i).Name())
			}
		}

		entries = append(entries, &entry{Kind: "reload", Type: n.Obj().Name(), Method: "OnChanged", Fields: fields, fn: fn})
	}

	for _, e := range entries {
		a.summaryOf(e.fn)
	}

	// fixpoint over all reachable functions
	for round := 0; round < 200; round++ {
		a.changed = false

		for i := 0; i < len(a.order); i++ {
			a.analyse(a.order[i])
		}

		if !a.changed {
			break
		}

		if round == 199 {
			fail("no fixpoint after 200 rounds")
		}
	}

	for _, e := range entries {
		s := a.sums[e.fn]

		for f := range s.reads {
			e.Reads = append(e.Reads, f)
		}

		sort.Strings(e.Reads)

		var effs []effect
		for ef := range s.effects {
			effs = append(effs, ef)
		}

		sort.Slice(effs, func(i, j int) bool {
			x, y := effs[i], effs[j]
			if x.Root != y.Root {
				return x.Root < y.Root
			}

			if x.What != y.What {
				return x.What < y.What
			}

			if x.Kind != y.Kind {
				return x.Kind < y.Kind
			}

			return x.Pos < y.Pos
		})

		for _, ef := range effs {
			recv := ef.Root == "p0" || strings.HasPrefix(ef.Root, "p0.")
			glob := strings.HasPrefix(ef.Root, "g:")

			switch {
			case ef.Kind == "sync" && (recv || glob):
				e.Sync = append(e.Sync, ef)
			case ef.Kind == "ext" && (recv || glob):
				e.Ext = append(e.Ext, ef)
			case (ef.Kind == "ext" || ef.Kind == "sync") && ef.Root == unknown:
				e.Unknown = append(e.Unknown, ef)
			case ef.Kind == "ext" || ef.Kind == "sync":
			case recv:
				e.Writes = append(e.Writes, ef)
			case glob:
				e.Globals = append(e.Globals, ef)
			case ef.Root == unknown:
				e.Unknown = append(e.Unknown, ef)
			}
		}
	}

	sort.SliceStable(entries, func(i, j int) bool {
		x, y := entries[i], entries[j]
		if x.Kind != y.Kind {
			return x.Kind < y.Kind
		}

		if x.Type != y.Type {
			return x.Type < y.Type
		}

		return x.Method < y.Method
	})

	if *jsonOut != "" {
		notes := []string{}
		for n := range a.notes {
			notes = append(notes, n)
		}

		sort.Strings(notes)

		data, _ := json.MarshalIndent(map[string]any{
			"entries": entries, "functions_analysed": len(a.order), "address_taken": len(a.addrTaken), "notes": notes,
			"package_state": packageState(prog),
		}, "", " ")
		if err := os.WriteFile(*jsonOut, data, 0o600); err != nil {
			fail("write %s: %v", *jsonOut, err)
		}
	}

	slot := func(root string) string {
		if i := strings.Index(root, "."); i >= 0 && root[0] == 'p' {
			return root[i+1:]
		}

		return root
	}
	uniq := func(xs []string) []string {
		sort.Strings(xs)

		var res []string

		for i, x := range xs {
			if i == 0 || xs[i-1] != x {
				res = append(res, x)
			}
		}

		return res
	}
	pairs := func(effs []effect) string {
		var xs []string
		for _, ef := range effs {
			xs = append(xs, "("+leanStr(slot(ef.Root))+", "+leanStr(ef.What)+")")
		}

		return "[" + strings.Join(uniq(xs), ", ") + "]"
	}

	var sb strings.Builder

	sb.WriteString("-- GENERATED by /verif/extract/footprint from the heimdall working tree; do not edit, regenerated on every run.\n")
	sb.WriteString("import HeimdallModel.Model.Footprint\n\nnamespace Heimdall.Gen\nopen Heimdall.Footprint\n\n")
	sb.WriteString("/-- write footprint of every mechanism method (go/ssa, closed under calls inside the module) -/\n")
	sb.WriteString("def footprints : List Row := [\n")

	for i, e := range entries {
		if e.Kind == "reload" {
			// only what the obligation on reload callbacks is about: which fields are written, which locks are taken
			e.Globals, e.Ext, e.Unknown = nil, nil, nil
		}

		fmt.Fprintf(&sb, "  { kind := %s, typ := %s, method := %s,\n    fields := %s,\n    reads := %s,\n    writes := %s,\n    globals := %s,\n    ext := %s,\n    sync := %s,\n    unknown := %s }",
			leanStr(e.Kind), leanStr(e.Type), leanStr(e.Method), leanStrs(e.Fields), leanStrs(e.Reads),
			pairs(e.Writes), pairs(e.Globals), pairs(e.Ext), pairs(e.Sync), pairs(e.Unknown))

		if i+1 < len(entries) {
			sb.WriteString(",")
		}

		sb.WriteString("\n")
	}

	sb.WriteString("]\n\n/-- leaf fields of every mechanism struct (fields of embedded by-value structs of the module followed) with\n")
	sb.WriteString("\"is a reference\" (pointer / map / slice / interface / func / chan) -/\n")
	sb.WriteString("def structLeaves : List (String × List (String × Bool)) := [\n")

	var seenT []string

	for _, e := range entries {
		if e.Leaves == nil || len(seenT) > 0 && seenT[len(seenT)-1] == e.Type {
			continue
		}

		seenT = append(seenT, e.Type)

		var ls []string
		for _, l := range e.Leaves {
			ls = append(ls, fmt.Sprintf("(%s, %t)", leanStr(l.Name), l.Ref))
		}

		fmt.Fprintf(&sb, "  (%s, [%s]),\n", leanStr(e.Type), strings.Join(ls, ", "))
	}

	out := strings.TrimSuffix(sb.String(), ",\n") + "\n"
	sb.Reset()
	sb.WriteString(out)
	sb.WriteString("]\n\nend Heimdall.Gen\n")
	fmt.Print(sb.String())
}
