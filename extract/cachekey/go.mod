module verif/extract/cachekey

go 1.23
