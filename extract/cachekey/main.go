// Command cachekey extracts, from the current heimdall source, what every cache-key function feeds into its hash
// (the ordered list of writes, with the Go expression written and the way it is written), and which calls happen on
// the cache-hit path and on the miss path of the caching mechanisms. The result is printed as a Lean module
// (HeimdallModel/Gen/CacheKeys.lean). It fails closed: a statement touching the hash that it does not understand
// aborts the extraction with exit code 3.
package main

import (
	"bytes"
	"flag"
	"fmt"
	"go/ast"
	"go/parser"
	"go/printer"
	"go/token"
	"os"
	"path/filepath"
	"strconv"
	"strings"
)

type target struct {
	name, file, recv, fn string
}

var keyTargets = []target{
	{"endpoint", "internal/rules/endpoint/endpoint.go", "Endpoint", "Hash"},
	{"apiKey", "internal/rules/endpoint/authstrategy/api_key.go", "APIKey", "Hash"},
	{"basicAuth", "internal/rules/endpoint/authstrategy/basic_auth.go", "BasicAuth", "Hash"},
	{"httpMessageSignatures", "internal/rules/endpoint/authstrategy/http_message_signatures.go", "HTTPMessageSignatures", "Hash"},
	{"clientCredentialsHash", "internal/rules/oauth2/clientcredentials/clientcredentials.go", "Config", "Hash"},
	{"clientCredentialsKey", "internal/rules/oauth2/clientcredentials/clientcredentials.go", "Config", "calculateCacheKey"},
	{"jwtSigner", "internal/rules/mechanisms/finalizers/jwt_signer.go", "jwtSigner", "Hash"},
	{"subject", "internal/rules/mechanisms/subject/subject.go", "Subject", "Hash"},
	{"template", "internal/rules/mechanisms/template/template.go", "", "New"},
	{"remoteAuthorizer", "internal/rules/mechanisms/authorizers/remote_authorizer.go", "remoteAuthorizer", "calculateCacheKey"},
	{"genericContextualizer", "internal/rules/mechanisms/contextualizers/generic_contextualizer.go", "genericContextualizer", "calculateCacheKey"},
	{"genericAuthenticator", "internal/rules/mechanisms/authenticators/generic_authenticator.go", "genericAuthenticator", "calculateCacheKey"},
	{"introspection", "internal/rules/mechanisms/authenticators/oauth2_introspection_authenticator.go", "oauth2IntrospectionAuthenticator", "calculateCacheKey"},
	{"jwtAuthenticator", "internal/rules/mechanisms/authenticators/jwt_authenticator.go", "jwtAuthenticator", "calculateCacheKey"},
	{"jwtFinalizer", "internal/rules/mechanisms/finalizers/jwt_finalizer.go", "jwtFinalizer", "calculateCacheKey"},
	{"httpCache", "internal/httpcache/round_tripper.go", "", "cacheKey"},
}

// functions containing `if entry, err := cch.Get(...); err == nil { ... }`
var pathTargets = []target{
	{"genericAuthenticator", "internal/rules/mechanisms/authenticators/generic_authenticator.go", "genericAuthenticator", "getSubjectInformation"},
	{"introspection", "internal/rules/mechanisms/authenticators/oauth2_introspection_authenticator.go", "oauth2IntrospectionAuthenticator", "getSubjectInformation"},
	{"jwtAuthenticator", "internal/rules/mechanisms/authenticators/jwt_authenticator.go", "jwtAuthenticator", "getKey"},
	{"remoteAuthorizer", "internal/rules/mechanisms/authorizers/remote_authorizer.go", "remoteAuthorizer", "Execute"},
	{"genericContextualizer", "internal/rules/mechanisms/contextualizers/generic_contextualizer.go", "genericContextualizer", "Execute"},
	{"jwtFinalizer", "internal/rules/mechanisms/finalizers/jwt_finalizer.go", "jwtFinalizer", "Execute"},
	{"clientCredentialsKey", "internal/rules/oauth2/clientcredentials/clientcredentials.go", "Config", "Token"},
}

var fset = token.NewFileSet()

// an unrecognised shape: the extraction of the current target is abandoned (it fails closed)
type failure struct{ msg string }

func fail(n ast.Node, format string, args ...any) {
	pos := ""
	if n != nil {
		pos = fset.Position(n.Pos()).String() + ": "
	}

	panic(failure{pos + fmt.Sprintf(format, args...)})
}

var failures []string

// runs f; if it meets a shape it does not understand the failure is recorded and ok is false
func guarded(f func()) (ok bool) {
	defer func() {
		if r := recover(); r != nil {
			fl, isFailure := r.(failure)
			if !isFailure {
				panic(r)
			}

			failures = append(failures, fl.msg)
			fmt.Fprintf(os.Stderr, "cachekey: %s\n", fl.msg)

			ok = false
		}
	}()

	f()

	return true
}

func src(x ast.Node) string {
	var buf bytes.Buffer
	if err := printer.Fprint(&buf, fset, x); err != nil {
		fail(x, "cannot print: %v", err)
	}

	return strings.Join(strings.Fields(buf.String()), " ")
}

// normaliser rewrites identifiers into a form that does not depend on how the programmer named things: the receiver
// becomes `recv`, the i-th parameter `arg<i>`, a local variable the (normalised) expression it was defined by, the
// parameter of a function literal `_`.
type normaliser struct {
	names map[string]string
}

func newNormaliser(fd *ast.FuncDecl) *normaliser {
	n := &normaliser{names: map[string]string{}}

	if fd.Recv != nil && len(fd.Recv.List) == 1 && len(fd.Recv.List[0].Names) == 1 {
		n.names[fd.Recv.List[0].Names[0].Name] = "recv"
	}

	idx := 0

	if fd.Type.Params != nil {
		for _, f := range fd.Type.Params.List {
			if len(f.Names) == 0 {
				idx++

				continue
			}

			for _, name := range f.Names {
				n.names[name.Name] = "arg" + strconv.Itoa(idx)
				idx++
			}
		}
	}

	return n
}

func (n *normaliser) define(name, value string) {
	if strings.ContainsAny(value, " +-*/<>=&|!") && !strings.HasSuffix(value, ")") {
		value = "(" + value + ")"
	}

	n.names[name] = value
}

// the source text of x with identifiers normalised (x is rewritten in place)
func (n *normaliser) text(x ast.Node) string {
	fields := map[*ast.Ident]bool{}

	var walk func(node ast.Node, shadow map[string]bool)

	walk = func(node ast.Node, shadow map[string]bool) {
		ast.Inspect(node, func(c ast.Node) bool {
			switch v := c.(type) {
			case *ast.SelectorExpr:
				fields[v.Sel] = true
			case *ast.KeyValueExpr:
				if id, ok := v.Key.(*ast.Ident); ok {
					fields[id] = true
				}
			case *ast.FuncLit:
				inner := map[string]bool{}
				for k := range shadow {
					inner[k] = true
				}

				if v.Type.Params != nil {
					for _, f := range v.Type.Params.List {
						for _, name := range f.Names {
							inner[name.Name] = true
							name.Name = "_"
						}
					}
				}

				walk(v.Body, inner)

				return false
			case *ast.Ident:
				if fields[v] {
					return true
				}

				if shadow[v.Name] {
					v.Name = "_"

					return true
				}

				if to, ok := n.names[v.Name]; ok {
					v.Name = to
				}
			}

			return true
		})
	}
	walk(x, map[string]bool{})

	return src(x)
}

func leanStr(s string) string {
	s = strings.ReplaceAll(s, `\`, `\\`)
	s = strings.ReplaceAll(s, `"`, `\"`)

	return `"` + s + `"`
}

func leanBytes(s string) string {
	parts := make([]string, 0, len(s))
	for _, b := range []byte(s) {
		parts = append(parts, strconv.Itoa(int(b)))
	}

	return "[" + strings.Join(parts, ", ") + "]"
}

// all non-test files of the package the file belongs to (a function may live in any of them)
var pkgCache = map[string][]*ast.File{}

func packageFiles(root, file string) []*ast.File {
	dir := filepath.Join(root, filepath.Dir(file))
	if fs, ok := pkgCache[dir]; ok {
		return fs
	}

	entries, err := os.ReadDir(dir)
	if err != nil {
		fail(nil, "%v", err)
	}

	var files []*ast.File

	for _, e := range entries {
		name := e.Name()
		if e.IsDir() || !strings.HasSuffix(name, ".go") || strings.HasSuffix(name, "_test.go") ||
			strings.HasPrefix(name, "zz_verif_") {
			continue
		}

		f, err := parser.ParseFile(fset, filepath.Join(dir, name), nil, 0)
		if err != nil {
			fail(nil, "%v", err)
		}

		files = append(files, f)
	}

	pkgCache[dir] = files

	return files
}

// the function / method of that name, wherever in the package it is declared
func findInPackage(files []*ast.File, recv, name string) *ast.FuncDecl {
	for _, f := range files {
		if fd := findFunc(f, recv, name); fd != nil {
			return fd
		}
	}

	return nil
}

func findFunc(f *ast.File, recv, name string) *ast.FuncDecl {
	for _, d := range f.Decls {
		fd, ok := d.(*ast.FuncDecl)
		if !ok || fd.Name.Name != name || fd.Body == nil {
			continue
		}

		if recv == "" {
			if fd.Recv == nil {
				return fd
			}

			continue
		}

		if fd.Recv == nil || len(fd.Recv.List) != 1 {
			continue
		}

		t := fd.Recv.List[0].Type
		if s, ok := t.(*ast.StarExpr); ok {
			t = s.X
		}

		if id, ok := t.(*ast.Ident); ok && id.Name == recv {
			return fd
		}
	}

	return nil
}

// --------------------------------------------------------------------------------------------------------------
// key functions

type keyExtractor struct {
	n        *normaliser
	hashVars map[string]bool   // variables holding a sha256 hash
	bufVars  map[string]string // bytes.Buffer variables -> field written into them (Lean term), "" while empty
	defs     map[string]string // local variable -> label of the value it holds
	u64      map[string]bool   // local byte slices filled by PutUint64
	optional map[string]bool   // local variables that are only assigned under a condition
	fields   []string
}

func isCall(x ast.Expr, pkg, fn string) (*ast.CallExpr, bool) {
	c, ok := x.(*ast.CallExpr)
	if !ok {
		return nil, false
	}

	sel, ok := c.Fun.(*ast.SelectorExpr)
	if !ok || sel.Sel.Name != fn {
		return nil, false
	}

	if pkg == "*" {
		return c, true
	}

	id, ok := sel.X.(*ast.Ident)
	if !ok || id.Name != pkg {
		return nil, false
	}

	return c, true
}

func isHashCall(x ast.Expr) bool {
	c, ok := x.(*ast.CallExpr)
	if !ok || len(c.Args) != 0 {
		return false
	}

	sel, ok := c.Fun.(*ast.SelectorExpr)

	return ok && sel.Sel.Name == "Hash"
}

// optional digest: x.IfThenElseExec(v != nil, func() []byte { return v.Hash() }, func() []byte { return []byte{} })
func (e *keyExtractor) optionalHash(x ast.Expr) (string, bool) {
	c, ok := isCall(x, "x", "IfThenElseExec")
	if !ok || len(c.Args) != 3 {
		return "", false
	}

	fl, ok := c.Args[1].(*ast.FuncLit)
	if !ok || len(fl.Body.List) != 1 {
		return "", false
	}

	ret, ok := fl.Body.List[0].(*ast.ReturnStmt)
	if !ok || len(ret.Results) != 1 || !isHashCall(ret.Results[0]) {
		return "", false
	}

	fl2, ok := c.Args[2].(*ast.FuncLit)
	if !ok || len(fl2.Body.List) != 1 {
		return "", false
	}

	ret2, ok := fl2.Body.List[0].(*ast.ReturnStmt)
	if !ok || len(ret2.Results) != 1 || src(ret2.Results[0]) != "[]byte{}" {
		return "", false
	}

	return e.n.text(ret.Results[0]) + " if " + e.n.text(c.Args[0]), true
}

// the value written by h.Write(arg), as a Lean Field term
func (e *keyExtractor) rawWrite(arg ast.Expr) string {
	if c, ok := isCall(arg, "stringx", "ToBytes"); ok && len(c.Args) == 1 {
		inner := c.Args[0]
		if j, ok := isCall(inner, "strings", "Join"); ok && len(j.Args) == 2 {
			lit, ok := j.Args[1].(*ast.BasicLit)
			if !ok || lit.Kind != token.STRING {
				fail(arg, "strings.Join with a non-literal separator")
			}

			sep, _ := strconv.Unquote(lit.Value)

			return ".joined " + leanBytes(sep) + " " + leanStr(e.n.text(j.Args[0]))
		}

		if lit, ok := inner.(*ast.BasicLit); ok && lit.Kind == token.STRING {
			return ".fixed " + strconv.Itoa(len(mustUnquote(lit))) + " " + leanStr(src(inner))
		}

		if id, ok := inner.(*ast.Ident); ok {
			if d, ok := e.defs[id.Name]; ok {
				return ".raw " + leanStr(d)
			}
		}

		return ".raw " + leanStr(e.n.text(inner))
	}

	if isHashCall(arg) {
		return ".fixed 32 " + leanStr(e.n.text(arg))
	}

	if lbl, ok := e.optionalHash(arg); ok {
		return ".opt " + leanStr(lbl) + " (.fixed 32 " + leanStr(lbl) + ")"
	}

	if c, ok := isCall(arg, "*", "Bytes"); ok && len(c.Args) == 0 {
		if id, ok := c.Fun.(*ast.SelectorExpr).X.(*ast.Ident); ok {
			if f, ok := e.bufVars[id.Name]; ok && f != "" {
				return f
			}
		}
	}

	if id, ok := arg.(*ast.Ident); ok {
		if e.u64[id.Name] {
			if e.optional[id.Name] {
				fail(arg, "conditionally filled integer buffer written without a length")
			}

			return ".u64 " + leanStr(e.defs[id.Name])
		}

		if d, ok := e.defs[id.Name]; ok {
			return ".raw " + leanStr(d)
		}
	}

	fail(arg, "unrecognised value written into the hash: %s", src(arg))

	return ""
}

func mustUnquote(l *ast.BasicLit) string {
	s, err := strconv.Unquote(l.Value)
	if err != nil {
		fail(l, "bad string literal")
	}

	return s
}

// label of a value handed to hashx.WriteString / hashx.WriteBytes
func (e *keyExtractor) label(arg ast.Expr) string {
	if lbl, ok := e.optionalHash(arg); ok {
		return lbl
	}

	if id, ok := arg.(*ast.Ident); ok {
		if d, ok := e.defs[id.Name]; ok {
			if e.u64[id.Name] {
				return "u64 " + d
			}

			return d
		}
	}

	return e.n.text(arg)
}

func (e *keyExtractor) hashArg(c *ast.CallExpr) bool {
	if len(c.Args) == 0 {
		return false
	}

	id, ok := c.Args[0].(*ast.Ident)

	return ok && (e.hashVars[id.Name])
}

func mentions(n ast.Node, names map[string]bool) bool {
	found := false

	ast.Inspect(n, func(x ast.Node) bool {
		if id, ok := x.(*ast.Ident); ok && names[id.Name] {
			found = true
		}

		return !found
	})

	return found
}

// one write statement -> Lean Field term ("" if the statement is not a write)
func (e *keyExtractor) writeOf(call *ast.CallExpr, sink map[string]bool) (string, bool) {
	sel, ok := call.Fun.(*ast.SelectorExpr)
	if !ok {
		return "", false
	}

	if id, ok := sel.X.(*ast.Ident); ok && sink[id.Name] && sel.Sel.Name == "Write" && len(call.Args) == 1 {
		return e.rawWrite(call.Args[0]), true
	}

	if id, ok := sel.X.(*ast.Ident); ok && id.Name == "hashx" && e.hashArg(call) {
		switch sel.Sel.Name {
		case "WriteString", "WriteBytes":
			if lit, ok := call.Args[1].(*ast.BasicLit); ok && lit.Kind == token.STRING {
				// a constant: the domain tag of the key function
				return ".tag " + leanBytes(mustUnquote(lit)), true
			}

			return ".lp " + leanStr(e.label(call.Args[1])), true
		case "WriteStrings":
			return ".lpList " + leanStr(e.n.text(call.Args[1])), true
		case "WriteStringMap":
			return ".lpMap " + leanStr(e.n.text(call.Args[1])), true
		case "WriteStringsFunc":
			fl, ok := call.Args[2].(*ast.FuncLit)
			if !ok || len(fl.Body.List) != 1 {
				fail(call, "WriteStringsFunc with an unrecognised function")
			}

			ret, ok := fl.Body.List[0].(*ast.ReturnStmt)
			if !ok || len(ret.Results) != 1 {
				fail(call, "WriteStringsFunc with an unrecognised function")
			}

			e.n.text(fl)

			return ".lpList " + leanStr(src(ret.Results[0])+" for "+e.n.text(call.Args[1])), true
		default:
			fail(call, "unknown hashx function %s", sel.Sel.Name)
		}
	}

	return "", false
}

func (e *keyExtractor) stmts(list []ast.Stmt) {
	for _, s := range list {
		e.stmt(s)
	}
}

func (e *keyExtractor) sinks() map[string]bool {
	res := map[string]bool{}
	for k := range e.hashVars {
		res[k] = true
	}

	for k := range e.bufVars {
		res[k] = true
	}

	return res
}

func (e *keyExtractor) assign(lhs []ast.Expr, rhs []ast.Expr, conditional bool) {
	if len(rhs) != 1 || len(lhs) == 0 {
		return
	}

	id, ok := lhs[0].(*ast.Ident)
	if !ok {
		return
	}

	switch {
	case src(rhs[0]) == "sha256.New()":
		e.hashVars[id.Name] = true
	case src(rhs[0]) == `bytes.NewBufferString("")`:
		e.bufVars[id.Name] = ""
	default:
		if c, ok := isCall(rhs[0], "json", "Marshal"); ok && len(c.Args) == 1 {
			e.defs[id.Name] = "json.Marshal(" + e.n.text(c.Args[0]) + ")"
			e.n.define(id.Name, e.defs[id.Name])
		} else if c, ok := rhs[0].(*ast.CallExpr); ok && src(c.Fun) == "make" {
			// byte buffer, filled later
			if conditional {
				e.optional[id.Name] = true
			}
		} else {
			e.defs[id.Name] = e.n.text(rhs[0])
			e.n.define(id.Name, e.defs[id.Name])
		}
	}
}

func (e *keyExtractor) stmt(s ast.Stmt) {
	sinks := e.sinks()

	switch v := s.(type) {
	case *ast.AssignStmt:
		if mentions(v, e.hashVars) && !(len(v.Rhs) == 1 && isSum(v.Rhs[0])) {
			fail(v, "hash used in an assignment: %s", src(v))
		}

		e.assign(v.Lhs, v.Rhs, false)
	case *ast.DeclStmt:
		gd, ok := v.Decl.(*ast.GenDecl)
		if !ok {
			return
		}

		for _, sp := range gd.Specs {
			vs, ok := sp.(*ast.ValueSpec)
			if !ok {
				continue
			}

			if len(vs.Values) == 0 {
				for _, n := range vs.Names {
					e.optional[n.Name] = true
				}

				continue
			}

			lhs := make([]ast.Expr, len(vs.Names))
			for i, n := range vs.Names {
				lhs[i] = n
			}

			e.assign(lhs, vs.Values, false)
		}
	case *ast.ExprStmt:
		call, ok := v.X.(*ast.CallExpr)
		if !ok {
			if mentions(v, sinks) {
				fail(v, "unrecognised use of the hash: %s", src(v))
			}

			return
		}

		// binary.LittleEndian.PutUint64(buf, uint64(x))
		if sel, ok := call.Fun.(*ast.SelectorExpr); ok && sel.Sel.Name == "PutUint64" && len(call.Args) == 2 {
			if id, ok := call.Args[0].(*ast.Ident); ok {
				val := call.Args[1]
				if conv, ok := val.(*ast.CallExpr); ok && src(conv.Fun) == "uint64" && len(conv.Args) == 1 {
					val = conv.Args[0]
				}

				e.u64[id.Name] = true
				e.defs[id.Name] = e.n.text(val)
			}

			return
		}

		if f, ok := e.writeOf(call, sinks); ok {
			e.emit(call, f)

			return
		}

		if mentions(v, sinks) {
			fail(v, "unrecognised use of the hash: %s", src(v))
		}
	case *ast.RangeStmt:
		if !mentions(v.Body, sinks) {
			return
		}

		e.rangeStmt(v, sinks)
	case *ast.IfStmt:
		if !mentions(v.Body, sinks) && (v.Else == nil || !mentions(v.Else, sinks)) {
			// may still fill a buffer conditionally
			if v.Else == nil && v.Init == nil {
				for _, st := range v.Body.List {
					if as, ok := st.(*ast.AssignStmt); ok {
						e.assign(as.Lhs, as.Rhs, true)
					} else {
						e.stmt(st)
					}
				}
			}

			return
		}

		if v.Else != nil || v.Init != nil {
			fail(v, "conditional write with else/init")
		}

		cond := e.n.text(v.Cond)
		before := len(e.fields)
		e.stmts(v.Body.List)

		written := e.fields[before:]
		if len(written) != 1 {
			fail(v, "conditional block with %d writes", len(written))
		}

		e.fields = append(e.fields[:before], ".opt "+leanStr(cond)+" ("+written[0]+")")
	case *ast.ReturnStmt, *ast.DeferStmt:
		return
	default:
		if mentions(s, sinks) {
			fail(s, "unrecognised statement using the hash: %s", src(s))
		}
	}
}

func isSum(x ast.Expr) bool {
	c, ok := x.(*ast.CallExpr)
	if !ok {
		return false
	}

	sel, ok := c.Fun.(*ast.SelectorExpr)

	return ok && sel.Sel.Name == "Sum"
}

func (e *keyExtractor) emit(at ast.Node, f string) {
	call, _ := at.(*ast.CallExpr)
	if call != nil {
		if sel, ok := call.Fun.(*ast.SelectorExpr); ok {
			if id, ok := sel.X.(*ast.Ident); ok {
				if _, isBuf := e.bufVars[id.Name]; isBuf {
					fail(at, "write into a buffer outside a recognised loop")
				}
			}
		}
	}

	e.fields = append(e.fields, f)
}

// for k, v := range m { w.Write(k); w.Write(v) }   -> mapRaw m   (w the hash or a buffer)
// for _, c := range xs { w.Write(c) }              -> joined [] xs
func (e *keyExtractor) rangeStmt(v *ast.RangeStmt, sinks map[string]bool) {
	keyName, valName := "", ""
	if id, ok := v.Key.(*ast.Ident); ok {
		keyName = id.Name
	}

	if v.Value != nil {
		if id, ok := v.Value.(*ast.Ident); ok {
			valName = id.Name
		}
	}

	var written []string

	sink := ""

	for _, st := range v.Body.List {
		es, ok := st.(*ast.ExprStmt)
		if !ok {
			fail(st, "unrecognised statement in a loop writing into the hash")
		}

		call, ok := es.X.(*ast.CallExpr)
		if !ok {
			fail(st, "unrecognised statement in a loop writing into the hash")
		}

		sel, ok := call.Fun.(*ast.SelectorExpr)
		if !ok || sel.Sel.Name != "Write" || len(call.Args) != 1 {
			fail(st, "unrecognised call in a loop writing into the hash")
		}

		id, ok := sel.X.(*ast.Ident)
		if !ok || !sinks[id.Name] {
			fail(st, "unrecognised call in a loop writing into the hash")
		}

		sink = id.Name

		c, ok := isCall(call.Args[0], "stringx", "ToBytes")
		if !ok || len(c.Args) != 1 {
			fail(st, "loop writes something other than stringx.ToBytes(loop variable)")
		}

		arg, ok := c.Args[0].(*ast.Ident)
		if !ok {
			fail(st, "loop writes something other than a loop variable")
		}

		written = append(written, arg.Name)
	}

	var field string

	switch {
	case len(written) == 2 && written[0] == keyName && written[1] == valName && keyName != "_":
		field = ".mapRaw " + leanStr(e.n.text(v.X))
	case len(written) == 1 && written[0] == valName && (keyName == "_" || keyName == ""):
		field = ".joined [] " + leanStr(e.n.text(v.X))
	default:
		fail(v, "unrecognised loop writing into the hash")
	}

	if _, isBuf := e.bufVars[sink]; isBuf {
		if e.bufVars[sink] != "" {
			fail(v, "buffer filled twice")
		}

		e.bufVars[sink] = field

		return
	}

	e.fields = append(e.fields, field)
}

func newKeyExtractor(n *normaliser) *keyExtractor {
	return &keyExtractor{
		n:        n,
		hashVars: map[string]bool{}, bufVars: map[string]string{}, defs: map[string]string{},
		u64: map[string]bool{}, optional: map[string]bool{},
	}
}

func recvTypeName(fd *ast.FuncDecl) string {
	if fd.Recv == nil || len(fd.Recv.List) != 1 {
		return ""
	}

	t := fd.Recv.List[0].Type
	if s, ok := t.(*ast.StarExpr); ok {
		t = s.X
	}

	if id, ok := t.(*ast.Ident); ok {
		return id.Name
	}

	return ""
}

// A key function that computes nothing itself but hands its inputs to a helper of the same package — its only `return`
// is the last statement and returns exactly `g(args…)` / `<receiver>.g(args…)` — has the key of that helper: the
// helper is extracted instead, its receiver and parameters standing for the (normalised) receiver and argument
// expressions of the call, so that the labels are those of the same writes made in the function itself. Anything else
// (an early return, a result that is not the call itself, a callee outside the package, a method of another object) is
// not a delegation; nil is returned and the caller fails closed.
func (e *keyExtractor) delegation(fd *ast.FuncDecl, files []*ast.File) (*ast.FuncDecl, *normaliser) {
	returns := 0

	ast.Inspect(fd.Body, func(x ast.Node) bool {
		switch x.(type) {
		case *ast.FuncLit:
			return false
		case *ast.ReturnStmt:
			returns++
		}

		return true
	})

	if returns != 1 || len(fd.Body.List) == 0 {
		return nil, nil
	}

	ret, ok := fd.Body.List[len(fd.Body.List)-1].(*ast.ReturnStmt)
	if !ok || len(ret.Results) != 1 {
		return nil, nil
	}

	call, ok := ret.Results[0].(*ast.CallExpr)
	if !ok || call.Ellipsis != token.NoPos {
		return nil, nil
	}

	var callee *ast.FuncDecl

	inner := &normaliser{names: map[string]string{}}

	switch f := call.Fun.(type) {
	case *ast.Ident:
		callee = findInPackage(files, "", f.Name)
	case *ast.SelectorExpr:
		self := ""
		if fd.Recv != nil && len(fd.Recv.List) == 1 && len(fd.Recv.List[0].Names) == 1 {
			self = fd.Recv.List[0].Names[0].Name
		}

		id, ok := f.X.(*ast.Ident)
		if !ok || self == "" || id.Name != self || recvTypeName(fd) == "" {
			return nil, nil
		}

		callee = findInPackage(files, recvTypeName(fd), f.Sel.Name)
		if callee != nil && len(callee.Recv.List[0].Names) == 1 {
			inner.names[callee.Recv.List[0].Names[0].Name] = e.n.text(f.X)
		}
	}

	if callee == nil || callee == fd || callee.Type.Params == nil {
		return nil, nil
	}

	var params []string

	for _, f := range callee.Type.Params.List {
		if _, variadic := f.Type.(*ast.Ellipsis); variadic || len(f.Names) == 0 {
			return nil, nil
		}

		for _, name := range f.Names {
			params = append(params, name.Name)
		}
	}

	if len(params) != len(call.Args) {
		return nil, nil
	}

	for i, p := range params {
		if p != "_" {
			inner.define(p, e.n.text(call.Args[i]))
		}
	}

	return callee, inner
}

func extractKey(root string, t target) []string {
	files := packageFiles(root, t.file)

	fd := findInPackage(files, t.recv, t.fn)
	if fd == nil {
		fail(nil, "%s: function %s.%s not found", t.file, t.recv, t.fn)
	}

	e := newKeyExtractor(newNormaliser(fd))
	e.stmts(fd.Body.List)

	const maxDelegations = 3

	for hops := 0; len(e.hashVars) == 0 && len(e.fields) == 0 && hops < maxDelegations; hops++ {
		callee, inner := e.delegation(fd, files)
		if callee == nil {
			break
		}

		fd = callee
		e = newKeyExtractor(inner)
		e.stmts(fd.Body.List)
	}

	if len(e.hashVars) != 1 {
		fail(fd, "expected exactly one sha256.New() in %s.%s, found %d", t.recv, t.fn, len(e.hashVars))
	}

	if len(e.fields) == 0 {
		fail(fd, "%s.%s writes nothing into its hash", t.recv, t.fn)
	}

	return e.fields
}

// --------------------------------------------------------------------------------------------------------------
// hit and miss paths

type pathExtractor struct {
	files []*ast.File
	recv  string
	depth int
}

func (p *pathExtractor) recvName(fd *ast.FuncDecl) string {
	if fd.Recv != nil && len(fd.Recv.List) == 1 && len(fd.Recv.List[0].Names) == 1 {
		return fd.Recv.List[0].Names[0].Name
	}

	return ""
}

// names of all calls inside n, in source order; calls of methods on the receiver are followed (same file).
// With mark set, a call that is not executed on every pass through n — it sits in a branch guarded by something else
// than an error check, in a loop / switch / closure, in the right operand of && or ||, or behind a guarded early exit —
// is reported with a leading "?".
func (p *pathExtractor) calls(n ast.Node, self string, depth int) []string {
	w := &pathWalker{p: p}

	switch v := n.(type) {
	case *ast.BlockStmt:
		w.stmts(v.List, self, depth, false)
	case ast.Stmt:
		w.stmts([]ast.Stmt{v}, self, depth, false)
	default:
		w.expr(n, self, depth, false)
	}

	return w.res
}

type pathWalker struct {
	p    *pathExtractor
	mark bool
	res  []string
	// region mode: the walk starts at the entry function; calls before the cache lookup are ignored, calls executed
	// once the lookup succeeded are the hit path (marked `?` when conditional), calls after it the miss path
	region int // 0: not in region mode, 1: before the lookup, 2: hit path, 3: after
	vars   map[string]bool
	hit    []string
	miss   []string
	gets   int
	// guard mode (miss path): a call inside a branch whose condition reads the receiver (the configuration of the
	// mechanism instance, which a rule may override) is reported as `name?<conditions>`
	norm   *normaliser
	guards []string
}

func (w *pathWalker) add(name string, cond bool) {
	switch w.region {
	case 1:
		return
	case 2:
		if cond {
			name = "?" + name
		}

		w.hit = append(w.hit, name)

		return
	case 3:
		if w.norm != nil && len(w.guards) != 0 && name != "Set" {
			name += "?" + strings.Join(w.guards, " && ")
		}

		w.miss = append(w.miss, name)

		return
	}

	if cond && w.mark {
		name = "?" + name
	}

	if w.norm != nil && len(w.guards) != 0 && name != "Set" {
		name += "?" + strings.Join(w.guards, " && ")
	}

	w.res = append(w.res, name)
}

// the normalised condition if it reads the receiver, "" otherwise
func (w *pathWalker) guard(cond ast.Expr) string {
	if w.norm == nil || cond == nil || isErrCond(cond) {
		return ""
	}

	text := w.norm.text(cond)
	if !strings.Contains(text, "recv.") {
		return ""
	}

	return text
}

// err == nil, err != nil, errors.Is(err, ..), errors.As(err, ..) and their combinations
func isErrCond(e ast.Expr) bool {
	switch v := e.(type) {
	case *ast.ParenExpr:
		return isErrCond(v.X)
	case *ast.UnaryExpr:
		return v.Op == token.NOT && isErrCond(v.X)
	case *ast.BinaryExpr:
		switch v.Op {
		case token.LAND, token.LOR:
			return isErrCond(v.X) && isErrCond(v.Y)
		case token.EQL, token.NEQ:
			x, xok := v.X.(*ast.Ident)
			y, yok := v.Y.(*ast.Ident)

			return xok && yok && ((x.Name == "err" && y.Name == "nil") || (x.Name == "nil" && y.Name == "err"))
		}
	case *ast.CallExpr:
		if c, ok := isCall(v, "errors", "Is"); ok && len(c.Args) == 2 {
			id, ok := c.Args[0].(*ast.Ident)

			return ok && id.Name == "err"
		}

		if c, ok := isCall(v, "errors", "As"); ok && len(c.Args) == 2 {
			id, ok := c.Args[0].(*ast.Ident)

			return ok && id.Name == "err"
		}
	}

	return false
}

func exits(n ast.Node) bool {
	found := false

	ast.Inspect(n, func(x ast.Node) bool {
		switch v := x.(type) {
		case *ast.FuncLit:
			return false
		case *ast.IfStmt:
			// leaving because of an error is not leaving because of the guard
			if isErrCond(v.Cond) {
				if v.Else != nil && exits(v.Else) {
					found = true
				}

				return false
			}
		case *ast.ReturnStmt:
			found = true
		case *ast.BranchStmt:
			found = true
		case *ast.CallExpr:
			if id, ok := v.Fun.(*ast.Ident); ok && id.Name == "panic" {
				found = true
			}
		}

		return !found
	})

	return found
}

func (w *pathWalker) expr(n ast.Node, self string, depth int, cond bool) {
	if n == nil {
		return
	}

	ast.Inspect(n, func(x ast.Node) bool {
		switch v := x.(type) {
		case *ast.BinaryExpr:
			if v.Op == token.LAND || v.Op == token.LOR {
				w.expr(v.X, self, depth, cond)
				w.expr(v.Y, self, depth, true)

				return false
			}
		case *ast.FuncLit:
			w.stmts(v.Body.List, self, depth, true)

			return false
		case *ast.CallExpr:
			switch f := v.Fun.(type) {
			case *ast.SelectorExpr:
				w.add(f.Sel.Name, cond)

				if id, ok := f.X.(*ast.Ident); ok && id.Name == self && depth < 3 {
					if fd := findInPackage(w.p.files, w.p.recv, f.Sel.Name); fd != nil {
						outer, outerVars, outerGuards := w.norm, w.vars, w.guards
						if outer != nil {
							w.norm = newNormaliser(fd)
						}

						if w.region != 0 {
							w.vars = cacheParams(fd, cacheVars(fd.Body))
						}

						w.stmts(fd.Body.List, w.p.recvName(fd), depth+1, cond)
						w.norm, w.vars = outer, outerVars

						if len(w.guards) > len(outerGuards) {
							w.guards = w.guards[:len(outerGuards)]
						}
					}
				}
			case *ast.Ident:
				w.add(f.Name, cond)
			}
		}

		return true
	})
}

// is there a cache lookup somewhere inside n
func mentionsCacheGet(n ast.Node, vars map[string]bool) bool {
	found := false

	ast.Inspect(n, func(x ast.Node) bool {
		if e, ok := x.(ast.Expr); ok && isCacheCall(e, "Get", vars) {
			found = true
		}

		return !found
	})

	return found
}

// is the lookup inside n one of the two statement shapes handled when the walk reaches it (n is a compound
// statement the walk descends into)
func containsStmtLookup(n ast.Stmt, vars map[string]bool) bool {
	found := false

	ast.Inspect(n, func(x ast.Node) bool {
		switch v := x.(type) {
		case *ast.IfStmt:
			if x != ast.Node(n) && isCacheGet(v, vars) {
				found = true
			}
		case *ast.AssignStmt:
			if x != ast.Node(n) && len(v.Rhs) == 1 && len(v.Lhs) == 2 && isCacheCall(v.Rhs[0], "Get", vars) {
				found = true
			}
		}

		return !found
	})

	return found
}

// returns whether what follows the list is only reached conditionally
func (w *pathWalker) stmts(list []ast.Stmt, self string, depth int, cond bool) bool {
	scope := len(w.guards)

	defer func() { w.guards = w.guards[:scope] }()

	for idx := 0; idx < len(list); idx++ {
		s := list[idx]

		if w.region == 1 {
			// `if v, e := <cache>.Get(..); e == nil { <hit path> }`
			if is, ok := s.(*ast.IfStmt); ok && isCacheGet(is, w.vars) {
				if is.Else != nil {
					fail(is, "unrecognised shape of the cache lookup")
				}

				w.gets++
				w.region = 2
				saved := w.guards
				w.guards = nil
				w.stmts(is.Body.List, self, depth, false)
				w.guards = saved
				w.region = 3

				continue
			}

			// `v, e := <cache>.Get(..)` followed by `if e != nil { return .. }` (the rest of the function is the hit
			// path) or by `if e == nil { <hit path> }`
			if as, ok := s.(*ast.AssignStmt); ok && len(as.Rhs) == 1 && len(as.Lhs) == 2 && isCacheCall(as.Rhs[0], "Get", w.vars) {
				errVar, _ := as.Lhs[1].(*ast.Ident)
				if errVar == nil || idx+1 >= len(list) {
					fail(as, "unrecognised shape of the cache lookup")
				}

				next, ok := list[idx+1].(*ast.IfStmt)
				if !ok || next.Init != nil || next.Else != nil {
					fail(as, "unrecognised shape of the cache lookup")
				}

				cmp, ok := next.Cond.(*ast.BinaryExpr)
				if !ok || src(cmp.X) != errVar.Name || src(cmp.Y) != "nil" {
					fail(as, "unrecognised shape of the cache lookup")
				}

				w.gets++
				saved := w.guards
				w.guards = nil

				switch {
				case cmp.Op == token.NEQ && exits(next.Body):
					w.region = 2
					w.stmts(list[idx+2:], self, depth, false)
					w.region = 3
					w.guards = saved

					return cond
				case cmp.Op == token.EQL:
					w.region = 2
					w.stmts(next.Body.List, self, depth, false)
					w.region = 3
					w.guards = saved
					idx++

					continue
				default:
					fail(as, "unrecognised shape of the cache lookup")
				}
			}

			if mentionsCacheGet(s, w.vars) && !containsStmtLookup(s, w.vars) {
				fail(s, "cache lookup in an unrecognised position")
			}
		}

		switch v := s.(type) {
		case *ast.BlockStmt:
			cond = w.stmts(v.List, self, depth, cond)
		case *ast.LabeledStmt:
			cond = w.stmts([]ast.Stmt{v.Stmt}, self, depth, cond)
		case *ast.IfStmt:
			if v.Init != nil {
				w.stmts([]ast.Stmt{v.Init}, self, depth, cond)
			}

			w.expr(v.Cond, self, depth, cond)

			inner := cond || !isErrCond(v.Cond)
			guardedExit := !isErrCond(v.Cond) && exits(v.Body)
			elseExit := v.Else != nil && !isErrCond(v.Cond) && exits(v.Else)
			g := w.guard(v.Cond)

			if g != "" {
				w.guards = append(w.guards, g)
			}

			w.stmts(v.Body.List, self, depth, inner)

			if g != "" {
				w.guards[len(w.guards)-1] = "!(" + g + ")"
			}

			if v.Else != nil {
				w.stmts([]ast.Stmt{v.Else}, self, depth, inner)
			}

			if g != "" {
				w.guards = w.guards[:len(w.guards)-1]

				// what follows a guarded exit is reached only if the guard did not fire
				if guardedExit {
					w.guards = append(w.guards, "!("+g+")")
				} else if elseExit {
					w.guards = append(w.guards, g)
				}
			}

			cond = cond || guardedExit || elseExit
		case *ast.ForStmt:
			if v.Init != nil {
				w.stmts([]ast.Stmt{v.Init}, self, depth, cond)
			}

			w.expr(v.Cond, self, depth, true)
			w.stmts(v.Body.List, self, depth, true)
		case *ast.RangeStmt:
			w.expr(v.X, self, depth, cond)
			w.stmts(v.Body.List, self, depth, true)
		case *ast.SwitchStmt:
			if v.Init != nil {
				w.stmts([]ast.Stmt{v.Init}, self, depth, cond)
			}

			w.expr(v.Tag, self, depth, cond)
			w.stmts(v.Body.List, self, depth, true)

			cond = cond || exits(v.Body)
		case *ast.TypeSwitchStmt:
			w.stmts(v.Body.List, self, depth, true)

			cond = cond || exits(v.Body)
		case *ast.SelectStmt:
			w.stmts(v.Body.List, self, depth, true)

			cond = cond || exits(v.Body)
		case *ast.CaseClause:
			for _, e := range v.List {
				w.expr(e, self, depth, true)
			}

			w.stmts(v.Body, self, depth, true)
		case *ast.CommClause:
			w.stmts(v.Body, self, depth, true)
		default:
			w.expr(s, self, depth, cond)
		}
	}

	return cond
}

// parameters of type cache.Cache
func cacheParams(fd *ast.FuncDecl, vars map[string]bool) map[string]bool {
	if fd.Type.Params != nil {
		for _, f := range fd.Type.Params.List {
			if src(f.Type) == "cache.Cache" {
				for _, n := range f.Names {
					vars[n.Name] = true
				}
			}
		}
	}

	return vars
}

// variables holding the cache of the request context: x := cache.Ctx(..)
func cacheVars(body ast.Node) map[string]bool {
	vars := map[string]bool{}

	ast.Inspect(body, func(x ast.Node) bool {
		as, ok := x.(*ast.AssignStmt)
		if !ok || len(as.Lhs) != 1 || len(as.Rhs) != 1 {
			return true
		}

		if _, ok := isCall(as.Rhs[0], "cache", "Ctx"); ok {
			if id, ok := as.Lhs[0].(*ast.Ident); ok {
				vars[id.Name] = true
			}
		}

		return true
	})

	return vars
}

// is x a call of method `name` on the cache of the request context
func isCacheCall(x ast.Expr, name string, vars map[string]bool) bool {
	c, ok := x.(*ast.CallExpr)
	if !ok {
		return false
	}

	sel, ok := c.Fun.(*ast.SelectorExpr)
	if !ok || sel.Sel.Name != name {
		return false
	}

	if id, ok := sel.X.(*ast.Ident); ok {
		return vars[id.Name]
	}

	_, ok = isCall(sel.X, "cache", "Ctx")

	return ok
}

// if v, e := <cache>.Get(..); e == nil { .. }
func isCacheGet(s *ast.IfStmt, vars map[string]bool) bool {
	as, ok := s.Init.(*ast.AssignStmt)
	if !ok || len(as.Rhs) != 1 || len(as.Lhs) != 2 || !isCacheCall(as.Rhs[0], "Get", vars) {
		return false
	}

	errVar, ok := as.Lhs[1].(*ast.Ident)
	if !ok {
		return false
	}

	cond, ok := s.Cond.(*ast.BinaryExpr)
	if !ok || cond.Op != token.EQL {
		return false
	}

	x, xok := cond.X.(*ast.Ident)
	y, yok := cond.Y.(*ast.Ident)

	return xok && yok && x.Name == errVar.Name && y.Name == "nil"
}

// every type (package directory : receiver type, or function for a plain function) under internal/ that looks something
// up in, or stores something to the cache of the request context; more than one lookup per type is not understood
func cacheSites(root string) []string {
	var sites []string

	lookups := map[string]int{}

	err := filepath.Walk(filepath.Join(root, "internal"), func(path string, info os.FileInfo, err error) error {
		if err != nil {
			return err
		}

		rel, _ := filepath.Rel(root, path)
		if info.IsDir() {
			if strings.HasPrefix(rel, "internal/cache") || strings.HasPrefix(rel, "internal/zzverif") || info.Name() == "mocks" {
				return filepath.SkipDir
			}

			return nil
		}

		if !strings.HasSuffix(path, ".go") || strings.HasSuffix(path, "_test.go") || strings.HasPrefix(info.Name(), "zz_verif_") {
			return nil
		}

		f, perr := parser.ParseFile(fset, path, nil, 0)
		if perr != nil {
			return perr
		}

		for _, d := range f.Decls {
			fd, ok := d.(*ast.FuncDecl)
			if !ok || fd.Body == nil {
				continue
			}

			vars := cacheParams(fd, cacheVars(fd.Body))
			uses := false

			ast.Inspect(fd.Body, func(x ast.Node) bool {
				if e, ok := x.(ast.Expr); ok && (isCacheCall(e, "Get", vars) || isCacheCall(e, "Set", vars)) {
					uses = true
				}

				return !uses
			})

			if uses {
				recv := ""

				if fd.Recv != nil && len(fd.Recv.List) == 1 {
					t := fd.Recv.List[0].Type
					if st, ok := t.(*ast.StarExpr); ok {
						t = st.X
					}

					recv = src(t)
				}

				if recv == "" {
					recv = fd.Name.Name
				}

				site := filepath.Dir(rel) + ":" + recv

				ast.Inspect(fd.Body, func(x ast.Node) bool {
					if e, ok := x.(ast.Expr); ok && isCacheCall(e, "Get", vars) {
						lookups[site]++
					}

					return true
				})

				known := false

				for _, s := range sites {
					known = known || s == site
				}

				if !known {
					sites = append(sites, site)
				}
			}
		}

		return nil
	})
	if err != nil {
		fail(nil, "%v", err)
	}

	for site, n := range lookups {
		if n > 1 {
			fail(nil, "%d cache lookups in %s", n, site)
		}
	}

	return sites
}

func extractPaths(root string, t target) (hit, miss []string, returns bool) {
	files := packageFiles(root, t.file)

	fd := findInPackage(files, t.recv, t.fn)
	if fd == nil {
		fail(nil, "%s: function %s.%s not found", t.file, t.recv, t.fn)
	}

	p := &pathExtractor{files: files, recv: t.recv}
	w := &pathWalker{p: p, region: 1, norm: newNormaliser(fd), vars: cacheParams(fd, cacheVars(fd.Body))}
	w.stmts(fd.Body.List, p.recvName(fd), 0, false)

	if w.gets != 1 {
		fail(fd, "%d cache lookups of a recognised shape reachable from %s.%s (expected 1)", w.gets, t.recv, t.fn)
	}

	return w.hit, w.miss, true
}

// the calls the obligations talk about: validation, the remote call, storing
var relevant = map[string]bool{
	"Validate": true, "verify": true, "eval": true, "Assert": true, "validateJWK": true, "Set": true, "Do": true,
	"Unmarshal": true, "SendRequest": true, "Sign": true, "signAndHash": true,
}

func leanList(items []string) string {
	q := make([]string, 0, len(items))

	for _, s := range items {
		name := strings.TrimPrefix(s, "?")
		if i := strings.Index(name, "?"); i >= 0 {
			name = name[:i]
		}

		if relevant[name] {
			q = append(q, leanStr(s))
		}
	}

	return "[" + strings.Join(q, ", ") + "]"
}

func main() {
	root := flag.String("repo", "/repo", "heimdall source tree")
	flag.Parse()

	var out strings.Builder

	out.WriteString("-- generated by /verif/extract/cachekey from the heimdall source tree; do not edit\n")
	out.WriteString("import HeimdallModel.Model.CacheKey\nnamespace Heimdall.Gen.CacheKeys\nopen Heimdall.CacheKey\n\n")

	for _, t := range keyTargets {
		var fields []string

		if !guarded(func() { fields = extractKey(*root, t) }) {
			// a list no obligation accepts: neither delimited, nor ordered, nor covering anything
			fields = []string{".mapRaw " + leanStr("not understood: "+failures[len(failures)-1]), ".mapRaw \"\""}
		}

		fmt.Fprintf(&out, "/-- %s: %s.%s -/\ndef %s : List Field := [\n  %s]\n\n", t.file, t.recv, t.fn, t.name,
			strings.Join(fields, ",\n  "))
	}

	out.WriteString("def table : List (String × List Field) := [\n")

	for i, t := range keyTargets {
		sep := ","
		if i == len(keyTargets)-1 {
			sep = ""
		}

		fmt.Fprintf(&out, "  (%s, %s)%s\n", leanStr(t.name), t.name, sep)
	}

	out.WriteString("]\n\n")

	type pathRes struct {
		name      string
		hit, miss []string
		returns   bool
	}

	var paths []pathRes

	for _, t := range pathTargets {
		var (
			hit, miss []string
			returns   bool
		)

		if !guarded(func() { hit, miss, returns = extractPaths(*root, t) }) {
			hit, miss = []string{"?not understood"}, []string{"Set"}
		}

		paths = append(paths, pathRes{t.name, hit, miss, returns})
	}

	out.WriteString("/-- calls made inside `if entry, err := cch.Get(..); err == nil { .. }` (methods of the receiver followed) -/\n")
	out.WriteString("def hitPath : List (String × List String) := [\n")

	for i, p := range paths {
		sep := ","
		if i == len(paths)-1 {
			sep = ""
		}

		fmt.Fprintf(&out, "  (%s, %s)%s\n", leanStr(p.name), leanList(p.hit), sep)
	}

	out.WriteString("]\n\n/-- calls made after the lookup (the miss path), in source order -/\n")
	out.WriteString("def missPath : List (String × List String) := [\n")

	for i, p := range paths {
		sep := ","
		if i == len(paths)-1 {
			sep = ""
		}

		fmt.Fprintf(&out, "  (%s, %s)%s\n", leanStr(p.name), leanList(p.miss), sep)
	}

	out.WriteString("]\n\n")

	// every user of the request cache has to be one of the functions the obligations talk about
	known := map[string]bool{"internal/httpcache:RoundTripper": true}
	for _, t := range pathTargets {
		known[filepath.Dir(t.file)+":"+t.recv] = true
	}

	var sites []string

	guarded(func() { sites = cacheSites(*root) })

	for _, site := range sites {
		if !known[site] {
			guarded(func() { fail(nil, "unlisted user of the request cache: %s", site) })
		}
	}

	fmt.Fprintf(&out, "/-- functions using the cache of the request context (all of them are covered above) -/\ndef cacheSites : List String := %s\n", func() string {
		q := make([]string, len(sites))
		for i, s := range sites {
			q[i] = leanStr(s)
		}

		return "[" + strings.Join(q, ", ") + "]"
	}())
	out.WriteString("\nend Heimdall.Gen.CacheKeys\n")
	fmt.Print(out.String())

	// the module is complete (what was not understood is in it as something no obligation accepts); the exit code
	// tells that the tie is broken
	if len(failures) != 0 {
		os.Exit(3)
	}
}
