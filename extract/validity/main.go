// Command validity reads the leeway / default-TTL constants of the caching mechanisms from the current heimdall
// sources (go/ast, go/parser, go/token and the standard library only) and prints them as JSON
// {"name": {"seconds": n, "expr": "...", "file": "..."}}; extract.py renders lean/HeimdallModel/Gen/CacheConsts.lean.
//
// A constant is looked up by what it is, not by where it stands:
//   - `timeLeeway` declared anywhere inside the method getCacheTTL of a given receiver type (any receiver name, any
//     position in the body, typed or untyped), in any non-test file of the package directory; when the method declares
//     none: the one package level constant with "leeway" in its name (any case) that the method body refers to (the
//     constant hoisted out of the function; that its value is really what the function subtracts is proved for all
//     inputs by the equality theorems about the translated function, Props/C10Src.lean);
//   - package level constants / variables by name, in any non-test file of the package directory;
//   - the DefaultTTL field of the endpoint.HTTPCache composite literal inside MetadataEndpoint.effectiveEndpoint.
//
// Values are constant expressions over integer literals, time.Second / Minute / Hour, + - * ( ) and conversions
// (`int64(10)`, `time.Duration(5)`); an expression that mentions a time unit is a duration and must be a whole number
// of seconds, a plain number is a number of seconds. Anything else, a missing or an ambiguous declaration aborts with
// exit code 2 (fail closed) - except for the four cache leeways and the default TTL of the JWT authenticator, which
// are reported with an `error` instead: extract.py then derives them from the getCacheTTL functions translated by
// extract/go2lean (the constant a function subtracts does not depend on its name or on where it is declared), and
// fails closed when that is not possible either.
package main

import (
	"encoding/json"
	"fmt"
	"go/ast"
	"go/parser"
	"go/printer"
	"go/token"
	"os"
	"path/filepath"
	"strconv"
	"strings"
)

type fact struct {
	Seconds int64  `json:"seconds"`
	Expr    string `json:"expr"`
	File    string `json:"file"`
	// Error: the constant was not found by name (only for the constants that can also be derived from the translated
	// getCacheTTL functions, see soft); extract.py then asks extract/go2lean
	Error string `json:"error,omitempty"`
}

type failure string

func die(format string, args ...any) {
	panic(failure(fmt.Sprintf("validity extractor: "+format, args...)))
}

// soft: a lookup whose failure is reported in the output instead of aborting the extraction
func soft(lookup func() fact) (f fact) {
	defer func() {
		if r := recover(); r != nil {
			msg, ok := r.(failure)
			if !ok {
				panic(r)
			}

			f = fact{Error: string(msg)}
		}
	}()

	return lookup()
}

type pkg struct {
	fset  *token.FileSet
	files map[string]*ast.File
	rel   string
}

func parseDir(repo, rel string) *pkg {
	dir := filepath.Join(repo, rel)

	entries, err := os.ReadDir(dir)
	if err != nil {
		die("cannot read %s: %v", rel, err)
	}

	p := &pkg{fset: token.NewFileSet(), files: map[string]*ast.File{}, rel: rel}

	for _, e := range entries {
		name := e.Name()
		if e.IsDir() || !strings.HasSuffix(name, ".go") || strings.HasSuffix(name, "_test.go") ||
			strings.HasPrefix(name, "zz_verif_") {
			continue
		}

		f, err := parser.ParseFile(p.fset, filepath.Join(dir, name), nil, 0)
		if err != nil {
			die("cannot parse %s/%s: %v", rel, name, err)
		}

		p.files[name] = f
	}

	return p
}

func (p *pkg) text(e ast.Expr) string {
	var sb strings.Builder
	_ = printer.Fprint(&sb, p.fset, e)

	return sb.String()
}

var units = map[string]int64{"Nanosecond": 1, "Microsecond": 1e3, "Millisecond": 1e6, "Second": 1e9, "Minute": 60e9,
	"Hour": 3600e9}

// eval returns the value and whether the expression is a duration (mentions a time unit)
func eval(e ast.Expr) (int64, bool, error) {
	switch x := e.(type) {
	case *ast.BasicLit:
		if x.Kind != token.INT {
			return 0, false, fmt.Errorf("literal %s is not an integer", x.Value)
		}

		v, err := strconv.ParseInt(strings.ReplaceAll(x.Value, "_", ""), 0, 64)

		return v, false, err
	case *ast.ParenExpr:
		return eval(x.X)
	case *ast.UnaryExpr:
		v, d, err := eval(x.X)
		if err != nil {
			return 0, false, err
		}

		switch x.Op {
		case token.SUB:
			return -v, d, nil
		case token.ADD:
			return v, d, nil
		}

		return 0, false, fmt.Errorf("operator %s", x.Op)
	case *ast.SelectorExpr:
		if id, ok := x.X.(*ast.Ident); ok && id.Name == "time" {
			if u, ok := units[x.Sel.Name]; ok {
				return u, true, nil
			}
		}

		return 0, false, fmt.Errorf("selector %s", x.Sel.Name)
	case *ast.BinaryExpr:
		a, da, err := eval(x.X)
		if err != nil {
			return 0, false, err
		}

		b, db, err := eval(x.Y)
		if err != nil {
			return 0, false, err
		}

		switch x.Op {
		case token.MUL:
			return a * b, da || db, nil
		case token.ADD:
			return a + b, da || db, nil
		case token.SUB:
			return a - b, da || db, nil
		}

		return 0, false, fmt.Errorf("operator %s", x.Op)
	case *ast.CallExpr:
		// a conversion: int64(10), time.Duration(5), ...
		if len(x.Args) != 1 {
			return 0, false, fmt.Errorf("call with %d arguments", len(x.Args))
		}

		switch f := x.Fun.(type) {
		case *ast.Ident:
			if strings.HasPrefix(f.Name, "int") || strings.HasPrefix(f.Name, "uint") {
				return eval(x.Args[0])
			}
		case *ast.SelectorExpr:
			if id, ok := f.X.(*ast.Ident); ok && id.Name == "time" && f.Sel.Name == "Duration" {
				return eval(x.Args[0])
			}
		}

		return 0, false, fmt.Errorf("call of something that is not a conversion")
	}

	return 0, false, fmt.Errorf("expression of kind %T", e)
}

func (p *pkg) fact(name, file string, e ast.Expr) fact {
	v, dur, err := eval(e)
	if err != nil {
		die("%s in %s/%s: `%s` is not a constant the extractor understands: %v", name, p.rel, file, p.text(e), err)
	}

	if dur {
		if v%1e9 != 0 {
			die("%s in %s/%s: `%s` is not a whole number of seconds", name, p.rel, file, p.text(e))
		}

		v /= 1e9
	}

	return fact{Seconds: v, Expr: p.text(e), File: filepath.Join(p.rel, file)}
}

func recvType(fd *ast.FuncDecl) string {
	if fd.Recv == nil || len(fd.Recv.List) != 1 {
		return ""
	}

	t := fd.Recv.List[0].Type
	if s, ok := t.(*ast.StarExpr); ok {
		t = s.X
	}

	if id, ok := t.(*ast.Ident); ok {
		return id.Name
	}

	return ""
}

// valueSpecs calls fn for every `name = value` of the const / var declarations below n
func valueSpecs(n ast.Node, fn func(name string, value ast.Expr)) {
	ast.Inspect(n, func(n ast.Node) bool {
		gd, ok := n.(*ast.GenDecl)
		if !ok || (gd.Tok != token.CONST && gd.Tok != token.VAR) {
			return true
		}

		for _, sp := range gd.Specs {
			vs, ok := sp.(*ast.ValueSpec)
			if !ok {
				continue
			}

			for i, id := range vs.Names {
				if i < len(vs.Values) {
					fn(id.Name, vs.Values[i])
				}
			}
		}

		return true
	})
}

// constInMethod: the declaration `constName` inside method `recv.method`
func (p *pkg) constInMethod(key, recv, method, constName string) fact {
	var found []fact

	for file, f := range p.files {
		for _, d := range f.Decls {
			fd, ok := d.(*ast.FuncDecl)
			if !ok || fd.Body == nil || fd.Name.Name != method || recvType(fd) != recv {
				continue
			}

			valueSpecs(fd.Body, func(name string, value ast.Expr) {
				if name == constName {
					found = append(found, p.fact(key, file, value))
				}
			})
		}
	}

	if len(found) == 0 {
		// hoisted out of the method: the package level constant (any name containing "leeway") the method refers to
		names := map[string]bool{}

		for _, f := range p.files {
			for _, d := range f.Decls {
				fd, ok := d.(*ast.FuncDecl)
				if !ok || fd.Body == nil || fd.Name.Name != method || recvType(fd) != recv {
					continue
				}

				ast.Inspect(fd.Body, func(n ast.Node) bool {
					if sel, ok := n.(*ast.SelectorExpr); ok {
						// the selected name is a field or a member of another package
						ast.Inspect(sel.X, func(m ast.Node) bool {
							if id, ok := m.(*ast.Ident); ok && strings.Contains(strings.ToLower(id.Name), "leeway") {
								names[id.Name] = true
							}

							return true
						})

						return false
					}

					if id, ok := n.(*ast.Ident); ok && strings.Contains(strings.ToLower(id.Name), "leeway") {
						names[id.Name] = true
					}

					return true
				})
			}
		}

		for name := range names {
			if p.hasPkgConst(name) {
				found = append(found, p.pkgConst(key, name))
			}
		}
	}

	if len(found) != 1 {
		die("%s: expected exactly one `%s` inside (%s).%s in %s (or exactly one package level *leeway* constant used "+
			"there), found %d", key, constName, recv, method, p.rel, len(found))
	}

	return found[0]
}

func (p *pkg) hasPkgConst(constName string) bool {
	n := 0

	for _, f := range p.files {
		for _, d := range f.Decls {
			if gd, ok := d.(*ast.GenDecl); ok {
				valueSpecs(gd, func(name string, _ ast.Expr) {
					if name == constName {
						n++
					}
				})
			}
		}
	}

	return n == 1
}

// pkgConst: the package level declaration `constName`
func (p *pkg) pkgConst(key, constName string) fact {
	var found []fact

	for file, f := range p.files {
		for _, d := range f.Decls {
			if gd, ok := d.(*ast.GenDecl); ok {
				valueSpecs(gd, func(name string, value ast.Expr) {
					if name == constName {
						found = append(found, p.fact(key, file, value))
					}
				})
			}
		}
	}

	if len(found) != 1 {
		die("%s: expected exactly one package level `%s` in %s, found %d", key, constName, p.rel, len(found))
	}

	return found[0]
}

// fieldInMethod: the value of `field` in the composite literals of type `typ` inside method `recv.method`
func (p *pkg) fieldInMethod(key, recv, method, typ, field string) fact {
	var found []fact

	for file, f := range p.files {
		for _, d := range f.Decls {
			fd, ok := d.(*ast.FuncDecl)
			if !ok || fd.Body == nil || fd.Name.Name != method || recvType(fd) != recv {
				continue
			}

			ast.Inspect(fd.Body, func(n ast.Node) bool {
				cl, ok := n.(*ast.CompositeLit)
				if !ok || cl.Type == nil || !strings.HasSuffix(p.text(cl.Type), typ) {
					return true
				}

				for _, el := range cl.Elts {
					if kv, ok := el.(*ast.KeyValueExpr); ok {
						if id, ok := kv.Key.(*ast.Ident); ok && id.Name == field {
							found = append(found, p.fact(key, file, kv.Value))
						}
					}
				}

				return true
			})
		}
	}

	if len(found) != 1 {
		die("%s: expected exactly one %s{%s: ...} inside (%s).%s in %s, found %d", key, typ, field, recv, method, p.rel,
			len(found))
	}

	return found[0]
}

func main() {
	defer func() {
		if r := recover(); r != nil {
			msg, ok := r.(failure)
			if !ok {
				panic(r)
			}

			fmt.Fprintln(os.Stderr, string(msg))
			os.Exit(2) //nolint:mnd
		}
	}()

	if len(os.Args) != 2 { //nolint:mnd
		die("usage: validity <repo>")
	}

	repo := os.Args[1]
	authn := parseDir(repo, "internal/rules/mechanisms/authenticators")
	cc := parseDir(repo, "internal/rules/oauth2/clientcredentials")
	fin := parseDir(repo, "internal/rules/mechanisms/finalizers")
	ctxz := parseDir(repo, "internal/rules/mechanisms/contextualizers")
	oa := parseDir(repo, "internal/rules/mechanisms/oauth2")

	out := map[string]fact{
		"introspectionLeeway": soft(func() fact {
			return authn.constInMethod("introspectionLeeway", "oauth2IntrospectionAuthenticator", "getCacheTTL", "timeLeeway")
		}),
		"genericLeeway": soft(func() fact {
			return authn.constInMethod("genericLeeway", "genericAuthenticator", "getCacheTTL", "timeLeeway")
		}),
		"jwtKeyLeeway": soft(func() fact {
			return authn.constInMethod("jwtKeyLeeway", "jwtAuthenticator", "getCacheTTL", "timeLeeway")
		}),
		"clientCredsLeeway":        soft(func() fact { return cc.constInMethod("clientCredsLeeway", "Config", "getCacheTTL", "timeLeeway") }),
		"jwtFinalizerLeeway":       fin.pkgConst("jwtFinalizerLeeway", "defaultCacheLeeway"),
		"jwtFinalizerDefaultTTL":   fin.pkgConst("jwtFinalizerDefaultTTL", "defaultJWTTTL"),
		"jwtKeyDefaultTTL":         soft(func() fact { return authn.pkgConst("jwtKeyDefaultTTL", "defaultJWTAuthenticatorTTL") }),
		"contextualizerDefaultTTL": ctxz.pkgConst("contextualizerDefaultTTL", "defaultTTL"),
		"tokenValidityLeeway":      oa.pkgConst("tokenValidityLeeway", "defaultLeeway"),
		"sessionValidityLeeway":    authn.pkgConst("sessionValidityLeeway", "defaultLeeway"),
		"metadataDefaultTTL":       oa.fieldInMethod("metadataDefaultTTL", "MetadataEndpoint", "effectiveEndpoint", "HTTPCache", "DefaultTTL"),
	}

	enc := json.NewEncoder(os.Stdout)
	enc.SetIndent("", " ")

	if err := enc.Encode(out); err != nil {
		die("%v", err)
	}
}
