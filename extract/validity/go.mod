module verif/extract/validity

go 1.23
