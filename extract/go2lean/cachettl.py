#!/usr/bin/env python3
"""Lean programs of the replay search for the translated cache TTL functions (property C10); running the translator
and building is done by tools/go2lean_tie.py.

* `grid_program()`: a Lean program that evaluates the translated functions, the hand-written model and the
  specification predicate `ttlWithinSpec` on a boundary grid and prints, as JSON lines, every point at which the
  translated function differs from the model, breaks the specification or is not defined. Run with
  `lake env lean --run` (never through the shared driver).
* `verdict_program(points)`: evaluates the specification on TTL values observed on the real code.
"""

# mechanism name in the line protocol of the correspondence check (family c10mech) -> (Lean namespace below
# Heimdall.Validity.Src, constructor of Heimdall.Validity.Mech, kind). kind "ptr": isCacheEnabled + getCacheTTL over a
# pointer ttl; "generic": getCacheTTL over a plain ttl and a session flag, cacheRead; "site": condition (and ttl
# argument) of the cache read / write inside Execute
MECHS = {
    "introspection": ("Introspection", ".introspection", "ptr"),
    "jwtkey": ("JwtKey", ".jwtKey", "ptr"),
    "generic": ("Generic", ".generic", "generic"),
    "clientcreds": ("ClientCreds", ".clientCreds", "ptr"),
    "jwtfin": ("JwtFinalizer", ".jwtFinalizer", "site"),
    "remote": ("RemoteAuthz", ".remoteAuthz", "site"),
    "contextualizer": ("Contextualizer", ".contextualizer", "site"),
}
EXPIRING = ("introspection", "jwtkey", "generic", "clientcreds")


# ---------------------------------------------------------------------------------------------------------------
# Lean programs for the replay search

CFGS = [None, -5, 0, 1, 3, 8, 20, 300, 3600]
REMS = [None, -3000, -30, -11, -10, -9, -6, -5, -4, -1, 0, 1, 2, 4, 5, 6, 7, 9, 10, 11, 12, 15, 19, 20, 21, 30, 60, 299,
        300, 301, 305, 306, 310, 311, 400, 3600, 3605, 3606, 3610, 3611, 100000]
NOWS = [0, 1700000000]


def _opt(v):
    return "none" if v is None else (f"some ({v})" if v < 0 else f"some {v}")


def _optlist(vs):
    return "[" + ", ".join(_opt(v) for v in vs) + "]"


PRELUDE = """import HeimdallModel.Gen.CacheTTLSrc
import HeimdallModel.Spec.CacheTTLBound
open Heimdall.Validity

def jOpt : Option Int → String
  | none => "null"
  | some v => toString v

def jStrs (l : List String) : String := "[" ++ ", ".intercalate (l.map (fun s => "\\"" ++ s ++ "\\"")) ++ "]"

def jBool (b : Bool) : String := if b then "true" else "false"
"""


def grid_program():
    """rows: {"mech", "fn": "ttl" | "enabled", "case_ttl": the `ttl` setting of the c10mech case, "cfg" / "rem": the
    inputs of the specification, "src", "model", "defined", "spec": failed clauses (ttl) / "spec_ok" (enabled)}"""
    lines = [PRELUDE,
             f"def cfgs : List (Option Int) := {_optlist(CFGS)}",
             f"def rems : List (Option Int) := {_optlist(REMS)}",
             f"def nows : List Int := [{', '.join(str(n) for n in NOWS)}]", "",
             "def row (mech : String) (m : Mech) (caseTtl cfg rem : Option Int) (session : Bool) (now src model : Int) "
             "(defined : Bool) (extra : List String := []) : IO Unit := do",
             "  let v := ttlSpecVerdict m.leeway cfg rem src ++ extra",
             "  if src != model || !v.isEmpty || !defined then",
             "    IO.println s!\"\\{\\\"mech\\\": \\\"{mech}\\\", \\\"fn\\\": \\\"ttl\\\", "
             "\\\"case_ttl\\\": {jOpt caseTtl}, \\\"cfg\\\": {jOpt cfg}, "
             "\\\"rem\\\": {jOpt rem}, \\\"session\\\": {jBool session}, \\\"now\\\": {now}, \\\"src\\\": {src}, "
             "\\\"model\\\": {model}, \\\"defined\\\": {jBool defined}, \\\"spec\\\": {jStrs v}}\"", "",
             "def rowEnabled (mech : String) (cfg : Option Int) (src model defined : Bool) : IO Unit := do",
             "  let ok := enabledWithinSpec cfg src",
             "  if src != model || !ok || !defined then",
             "    IO.println s!\"\\{\\\"mech\\\": \\\"{mech}\\\", \\\"fn\\\": \\\"enabled\\\", "
             "\\\"case_ttl\\\": {jOpt cfg}, \\\"cfg\\\": {jOpt cfg}, "
             "\\\"src\\\": {jBool src}, \\\"model\\\": {jBool model}, \\\"defined\\\": {jBool defined}, "
             "\\\"spec_ok\\\": {jBool ok}}\"", "",
             "/-- a cache write inside a larger function: `g` the translated condition, `t` the translated ttl argument -/",
             "def rowWrite (mech : String) (m : Mech) (cfg specCfg rem : Option Int) (g : Bool) (t : Int) "
             "(defined : Bool) : IO Unit := do",
             "  let model := cacheTTL m cfg none",
             "  row mech m cfg specCfg rem true 0 (if g then t else 0) (if 0 < model then model else 0) defined",
             "    (if g && t ≤ 0 then [s!\"Set is called with the non-positive ttl {t}\"] else [])", "",
             "def main : IO Unit := do",
             "  for cfg in cfgs do"]
    for name, (ns, ctor, kind) in MECHS.items():
        if kind == "ptr":
            lines += [f"    rowEnabled \"{name}\" cfg (Src.{ns}.isCacheEnabled cfg) (lookupEnabled {ctor} cfg) "
                      f"(Src.{ns}.isCacheEnabled_defined cfg)"]
        elif kind == "generic":
            lines += [f"    rowEnabled \"{name}\" cfg (Src.{ns}.cacheRead (cfg.getD 0)) (lookupEnabled {ctor} cfg) "
                      f"(Src.{ns}.cacheRead_defined (cfg.getD 0))"]
        elif name == "jwtfin":
            lines += [f"    let life := tokenLifetime cfg",
                      f"    rowWrite \"{name}\" {ctor} cfg none (some life) (Src.{ns}.cacheWrite life true) "
                      f"(Src.{ns}.cacheWriteTTL life true) (Src.{ns}.cacheWrite_defined life true && "
                      f"Src.{ns}.cacheWriteTTL_defined life true)"]
        else:
            lines += [f"    let t{ns} := cfg.getD (Mech.defaultTTL {ctor})",
                      f"    rowEnabled \"{name}\" cfg (Src.{ns}.cacheRead t{ns}) (lookupEnabled {ctor} cfg) "
                      f"(Src.{ns}.cacheRead_defined t{ns})",
                      f"    rowWrite \"{name}\" {ctor} cfg cfg none (Src.{ns}.cacheWrite t{ns} true) "
                      f"(Src.{ns}.cacheWriteTTL t{ns} true) (Src.{ns}.cacheWrite_defined t{ns} true && "
                      f"Src.{ns}.cacheWriteTTL_defined t{ns} true)"]
    lines += ["    for rem in rems do", "      for now in nows do",
              "        let exp := rem.map (· + now)"]
    for name, (ns, ctor, kind) in MECHS.items():
        if kind == "generic":
            lines += [f"        row \"{name}\" {ctor} cfg cfg rem true now (Src.{ns}.getCacheTTL (cfg.getD 0) true exp now) "
                      f"(cacheTTL {ctor} cfg rem) (Src.{ns}.getCacheTTL_defined (cfg.getD 0) true exp now)",
                      f"        row \"{name}\" {ctor} cfg cfg none false now (Src.{ns}.getCacheTTL (cfg.getD 0) false exp now) "
                      f"(cacheTTL {ctor} cfg none) (Src.{ns}.getCacheTTL_defined (cfg.getD 0) false exp now)"]
        elif kind == "ptr":
            lines += [f"        row \"{name}\" {ctor} cfg cfg rem true now (Src.{ns}.getCacheTTL cfg exp now) "
                      f"(cacheTTL {ctor} cfg rem) (Src.{ns}.getCacheTTL_defined cfg exp now)"]
    return "\n".join(lines) + "\n"


def verdict_program(points):
    """points: [{"mech", "cfg", "rem", "ttl"}] -> a program printing one JSON list of failed clauses per point"""
    lines = ["import HeimdallModel.Spec.CacheTTLBound", "open Heimdall.Validity", "",
             "def jStrs (l : List String) : String := \"[\" ++ \", \".intercalate (l.map (fun s => \"\\\"\" ++ s ++ "
             "\"\\\"\")) ++ \"]\"", "", "def main : IO Unit := do"]
    for p in points:
        ctor = MECHS[p["mech"]][1]
        ttl = p["ttl"]
        lines.append(f"  IO.println (jStrs (ttlSpecVerdict (Mech.leeway {ctor}) ({_opt(p['cfg'])}) ({_opt(p['rem'])}) "
                     f"({ttl})))")
    return "\n".join(lines) + "\n"
