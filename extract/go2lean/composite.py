#!/usr/bin/env python3
"""Lean programs of the replay search for the translated pipeline kernels (properties C01 and C04); running the
translator and building is done by tools/go2lean_tie.py.

Both programs read cases of the check's own correspondence family from standard input (one JSON object per line, the
format of `pipeline` / `authn` cases), decode them with the decoders of the model driver (`Driver/Pipeline.lean`,
`Driver/Authn.lean`), run the translated functions (instantiated as in `Model/PipelineSrc.lean` / `Model/AuthnSrc.lean`)
and the hand-written model on them and print, as JSON lines, the cases on which they differ. Run with
`lake env lean --run` (never through the shared driver).
"""

C01_PROGRAM = r"""import Driver.Pipeline
import HeimdallModel.Model.PipelineSrc
open Lean Heimdall Heimdall.Pipeline Heimdall.Pipeline.SrcTie Heimdall.Rules Driver Driver.Pipeline

def causes : List Err := [.foreign] ++ [Kind.argument, .authentication, .authorization, .communication, .timeout,
  .configuration, .internal, .noRule].map Err.ofKind

/-- the kernels on which the translation and the model differ for this rule -/
def parts (trace : Bool) (r : Rule) : List String := Id.run do
  let mut out : List String := []
  let c0 : Ctx := {}
  if Src.SubjectCreator.Execute authExec (·.fallback) (·.is .argument) nilPanic r.authenticators c0
      != (ofRun (createSubject r.auth r.auths c0)).map pairOf then
    out := out ++ ["compositeSubjectCreator.Execute"]
  let subjects := (r.authenticators.filterMap fun a => match a.out with | .ok s => some s | _ => none) ++ ["x"]
  for (name, hs) in [("authorizers/contextualizers", r.handlers), ("finalizers", r.finalizers)] do
    if subjects.any fun s =>
        Src.SubjectHandler.Execute (handlerExec trace noDump nilPanic) (·.continueOnError) nilPanic hs (some s) c0
          != ofRun (runHandlers hs s c0) then
      out := out ++ [s!"compositeSubjectHandler.Execute / conditionalSubjectHandler.Execute ({name})"]
  if causes.any fun e =>
      Src.ErrorHandler.Execute (errorHandlerExec nilPanic) EErr.isNotApplicable nilPanic r.errorHandlers (some (.real e)) c0
        != .done ((runErrorHandlers r.errorHandlers e c0).1.map .real) (runErrorHandlers r.errorHandlers e c0).2 then
    out := out ++ ["compositeErrorHandler.Execute / conditionalErrorHandler.Execute"]
  return out

def check (c : Json) : E (List (String × Bool × List String)) := do
  let dflt ← optDoc c "default"
  let rule ← optDoc c "rule"
  let hit := boolD c "hit" true
  let trace := strD (fldD c "cfg" (Json.mkObj [])) "log" "disabled" == "trace"
  let mut res := []
  for (name, mode) in [("decision", Mode.decision), ("proxy", Mode.proxy)] do
    match load mode dflt rule with
    | none => pure ()
    | some repo =>
      match repo.find hit with
      | none => pure ()
      | some r =>
        let whole := executeSrc trace false false false r {} != ofRun (r.execute {})
        let ps := parts trace r
        let ps := if whole && ps.isEmpty then ["ruleImpl.Execute"] else ps
        if whole || !ps.isEmpty then
          res := res ++ [(name, whole, ps)]
  return res

def main : IO Unit := do
  let stdin ← IO.getStdin
  let mut i := 0
  repeat
    let line ← stdin.getLine
    if line.isEmpty then break
    match Json.parse line >>= check with
    | .ok [] => pure ()
    | .ok ((name, whole, ps) :: _) =>
      IO.println (Json.mkObj [("i", jnat i), ("mode", jstr name), ("whole", Json.bool whole), ("parts", jstrs ps)]).compress
    | .error e => IO.println (Json.mkObj [("i", jnat i), ("error", jstr e)]).compress
    i := i + 1
"""

C04_PROGRAM = r"""import Driver.Authn
import HeimdallModel.Model.AuthnSrc
open Lean Heimdall Heimdall.Authn Heimdall.Authn.SrcTie Driver Driver.Authn

def showRes (r : Option String × Option Err) : String :=
  match r with
  | (some s, none) => s!"(subject {s}, nil)"
  | (none, some e) => s!"(nil, error matching {e.kinds.map kindName})"
  | (none, none) => "(nil, nil)"
  | (some s, some e) => s!"(subject {s}, error matching {e.kinds.map kindName})"

def check (c : Json) : E (List (Nat × String × String × List String)) := do
  let mechs ← (← arr c "mechs").mapM parseMech
  let chain ← (← arr c "steps").mapM fun s => do
    let ref ← str s "ref"
    match mechs.find? (fun m => m.id == ref) with
    | some m => pure { m with override := optBool s "fb", key := strD s "key" ref }
    | none => throw s!"unknown authenticator {ref}"
  let w ← parseWorld (fldD c "world" (Json.mkObj []))
  let mut res := []
  let mut k := 0
  for rq in (← arr c "reqs") do
    let r ← parseReq rq
    let steps := chain.map (Authn.step w r)
    let model := ofResult (composite steps)
    let outs := steps.map fun s => (match s.out with | .ok x => s!"ok {x}" | .error e => s!"error {e.kinds.map kindName}")
      ++ (if s.fallback then ", fallback allowed" else "")
    match compositeSrc steps with
    | some src =>
      if decide (src.1 = model.1) && decide (src.2.map Err.kinds = model.2.map Err.kinds) then pure ()
      else res := res ++ [(k, showRes src, showRes model, outs)]
    | none => res := res ++ [(k, "panic (nil dereference)", showRes model, outs)]
    k := k + 1
  return res

def main : IO Unit := do
  let stdin ← IO.getStdin
  let mut i := 0
  repeat
    let line ← stdin.getLine
    if line.isEmpty then break
    match Json.parse line >>= check with
    | .ok rs =>
      for (k, s, m, outs) in rs do
        IO.println (Json.mkObj [("i", jnat i), ("k", jnat k), ("src", jstr s), ("model", jstr m), ("steps", jstrs outs)]).compress
    | .error e => IO.println (Json.mkObj [("i", jnat i), ("error", jstr e)]).compress
    i := i + 1
"""
