module verif/extract/go2lean

go 1.23
