// Command entry translates the entry-point kernels of heimdall (property C01) from the current source into Lean:
// lean/HeimdallModel/Gen/EntrySrc.lean, namespace Heimdall.Entry.Src. Usage: entry <repo> (Lean text on stdout; exit code 2
// and a message on stderr when the source is outside the translatable subset - fail closed).
//
// Translated (whole bodies): (*ruleExecutor).Execute (internal/rules), (*handler).ServeHTTP (internal/handler/service: the
// decision and proxy services), (*Handler).Check (internal/handler/envoyextauth/grpcv3).
//
// The abstraction (the trusted part, the tables below): finding the rule, executing it, finalising the request context
// and the error handler are uninterpreted functions acting on the context (monad `Go.M Ctx PV`, they may panic); the
// request context created per request is opaque; log statements are dropped.
package main

import (
	"fmt"
	"os"

	tr "verif/extract/go2lean/translate"
)

func main() {
	if len(os.Args) != 2 { //nolint:mnd
		fmt.Fprintln(os.Stderr, "go2lean: usage: entry <repo>")
		os.Exit(2) //nolint:mnd
	}

	optErr := tr.TypeSpec{K: tr.KOpt, T: "Err"}
	optRule := tr.TypeSpec{K: tr.KOpq, T: "Rule"}
	optBackend := tr.TypeSpec{K: tr.KOpt, T: "Backend"}
	optResp := tr.TypeSpec{K: tr.KOpt, T: "Resp"}
	unitT := tr.TypeSpec{K: tr.KOpq, T: "Unit"}
	rcT := tr.TypeSpec{K: tr.KOpq, T: "RC"}
	nilDeref := tr.Param{Name: "nilDeref", Type: "PV"}

	exec := &tr.Family{Name: "Executor", Dir: "internal/rules", RecvType: "ruleExecutor", Effectful: true,
		Monad: "Go.M Ctx PV", NilPanic: "nilDeref", Objects: map[string]string{"heimdall.Context": "ctx"}}
	exec.TypeVars = []string{"Ctx", "PV", "Err", "Rule", "Backend"}
	exec.GoTypes = map[string]tr.TypeSpec{"error": optErr, "rule.Rule": optRule, "rule.Backend": optBackend}
	exec.Params = []tr.Param{{Name: "findRule", Type: "Go.M Ctx PV (Rule × Option Err)"},
		{Name: "executeRule", Type: "Rule → Go.M Ctx PV (Option Backend × Option Err)"}, nilDeref}
	exec.Funcs = []tr.FuncAtom{
		{Fun: "recv.r.FindRule", Args: []string{"ctx"}, Lean: "findRule", Res: []tr.TypeSpec{optRule, optErr}, Effect: true},
		{Fun: "Rule.Execute", Args: []string{"ctx"}, Lean: "executeRule", Res: []tr.TypeSpec{optBackend, optErr}, Effect: true},
	}
	exec.Targets = []tr.Target{{Recv: "ruleExecutor", Method: "Execute", Lean: "Execute",
		Params: []string{"findRule", "executeRule", "nilDeref"}}}

	serve := &tr.Family{Name: "HttpHandler", Dir: "internal/handler/service", RecvType: "handler", Effectful: true,
		Monad: "Go.M Ctx PV", NilPanic: "nilDeref",
		Objects: map[string]string{"http.ResponseWriter": "rw", "*http.Request": "req"}}
	serve.TypeVars = []string{"Ctx", "PV", "Err", "Backend", "RC"}
	serve.GoTypes = map[string]tr.TypeSpec{"error": optErr, "rule.Backend": optBackend,
		"requestcontext.Context": rcT}
	serve.Params = []tr.Param{{Name: "create", Type: "Go.M Ctx PV RC"},
		{Name: "execute", Type: "RC → Go.M Ctx PV (Option Backend × Option Err)"},
		{Name: "finalize", Type: "RC → Option Backend → Go.M Ctx PV (Option Err)"},
		{Name: "handleError", Type: "Option Err → Go.M Ctx PV Unit"}, nilDeref}
	serve.Funcs = []tr.FuncAtom{
		{Fun: "recv.f.Create", Args: []string{"rw", "req"}, Lean: "create", Res: []tr.TypeSpec{rcT}, Effect: true},
		{Fun: "recv.e.Execute", Args: []string{"$"}, Lean: "execute", Res: []tr.TypeSpec{optBackend, optErr}, Effect: true},
		{Fun: "RC.Finalize", Args: []string{"$"}, Lean: "finalize", Res: []tr.TypeSpec{optErr}, Effect: true},
		{Fun: "recv.eh.HandleError", Args: []string{"rw", "req", "$"}, Lean: "handleError", Res: []tr.TypeSpec{unitT}, Effect: true},
	}
	serve.Targets = []tr.Target{{Recv: "handler", Method: "ServeHTTP", Lean: "ServeHTTP",
		Params: []string{"create", "execute", "finalize", "handleError", "nilDeref"}}}

	check := &tr.Family{Name: "EnvoyHandler", Dir: "internal/handler/envoyextauth/grpcv3", RecvType: "Handler",
		Effectful: true, Monad: "Go.M Ctx PV", NilPanic: "nilDeref",
		Objects: map[string]string{"context.Context": "ctx", "*envoy_auth.CheckRequest": "req"}}
	check.TypeVars = []string{"Ctx", "PV", "Err", "Backend", "RC", "Resp"}
	check.GoTypes = map[string]tr.TypeSpec{"error": optErr, "rule.Backend": optBackend, "*RequestContext": rcT,
		"*envoy_auth.CheckResponse": optResp}
	check.Params = []tr.Param{{Name: "create", Type: "RC"},
		{Name: "execute", Type: "RC → Go.M Ctx PV (Option Backend × Option Err)"},
		{Name: "finalize", Type: "RC → Go.M Ctx PV (Option Resp × Option Err)"}, nilDeref}
	check.Funcs = []tr.FuncAtom{
		{Fun: "NewRequestContext", Args: []string{"ctx", "req"}, Lean: "create", Res: []tr.TypeSpec{rcT}},
		{Fun: "recv.e.Execute", Args: []string{"$"}, Lean: "execute", Res: []tr.TypeSpec{optBackend, optErr}, Effect: true},
		{Fun: "RC.Finalize", Lean: "finalize", Res: []tr.TypeSpec{optResp, optErr}, Effect: true},
	}
	check.Targets = []tr.Target{{Recv: "Handler", Method: "Check", Lean: "Check",
		Params: []string{"create", "execute", "finalize", "nilDeref"}}}

	body, index := "", ""

	for _, fm := range []*tr.Family{exec, serve, check} {
		defs, err := tr.TranslateFamily(os.Args[1], fm)
		if err != nil {
			fmt.Fprintf(os.Stderr, "go2lean: %v\n", err)
			os.Exit(2) //nolint:mnd
		}

		body += "namespace " + fm.Name + "\n\n"
		for _, d := range defs {
			body += d.LeanEff() + "\n"
			index += "* `" + fm.Name + "." + d.Target.Lean + "` = " + d.GoName + ", " + d.Pos + "\n"
		}

		body += "end " + fm.Name + "\n\n"
	}

	fmt.Print("-- GENERATED by extract/go2lean (cmd/entry) from the current source of heimdall. Do not edit.\n" +
		"import HeimdallModel.Base.GoRun\n/-!\n# The entry-point kernels, translated from the Go source (C01)\n\n" +
		"Whole bodies of `(*ruleExecutor).Execute`, `(*handler).ServeHTTP` (decision and proxy services) and `(*Handler).Check`\n" +
		"(Envoy ext_authz). `findRule`, `executeRule`, `create`, `execute`, `finalize`, `handleError` are what the repository,\n" +
		"the rule, the request context factory, the executor, the request context and the error handler do: uninterpreted\n" +
		"computations in the monad `Go.M Ctx PV` (they may change the context and panic). `Props/C01Entry.lean` proves that a\n" +
		"request is finalised (answered positively / forwarded) only after a rule was found and its execution returned no\n" +
		"error, that every error reaches the error handler exactly once, and that a panic is never turned into an answer.\n\n" +
		"Translated functions:\n" + index + "-/\nset_option linter.unusedVariables false\n\nnamespace Heimdall.Entry.Src\n\n" +
		"/-- this file is the result of a successful translation of the current source -/\n" +
		"def translationOk : Bool := true\n\n" + body + "end Heimdall.Entry.Src\n")
}
