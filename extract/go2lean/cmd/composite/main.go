// Command composite translates the control-flow kernels of heimdall's rule pipelines (properties C01 and C04) from the
// current source into Lean: lean/HeimdallModel/Gen/CompositeSrc.lean, namespace Heimdall.Rules.Src. Usage:
// composite <repo> (Lean text on stdout; exit code 2 and a message on stderr when the source is outside the
// translatable subset - fail closed).
//
// Translated (whole bodies, found by receiver type and method name in internal/rules, any non-test file):
// compositeSubjectCreator.Execute, compositeSubjectHandler.Execute, compositeErrorHandler.Execute,
// (*conditionalSubjectHandler).Execute, (*conditionalErrorHandler).Execute, (*ruleImpl).Execute.
//
// The abstraction (the trusted part, the tables below): the elements of the slice a composite ranges over, the
// condition and the wrapped handler of a conditional handler are opaque. A call of one of their methods is an
// uninterpreted function - a parameter of the generated definition: calls that may change the request context or panic
// (`Execute`, `CanExecuteOnSubject`, `CanExecuteOnError`) run in the monad `Go.M Ctx PV` (context state + panic; a
// panic propagates), flags (`IsFallbackOnErrorAllowed`, `ContinueOnError`) and `errors.Is(err, <sentinel>)` are pure
// functions. Statements that are dropped: log statements (chains starting at the logger / zerolog.Ctx) and
// `accesscontext.SetSubject(…)`; what such a statement dereferences (`sub.ID`) must still be there, otherwise the
// definition panics with `nilDeref`. `json.Marshal` is a pure function whose result - on the current source - only
// feeds log statements and therefore disappears.
package main

import (
	"fmt"
	"os"
	"strings"

	tr "verif/extract/go2lean/translate"
)

const rules = "internal/rules"

var (
	optSub  = tr.TypeSpec{K: tr.KOpt, T: "Sub"}
	optErr  = tr.TypeSpec{K: tr.KOpt, T: "Err"}
	optDump = tr.TypeSpec{K: tr.KOpt, T: "Dump"}
	boolT   = tr.TypeSpec{K: tr.KBool}
	elemT   = tr.TypeSpec{K: tr.KOpq, T: "A"}

	nilDeref = tr.Param{Name: "nilDeref", Type: "PV"}
)

func family(name, recv string) *tr.Family {
	return &tr.Family{
		Name: name, Dir: rules, RecvType: recv, Effectful: true, Monad: "Go.M Ctx PV", NilPanic: "nilDeref",
		Objects:   map[string]string{"heimdall.Context": "ctx"},
		SideCalls: []string{"accesscontext.SetSubject"},
	}
}

func families() []*tr.Family {
	creator := family("SubjectCreator", "compositeSubjectCreator")
	creator.TypeVars = []string{"A", "Ctx", "PV", "Sub", "Err"}
	creator.Params = []tr.Param{
		{Name: "exec", Type: "A → Go.M Ctx PV (Option Sub × Option Err)"},
		{Name: "fallback", Type: "A → Bool"},
		{Name: "isArgument", Type: "Err → Bool"},
		nilDeref,
		{Name: "xs", Type: "List A"},
	}
	creator.GoTypes = map[string]tr.TypeSpec{"*subject.Subject": optSub, "error": optErr, "subjectCreator": elemT}
	creator.Funcs = []tr.FuncAtom{
		{Fun: "A.Execute", Args: []string{"ctx"}, Lean: "exec", Res: []tr.TypeSpec{optSub, optErr}, Effect: true},
		{Fun: "A.IsFallbackOnErrorAllowed", Lean: "fallback", Res: []tr.TypeSpec{boolT}},
		{Fun: "errors.Is", Args: []string{"$", "heimdall.ErrArgument"}, Lean: "isArgument", Res: []tr.TypeSpec{boolT},
			NilFalse: true},
	}
	creator.Slices = map[string]tr.SliceSpec{"recv": {Elem: elemT, List: "xs"}}
	creator.Targets = []tr.Target{{Recv: "compositeSubjectCreator", Method: "Execute", Lean: "Execute",
		Params: []string{"exec", "fallback", "isArgument", "nilDeref", "xs"}}}

	handler := family("SubjectHandler", "compositeSubjectHandler")
	handler.TypeVars = []string{"A", "Ctx", "PV", "Sub", "Err"}
	handler.Params = []tr.Param{
		{Name: "exec", Type: "A → Option Sub → Go.M Ctx PV (Option Err)"},
		{Name: "continueOnError", Type: "A → Bool"},
		nilDeref,
		{Name: "xs", Type: "List A"},
		{Name: "sub", Type: "Option Sub"},
	}
	handler.GoTypes = map[string]tr.TypeSpec{"*subject.Subject": optSub, "error": optErr, "subjectHandler": elemT}
	handler.ValueParams = map[string]string{"*subject.Subject": "sub"}
	handler.Funcs = []tr.FuncAtom{
		{Fun: "A.Execute", Args: []string{"ctx", "$"}, Lean: "exec", Res: []tr.TypeSpec{optErr}, Effect: true},
		{Fun: "A.ContinueOnError", Lean: "continueOnError", Res: []tr.TypeSpec{boolT}},
	}
	handler.Slices = map[string]tr.SliceSpec{"recv": {Elem: elemT, List: "xs"}}
	handler.Targets = []tr.Target{{Recv: "compositeSubjectHandler", Method: "Execute", Lean: "Execute",
		Params: []string{"exec", "continueOnError", "nilDeref", "xs", "sub"}}}

	errh := family("ErrorHandler", "compositeErrorHandler")
	errh.TypeVars = []string{"A", "Ctx", "PV", "Err"}
	errh.Params = []tr.Param{
		{Name: "exec", Type: "A → Option Err → Go.M Ctx PV (Option Err)"},
		{Name: "isNotApplicable", Type: "Err → Bool"},
		nilDeref,
		{Name: "xs", Type: "List A"},
		{Name: "cause", Type: "Option Err"},
	}
	errh.GoTypes = map[string]tr.TypeSpec{"error": optErr, "errorHandler": elemT}
	errh.ValueParams = map[string]string{"error": "cause"}
	errh.Funcs = []tr.FuncAtom{
		{Fun: "A.Execute", Args: []string{"ctx", "$"}, Lean: "exec", Res: []tr.TypeSpec{optErr}, Effect: true},
		{Fun: "errors.Is", Args: []string{"$", "errErrorHandlerNotApplicable"}, Lean: "isNotApplicable",
			Res: []tr.TypeSpec{boolT}, NilFalse: true},
	}
	errh.Slices = map[string]tr.SliceSpec{"recv": {Elem: elemT, List: "xs"}}
	errh.Targets = []tr.Target{{Recv: "compositeErrorHandler", Method: "Execute", Lean: "Execute",
		Params: []string{"exec", "isNotApplicable", "nilDeref", "xs", "cause"}}}

	csh := family("ConditionalSubjectHandler", "conditionalSubjectHandler")
	csh.TypeVars = []string{"Ctx", "PV", "Sub", "Err", "Dump"}
	csh.Params = []tr.Param{
		{Name: "canExecute", Type: "Option Sub → Go.M Ctx PV (Bool × Option Err)"},
		{Name: "exec", Type: "Option Sub → Go.M Ctx PV (Option Err)"},
		{Name: "traceLevel", Type: "Bool"},
		{Name: "marshal", Type: "Option Sub → Option Dump × Option Err"},
		nilDeref,
		{Name: "sub", Type: "Option Sub"},
	}
	csh.GoTypes = map[string]tr.TypeSpec{"*subject.Subject": optSub, "error": optErr, "[]byte": optDump}
	csh.ValueParams = map[string]string{"*subject.Subject": "sub"}
	csh.Atoms = map[string]tr.Atom{
		"logger.GetLevel() == zerolog.TraceLevel": {Value: tr.Var("traceLevel", tr.KBool, tr.UNone)},
		"zerolog.TraceLevel == logger.GetLevel()": {Value: tr.Var("traceLevel", tr.KBool, tr.UNone)},
	}
	csh.Funcs = []tr.FuncAtom{
		{Fun: "recv.c.CanExecuteOnSubject", Args: []string{"ctx", "$"}, Lean: "canExecute",
			Res: []tr.TypeSpec{boolT, optErr}, Effect: true},
		{Fun: "recv.h.Execute", Args: []string{"ctx", "$"}, Lean: "exec", Res: []tr.TypeSpec{optErr}, Effect: true},
		{Fun: "json.Marshal", Args: []string{"$"}, Lean: "marshal", Res: []tr.TypeSpec{optDump, optErr}},
	}
	csh.Targets = []tr.Target{{Recv: "conditionalSubjectHandler", Method: "Execute", Lean: "Execute",
		Params: []string{"canExecute", "exec", "traceLevel", "marshal", "nilDeref", "sub"}}}

	ceh := family("ConditionalErrorHandler", "conditionalErrorHandler")
	ceh.TypeVars = []string{"Ctx", "PV", "Err"}
	ceh.Params = []tr.Param{
		{Name: "canExecute", Type: "Option Err → Go.M Ctx PV (Bool × Option Err)"},
		{Name: "exec", Type: "Option Err → Go.M Ctx PV (Option Err)"},
		{Name: "notApplicable", Type: "Err"},
		nilDeref,
		{Name: "cause", Type: "Option Err"},
	}
	ceh.GoTypes = map[string]tr.TypeSpec{"error": optErr}
	ceh.ValueParams = map[string]string{"error": "cause"}
	na := tr.Var("notApplicable", tr.KOpq, tr.UNone)
	na.T = "Err"
	ceh.Atoms = map[string]tr.Atom{"errErrorHandlerNotApplicable": {Value: na}}
	ceh.Funcs = []tr.FuncAtom{
		{Fun: "recv.c.CanExecuteOnError", Args: []string{"ctx", "$"}, Lean: "canExecute",
			Res: []tr.TypeSpec{boolT, optErr}, Effect: true},
		{Fun: "recv.h.Execute", Args: []string{"ctx", "$"}, Lean: "exec", Res: []tr.TypeSpec{optErr}, Effect: true},
	}
	ceh.Targets = []tr.Target{{Recv: "conditionalErrorHandler", Method: "Execute", Lean: "Execute",
		Params: []string{"canExecute", "exec", "notApplicable", "nilDeref", "cause"}}}

	// ruleImpl.Execute: the order of the stages. The four composites are opaque here (their own translations are the
	// families above); preparing the request (encoded slashes, captures) changes the request only and is dropped,
	// except for the early refusal of an encoded slash.
	optBackend := tr.TypeSpec{K: tr.KOpt, T: "Backend"}
	boolVar := func(n string) *tr.Node { return tr.Var(n, tr.KBool, tr.UNone) }
	theBackend := tr.Var("theBackend", tr.KOpq, tr.UNone)
	theBackend.T = "Backend"

	rule := family("Rule", "ruleImpl")
	rule.TypeVars = []string{"Ctx", "PV", "Sub", "Err", "Backend"}
	rule.Params = []tr.Param{
		{Name: "createSubject", Type: "Go.M Ctx PV (Option Sub × Option Err)"},
		{Name: "runHandlers", Type: "Option Sub → Go.M Ctx PV (Option Err)"},
		{Name: "runFinalizers", Type: "Option Sub → Go.M Ctx PV (Option Err)"},
		{Name: "onError", Type: "Option Err → Go.M Ctx PV (Option Err)"},
		{Name: "isDefault", Type: "Bool"},
		{Name: "slashesOn", Type: "Bool"},
		{Name: "slashesOff", Type: "Bool"},
		{Name: "encodedSlash", Type: "Bool"},
		{Name: "encodedSlashError", Type: "Err"},
		{Name: "hasBackend", Type: "Bool"},
		{Name: "theBackend", Type: "Backend"},
		nilDeref,
	}
	rule.Objects["*heimdall.Request"] = "request"
	rule.RecvFields = map[string]string{"isDefault": "isDefault"}
	rule.GoTypes = map[string]tr.TypeSpec{"*subject.Subject": optSub, "error": optErr, "rule.Backend": optBackend}
	rule.MutablePaths = []string{"ctx.Request()"}
	rule.Atoms = map[string]tr.Atom{
		"recv.slashesHandling == config.EncodedSlashesOn":  {Value: boolVar("slashesOn")},
		"recv.slashesHandling == config.EncodedSlashesOff": {Value: boolVar("slashesOff")},
		"containsEncodedSlash(ctx.Request().URL.RawPath)":  {Value: boolVar("encodedSlash")},
		"recv.backend": {Present: boolVar("hasBackend")},
		"&backend{…}":  {Value: theBackend},
	}
	rule.Funcs = []tr.FuncAtom{
		{Fun: "recv.sc.Execute", Args: []string{"ctx"}, Lean: "createSubject", Res: []tr.TypeSpec{optSub, optErr},
			Effect: true},
		{Fun: "recv.sh.Execute", Args: []string{"ctx", "$"}, Lean: "runHandlers", Res: []tr.TypeSpec{optErr}, Effect: true},
		{Fun: "recv.fi.Execute", Args: []string{"ctx", "$"}, Lean: "runFinalizers", Res: []tr.TypeSpec{optErr},
			Effect: true},
		{Fun: "recv.eh.Execute", Args: []string{"ctx", "$"}, Lean: "onError", Res: []tr.TypeSpec{optErr}, Effect: true},
		{Fun: "errorchain.NewWithMessage", Args: []string{"heimdall.ErrArgument", "*"}, Lean: "encodedSlashError",
			Res: []tr.TypeSpec{{K: tr.KOpq, T: "Err"}}},
	}
	rule.Targets = []tr.Target{{Recv: "ruleImpl", Method: "Execute", Lean: "Execute",
		Params: []string{"createSubject", "runHandlers", "runFinalizers", "onError", "isDefault", "slashesOn", "slashesOff",
			"encodedSlash", "encodedSlashError", "hasBackend", "theBackend", "nilDeref"}}}

	return []*tr.Family{creator, handler, errh, csh, ceh, rule}
}

const header = `-- GENERATED by extract/go2lean (cmd/composite) from the current source of heimdall. Do not edit.
import HeimdallModel.Base.GoRun
/-!
# The control-flow kernels of the rule pipelines, translated from the Go source (C01, C04)

Every definition below is the whole body of one Go function of ` + "`internal/rules`" + `, translated statement by statement.
` + "`Props/C01Src.lean`" + ` and ` + "`Props/C04Src.lean`" + ` prove, for lists of any length and every behaviour of the elements, that
they equal the hand-written models ` + "`Heimdall.Pipeline.createSubject / runHandlers / runErrorHandlers / Handler.execute`" + `
and ` + "`Heimdall.Authn.compositeFrom`" + ` the C01 / C04 theorems are about.

What the translation does not look into is a parameter: ` + "`exec`" + ` (` + "`Execute`" + ` of an element / of the wrapped
handler), ` + "`canExecute`" + ` (` + "`CanExecuteOnSubject`" + ` / ` + "`CanExecuteOnError`" + ` of the condition) run in the monad
` + "`Go.M Ctx PV`" + ` (request context as state, a panic with value ` + "`PV`" + ` propagates); ` + "`fallback`" + `
(` + "`IsFallbackOnErrorAllowed`" + `), ` + "`continueOnError`" + `, ` + "`isArgument`" + ` (` + "`errors.Is(·, heimdall.ErrArgument)`" + `),
` + "`isNotApplicable`" + ` (` + "`errors.Is(·, errErrorHandlerNotApplicable)`" + `) are pure. A Go value that may be nil is an
` + "`Option`" + `; ` + "`errors.Is(nil, ·)`" + ` is false (` + "`e.any f`" + `). A ` + "`for … range`" + ` loop is a structurally recursive function
over the list: ` + "`[]`" + ` = the code after the loop, ` + "`continue`" + ` / the end of the body = the call on the rest,
` + "`break`" + ` = the code after the loop; ` + "`n`" + ` is the length of the whole slice. Go's ` + "`if`" + ` is ` + "`bif`" + ` (a
condition is a ` + "`Bool`" + `). Log statements and
` + "`accesscontext.SetSubject`" + ` are dropped; where such a statement dereferences a nil value the definition panics with
` + "`nilDeref`" + `. In ` + "`ruleImpl.Execute`" + ` the four composites are parameters; assignments to the request (encoded slashes,
captures) are dropped, ` + "`slashesOn / slashesOff / encodedSlash`" + ` say what ` + "`allow_encoded_slashes`" + ` and the path are.

Translated functions:
`

func die(err error) {
	fmt.Fprintf(os.Stderr, "go2lean: %v\n", err)
	os.Exit(2) //nolint:mnd
}

func main() {
	if len(os.Args) != 2 { //nolint:mnd
		die(fmt.Errorf("usage: composite <repo>"))
	}

	var (
		sb    strings.Builder
		index strings.Builder
	)

	for _, fam := range families() {
		defs, err := tr.TranslateFamily(os.Args[1], fam)
		if err != nil {
			die(err)
		}

		sb.WriteString("namespace " + fam.Name + "\n\n")

		for _, d := range defs {
			sb.WriteString(d.LeanEff() + "\n")
			index.WriteString("* `" + fam.Name + "." + d.Target.Lean + "` = " + d.GoName + ", " + d.Pos + "\n")
		}

		sb.WriteString("end " + fam.Name + "\n\n")
	}

	out := header + index.String() + "-/\nset_option linter.unusedVariables false\n\nnamespace Heimdall.Rules.Src\n\n" +
		"/-- this file is the result of a successful translation of the current source -/\n" +
		"def translationOk : Bool := true\n\n" + sb.String() + "end Heimdall.Rules.Src\n"
	// the module doc comment has to follow the import
	fmt.Print(out)
}
