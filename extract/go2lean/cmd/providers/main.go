// Command providers translates the decision kernels of heimdall's rule providers (property C18) from the current source
// into Lean: lean/HeimdallModel/Gen/ProvidersSrc.lean, namespace Heimdall.Prov.Src. Usage: providers <repo> (Lean text
// on stdout; exit code 2 and a message on stderr when the source is outside the translatable subset - fail closed).
//
// Translated (whole body): (*provider).ruleSetsUpdated of internal/rules/provider/httpendpoint - what is reported to
// the rule set processor for a fetched rule set, and when the remembered digest changes.
//
// The abstraction (the trusted part, the tables below): the digest remembered for the endpoint (`p.states.Load`), the
// fetched rule set being empty (`len(ruleSet.Rules) == 0`) and the comparison of the two digests (`bytes.Equal`) are
// atoms; the calls of the processor (`OnCreated` / `OnUpdated` / `OnDeleted`) and of the state map (`Store` / `Delete`)
// are uninterpreted functions acting on the context (monad `Go.M Ctx PV`); log statements are dropped.
package main

import (
	"fmt"
	"os"

	tr "verif/extract/go2lean/translate"
)

func main() {
	if len(os.Args) != 2 { //nolint:mnd
		fmt.Fprintln(os.Stderr, "go2lean: usage: providers <repo>")
		os.Exit(2) //nolint:mnd
	}

	boolT := tr.TypeSpec{K: tr.KBool}
	optErr := tr.TypeSpec{K: tr.KOpt, T: "Err"}
	optH := tr.TypeSpec{K: tr.KOpt, T: "H"}
	unitT := tr.TypeSpec{K: tr.KOpq, T: "Unit"}
	fam := &tr.Family{
		Name: "HttpEndpoint", Dir: "internal/rules/provider/httpendpoint", RecvType: "provider",
		Effectful: true, Monad: "Go.M Ctx PV", NilPanic: "nilDeref",
		Objects: map[string]string{"*config2.RuleSet": "ruleSet", "string": "stateID"},
	}
	fam.TypeVars = []string{"Ctx", "PV", "Err", "H"}
	fam.GoTypes = map[string]tr.TypeSpec{"error": optErr, "[]byte": optH, "any": optH}
	fam.Params = []tr.Param{
		{Name: "remembered", Type: "Go.M Ctx PV (Option H × Bool)"}, {Name: "empty", Type: "Bool"},
		{Name: "sameDigest", Type: "Option H → Bool"},
		{Name: "onCreated", Type: "Go.M Ctx PV (Option Err)"}, {Name: "onUpdated", Type: "Go.M Ctx PV (Option Err)"},
		{Name: "onDeleted", Type: "Go.M Ctx PV (Option Err)"},
		{Name: "store", Type: "Go.M Ctx PV Unit"}, {Name: "forget", Type: "Go.M Ctx PV Unit"},
		{Name: "nilDeref", Type: "PV"},
	}
	fam.Atoms = map[string]tr.Atom{
		"len(ruleSet.Rules) == 0": {Value: tr.Var("empty", tr.KBool, tr.UNone)},
		"len(ruleSet.Rules) != 0": {Value: tr.Not(tr.Var("empty", tr.KBool, tr.UNone))},
	}
	fam.Funcs = []tr.FuncAtom{
		{Fun: "recv.states.Load", Args: []string{"stateID"}, Lean: "remembered", Res: []tr.TypeSpec{optH, boolT}, Effect: true},
		{Fun: "bytes.Equal", Args: []string{"$", "ruleSet.Hash"}, Lean: "sameDigest", Res: []tr.TypeSpec{boolT}},
		{Fun: "recv.p.OnCreated", Args: []string{"ruleSet"}, Lean: "onCreated", Res: []tr.TypeSpec{optErr}, Effect: true},
		{Fun: "recv.p.OnUpdated", Args: []string{"ruleSet"}, Lean: "onUpdated", Res: []tr.TypeSpec{optErr}, Effect: true},
		{Fun: "recv.p.OnDeleted", Args: []string{"ruleSet"}, Lean: "onDeleted", Res: []tr.TypeSpec{optErr}, Effect: true},
		{Fun: "recv.states.Store", Args: []string{"stateID", "ruleSet.Hash"}, Lean: "store", Res: []tr.TypeSpec{unitT}, Effect: true},
		{Fun: "recv.states.Delete", Args: []string{"stateID"}, Lean: "forget", Res: []tr.TypeSpec{unitT}, Effect: true},
	}
	fam.Targets = []tr.Target{{Recv: "provider", Method: "ruleSetsUpdated", Lean: "ruleSetsUpdated",
		Params: []string{"remembered", "empty", "sameDigest", "onCreated", "onUpdated", "onDeleted", "store", "forget", "nilDeref"}}}

	optRS := tr.TypeSpec{K: tr.KOpt, T: "RS"}
	fs := &tr.Family{
		Name: "FileSystem", Dir: "internal/rules/provider/filesystem", RecvType: "Provider",
		Effectful: true, Monad: "Go.M Ctx PV", NilPanic: "nilDeref",
		Objects: map[string]string{"string": "fileName"},
	}
	fs.TypeVars = []string{"Ctx", "PV", "Err", "H", "RS"}
	fs.GoTypes = map[string]tr.TypeSpec{"error": optErr, "[]byte": optH, "any": optH, "*config2.RuleSet": optRS}
	fs.Params = []tr.Param{
		{Name: "load", Type: "Go.M Ctx PV (Option RS × Option Err)"},
		{Name: "isEmptyRuleSet", Type: "Err → Bool"}, {Name: "isNotExist", Type: "Err → Bool"},
		{Name: "remembered", Type: "Go.M Ctx PV (Option H × Bool)"}, {Name: "digestLen", Type: "Option H → Int"},
		{Name: "sameDigest", Type: "Option H → Bool"},
		{Name: "onCreated", Type: "Option RS → Go.M Ctx PV (Option Err)"},
		{Name: "onUpdated", Type: "Option RS → Go.M Ctx PV (Option Err)"},
		{Name: "onDeleted", Type: "Go.M Ctx PV (Option Err)"},
		{Name: "store", Type: "Go.M Ctx PV Unit"}, {Name: "forget", Type: "Go.M Ctx PV Unit"},
		{Name: "nilDeref", Type: "PV"},
	}
	fs.Funcs = []tr.FuncAtom{
		{Fun: "recv.loadRuleSet", Args: []string{"fileName"}, Lean: "load", Res: []tr.TypeSpec{optRS, optErr}, Effect: true},
		{Fun: "errors.Is", Args: []string{"$", "config.ErrEmptyRuleSet"}, Lean: "isEmptyRuleSet", Res: []tr.TypeSpec{boolT}, NilFalse: true},
		{Fun: "errors.Is", Args: []string{"$", "os.ErrNotExist"}, Lean: "isNotExist", Res: []tr.TypeSpec{boolT}, NilFalse: true},
		{Fun: "recv.states.Load", Args: []string{"fileName"}, Lean: "remembered", Res: []tr.TypeSpec{optH, boolT}, Effect: true},
		{Fun: "bytes.Equal", Args: []string{"$", "*"}, Lean: "sameDigest", Res: []tr.TypeSpec{boolT}},
		{Fun: "recv.p.OnCreated", Args: []string{"$"}, Lean: "onCreated", Res: []tr.TypeSpec{optErr}, Effect: true},
		{Fun: "recv.p.OnUpdated", Args: []string{"$"}, Lean: "onUpdated", Res: []tr.TypeSpec{optErr}, Effect: true},
		{Fun: "recv.p.OnDeleted", Args: []string{"*"}, Lean: "onDeleted", Res: []tr.TypeSpec{optErr}, Effect: true},
		{Fun: "recv.states.Store", Args: []string{"fileName", "*"}, Lean: "store", Res: []tr.TypeSpec{unitT}, Effect: true},
		{Fun: "recv.states.Delete", Args: []string{"fileName"}, Lean: "forget", Res: []tr.TypeSpec{unitT}, Effect: true},
		{Fun: "len", Args: []string{"$"}, Lean: "digestLen", Res: []tr.TypeSpec{{K: tr.KInt, U: tr.UPlain}}},
	}
	tombstone := tr.Var("tombstone", tr.KOpt, tr.UNone)
	tombstone.T = "RS"
	fs.Atoms = map[string]tr.Atom{"&config.RuleSet{…}": {Value: tombstone}}
	fs.Params = append(fs.Params, tr.Param{Name: "tombstone", Type: "Option RS"})
	all := []string{"tombstone", "load", "isEmptyRuleSet", "isNotExist", "remembered", "digestLen", "sameDigest", "onCreated",
		"onUpdated", "onDeleted", "store", "forget", "nilDeref"}
	fs.Targets = []tr.Target{{Recv: "Provider", Method: "ruleSetDeleted", Lean: "ruleSetDeleted", Params: all}}

	// ruleSetCreatedOrUpdated hands a file that is gone or empty over to ruleSetDeleted: that call is a parameter here
	// (`deleted`), Model/ProvidersSrc.lean puts the translation above in its place
	fsc := *fs
	fsc.Name = "FileSystemChanged"
	fsc.Funcs = append([]tr.FuncAtom{{Fun: "recv.ruleSetDeleted", Args: []string{"fileName"}, Lean: "deleted",
		Res: []tr.TypeSpec{optErr}, Effect: true}}, fs.Funcs...)
	fsc.Params = append([]tr.Param{{Name: "deleted", Type: "Go.M Ctx PV (Option Err)"}}, fs.Params...)
	fsc.Targets = []tr.Target{{Recv: "Provider", Method: "ruleSetCreatedOrUpdated", Lean: "ruleSetCreatedOrUpdated",
		Params: append([]string{"deleted"}, all...)}}

	body, index := "", ""

	for _, fm := range []*tr.Family{fam, fs, &fsc} {
		defs, err := tr.TranslateFamily(os.Args[1], fm)
		if err != nil {
			fmt.Fprintf(os.Stderr, "go2lean: %v\n", err)
			os.Exit(2) //nolint:mnd
		}

		body += "namespace " + fm.Name + "\n\n"
		for _, d := range defs {
			body += d.LeanEff() + "\n"
			index += "* `" + fm.Name + "." + d.Target.Lean + "` = " + d.GoName + ", " + d.Pos + "\n"
		}

		body += "end " + fm.Name + "\n\n"
	}

	fmt.Print("-- GENERATED by extract/go2lean (cmd/providers) from the current source of heimdall. Do not edit.\n" +
		"import HeimdallModel.Base.GoRun\n/-!\n# The decision kernels of the http_endpoint and file_system rule providers, translated from the Go source (C18)\n\n" +
		"Whole body of `(*provider).ruleSetsUpdated`. `remembered` is `p.states.Load(stateID)` (the digest last applied and\n" +
		"whether there is one), `empty` says that the fetched rule set has no rules, `sameDigest h` compares `h` with the digest of\n" +
		"the fetched rule set; `onCreated` / `onUpdated` / `onDeleted` (the rule set processor) and `store` / `forget` (the state\n" +
		"map) act on the context. `Props/C18Src.lean` proves that it makes exactly the processor call `httpUpdated` of the model\n" +
		"makes and changes the remembered digest only after the processor accepted. `FileSystem.ruleSetDeleted` and\n" +
		"`FileSystemChanged.ruleSetCreatedOrUpdated` are the whole bodies of the file_system provider's functions of these names:\n" +
		"`load` is `p.loadRuleSet(fileName)`, `isEmptyRuleSet` / `isNotExist` the two `errors.Is` tests, `digestLen` is `len(hash)`,\n" +
		"`deleted` the call of `ruleSetDeleted`, `tombstone` the rule set built for `OnDeleted`; they are proved equal to\n" +
		"`fsCreatedOrUpdated` / `fsDeleted` of the model.\n\n" +
		"Translated functions:\n" + index + "-/\nset_option linter.unusedVariables false\n\nnamespace Heimdall.Prov.Src\n\n" +
		"/-- this file is the result of a successful translation of the current source -/\n" +
		"def translationOk : Bool := true\n\n" + body + "end Heimdall.Prov.Src\n")
}
