// Command claims translates the assertions heimdall makes about verified JWT / introspection claims (property C05) from
// the current source into Lean: lean/HeimdallModel/Gen/ClaimsSrc.lean, namespace Heimdall.Jwt.Src. Usage: claims <repo>
// (Lean text on stdout; exit code 2 and a message on stderr when the source is outside the translatable subset - fail
// closed).
//
// Translated (whole bodies, internal/rules/mechanisms/oauth2): Expectation.AssertValidity,
// Expectation.AssertIssuanceTime, Expectation.AssertIssuer, Expectation.AssertAudience, Expectation.AssertAlgorithm and
// Claims.Validate (the order of the assertions).
//
// The abstraction (the trusted part, the tables below): an instant is its Unix time in whole seconds, a duration a
// whole number of seconds, all `time.Now()` of one body are one instant; `t.IsZero()` / `t.Equal(time.Time{})` say
// whether the claim is present; membership tests on string slices are uninterpreted booleans; an error is an opaque
// value built by errorchain.NewWithMessage(f) from ErrAssertion and a text.
package main

import (
	"fmt"
	"os"
	"strings"

	tr "verif/extract/go2lean/translate"
)

const dir = "internal/rules/mechanisms/oauth2"

var (
	optErr = tr.TypeSpec{K: tr.KOpt, T: "Err"}
	errT   = tr.TypeSpec{K: tr.KOpq, T: "Err"}
	boolT  = tr.TypeSpec{K: tr.KBool}

	nilDeref = tr.Param{Name: "nilDeref", Type: "PV"}
)

func boolVar(n string) *tr.Node { return tr.Var(n, tr.KBool, tr.UNone) }
func intVar(n string) *tr.Node  { return tr.Var(n, tr.KInt, tr.UPlain) }

func fam(name string) *tr.Family {
	f := &tr.Family{Name: name, Dir: dir, RecvType: "Expectation", Effectful: true, Monad: "Go.M Ctx PV",
		NilPanic: "nilDeref", Objects: map[string]string{}}
	f.GoTypes = map[string]tr.TypeSpec{"error": optErr}

	return f
}

func refusal(args int, lean string) tr.FuncAtom {
	a := []string{"ErrAssertion"}
	for i := 1; i < args; i++ {
		a = append(a, "*")
	}

	fn := "errorchain.NewWithMessage"
	if args > 2 { //nolint:mnd
		fn = "errorchain.NewWithMessagef"
	}

	return tr.FuncAtom{Fun: fn, Args: a, Lean: lean, Res: []tr.TypeSpec{errT}}
}

func families() []*tr.Family {
	now := intVar("now")

	validity := fam("Validity")
	validity.TypeVars = []string{"Ctx", "PV", "Err"}
	validity.RecvFields = map[string]string{"ValidityLeeway": "leeway"}
	validity.Objects["time.Time#1"] = "notBefore"
	validity.Objects["time.Time#2"] = "notAfter"
	validity.Params = []tr.Param{{Name: "leeway", Type: "Int"}, {Name: "now", Type: "Int"}, {Name: "hasNbf", Type: "Bool"},
		{Name: "nbf", Type: "Int"}, {Name: "hasExp", Type: "Bool"}, {Name: "exp", Type: "Int"},
		{Name: "refused", Type: "Err"}, nilDeref}
	validity.Atoms = map[string]tr.Atom{
		"time.Now().Unix()":       {Value: now},
		"time.Now().UTC().Unix()": {Value: now},
		"notBefore.Unix()":        {Value: intVar("nbf")},
		"notAfter.Unix()":         {Value: intVar("exp")},
		"notBefore.IsZero()":      {Value: tr.Not(boolVar("hasNbf"))},
		"notAfter.IsZero()":       {Value: tr.Not(boolVar("hasExp"))},
	}
	validity.Funcs = []tr.FuncAtom{refusal(2, "refused")} //nolint:mnd
	validity.Targets = []tr.Target{{Recv: "Expectation", Method: "AssertValidity", Lean: "AssertValidity",
		Params: []string{"leeway", "now", "hasNbf", "nbf", "hasExp", "exp", "refused", "nilDeref"}}}

	issued := fam("IssuedAt")
	issued.TypeVars = []string{"Ctx", "PV", "Err"}
	issued.RecvFields = map[string]string{"ValidityLeeway": "leeway"}
	issued.Objects["time.Time"] = "issuedAt"
	issued.Params = []tr.Param{{Name: "leeway", Type: "Int"}, {Name: "now", Type: "Int"}, {Name: "hasIat", Type: "Bool"},
		{Name: "iat", Type: "Int"}, {Name: "refused", Type: "Err"}, nilDeref}
	issued.Atoms = map[string]tr.Atom{
		"time.Now()":                  {Value: now},
		"issuedAt":                    {Value: intVar("iat")},
		"issuedAt.Equal(time.Time{})": {Value: tr.Not(boolVar("hasIat"))},
		"issuedAt.IsZero()":           {Value: tr.Not(boolVar("hasIat"))},
	}
	issued.Funcs = []tr.FuncAtom{refusal(2, "refused")} //nolint:mnd
	issued.Targets = []tr.Target{{Recv: "Expectation", Method: "AssertIssuanceTime", Lean: "AssertIssuanceTime",
		Params: []string{"leeway", "now", "hasIat", "iat", "refused", "nilDeref"}}}

	issuer := fam("Issuer")
	issuer.TypeVars = []string{"Ctx", "PV", "Err"}
	issuer.Objects["string"] = "issuer"
	issuer.Params = []tr.Param{{Name: "issuerEmpty", Type: "Bool"}, {Name: "trusted", Type: "Bool"},
		{Name: "refused", Type: "Err"}, nilDeref}
	issuer.Atoms = map[string]tr.Atom{"len(issuer) == 0": {Value: boolVar("issuerEmpty")}, "issuer == \"\"": {Value: boolVar("issuerEmpty")}}
	issuer.Funcs = []tr.FuncAtom{
		{Fun: "slices.Contains", Args: []string{"recv.TrustedIssuers", "issuer"}, Lean: "trusted", Res: []tr.TypeSpec{boolT}},
		refusal(3, "refused")} //nolint:mnd
	issuer.Targets = []tr.Target{{Recv: "Expectation", Method: "AssertIssuer", Lean: "AssertIssuer",
		Params: []string{"issuerEmpty", "trusted", "refused", "nilDeref"}}}

	audience := fam("Audience")
	audience.TypeVars = []string{"Ctx", "PV", "Err"}
	audience.Objects["[]string"] = "audience"
	audience.Params = []tr.Param{{Name: "noneExpected", Type: "Bool"}, {Name: "intersects", Type: "Bool"},
		{Name: "refused", Type: "Err"}, nilDeref}
	audience.Atoms = map[string]tr.Atom{"len(recv.Audiences) == 0": {Value: boolVar("noneExpected")}}
	audience.Funcs = []tr.FuncAtom{
		{Fun: "slicex.Intersects", Args: []string{"recv.Audiences", "audience"}, Lean: "intersects", Res: []tr.TypeSpec{boolT}},
		refusal(2, "refused")} //nolint:mnd
	audience.Targets = []tr.Target{{Recv: "Expectation", Method: "AssertAudience", Lean: "AssertAudience",
		Params: []string{"noneExpected", "intersects", "refused", "nilDeref"}}}

	alg := fam("Algorithm")
	alg.TypeVars = []string{"Ctx", "PV", "Err"}
	alg.Objects["string"] = "alg"
	alg.Params = []tr.Param{{Name: "allowed", Type: "Bool"}, {Name: "refused", Type: "Err"}, nilDeref}
	alg.Funcs = []tr.FuncAtom{
		{Fun: "slices.Contains", Args: []string{"recv.AllowedAlgorithms", "alg"}, Lean: "allowed", Res: []tr.TypeSpec{boolT}},
		refusal(3, "refused")} //nolint:mnd
	alg.Targets = []tr.Target{{Recv: "Expectation", Method: "AssertAlgorithm", Lean: "AssertAlgorithm",
		Params: []string{"allowed", "refused", "nilDeref"}}}

	claims := &tr.Family{Name: "Claims", Dir: dir, RecvType: "Claims", Effectful: true, Monad: "Go.M Ctx PV",
		NilPanic: "nilDeref", Objects: map[string]string{"Expectation": "exp"}}
	claims.GoTypes = map[string]tr.TypeSpec{"error": optErr}
	claims.TypeVars = []string{"Ctx", "PV", "Err"}

	names := []string{}
	// the argument each assertion is called with is part of the table: the claim of the receiver it is about (any
	// other argument makes the translation fail closed); which scopes claim is handed on is left to the
	// correspondence run
	for _, a := range [][3]string{{"AssertIssuer", "issuerRefused", "recv.Issuer"},
		{"AssertAudience", "audienceRefused", "recv.Audience"},
		{"AssertIssuanceTime", "issuanceRefused", "recv.IssuedAt.Time()"}, {"AssertScopes", "scopesRefused", "*"}} {
		claims.Funcs = append(claims.Funcs, tr.FuncAtom{Fun: "exp." + a[0], Args: []string{a[2]}, Lean: a[1],
			Res: []tr.TypeSpec{optErr}})
		claims.Params = append(claims.Params, tr.Param{Name: a[1], Type: "Option Err"})
		names = append(names, a[1])
	}

	claims.Funcs = append(claims.Funcs, tr.FuncAtom{Fun: "exp.AssertValidity", Args: []string{"recv.NotBefore.Time()", "recv.Expiry.Time()"}, Lean: "validityRefused",
		Res: []tr.TypeSpec{optErr}})
	claims.Params = append(claims.Params, tr.Param{Name: "validityRefused", Type: "Option Err"}, nilDeref)
	names = append(names, "validityRefused", "nilDeref")
	claims.Targets = []tr.Target{{Recv: "Claims", Method: "Validate", Lean: "Validate", Params: names}}

	return []*tr.Family{validity, issued, issuer, audience, alg, claims}
}

const header = `-- GENERATED by extract/go2lean (cmd/claims) from the current source of heimdall. Do not edit.
import HeimdallModel.Base.GoRun
/-!
# The assertions about verified claims, translated from the Go source (C05)

Whole bodies of the ` + "`Assert…`" + ` methods of ` + "`oauth2.Expectation`" + ` and of ` + "`Claims.Validate`" + `, translated statement by
statement. ` + "`Props/C05Src.lean`" + ` proves that they refuse exactly what ` + "`notYetValid`" + ` / ` + "`expired`" + ` /
` + "`issuedInFuture`" + ` / ` + "`audienceOk`" + ` / ` + "`validate`" + ` of ` + "`Model/Jwt.lean`" + ` refuse - the functions the C05 theorems are
stated over - for every clock reading, every claim value and every whole-second leeway.

An instant is its Unix time in whole seconds (` + "`now`" + ` = ` + "`time.Now().Unix()`" + `, ` + "`nbf`" + ` / ` + "`exp`" + ` / ` + "`iat`" + ` the claims), a
duration a whole number of seconds (` + "`leeway`" + `; the package constant ` + "`defaultLeeway`" + ` is resolved from the source);
` + "`hasNbf`" + ` / ` + "`hasExp`" + ` / ` + "`hasIat`" + ` say whether the claim is present (` + "`!t.IsZero()`" + `); the membership tests on string
slices are booleans; ` + "`refused`" + ` is the error built from ` + "`ErrAssertion`" + `. In ` + "`Claims.Validate`" + ` the five assertions
are parameters (what each returned): the translation shows their order and that the first refusal is what is returned.

Translated functions:
`

func die(err error) {
	fmt.Fprintf(os.Stderr, "go2lean: %v\n", err)
	os.Exit(2) //nolint:mnd
}

func main() {
	if len(os.Args) != 2 { //nolint:mnd
		die(fmt.Errorf("usage: claims <repo>"))
	}

	var (
		sb    strings.Builder
		index strings.Builder
	)

	for _, fam := range families() {
		defs, err := tr.TranslateFamily(os.Args[1], fam)
		if err != nil {
			die(err)
		}

		sb.WriteString("namespace " + fam.Name + "\n\n")

		for _, d := range defs {
			sb.WriteString(d.LeanEff() + "\n")
			index.WriteString("* `" + fam.Name + "." + d.Target.Lean + "` = " + d.GoName + ", " + d.Pos + "\n")
		}

		sb.WriteString("end " + fam.Name + "\n\n")
	}

	fmt.Print(header + index.String() + "-/\nset_option linter.unusedVariables false\n\nnamespace Heimdall.Jwt.Src\n\n" +
		"/-- this file is the result of a successful translation of the current source -/\n" +
		"def translationOk : Bool := true\n\n" + sb.String() + "end Heimdall.Jwt.Src\n")
}
