// Command matchers translates the control flow of heimdall's route matchers (property C03) from the current source
// into Lean: lean/HeimdallModel/Gen/MatcherSrc.lean, namespace Heimdall.Matcher.Src. Usage: matchers <repo> (Lean text
// on stdout; exit code 2 and a message on stderr when the source is outside the translatable subset - fail closed).
//
// Translated (whole bodies, found by receiver type and method name in internal/rules, any non-test file):
// compositeMatcher.Matches (all conditions of a route), anyOfMatcher.Matches (the hosts of a rule).
//
// The abstraction (the trusted part, the tables below): the elements of the slice a matcher ranges over are opaque; a
// call of an element's `Matches` is an uninterpreted function that may look at the request and may panic (it runs in
// the monad `Go.M Ctx PV`), its arguments (request, keys, values) are the same for every element and are not looked at.
package main

import (
	"fmt"
	"os"
	"strings"

	tr "verif/extract/go2lean/translate"
)

const rules = "internal/rules"

var (
	optErr = tr.TypeSpec{K: tr.KOpt, T: "Err"}
	elemT  = tr.TypeSpec{K: tr.KOpq, T: "A"}

	nilDeref = tr.Param{Name: "nilDeref", Type: "PV"}
)

func family(name, recv string) *tr.Family {
	fam := &tr.Family{
		Name: name, Dir: rules, RecvType: recv, Effectful: true, Monad: "Go.M Ctx PV", NilPanic: "nilDeref",
		Objects: map[string]string{"*heimdall.Request": "request"},
	}
	fam.TypeVars = []string{"A", "Ctx", "PV", "Err"}
	fam.Params = []tr.Param{
		{Name: "accept", Type: "A → Go.M Ctx PV (Option Err)"},
		nilDeref,
		{Name: "xs", Type: "List A"},
	}
	fam.GoTypes = map[string]tr.TypeSpec{"error": optErr, "RouteMatcher": elemT}
	fam.Funcs = []tr.FuncAtom{
		{Fun: "A.Matches", Args: []string{"*", "*", "*"}, Lean: "accept", Res: []tr.TypeSpec{optErr}, Effect: true},
	}
	fam.Slices = map[string]tr.SliceSpec{"recv": {Elem: elemT, List: "xs"}}
	fam.Targets = []tr.Target{{Recv: recv, Method: "Matches", Lean: "Matches",
		Params: []string{"accept", "nilDeref", "xs"}}}

	return fam
}

func boolVar(n string) *tr.Node { return tr.Var(n, tr.KBool, tr.UNone) }

func cond(name, recv string) *tr.Family {
	fam := &tr.Family{
		Name: name, Dir: rules, RecvType: recv, Effectful: true, Monad: "Go.M Ctx PV", NilPanic: "nilDeref",
		Objects: map[string]string{"*heimdall.Request": "request"},
	}
	fam.GoTypes = map[string]tr.TypeSpec{"error": optErr}

	return fam
}

func families() []*tr.Family {
	errT := tr.TypeSpec{K: tr.KOpq, T: "Err"}
	boolT := tr.TypeSpec{K: tr.KBool}

	scheme := cond("Scheme", "schemeMatcher")
	scheme.TypeVars = []string{"Ctx", "PV", "Err"}
	scheme.Params = []tr.Param{{Name: "schemeSet", Type: "Bool"}, {Name: "schemeDiffers", Type: "Bool"},
		{Name: "mismatch", Type: "Err"}, nilDeref}
	scheme.Atoms = map[string]tr.Atom{
		"len(recv) != 0":                     {Value: boolVar("schemeSet")},
		"string(recv) != request.URL.Scheme": {Value: boolVar("schemeDiffers")},
	}
	scheme.Funcs = []tr.FuncAtom{{Fun: "errorchain.NewWithMessagef", Args: []string{"ErrRequestSchemeMismatch", "*", "*", "*"},
		Lean: "mismatch", Res: []tr.TypeSpec{errT}}}
	scheme.Targets = []tr.Target{{Recv: "schemeMatcher", Method: "Matches", Lean: "Matches",
		Params: []string{"schemeSet", "schemeDiffers", "mismatch", "nilDeref"}}}

	method := cond("Method", "methodMatcher")
	method.TypeVars = []string{"Ctx", "PV", "Err"}
	method.Params = []tr.Param{{Name: "noMethods", Type: "Bool"}, {Name: "listed", Type: "Bool"},
		{Name: "mismatch", Type: "Err"}, nilDeref}
	method.Atoms = map[string]tr.Atom{
		"len(recv) == 0": {Value: boolVar("noMethods")},
	}
	method.Funcs = []tr.FuncAtom{
		{Fun: "slices.Contains", Args: []string{"recv", "request.Method"}, Lean: "listed", Res: []tr.TypeSpec{boolT}},
		{Fun: "errorchain.NewWithMessagef", Args: []string{"ErrRequestMethodMismatch", "*", "*"},
			Lean: "mismatch", Res: []tr.TypeSpec{errT}}}
	method.Targets = []tr.Target{{Recv: "methodMatcher", Method: "Matches", Lean: "Matches",
		Params: []string{"noMethods", "listed", "mismatch", "nilDeref"}}}

	host := cond("Host", "hostMatcher")
	host.TypeVars = []string{"Ctx", "PV", "Err"}
	host.Params = []tr.Param{{Name: "hostMatches", Type: "Bool"}, {Name: "mismatch", Type: "Err"}, nilDeref}
	host.Funcs = []tr.FuncAtom{
		{Fun: "recv.match", Args: []string{"request.URL.Host"}, Lean: "hostMatches", Res: []tr.TypeSpec{boolT}},
		{Fun: "errorchain.NewWithMessagef", Args: []string{"ErrRequestHostMismatch", "*", "*"},
			Lean: "mismatch", Res: []tr.TypeSpec{errT}}}
	host.Targets = []tr.Target{{Recv: "hostMatcher", Method: "Matches", Lean: "Matches",
		Params: []string{"hostMatches", "mismatch", "nilDeref"}}}

	strT := tr.TypeSpec{K: tr.KOpq, T: "Str"}

	pp := cond("PathParam", "pathParamMatcher")
	pp.TypeVars = []string{"Ctx", "PV", "Err", "Str"}
	pp.Params = []tr.Param{{Name: "idx", Type: "Int"}, {Name: "valueAt", Type: "Int → Str"}, {Name: "rawPathSet", Type: "Bool"},
		{Name: "slashesOff", Type: "Bool"}, {Name: "encodedSlash", Type: "Bool"}, {Name: "unescape", Type: "Str → Str"},
		{Name: "valueMatches", Type: "Str → Bool"}, {Name: "notExpected", Type: "Err"}, {Name: "slashRefused", Type: "Err"},
		{Name: "valueRefused", Type: "Str → Err"}, nilDeref}
	pp.Objects["[]string#1"] = "keys"
	pp.Objects["[]string#2"] = "values"
	pp.Atoms = map[string]tr.Atom{
		"slices.Index(keys, recv.name)":                  {Value: tr.Var("idx", tr.KInt, tr.UPlain)},
		"len(request.URL.RawPath) != 0":                  {Value: boolVar("rawPathSet")},
		"recv.slashHandling == config.EncodedSlashesOff": {Value: boolVar("slashesOff")},
		"containsEncodedSlash(request.URL.RawPath)":      {Value: boolVar("encodedSlash")},
	}
	pp.Funcs = []tr.FuncAtom{
		{Fun: "values[]", Lean: "valueAt", Res: []tr.TypeSpec{strT}},
		{Fun: "unescape", Args: []string{"$", "recv.slashHandling"}, Lean: "unescape", Res: []tr.TypeSpec{strT}},
		{Fun: "recv.match", Args: []string{"$"}, Lean: "valueMatches", Res: []tr.TypeSpec{boolT}},
		{Fun: "errorchain.NewWithMessagef", Args: []string{"ErrRequestPathMismatch", "*", "recv.name"},
			Lean: "notExpected", Res: []tr.TypeSpec{errT}},
		{Fun: "errorchain.NewWithMessage", Args: []string{"ErrRequestPathMismatch", "*"},
			Lean: "slashRefused", Res: []tr.TypeSpec{errT}},
		{Fun: "errorchain.NewWithMessagef", Args: []string{"ErrRequestPathMismatch", "*", "$", "recv.name"},
			Lean: "valueRefused", Res: []tr.TypeSpec{errT}},
	}
	pp.Targets = []tr.Target{{Recv: "pathParamMatcher", Method: "Matches", Lean: "Matches",
		Params: []string{"idx", "valueAt", "rawPathSet", "slashesOff", "encodedSlash", "unescape", "valueMatches",
			"notExpected", "slashRefused", "valueRefused", "nilDeref"}}}

	return []*tr.Family{family("AllOf", "compositeMatcher"), family("AnyOf", "anyOfMatcher"), scheme, method, host, pp}
}

const header = `-- GENERATED by extract/go2lean (cmd/matchers) from the current source of heimdall. Do not edit.
import HeimdallModel.Base.GoRun
/-!
# The control flow of the route matchers, translated from the Go source (C03)

Every definition below is the whole body of one Go function of ` + "`internal/rules`" + `, translated statement by statement.
` + "`Props/C03Src.lean`" + ` proves, for lists of any length and every behaviour of the elements, that
` + "`compositeMatcher.Matches`" + ` accepts iff every condition accepts (and reports the error of the first one that does not,
asking no later one) and that ` + "`anyOfMatcher.Matches`" + ` accepts iff the list is empty or some element accepts - the
conjunction and the any-of the model ` + "`Heimdall.routeMatches`" + ` / ` + "`Heimdall.hostOk`" + ` is built from.

` + "`accept`" + ` (` + "`Matches`" + ` of an element) runs in the monad ` + "`Go.M Ctx PV`" + ` (a panic with value ` + "`PV`" + ` propagates). A Go value
that may be nil is an ` + "`Option`" + `. A ` + "`for … range`" + ` loop is a structurally recursive function over the list.

Translated functions:
`

func die(err error) {
	fmt.Fprintf(os.Stderr, "go2lean: %v\n", err)
	os.Exit(2) //nolint:mnd
}

func main() {
	if len(os.Args) != 2 { //nolint:mnd
		die(fmt.Errorf("usage: matchers <repo>"))
	}

	var (
		sb    strings.Builder
		index strings.Builder
	)

	for _, fam := range families() {
		defs, err := tr.TranslateFamily(os.Args[1], fam)
		if err != nil {
			die(err)
		}

		sb.WriteString("namespace " + fam.Name + "\n\n")

		for _, d := range defs {
			sb.WriteString(d.LeanEff() + "\n")
			index.WriteString("* `" + fam.Name + "." + d.Target.Lean + "` = " + d.GoName + ", " + d.Pos + "\n")
		}

		sb.WriteString("end " + fam.Name + "\n\n")
	}

	fmt.Print(header + index.String() + "-/\nset_option linter.unusedVariables false\n\nnamespace Heimdall.Matcher.Src\n\n" +
		"/-- this file is the result of a successful translation of the current source -/\n" +
		"def translationOk : Bool := true\n\n" + sb.String() + "end Heimdall.Matcher.Src\n")
}
