// Command errswitch translates the classification switches of heimdall's two error translators (property C12) from the
// current source into Lean: lean/HeimdallModel/Gen/ErrSwitchSrc.lean, namespace Heimdall.ErrMap.Src. Usage:
// errswitch <repo> (Lean text on stdout; exit code 2 and a message on stderr when the source is outside the
// translatable subset - fail closed).
//
// Translated (whole bodies): (*interceptor).intercept of internal/handler/middleware/grpc/errorhandler and
// (*errorHandler).HandleError of internal/handler/middleware/http/errorhandler.
//
// The abstraction (the trusted part, the tables below): an error value is opaque; `errors.Is(err, heimdall.Err…)` and
// `errors.Is(err, &heimdall.RedirectError{})` are uninterpreted predicates of it (false for nil); the response
// builders of the options (`h.authenticationError(err, verbose, accept)` …, `h.onAuthenticationError(rw, req, err)` …)
// and the construction of the redirect response are uninterpreted functions of the error; log statements and
// accesscontext.SetError are dropped.
package main

import (
	"fmt"
	"os"
	"strings"

	tr "verif/extract/go2lean/translate"
)

var (
	optErr  = tr.TypeSpec{K: tr.KOpt, T: "Err"}
	optResp = tr.TypeSpec{K: tr.KOpt, T: "Resp"}
	boolT   = tr.TypeSpec{K: tr.KBool}

	nilDeref = tr.Param{Name: "nilDeref", Type: "PV"}
)

var kinds = [][2]string{
	{"heimdall.ErrAuthentication", "isAuthentication"}, {"heimdall.ErrAuthorization", "isAuthorization"},
	{"heimdall.ErrCommunicationTimeout", "isTimeout"}, {"heimdall.ErrCommunication", "isCommunication"},
	{"heimdall.ErrArgument", "isArgument"}, {"heimdall.ErrNoRuleFound", "isNoRule"},
	{"heimdall.ErrInternal", "isInternal"}, {"heimdall.ErrConfiguration", "isConfiguration"},
}

func isFuncs() ([]tr.FuncAtom, []tr.Param, []string) {
	var (
		fs []tr.FuncAtom
		ps []tr.Param
		ns []string
	)

	for _, k := range kinds {
		fs = append(fs, tr.FuncAtom{Fun: "errors.Is", Args: []string{"$", k[0]}, Lean: k[1], Res: []tr.TypeSpec{boolT},
			NilFalse: true})
		ps = append(ps, tr.Param{Name: k[1], Type: "Err → Bool"})
		ns = append(ns, k[1])
	}

	fs = append(fs, tr.FuncAtom{Fun: "errors.Is", Args: []string{"$", "&heimdall.RedirectError{}"}, Lean: "isRedirect",
		Res: []tr.TypeSpec{boolT}, NilFalse: true})
	ps = append(ps, tr.Param{Name: "isRedirect", Type: "Err → Bool"})
	ns = append(ns, "isRedirect")

	return fs, ps, ns
}

func grpcFamily() *tr.Family {
	fam := &tr.Family{
		Name: "Grpc", Dir: "internal/handler/middleware/grpc/errorhandler", RecvType: "interceptor", Effectful: true,
		Monad: "Go.M Ctx PV", NilPanic: "nilDeref",
		Objects:   map[string]string{"context.Context": "ctx", "any": "req", "grpc.UnaryHandler": "handler"},
		SideCalls: []string{"accesscontext.SetError", "errors.As"},
	}
	fam.TypeVars = []string{"Ctx", "PV", "Err", "Resp", "Redirect"}
	fs, ps, ns := isFuncs()
	fam.GoTypes = map[string]tr.TypeSpec{"error": optErr, "any": optResp,
		"*heimdall.RedirectError": {K: tr.KOpt, T: "Redirect"}}
	redirect := tr.Var("redirectResponse", tr.KOpq, tr.UNone)
	redirect.T = "Resp"
	fam.Atoms = map[string]tr.Atom{"&v3.CheckResponse{…}": {Value: redirect}}
	builders := []string{"authenticationError", "authorizationError", "communicationError", "preconditionError",
		"noRuleError", "internalError"}

	for _, b := range builders {
		fs = append(fs, tr.FuncAtom{Fun: "recv." + b, Args: []string{"$", "*", "*"}, Lean: b,
			Res: []tr.TypeSpec{optResp, optErr}})
		ps = append(ps, tr.Param{Name: b, Type: "Option Err → Option Resp × Option Err"})
		ns = append(ns, b)
	}

	fs = append(fs, tr.FuncAtom{Fun: "handler", Args: []string{"ctx", "req"}, Lean: "handler",
		Res: []tr.TypeSpec{optResp, optErr}, Effect: true})
	ps = append(ps, tr.Param{Name: "handler", Type: "Go.M Ctx PV (Option Resp × Option Err)"},
		tr.Param{Name: "redirectResponse", Type: "Resp"}, nilDeref)
	ns = append(ns, "handler", "redirectResponse", "nilDeref")
	fam.Funcs = fs
	fam.Params = ps
	fam.Targets = []tr.Target{{Recv: "interceptor", Method: "intercept", Lean: "intercept", Params: ns}}

	return fam
}

func httpFamily() *tr.Family {
	fam := &tr.Family{
		Name: "Http", Dir: "internal/handler/middleware/http/errorhandler", RecvType: "errorHandler", Effectful: true,
		Monad: "Go.M Ctx PV", NilPanic: "nilDeref",
		Objects:   map[string]string{"http.ResponseWriter": "rw", "*http.Request": "req"},
		SideCalls: []string{"accesscontext.SetError", "errors.As"},
	}
	fam.TypeVars = []string{"Ctx", "PV", "Err", "Redirect"}
	fs, ps, ns := isFuncs()
	unitT := tr.TypeSpec{K: tr.KOpq, T: "Unit"}
	fam.GoTypes = map[string]tr.TypeSpec{"error": optErr, "*heimdall.RedirectError": {K: tr.KOpt, T: "Redirect"}}
	fam.ValueParams = map[string]string{"error": "err"}
	writers := []string{"onAuthenticationError", "onAuthorizationError", "onCommunicationError", "onPreconditionError",
		"onNoRuleError", "onInternalError"}

	for _, b := range writers {
		fs = append(fs, tr.FuncAtom{Fun: "recv." + b, Args: []string{"rw", "req", "$"}, Lean: b,
			Res: []tr.TypeSpec{unitT}, Effect: true})
		ps = append(ps, tr.Param{Name: b, Type: "Option Err → Go.M Ctx PV Unit"})
		ns = append(ns, b)
	}

	fs = append(fs,
		tr.FuncAtom{Fun: "rw.Header().Set", Args: []string{"*", "*"}, Lean: "setLocation", Res: []tr.TypeSpec{unitT}, Effect: true},
		tr.FuncAtom{Fun: "rw.WriteHeader", Args: []string{"*"}, Lean: "writeRedirectCode", Res: []tr.TypeSpec{unitT}, Effect: true})
	ps = append(ps, tr.Param{Name: "setLocation", Type: "Go.M Ctx PV Unit"},
		tr.Param{Name: "writeRedirectCode", Type: "Go.M Ctx PV Unit"}, nilDeref, tr.Param{Name: "err", Type: "Option Err"})
	ns = append(ns, "setLocation", "writeRedirectCode", "nilDeref", "err")
	fam.Funcs = fs
	fam.Params = ps
	fam.Targets = []tr.Target{{Recv: "errorHandler", Method: "HandleError", Lean: "HandleError", Params: ns}}

	return fam
}

const header = `-- GENERATED by extract/go2lean (cmd/errswitch) from the current source of heimdall. Do not edit.
import HeimdallModel.Base.GoRun
/-!
# The classification switches of the two error translators, translated from the Go source (C12)

Whole bodies of ` + "`(*interceptor).intercept`" + ` (gRPC, Envoy ext_authz) and ` + "`(*errorHandler).HandleError`" + ` (HTTP decision
and proxy services), translated statement by statement; a ` + "`switch`" + ` is the chain of its cases in source order.
` + "`Props/C12Src.lean`" + ` proves for **every** error value (trees of any depth and width) that both take exactly the branch
the model's ` + "`classify switchCases`" + ` takes - the case table the C12 theorems (precedence, never success, HTTP ≡ gRPC)
are stated over.

An error value is opaque: ` + "`errors.Is(err, heimdall.Err…)`" + ` / ` + "`errors.Is(err, &heimdall.RedirectError{})`" + ` are
predicates of it (false for nil: ` + "`err.any p`" + `). The response builders of the options
(` + "`h.authenticationError(err, verbose, accept)`" + ` … / ` + "`h.onAuthenticationError(rw, req, err)`" + ` …), the redirect response
and the wrapped gRPC handler are parameters; the HTTP writers act on the context (` + "`Go.M Ctx PV Unit`" + `). Log statements,
` + "`accesscontext.SetError`" + ` and ` + "`errors.As`" + ` (it only fetches the redirect target the opaque response is built from) are
dropped.

Translated functions:
`

func die(err error) {
	fmt.Fprintf(os.Stderr, "go2lean: %v\n", err)
	os.Exit(2) //nolint:mnd
}

func main() {
	if len(os.Args) != 2 { //nolint:mnd
		die(fmt.Errorf("usage: errswitch <repo>"))
	}

	var (
		sb    strings.Builder
		index strings.Builder
	)

	for _, fam := range []*tr.Family{grpcFamily(), httpFamily()} {
		defs, err := tr.TranslateFamily(os.Args[1], fam)
		if err != nil {
			die(err)
		}

		sb.WriteString("namespace " + fam.Name + "\n\n")

		for _, d := range defs {
			sb.WriteString(d.LeanEff() + "\n")
			index.WriteString("* `" + fam.Name + "." + d.Target.Lean + "` = " + d.GoName + ", " + d.Pos + "\n")
		}

		sb.WriteString("end " + fam.Name + "\n\n")
	}

	fmt.Print(header + index.String() + "-/\nset_option linter.unusedVariables false\n\nnamespace Heimdall.ErrMap.Src\n\n" +
		"/-- this file is the result of a successful translation of the current source -/\n" +
		"def translationOk : Bool := true\n\n" + sb.String() + "end Heimdall.ErrMap.Src\n")
}
