// Command cachettl translates the functions of heimdall that compute the TTL handed to the cache (property C10)
// from the current source into Lean definitions: lean/HeimdallModel/Gen/CacheTTLSrc.lean, namespace
// Heimdall.Validity.Src. Usage: cachettl <repo>  (Lean text on stdout; exit code 2 and a message on stderr when the
// source is outside the translatable subset - fail closed).
//
// The functions are found by receiver type and method name in the package directory (any non-test file). What is
// specific to them is only the table below: which expressions read the outside world and which parameter of the
// Lean definition they stand for. Control flow and expressions are translated generically by package translate.
//
// Parameters (all families): `ttl` the configured cache TTL (a pointer field: `Option Int`, `none` = nil; a plain
// time.Duration field: `Int`), `exp : Option Int` the expiry the remote party reported as Unix seconds (`none` = no
// such information), `now : Int` the value of time.Now().Unix(). Durations are whole seconds.
package main

import (
	"encoding/json"
	"fmt"
	"os"
	"strings"

	tr "verif/extract/go2lean/translate"
)

const authn = "internal/rules/mechanisms/authenticators"

var (
	ttlOpt = tr.Param{Name: "ttl", Type: "Option Int"}
	ttlInt = tr.Param{Name: "ttl", Type: "Int"}
	expOpt = tr.Param{Name: "exp", Type: "Option Int"}
	nowInt = tr.Param{Name: "now", Type: "Int"}
	keyed  = tr.Param{Name: "keyed", Type: "Bool"}

	keyedVar = tr.Var("keyed", tr.KBool, tr.UNone)

	expPresent = tr.Some("exp")
	expUnix    = tr.Get("exp", tr.UPlain)
	nowUnix    = tr.Var("now", tr.KInt, tr.UPlain)
	// time.Until(t) = t - now, a duration
	expUntil = tr.Bin("sub", tr.Get("exp", tr.UDur), tr.Var("now", tr.KInt, tr.UDur), tr.UDur)
)

func families() []*tr.Family {
	return []*tr.Family{
		{
			Name: "Introspection", Dir: authn, RecvType: "oauth2IntrospectionAuthenticator",
			Params:     []tr.Param{ttlOpt, expOpt, nowInt},
			Objects:    map[string]string{"*oauth2.IntrospectionResponse": "resp"},
			RecvFields: map[string]string{"ttl": "ttl"},
			Atoms: map[string]tr.Atom{
				"resp.Expiry":                           {Present: expPresent},
				"resp.Expiry.Time().Unix()":             {Value: expUnix},
				"time.Until(resp.Expiry.Time())":        {Value: expUntil},
				"resp.Expiry.Time().Sub(time.Now())":    {Value: expUntil},
				"time.Now().Unix()":                     {Value: nowUnix},
				"time.Now().UTC().Unix()":               {Value: nowUnix},
				"resp.Expiry.Time().UTC().Unix()":       {Value: expUnix},
				"int64(*resp.Expiry)":                   {Value: expUnix},
				"resp.Expiry.Time().IsZero()":           {Value: tr.Not(expPresent)},
				"resp.Expiry.Time().Equal(time.Time{})": {Value: tr.Not(expPresent)},
				"resp.Expiry.Time().Before(time.Now())": {Value: tr.Cmp("lt", expUnix, nowUnix)},
				"time.Now().After(resp.Expiry.Time())":  {Value: tr.Cmp("lt", expUnix, nowUnix)},
				"time.Now().Before(resp.Expiry.Time())": {Value: tr.Cmp("lt", nowUnix, expUnix)},
				"resp.Expiry.Time().After(time.Now())":  {Value: tr.Cmp("lt", nowUnix, expUnix)},
			},
			Targets: []tr.Target{
				{Recv: "oauth2IntrospectionAuthenticator", Method: "isCacheEnabled", Lean: "isCacheEnabled",
					Params: []string{"ttl"}, Result: "Bool"},
				{Recv: "oauth2IntrospectionAuthenticator", Method: "getCacheTTL", Lean: "getCacheTTL",
					Params: []string{"ttl", "exp", "now"}, Result: "Int"},
			},
		},
		{
			Name: "JwtKey", Dir: authn, RecvType: "jwtAuthenticator",
			Params:     []tr.Param{ttlOpt, expOpt, nowInt},
			Objects:    map[string]string{"*jose.JSONWebKey": "key"},
			RecvFields: map[string]string{"ttl": "ttl"},
			Atoms: map[string]tr.Atom{
				// a key without certificate carries no expiry; otherwise `exp` is NotAfter of its first certificate
				"len(key.Certificates)":                           {Len: expPresent},
				"key.Certificates":                                {Present: expPresent},
				"key.Certificates[0].NotAfter.Unix()":             {Value: expUnix},
				"key.Certificates[0].NotAfter.UTC().Unix()":       {Value: expUnix},
				"time.Until(key.Certificates[0].NotAfter)":        {Value: expUntil},
				"key.Certificates[0].NotAfter.Sub(time.Now())":    {Value: expUntil},
				"time.Now().Unix()":                               {Value: nowUnix},
				"time.Now().UTC().Unix()":                         {Value: nowUnix},
				"key.Certificates[0].NotAfter.Before(time.Now())": {Value: tr.Cmp("lt", expUnix, nowUnix)},
				"time.Now().After(key.Certificates[0].NotAfter)":  {Value: tr.Cmp("lt", expUnix, nowUnix)},
			},
			Needs: map[string]*tr.Node{"key.Certificates[0]": expPresent},
			Targets: []tr.Target{
				{Recv: "jwtAuthenticator", Method: "isCacheEnabled", Lean: "isCacheEnabled",
					Params: []string{"ttl"}, Result: "Bool"},
				{Recv: "jwtAuthenticator", Method: "getCacheTTL", Lean: "getCacheTTL",
					Params: []string{"ttl", "exp", "now"}, Result: "Int"},
			},
		},
		{
			// `session`: a session lifespan object was created from the response; `exp`: its `exp` is not the zero time
			Name: "Generic", Dir: authn, RecvType: "genericAuthenticator",
			Params:     []tr.Param{ttlInt, {Name: "session", Type: "Bool"}, expOpt, nowInt},
			Objects:    map[string]string{"*SessionLifespan": "session"},
			RecvFields: map[string]string{"ttl": "ttl"},
			Atoms: map[string]tr.Atom{
				"session":                        {Present: tr.Var("session", tr.KBool, tr.UNone)},
				"session.exp.Equal(time.Time{})": {Value: tr.Not(expPresent)},
				"session.exp.IsZero()":           {Value: tr.Not(expPresent)},
				"session.exp.Unix()":             {Value: expUnix},
				"session.exp.UTC().Unix()":       {Value: expUnix},
				"time.Until(session.exp)":        {Value: expUntil},
				"session.exp.Sub(time.Now())":    {Value: expUntil},
				"time.Now().Unix()":              {Value: nowUnix},
				"time.Now().UTC().Unix()":        {Value: nowUnix},
			},
			Needs: map[string]*tr.Node{"session.exp": tr.Var("session", tr.KBool, tr.UNone)},
			Targets: []tr.Target{
				{Recv: "genericAuthenticator", Method: "getCacheTTL", Lean: "getCacheTTL",
					Params: []string{"ttl", "session", "exp", "now"}, Result: "Int"},
				{Recv: "genericAuthenticator", Method: "getSubjectInformation", Lean: "cacheRead",
					Params: []string{"ttl"}, Result: "Bool", Site: "get"},
			},
		},
		{
			// `exp`: the Expiry of the token endpoint response is not the zero time
			Name: "ClientCreds", Dir: "internal/rules/oauth2/clientcredentials", RecvType: "Config",
			Params:     []tr.Param{ttlOpt, expOpt, nowInt},
			Objects:    map[string]string{"*TokenInfo": "resp"},
			RecvFields: map[string]string{"TTL": "ttl"},
			Atoms: map[string]tr.Atom{
				"resp.Expiry.IsZero()":           {Value: tr.Not(expPresent)},
				"resp.Expiry.Equal(time.Time{})": {Value: tr.Not(expPresent)},
				"time.Until(resp.Expiry)":        {Value: expUntil},
				"resp.Expiry.Sub(time.Now())":    {Value: expUntil},
				"resp.Expiry.Unix()":             {Value: expUnix},
				"resp.Expiry.UTC().Unix()":       {Value: expUnix},
				"time.Now().Unix()":              {Value: nowUnix},
				"time.Now().UTC().Unix()":        {Value: nowUnix},
				"resp.Expiry.Before(time.Now())": {Value: tr.Cmp("lt", expUnix, nowUnix)},
				"time.Now().After(resp.Expiry)":  {Value: tr.Cmp("lt", expUnix, nowUnix)},
			},
			Targets: []tr.Target{
				{Recv: "Config", Method: "isCacheEnabled", Lean: "isCacheEnabled", Params: []string{"ttl"}, Result: "Bool"},
				{Recv: "Config", Method: "getCacheTTL", Lean: "getCacheTTL", Params: []string{"ttl", "exp", "now"},
					Result: "Int"},
			},
		},
		{
			// `f.ttl`: lifetime of the issued tokens (the configured `ttl` or its default, set by the factory);
			// `keyed`: a cache key could be computed
			Name: "JwtFinalizer", Dir: "internal/rules/mechanisms/finalizers", RecvType: "jwtFinalizer",
			Params:     []tr.Param{ttlInt, keyed},
			RecvFields: map[string]string{"ttl": "ttl"},
			Atoms:      map[string]tr.Atom{"len(cacheKey)": {Len: keyedVar}},
			Targets: []tr.Target{
				{Recv: "jwtFinalizer", Method: "Execute", Lean: "cacheWrite", Params: []string{"ttl", "keyed"},
					Result: "Bool", Site: "set"},
			},
		},
		{
			// `a.ttl`: the effective `cache_ttl` (0 when not configured)
			Name: "RemoteAuthz", Dir: "internal/rules/mechanisms/authorizers", RecvType: "remoteAuthorizer",
			Params:     []tr.Param{ttlInt, keyed},
			RecvFields: map[string]string{"ttl": "ttl"},
			Atoms:      map[string]tr.Atom{"len(cacheKey)": {Len: keyedVar}},
			Targets: []tr.Target{
				{Recv: "remoteAuthorizer", Method: "Execute", Lean: "cacheRead", Params: []string{"ttl"},
					Result: "Bool", Site: "get"},
				{Recv: "remoteAuthorizer", Method: "Execute", Lean: "cacheWrite", Params: []string{"ttl", "keyed"},
					Result: "Bool", Site: "set"},
			},
		},
		{
			// `h.ttl`: the effective `cache_ttl` (the default of 10 s when not configured, set by the factory)
			Name: "Contextualizer", Dir: "internal/rules/mechanisms/contextualizers", RecvType: "genericContextualizer",
			Params:     []tr.Param{ttlInt, keyed},
			RecvFields: map[string]string{"ttl": "ttl"},
			Atoms:      map[string]tr.Atom{"len(cacheKey)": {Len: keyedVar}},
			Targets: []tr.Target{
				{Recv: "genericContextualizer", Method: "Execute", Lean: "cacheRead", Params: []string{"ttl"},
					Result: "Bool", Site: "get"},
				{Recv: "genericContextualizer", Method: "Execute", Lean: "cacheWrite", Params: []string{"ttl", "keyed"},
					Result: "Bool", Site: "set"},
			},
		},
	}
}

const header = `-- GENERATED by extract/go2lean (cmd/cachettl) from the current source of heimdall. Do not edit.
/-!
# The TTL functions of the caching mechanisms, translated from the Go source (C10)

Every definition below is the whole body of one Go function, translated statement by statement (early returns become
` + "`if … then v else …`, assignments `let`" + `, constants are resolved and inlined, helper methods and closures are translated in
place). ` + "`Props/C10Src.lean`" + ` proves for all inputs that they equal the hand-written model ` + "`Heimdall.Validity.cacheTTL`" + ` /
` + "`lookupEnabled`" + ` the C10 theorems are about.

Parameters: ` + "`ttl`" + ` is the configured cache TTL (` + "`Option Int`" + ` for a pointer field, ` + "`none`" + ` = nil; ` + "`Int`" + ` for a plain
` + "`time.Duration`" + ` field), ` + "`exp : Option Int`" + ` the expiry reported by the remote party in Unix seconds (` + "`none`" + ` = no such
information), ` + "`now`" + ` is ` + "`time.Now().Unix()`" + `. **Durations are whole seconds** (` + "`time.Second`" + ` = 1): the translation refuses
code in which a duration meets a bare number or sub-second units.

` + "`<f>_defined`" + ` says that evaluating the Go function on these inputs dereferences no nil pointer, indexes no empty
slice and reads the expiry only where it is known (` + "`x.getD 0`" + ` stands for such a read).

Translated functions:
`

func die(err error) {
	fmt.Fprintf(os.Stderr, "go2lean: %v\n", err)
	os.Exit(2) //nolint:mnd
}

// probe derives the constants the hand-written model takes from Gen/CacheConsts.lean from the behaviour of the
// translated functions (used when the constants extractor extract/validity does not find them by name: a constant
// that was renamed, or moved into a helper): the cache leeway is `remaining − getCacheTTL` for a long remaining
// lifetime under a longer configured TTL, probed at three points that must agree. That the value is right for ALL
// inputs is what the equality theorems of Props/C10Src.lean then prove.
func probe(repo string) {
	type fact struct {
		Seconds int64  `json:"seconds"`
		Expr    string `json:"expr"`
		File    string `json:"file"`
	}

	out := map[string]fact{}
	keys := map[string]string{"Introspection": "introspectionLeeway", "JwtKey": "jwtKeyLeeway",
		"Generic": "genericLeeway", "ClientCreds": "clientCredsLeeway"}

	for _, fam := range families() {
		defs, err := tr.TranslateFamily(repo, fam)
		if err != nil {
			die(err)
		}

		byName := map[string]*tr.Def{}
		for _, d := range defs {
			byName[d.Target.Lean] = d
		}

		f := byName["getCacheTTL"]
		if f == nil || keys[fam.Name] == "" {
			continue
		}

		const big = 1_000_000_000

		eval := func(cfg tr.Val, exp tr.Val) int64 {
			env := map[string]tr.Val{"ttl": cfg, "exp": exp, "now": tr.IntVal(0), "session": tr.BoolVal(true)}

			v, err := tr.Eval(f.Body, env, byName)
			if err != nil {
				die(fmt.Errorf("probing %s.getCacheTTL: %w", fam.Name, err))
			}

			return v.I
		}

		var ls []int64
		for _, r := range []int64{1_000_000, 2_000_000, 1_000_007} {
			ls = append(ls, r-eval(tr.SomeVal(big), tr.SomeVal(r)))
		}

		if ls[0] != ls[1] || ls[0] != ls[2] {
			die(fmt.Errorf("probing %s.getCacheTTL: remaining − ttl is not a constant (%v)", fam.Name, ls))
		}

		file := f.Pos[:strings.LastIndex(f.Pos, ":")]
		out[keys[fam.Name]] = fact{Seconds: ls[0], File: file,
			Expr: "remaining − " + f.GoName + " (probed on the translated function)"}

		if fam.Name == "JwtKey" {
			out["jwtKeyDefaultTTL"] = fact{Seconds: eval(tr.NoneVal(), tr.NoneVal()), File: file,
				Expr: f.GoName + " without cache_ttl and without certificate (probed on the translated function)"}
		}
	}

	enc := json.NewEncoder(os.Stdout)
	enc.SetIndent("", " ")

	if err := enc.Encode(out); err != nil {
		die(err)
	}
}

func main() {
	if len(os.Args) == 3 && os.Args[1] == "-probe" { //nolint:mnd
		probe(os.Args[2])

		return
	}

	if len(os.Args) != 2 { //nolint:mnd
		die(fmt.Errorf("usage: cachettl [-probe] <repo>"))
	}

	var (
		sb    strings.Builder
		index strings.Builder
	)

	for _, fam := range families() {
		defs, err := tr.TranslateFamily(os.Args[1], fam)
		if err != nil {
			die(err)
		}

		sb.WriteString("namespace " + fam.Name + "\n\n")

		for _, d := range defs {
			sb.WriteString(d.Lean() + "\n")
			index.WriteString("* `" + fam.Name + "." + d.Target.Lean + "` = " + d.GoName + ", " + d.Pos + "\n")

			for _, e := range d.Extra {
				index.WriteString("* `" + fam.Name + "." + e.Target.Lean + "` = " + e.GoName + ", " + e.Pos + "\n")
			}
		}

		sb.WriteString("end " + fam.Name + "\n\n")
	}

	fmt.Print(header + index.String() + "-/\nset_option linter.unusedVariables false\n\nnamespace Heimdall.Validity.Src\n\n" +
		"/-- this file is the result of a successful translation of the current source -/\n" +
		"def translationOk : Bool := true\n\n" + sb.String() + "end Heimdall.Validity.Src\n")
}
