// Package translate turns side-effect free Go functions, written in a small and explicitly listed subset of Go, into
// Lean 4 definitions (core Lean only). It uses go/ast, go/parser, go/token and the standard library only.
//
// The translation is generic in control flow and expressions (if / else chains, early returns, local variables and
// assignments, constants at function and package level, helper methods and functions of the same package, closures
// handed to IfThenElseExec, builtin min / max, integer arithmetic and comparisons); what is specific to a function is
// a table (Family) that maps the few expressions which read the outside world ("atoms": receiver fields, fields of a
// response object, time.Now()) to parameters of the generated definition. Anything outside the subset aborts the
// translation with an error that names file and line (fail closed).
//
// Every definition `f` comes with a companion `f_defined : Bool` that says whether evaluating the Go function on these
// inputs stays clear of nil dereferences / index errors / reads of absent values (the atoms say what they need).
package translate

import "fmt"

// Kind is the Lean type of a value: Int or Bool.
type Kind int

const (
	KInt Kind = iota
	KBool
	KOpq // a value of an opaque Lean type (Node.T), never nil
	KOpt // a Go value that may be nil (pointer, interface, error): `Option T`
	KTup // the results of a call with several results (Node.Comp)
)

// TypeSpec is the Lean type of a Go value: Int (with unit), Bool, an opaque type T, or `Option T`.
type TypeSpec struct {
	K Kind
	U Unit
	T string
}

func (ts TypeSpec) Lean() string {
	switch ts.K {
	case KInt:
		return "Int"
	case KBool:
		return "Bool"
	case KOpt:
		return "Option " + ts.T
	default:
		return ts.T
	}
}

func (ts TypeSpec) same(o TypeSpec) bool { return ts.K == o.K && ts.T == o.T }

// Unit tells what an integer counts. Durations are modelled in whole seconds.
type Unit int

const (
	UNone  Unit = iota // booleans
	UNum               // untyped integer constant: adapts to its context
	UPlain             // a plain integer (Unix seconds, their difference, a counter)
	UDur               // time.Duration, value = whole seconds
	URaw               // time.Duration(n) built from a plain number n: n nanoseconds, must be scaled by time.Second
)

func (u Unit) String() string {
	return [...]string{"bool", "untyped constant", "plain integer", "duration", "unscaled duration"}[u]
}

// Node is an expression of the intermediate representation.
//
//	lit(Val) blit(Val!=0) var(Name) some(Name) get(Name)
//	add sub mul min max (Args[0], Args[1])            integers
//	lt le gt ge eq ne (integers) beq bne (booleans)   comparisons
//	not and or                                        booleans; and / or are short-circuit
//	ite(Args[0] cond, Args[1], Args[2])               Eager: both branches are evaluated (x.IfThenElse)
//	let(Name, Args[0] value, Args[1] body)
//	call(Name, Args...)                               another generated definition
//	need(Args[0] condition, Args[1] value)            value, defined only where the condition holds
//
// values of opaque types and effects (families with Effectful set):
//
//	onone(T) owrap(Args[0]) osome(Args[0]) oany(Name, Args[0])    nil, `some x`, `x != nil`, `x.any f`
//	ucall(Name, Args...)                              an uninterpreted function (a parameter of the definition); Eff: it
//	                                                  runs in the context monad (may change the context, may panic)
//	tuple(Args...)                                    several values
//	bind(Names, Args[0] call, Args[1] rest)           Eff of the call: `Go.bind call fun (names) => rest`, else `let (names) := call`
//	ret(Args[0])                                      `Go.pure v`
//	loopcall(Loop, Args...)                           the loop function on the varying arguments
//	slen                                              length of the slice the function ranges over
//	gopanic(Name)                                     a Go panic (nil dereference)
type Node struct {
	Op    string
	K     Kind
	U     Unit
	T     string
	Val   int64
	Name  string
	Names []string
	Comp  []TypeSpec
	Args  []*Node
	Eager bool
	Eff   bool
	Loop  *LoopDef
}

// Spec is the type of the value of a node.
func (n *Node) Spec() TypeSpec { return TypeSpec{K: n.K, U: n.U, T: n.T} }

// LoopDef is a `for … range` loop turned into a structurally recursive function over the list: Nil is what happens
// when the list is exhausted (the code after the loop), Cons the loop body on the first element; `continue` and the end
// of the body call the function on the rest, `break` goes to the code after the loop.
type LoopDef struct {
	Name    string
	Idx     string    // Lean name of the index variable ("" if the loop has none)
	Elem    string    // Lean name of the element variable
	ElemT   string    // Lean type of the elements
	Rest    string    // Lean name of the remaining list
	Carried []LoopVar // variables declared before the loop and assigned in it
	Extra   []LoopVar // further variables declared before the loop that the loop or the code after it reads
	Nil     *Node
	Cons    *Node
}

type LoopVar struct {
	Name string
	Type TypeSpec
}

func Lit(v int64, u Unit) *Node { return &Node{Op: "lit", K: KInt, U: u, Val: v} }
func BLit(b bool) *Node {
	n := &Node{Op: "blit", K: KBool}
	if b {
		n.Val = 1
	}

	return n
}
func Var(name string, k Kind, u Unit) *Node { return &Node{Op: "var", K: k, U: u, Name: name} }

// Some is the presence test of an `Option Int` parameter.
func Some(param string) *Node { return &Node{Op: "some", K: KBool, Name: param} }

// Get is the value of an `Option Int` parameter; it is defined only where the parameter is present.
func Get(param string, u Unit) *Node { return &Node{Op: "get", K: KInt, U: u, Name: param} }
func Not(a *Node) *Node {
	if a.Op == "blit" {
		return BLit(a.Val == 0)
	}

	if a.Op == "not" {
		return a.Args[0]
	}

	if a.Op == "need" {
		return Need(a.Args[0], Not(a.Args[1]))
	}

	return &Node{Op: "not", K: KBool, Args: []*Node{a}}
}
func And(a, b *Node) *Node {
	switch {
	case a.isTrue():
		return b
	case b.isTrue():
		return a
	case a.isFalse():
		return a
	case same(a, b), b.Op == "and" && same(a, b.Args[0]):
		return b
	}

	return &Node{Op: "and", K: KBool, Args: []*Node{a, b}}
}
func Or(a, b *Node) *Node {
	switch {
	case a.isFalse():
		return b
	case b.isFalse():
		return a
	case a.isTrue():
		return a
	case b.isTrue() && Defined(a).isTrue():
		return b
	}

	return &Node{Op: "or", K: KBool, Args: []*Node{a, b}}
}
func Ite(c, a, b *Node, eager bool) *Node {
	return &Node{Op: "ite", K: a.K, U: a.U, T: a.T, Args: []*Node{c, a, b}, Eager: eager}
}
func Let(name string, v, body *Node) *Node {
	return &Node{Op: "let", K: body.K, U: body.U, T: body.T, Name: name, Args: []*Node{v, body}}
}
func Need(cond, v *Node) *Node {
	if cond.isTrue() {
		return v
	}

	return &Node{Op: "need", K: v.K, U: v.U, T: v.T, Args: []*Node{cond, v}}
}
func Bin(op string, a, b *Node, u Unit) *Node {
	return &Node{Op: op, K: KInt, U: u, Args: []*Node{a, b}}
}
func Cmp(op string, a, b *Node) *Node { return &Node{Op: op, K: KBool, Args: []*Node{a, b}} }

// same: structurally equal expressions
func same(a, b *Node) bool {
	if a.Op != b.Op || a.K != b.K || a.Val != b.Val || a.Name != b.Name || len(a.Args) != len(b.Args) ||
		a.Eager != b.Eager || a.T != b.T || len(a.Names) != len(b.Names) || a.Loop != b.Loop {
		return false
	}

	for i := range a.Names {
		if a.Names[i] != b.Names[i] {
			return false
		}
	}

	for i := range a.Args {
		if !same(a.Args[i], b.Args[i]) {
			return false
		}
	}

	return true
}

func (n *Node) isTrue() bool  { return n.Op == "blit" && n.Val != 0 }
func (n *Node) isFalse() bool { return n.Op == "blit" && n.Val == 0 }

// IsZeroConst: the literal 0 (the only untyped constant that may meet a duration without a unit).
func (n *Node) IsZeroConst() bool { return n.Op == "lit" && n.Val == 0 }

// Defined builds the condition under which evaluating n neither dereferences nil nor reads an absent value. Go's
// evaluation order is respected: operands of && and || and the branches of an if are only evaluated when reached.
func Defined(n *Node) *Node {
	switch n.Op {
	case "lit", "blit", "var", "some", "onone", "slen":
		return BLit(true)
	case "bind":
		if n.Eff {
			return BLit(false) // not a value
		}

		return And(Defined(n.Args[0]), Defined(n.Args[1]))
	case "ret", "loopcall", "gopanic":
		return BLit(false)
	case "get":
		return Some(n.Name)
	case "not":
		return Defined(n.Args[0])
	case "and":
		return And(Defined(n.Args[0]), Or(Not(n.Args[0]), Defined(n.Args[1])))
	case "or":
		return And(Defined(n.Args[0]), Or(n.Args[0], Defined(n.Args[1])))
	case "ite":
		da, db := Defined(n.Args[1]), Defined(n.Args[2])
		if n.Eager {
			return And(Defined(n.Args[0]), And(da, db))
		}

		if da.isTrue() && db.isTrue() {
			return Defined(n.Args[0])
		}

		br := Ite(n.Args[0], da, db, false)
		br.K, br.U = KBool, UNone

		return And(Defined(n.Args[0]), br)
	case "let":
		db := Defined(n.Args[1])
		if db.isTrue() {
			return Defined(n.Args[0])
		}

		if !mentions(db, n.Name) {
			return And(Defined(n.Args[0]), db)
		}

		l := Let(n.Name, n.Args[0], db)

		return And(Defined(n.Args[0]), l)
	case "need":
		return And(n.Args[0], And(Defined(n.Args[0]), Defined(n.Args[1])))
	case "call":
		d := &Node{Op: "call", K: KBool, Name: n.Name + "_defined", Args: n.Args}
		var r *Node = d
		for i := len(n.Args) - 1; i >= 0; i-- {
			r = And(Defined(n.Args[i]), r)
		}

		return r
	default: // binary integer operators and comparisons
		r := BLit(true)
		for i := len(n.Args) - 1; i >= 0; i-- {
			r = And(Defined(n.Args[i]), r)
		}

		return r
	}
}

func mentions(n *Node, name string) bool {
	if n.Op == "var" && n.Name == name {
		return true
	}

	if n.Op == "let" && n.Name == name {
		return mentions(n.Args[0], name)
	}

	if n.Op == "bind" {
		for _, b := range n.Names {
			if b == name {
				return mentions(n.Args[0], name)
			}
		}
	}

	for _, a := range n.Args {
		if mentions(a, name) {
			return true
		}
	}

	return false
}

// UsedParams collects the names of the parameters (of the generated definition) an expression reads.
func UsedParams(n *Node, params map[string]bool, out map[string]bool) {
	switch n.Op {
	case "some", "get":
		out[n.Name] = true
	case "var":
		if params[n.Name] {
			out[n.Name] = true
		}
	}

	for _, a := range n.Args {
		UsedParams(a, params, out)
	}
}

// unify returns the common unit of two integer operands that are added, subtracted, compared or fed to min / max.
func unify(a, b *Node) (Unit, error) {
	if a.K != KInt || b.K != KInt {
		return UNone, fmt.Errorf("integer operands expected")
	}

	ua, ub := a.U, b.U
	if ua == ub {
		if ua == URaw {
			return UNone, fmt.Errorf("a time.Duration built from a plain number is used without being scaled by " +
				"time.Second (durations are modelled in whole seconds)")
		}

		return ua, nil
	}

	if ub == UNum {
		a, b, ua, ub = b, a, ub, ua
	}

	if ua == UNum {
		switch ub {
		case UPlain:
			return UPlain, nil
		case UDur:
			if a.IsZeroConst() {
				return UDur, nil
			}

			return UNone, fmt.Errorf("a duration meets a bare number other than 0 (that would be nanoseconds; " +
				"durations are modelled in whole seconds)")
		}
	}

	return UNone, fmt.Errorf("operands count different things: %s and %s", ua, ub)
}

// Simplify removes what has no effect on the value: a `let` / a pure call whose result is not used, an `if` with two
// equal branches (what is left of statements that only feed log output). Effects are never removed.
func Simplify(n *Node) *Node {
	if n == nil || len(n.Args) == 0 {
		return n
	}

	c := *n
	c.Args = make([]*Node, len(n.Args))

	for i, a := range n.Args {
		c.Args[i] = Simplify(a)
	}

	switch c.Op {
	case "let":
		if !mentions(c.Args[1], c.Name) && Defined(c.Args[0]).isTrue() {
			return c.Args[1]
		}
	case "bind":
		if c.Eff {
			break
		}

		used := false

		for _, b := range c.Names {
			used = used || (b != "_" && mentions(c.Args[1], b))
		}

		if !used && Defined(c.Args[0]).isTrue() {
			return c.Args[1]
		}
	case "ite":
		if same(c.Args[1], c.Args[2]) && Defined(c.Args[0]).isTrue() {
			return c.Args[1]
		}
	case "need":
		if c.Args[0].isTrue() {
			return c.Args[1]
		}
	}

	return &c
}
