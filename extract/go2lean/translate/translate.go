package translate

import (
	"fmt"
	"go/ast"
	"go/token"
	"sort"
	"strconv"
	"strings"
)

// Param is a parameter of the generated definitions of a family. Type is a Lean type: "Int", "Bool" or "Option Int".
type Param struct{ Name, Type string }

// Atom says what an expression that reads the outside world means in terms of the parameters. The expression is
// given in canonical form: the receiver is called `recv`, an object parameter is called as Family.Objects says (by
// its Go type), local variables that merely name a part of such an object are replaced by what they name, imported
// packages carry their default name.
type Atom struct {
	Present *Node // meaning of `<expr> != nil` (`== nil` is its negation)
	Deref   *Node // meaning of `*<expr>`
	Value   *Node // meaning of `<expr>` itself
	Len     *Node // `<expr>` is a length of which only "is positive" is known: the meaning of `<expr> > 0`
}

// Target is one Go function or method that becomes a Lean definition with a fixed signature.
type Target struct {
	Recv   string   // receiver type name ("" for a function)
	Method string   // Go name
	Lean   string   // name of the definition
	Params []string // subset of Family.Params, in this order
	Result string   // "Int" or "Bool"
	// Site "set": the definition is not the function itself but (Lean, Lean+"TTL") = the condition of the innermost `if`
	// around the only call `<x>.Set(ctx, key, value, ttl)` inside it and the ttl argument of that call.
	// Site "get": the condition of the innermost `if` around the only call `<x>.Get(ctx, key)` inside it.
	Site string
	// Scan: the function maps a string to a string by one index loop over it (scan.go); the parameter (a `List Int`,
	// one element per byte) that stands for the string
	Scan string
}

// Family groups the targets of one receiver type; they share parameters and atoms.
type Family struct {
	Name       string            // Lean namespace
	Dir        string            // package directory relative to the repository root
	Params     []Param           // every parameter a target may use
	Objects    map[string]string // Go type of a parameter (as written) -> canonical name
	RecvType   string            // struct type the RecvFields belong to
	RecvFields map[string]string // receiver field -> parameter; the field's declared type decides how it is read
	Atoms      map[string]Atom   // canonical expression -> meaning
	Needs      map[string]*Node  // canonical expression -> what must hold for it to be evaluated at all
	Targets    []Target

	// control-flow kernels over opaque values (effects.go)
	Effectful   bool                 // the functions run in the context monad `Monad`
	Monad       string               // e.g. "Go.M Ctx PV"
	TypeVars    []string             // implicit type parameters of every definition
	GoTypes     map[string]TypeSpec  // Go type (as written) -> Lean type of its values
	ValueParams map[string]string    // Go type of a parameter -> parameter of the definition that stands for it
	Funcs       []FuncAtom           // calls that stand for uninterpreted functions
	Slices      map[string]SliceSpec // canonical expression of a slice that is ranged over
	SideCalls   []string             // canonical callees of statements that are dropped (no effect on what is returned)
	NilPanic    string               // parameter that stands for the panic value of a nil dereference
	// MutablePaths: canonical prefixes of objects whose fields / elements may be assigned to (the request of the
	// context); such assignments, and `range` loops that consist of nothing else, are dropped like SideCalls: they
	// change what the opaque calls see through the context, not what the function returns
	MutablePaths []string
}

// Def is a translated function.
type Def struct {
	Target  Target
	Params  []Param
	Body    *Node
	Defined *Node
	Pos     string // file:line of the Go declaration
	GoName  string
	Extra   []*Def // further definitions that belong to it (SetCall: the ttl argument)

	Fam     *Family
	ResType string     // families with effects: Lean type of the result
	Loops   []*LoopDef // families with effects: the loops of the function, in the order they have to be defined
	Scans   []*ScanDef // scan functions: the index loop over the string
}

const maxInline = 8

type bindKind int

const (
	bScalar bindKind = iota // a Lean variable
	bConst                  // a constant expression, inlined
	bAlias                  // a name for (a part of) an object: replaced by the canonical expression
	bOpaque                 // something the translation does not look into (a logger); any use as a value fails
	bString                 // the string a scan function works on (scan.go)
	bAcc                    // the accumulator (strings.Builder, []byte) the scan function writes its result to
)

type binding struct {
	kind  bindKind
	lean  string
	k     Kind
	u     Unit
	t     string // Lean type of an opaque value
	node  *Node
	alias ast.Expr
	depth int
	lit0  bool // a variable that holds the literal 0 since its declaration
}

type frame struct {
	file *ast.File
	resK Kind
	resU Unit
	resT string
	ret  TypeSpec   // type of the single result
	res  []TypeSpec // function with effects: the types of its results
	void bool       // function with effects and without results: it returns `()`
}

// unitRet is `return` in a function without results.
func unitRet() *Node {
	return &Node{Op: "ret", Args: []*Node{{Op: "var", Name: "()", K: KOpq, T: "Unit"}}}
}

type env struct {
	m     map[string]binding
	names map[string]bool // Lean names bound around this point
	depth int
	fr    *frame
	brk   cont // inside a loop: what `break` / `continue` lead to
	cnt   cont

	// inside an index loop over a string (scan.go): the Go name of the index variable and by how much the body has
	// advanced it so far
	scanIdx string
	scanOff int
}

// withName reserves a Lean name that is bound around this point without standing for a Go variable
func (e *env) withName(lean string) *env {
	names := make(map[string]bool, len(e.names)+1)
	for k := range e.names {
		names[k] = true
	}

	names[lean] = true

	return &env{m: e.m, names: names, depth: e.depth, fr: e.fr, brk: e.brk, cnt: e.cnt, scanIdx: e.scanIdx, scanOff: e.scanOff}
}

func (e *env) with(name string, b binding) *env {
	m := make(map[string]binding, len(e.m)+1)
	for k, v := range e.m {
		m[k] = v
	}

	m[name] = b
	names := e.names

	if b.kind == bScalar && !names[b.lean] {
		names = make(map[string]bool, len(e.names)+1)
		for k := range e.names {
			names[k] = true
		}

		names[b.lean] = true
	}

	return &env{m: m, names: names, depth: e.depth, fr: e.fr, brk: e.brk, cnt: e.cnt, scanIdx: e.scanIdx, scanOff: e.scanOff}
}

func (e *env) push() *env {
	return &env{m: e.m, names: e.names, depth: e.depth + 1, fr: e.fr, brk: e.brk, cnt: e.cnt, scanIdx: e.scanIdx, scanOff: e.scanOff}
}

// leave drops what was declared inside a block (depth >= d) and keeps assignments to outer variables
func (e *env) leave(entry *env) *env {
	m := make(map[string]binding, len(e.m))

	for k, v := range e.m {
		if v.depth > entry.depth {
			if old, ok := entry.m[k]; ok {
				m[k] = old
			}

			continue
		}

		m[k] = v
	}

	// the Lean names bound inside the block may be used again: what they stood for is out of scope in Go
	return &env{m: m, names: entry.names, depth: entry.depth, fr: entry.fr, brk: e.brk, cnt: e.cnt,
		scanIdx: e.scanIdx, scanOff: e.scanOff}
}

type tr struct {
	pkg      *Package
	fam      *Family
	atoms    map[string]Atom
	reserved map[string]bool
	emitted  map[string]*Target
	stack    []string
	recvType string

	scan       *scanInfo
	scans      []*ScanDef
	lastRet    TypeSpec // result type found by the last call of resultType
	eff        bool
	defName    string
	loops      []*LoopDef
	paramNames map[string]bool
}

var leanKeywords = strings.Fields("at from fun end open in then else if let have show do match with by def theorem " +
	"example instance structure inductive class where namespace section variable universe import export private " +
	"protected mutual deriving Type Prop Sort return for unless this max min true false some none not and or decide " +
	"mut matches macro syntax notation abbrev axiom opaque unsafe partial noncomputable termination_by using calc nomatch try catch finally")

// fresh picks a Lean name for a Go variable that clashes neither with a parameter or definition nor with a variable
// bound around this point
func (t *tr) fresh(name string, en *env) string {
	base := name
	if base == "_" || base == "" {
		base = "v"
	}

	cand := base

	for i := 1; t.reserved[cand] || en.names[cand]; i++ {
		cand = base + "_" + strconv.Itoa(i)
	}

	return cand
}

// TranslateFamily translates every target of a family from the sources below repo.
func TranslateFamily(repo string, fam *Family) ([]*Def, error) {
	pkg, err := Load(repo, fam.Dir)
	if err != nil {
		return nil, err
	}

	atoms := map[string]Atom{}
	for k, v := range fam.Atoms {
		atoms[k] = v
	}

	ptype := map[string]string{}
	for _, p := range fam.Params {
		ptype[p.Name] = p.Type
	}

	fields := make([]string, 0, len(fam.RecvFields))
	for f := range fam.RecvFields {
		fields = append(fields, f)
	}

	sort.Strings(fields)

	for _, field := range fields {
		param := fam.RecvFields[field]

		typ, err := pkg.StructField(fam.RecvType, field)
		if err != nil {
			return nil, err
		}

		var (
			a    Atom
			want string
		)

		switch typ {
		case "*time.Duration":
			a, want = Atom{Present: Some(param), Deref: Get(param, UDur)}, "Option Int"
		case "time.Duration":
			a, want = Atom{Value: Var(param, KInt, UDur)}, "Int"
		case "int", "int64":
			a, want = Atom{Value: Var(param, KInt, UPlain)}, "Int"
		case "*int", "*int64":
			a, want = Atom{Present: Some(param), Deref: Get(param, UPlain)}, "Option Int"
		case "bool":
			a, want = Atom{Value: Var(param, KBool, UNone)}, "Bool"
		default:
			return nil, fmt.Errorf("%s: field %s.%s has type %s, which the translation cannot read as a parameter",
				pkg.Rel, fam.RecvType, field, typ)
		}

		if ptype[param] != want {
			return nil, fmt.Errorf("%s: field %s.%s has type %s now: it would be a parameter of type %s, the "+
				"theorems are stated for %s", pkg.Rel, fam.RecvType, field, typ, want, ptype[param])
		}

		atoms["recv."+field] = a
	}

	emitted := map[string]*Target{}

	var defs []*Def

	for i := range fam.Targets {
		tg := &fam.Targets[i]
		t := &tr{pkg: pkg, fam: fam, atoms: atoms, reserved: map[string]bool{}, emitted: emitted,
			recvType: tg.Recv, eff: fam.Effectful, defName: tg.Lean, paramNames: map[string]bool{}}

		for _, p := range tg.Params {
			t.paramNames[p] = true
		}

		for _, k := range leanKeywords {
			t.reserved[k] = true
		}

		for _, p := range fam.Params {
			t.reserved[p.Name] = true
		}

		if fam.Effectful {
			for _, k := range []string{"n", "Go", "List", "Option"} {
				t.reserved[k] = true
			}
		}

		for _, o := range fam.Targets {
			t.reserved[o.Lean] = true
			t.reserved[o.Lean+"_defined"] = true
		}

		d, err := t.target(tg)
		if err != nil {
			return nil, err
		}

		defs = append(defs, d)
		emitted[tg.Recv+"."+tg.Method] = tg
	}

	return defs, nil
}

func (t *tr) paramList(names []string) ([]Param, error) {
	var out []Param

	for _, n := range names {
		ok := false

		for _, p := range t.fam.Params {
			if p.Name == n {
				out = append(out, p)
				ok = true
			}
		}

		if !ok {
			return nil, fmt.Errorf("table error: parameter %s is not declared in family %s", n, t.fam.Name)
		}
	}

	return out, nil
}

func (t *tr) checkUsed(d *Def, n *Node, what string) error {
	all := map[string]bool{}
	for _, p := range t.fam.Params {
		all[p.Name] = true
	}

	used := map[string]bool{}
	UsedParams(n, all, used)

	for _, p := range d.Params {
		delete(used, p.Name)
	}

	if len(used) > 0 {
		var l []string
		for k := range used {
			l = append(l, k)
		}

		sort.Strings(l)

		return fmt.Errorf("%s: %s now depends on %s, which the definition %s.%s has no parameter for", d.Pos, what,
			strings.Join(l, ", "), t.fam.Name, d.Target.Lean)
	}

	return nil
}

func (t *tr) target(tg *Target) (*Def, error) {
	fd, file, err := t.pkg.Func(tg.Recv, tg.Method)
	if err != nil {
		return nil, err
	}

	params, err := t.paramList(tg.Params)
	if err != nil {
		return nil, err
	}

	goName := tg.Method
	if tg.Recv != "" {
		goName = "(*" + tg.Recv + ")." + tg.Method
	}

	d := &Def{Target: *tg, Params: params, Pos: t.pkg.Pos(fd.Pos()), GoName: goName, Fam: t.fam}
	en := &env{m: map[string]binding{}, names: map[string]bool{}, fr: &frame{file: file}}
	en = t.bindReceiver(fd, en)

	if fd.Type.Params != nil {
		nth := map[string]int{} // per Go type: how many parameters of that type came before

		for _, f := range fd.Type.Params.List {
			byType := t.fam.Objects[Text(f.Type)]
			for _, id := range f.Names {
				// `<type>#<n>`: the n-th parameter of that type (two slices of one type, told apart by position, so that
				// renaming a parameter does not matter)
				nth[Text(f.Type)]++
				canon := byType

				if c, ok := t.fam.Objects[fmt.Sprintf("%s#%d", Text(f.Type), nth[Text(f.Type)])]; ok {
					canon = c
				}

				if vp, ok := t.fam.ValueParams[Text(f.Type)]; ok && canon == "" {
					ts, known := t.fam.GoTypes[Text(f.Type)]
					if !known || !t.paramNames[vp] {
						return nil, t.pkg.errorf(f.Pos(), "table error: parameter %s of type %s", id.Name, Text(f.Type))
					}

					en = en.with(id.Name, binding{kind: bScalar, lean: vp, k: ts.K, u: ts.U, t: ts.T})

					continue
				}

				if canon == "" {
					// not an object the table knows: any use of it fails closed where it is used
					en = en.with(id.Name, binding{kind: bOpaque, lean: Text(f.Type)})
				} else {
					en = en.with(id.Name, binding{kind: bAlias, alias: ast.NewIdent(canon)})
				}
			}
		}
	}

	t.stack = []string{goName}

	if tg.Site != "" {
		return t.callSite(d, fd, en)
	}

	if tg.Scan != "" {
		return t.scanTarget(d, fd, en)
	}

	if t.eff {
		var lean []string

		var results []*ast.Field
		if fd.Type.Results != nil {
			results = fd.Type.Results.List
		}

		if len(results) == 0 {
			// a function without results returns `()`: what it does is what its effectful calls do to the context
			en.fr.void = true
			en.fr.res = []TypeSpec{{K: KOpq, T: "Unit"}}
			lean = []string{"Unit"}
		}

		for _, f := range results {
			ts, ok := t.goType(f.Type, file)
			if !ok || len(f.Names) > 0 {
				return nil, t.pkg.errorf(f.Pos(), "result type %s is not supported", Text(f.Type))
			}

			en.fr.res = append(en.fr.res, ts)
			lean = append(lean, ts.Lean())
		}

		d.ResType = t.fam.Monad + " (" + strings.Join(lean, " × ") + ")"

		var end cont
		if en.fr.void {
			end = func(*env) (*Node, error) { return unitRet(), nil }
		}

		body, err := t.stmts(fd.Body.List, en.push(), end, fd.Body.End())
		if err != nil {
			return nil, err
		}

		d.Body = Simplify(body)

		for _, l := range t.loops {
			l.Nil, l.Cons = Simplify(l.Nil), Simplify(l.Cons)
		}

		d.Loops = t.loops

		return d, nil
	}

	k, u, rt, err := t.resultType(fd.Type, file, fd.Pos())
	if err != nil {
		return nil, err
	}

	if (tg.Result == "Int") != (k == KInt) {
		return nil, t.pkg.errorf(fd.Pos(), "%s returns %s now, the definition %s.%s is stated with result %s", goName,
			rt, t.fam.Name, tg.Lean, tg.Result)
	}

	en.fr.resK, en.fr.resU, en.fr.resT = k, u, rt
	en.fr.ret = TypeSpec{K: k, U: u}

	body, err := t.stmts(fd.Body.List, en.push(), nil, fd.Body.End())
	if err != nil {
		return nil, err
	}

	d.Body, d.Defined = body, Defined(body)

	if err := t.checkUsed(d, body, goName); err != nil {
		return nil, err
	}

	return d, nil
}

func (t *tr) bindReceiver(fd *ast.FuncDecl, en *env) *env {
	if fd.Recv != nil && len(fd.Recv.List) == 1 {
		for _, id := range fd.Recv.List[0].Names {
			en = en.with(id.Name, binding{kind: bAlias, alias: ast.NewIdent("recv")})
		}
	}

	return en
}

// typeOf maps a declared Go type to kind and unit
func typeOf(e ast.Expr, file *ast.File) (Kind, Unit, bool) {
	switch x := e.(type) {
	case *ast.Ident:
		switch x.Name {
		case "bool":
			return KBool, UNone, true
		case "int", "int8", "int16", "int32", "int64", "uint", "uint8", "uint16", "uint32", "uint64", "byte", "rune":
			return KInt, UPlain, true
		}
	case *ast.SelectorExpr:
		if id, ok := x.X.(*ast.Ident); ok && importPath(file, id.Name) == "time" && x.Sel.Name == "Duration" {
			return KInt, UDur, true
		}
	}

	return 0, 0, false
}

func (t *tr) resultType(ft *ast.FuncType, file *ast.File, pos token.Pos) (Kind, Unit, string, error) {
	if ft.Results == nil || len(ft.Results.List) != 1 || len(ft.Results.List[0].Names) > 1 {
		return 0, 0, "", t.pkg.errorf(pos, "exactly one result is supported")
	}

	if len(ft.Results.List[0].Names) == 1 {
		return 0, 0, "", t.pkg.errorf(pos, "named results are not supported")
	}

	rt := ft.Results.List[0].Type

	ts, ok := t.goType(rt, file)
	if !ok {
		return 0, 0, "", t.pkg.errorf(pos, "result type %s is not supported (bool, integers, time.Duration)", Text(rt))
	}

	t.lastRet = ts

	return ts.K, ts.U, Text(rt), nil
}

// coerce checks that n can stand where a value of (k, u) is expected
func (t *tr) coerce(n *Node, k Kind, u Unit, pos token.Pos, what string) (*Node, error) {
	if n.K != k {
		return nil, t.pkg.errorf(pos, "%s: a %s is expected", what, map[Kind]string{KInt: "number", KBool: "bool"}[k])
	}

	if k == KBool || n.U == u {
		return n, nil
	}

	if n.U == UNum {
		if u == UPlain {
			return n, nil
		}

		if u == UDur && n.IsZeroConst() {
			return Lit(0, UDur), nil
		}
	}

	return nil, t.pkg.errorf(pos, "%s: %s expected, found: %s (durations are modelled in whole seconds: a "+
		"bare number where a duration is expected would be nanoseconds)", what, u, n.U)
}

// ---------------------------------------------------------------------------------------------------------------
// statements

type cont func(*env) (*Node, error)

func (t *tr) isLoggerExpr(e ast.Expr, en *env) bool {
	field := "" // the selector applied to the root of the chain

	for {
		switch x := e.(type) {
		case *ast.CallExpr:
			e = x.Fun
		case *ast.SelectorExpr:
			field = x.Sel.Name
			e = x.X
		case *ast.Ident:
			if b, ok := en.m[x.Name]; ok {
				if b.kind == bAlias && Text(b.alias) == "recv" && field != "" && t.fam.RecvType != "" {
					// a chain that starts at a field of the receiver declared as a zerolog logger (`p.l.Debug()…`)
					typ, err := t.pkg.StructField(t.fam.RecvType, field)

					return err == nil && (typ == "zerolog.Logger" || typ == "*zerolog.Logger")
				}

				return b.kind == bOpaque && b.lean == "logger"
			}

			p := importPath(en.fr.file, x.Name)

			return p == "github.com/rs/zerolog" || p == "github.com/rs/zerolog/log"
		default:
			return false
		}
	}
}

func (t *tr) stmts(list []ast.Stmt, en *env, k cont, end token.Pos) (*Node, error) {
	if len(list) == 0 {
		if k == nil {
			return nil, t.pkg.errorf(end, "the function ends without returning a value")
		}

		return k(en)
	}

	rest := func(e2 *env) (*Node, error) { return t.stmts(list[1:], e2, k, end) }

	if t.mutation(list[0], en) {
		return rest(en)
	}

	if t.scan != nil {
		if n, handled, err := t.scanStmt(list[0], en, rest); handled {
			return n, err
		}
	}

	switch s := list[0].(type) {
	case *ast.EmptyStmt:
		return rest(en)
	case *ast.ReturnStmt:
		if en.fr.res != nil {
			return t.returnEff(s, en)
		}

		if len(s.Results) != 1 {
			return nil, t.pkg.errorf(s.Pos(), "return with exactly one value expected")
		}

		if en.fr.ret.K == KOpq || en.fr.ret.K == KOpt {
			return t.exprAs(s.Results[0], en.fr.ret, en, "returned value ("+en.fr.resT+")")
		}

		n, err := t.expr(s.Results[0], en)
		if err != nil {
			return nil, err
		}

		return t.coerce(n, en.fr.resK, en.fr.resU, s.Pos(), "returned value ("+en.fr.resT+")")
	case *ast.BlockStmt:
		return t.stmts(s.List, en.push(), func(e3 *env) (*Node, error) { return rest(e3.leave(en)) }, s.End())
	case *ast.ExprStmt:
		if t.isLoggerExpr(s.X, en) {
			return rest(en) // a log statement does not take part in the value
		}

		if need, ok := t.sideCall(s, en); ok {
			body, err := rest(en)
			if err != nil {
				return nil, err
			}

			return Need(need, body), nil
		}

		if call, is, err := t.stmtCall(s.X, en); err != nil {
			return nil, err
		} else if is {
			lhs := make([]ast.Expr, len(call.results()))
			for i := range lhs {
				lhs[i] = ast.NewIdent("_")
			}

			return t.bindResults(lhs, false, call, s.Pos(), en, rest)
		}

		return nil, t.pkg.errorf(s.Pos(), "statement `%s` is not supported (only log statements may stand alone)",
			Text(s.X))
	case *ast.DeclStmt:
		gd, ok := s.Decl.(*ast.GenDecl)
		if !ok || (gd.Tok != token.CONST && gd.Tok != token.VAR) {
			return nil, t.pkg.errorf(s.Pos(), "declaration is not supported")
		}

		type item struct {
			name       string
			val, typ   ast.Expr
			isVar      bool
			pos        token.Pos
			zeroOfType bool
		}

		var items []item

		for _, sp := range gd.Specs {
			vs := sp.(*ast.ValueSpec) //nolint:forcetypeassert
			if len(vs.Values) != 0 && len(vs.Values) != len(vs.Names) {
				return nil, t.pkg.errorf(vs.Pos(), "declaration with a multi-valued initialiser is not supported")
			}

			for i, id := range vs.Names {
				it := item{name: id.Name, typ: vs.Type, isVar: gd.Tok == token.VAR, pos: id.Pos()}
				if len(vs.Values) == 0 {
					if gd.Tok == token.CONST {
						return nil, t.pkg.errorf(vs.Pos(), "constant without a value (iota groups) is not supported")
					}

					it.zeroOfType = true
				} else {
					it.val = vs.Values[i]
				}

				items = append(items, it)
			}
		}

		var step func(i int, e2 *env) (*Node, error)

		step = func(i int, e2 *env) (*Node, error) {
			if i == len(items) {
				return rest(e2)
			}

			it := items[i]

			var (
				n   *Node
				err error
			)

			if it.zeroOfType {
				ts0, ok := t.goType(it.typ, e2.fr.file)
				if ok {
					n, ok = zeroOf(ts0)
				}

				if !ok {
					return nil, t.pkg.errorf(it.pos, "variable of type %s is not supported", Text(it.typ))
				}
			} else if ts0, ok := t.declaredOpaque(it.typ, e2.fr.file); ok {
				if n, err = t.exprAs(it.val, ts0, e2, it.name); err != nil {
					return nil, err
				}
			} else {
				n, err = t.expr(it.val, e2)
				if err != nil {
					return nil, err
				}

				if it.typ != nil {
					k0, u0, ok := typeOf(it.typ, e2.fr.file)
					if !ok {
						return nil, t.pkg.errorf(it.pos, "declared type %s is not supported", Text(it.typ))
					}

					if n, err = t.coerce(n, k0, u0, it.pos, it.name); err != nil {
						return nil, err
					}

					n = retag(n, u0)
				}
			}

			if !it.isVar {
				return step(i+1, e2.with(it.name, binding{kind: bConst, node: n, k: n.K, u: n.U, depth: e2.depth}))
			}

			return t.bindLet(it.name, n, e2, true, func(e3 *env) (*Node, error) { return step(i+1, e3) })
		}

		return step(0, en)
	case *ast.AssignStmt:
		return t.assign(s, en, rest)
	case *ast.IncDecStmt:
		one := &ast.BasicLit{Kind: token.INT, Value: "1", ValuePos: s.Pos()}
		op := token.ADD_ASSIGN

		if s.Tok == token.DEC {
			op = token.SUB_ASSIGN
		}

		return t.assign(&ast.AssignStmt{Lhs: []ast.Expr{s.X}, Tok: op, TokPos: s.TokPos, Rhs: []ast.Expr{one}}, en, rest)
	case *ast.IfStmt:
		return t.ifStmt(s, en, rest)
	case *ast.SwitchStmt:
		return t.switchStmt(s, en, rest)
	case *ast.RangeStmt:
		return t.rangeStmt(s, en, rest)
	case *ast.BranchStmt:
		return t.branchStmt(s, en)
	case *ast.ForStmt:
		return nil, t.pkg.errorf(s.Pos(), "loops other than `for … range` are not supported")
	case *ast.DeferStmt, *ast.GoStmt:
		return nil, t.pkg.errorf(s.Pos(), "defer / go statements are not supported")
	}

	return nil, t.pkg.errorf(list[0].Pos(), "statement of kind %T is not supported", list[0])
}

// declaredOpaque: the declared type (may be absent) is one of the opaque / nil-able types of the family
func (t *tr) declaredOpaque(typ ast.Expr, file *ast.File) (TypeSpec, bool) {
	if typ == nil {
		return TypeSpec{}, false
	}

	ts, ok := t.goType(typ, file)

	return ts, ok && (ts.K == KOpt || ts.K == KOpq)
}

// retag gives an untyped constant the unit of its declared type
func retag(n *Node, u Unit) *Node {
	if n.K == KInt && n.U == UNum {
		c := *n
		c.U = u

		return &c
	}

	return n
}

// bindLet binds a Go variable to a value: `let` in Lean. define = a new variable (gets a name of its own), otherwise an
// assignment (shadows under the same Lean name, so that everything that follows sees the new value).
func (t *tr) bindLet(name string, n *Node, en *env, define bool, k cont) (*Node, error) {
	if name == "_" {
		body, err := k(en)
		if err != nil {
			return nil, err
		}

		// the value is computed all the same (it may be undefined)
		return Need(Defined(n), body), nil
	}

	if n.K == KInt && n.U == UNum {
		n = retag(n, UPlain) // `x := 10` is an int
	}

	b := binding{kind: bScalar, k: n.K, u: n.U, t: n.T, depth: en.depth, lit0: define && n.IsZeroConst()}

	if old, ok := en.m[name]; ok && !define {
		b.lean, b.depth = old.lean, old.depth
	} else {
		b.lean = t.fresh(name, en)
	}

	body, err := k(en.with(name, b))
	if err != nil {
		return nil, err
	}

	return Let(b.lean, n, body), nil
}

func (t *tr) assign(s *ast.AssignStmt, en *env, rest cont) (*Node, error) {
	if len(s.Rhs) == 1 && (s.Tok == token.DEFINE || s.Tok == token.ASSIGN) {
		call, is, err := t.stmtCall(s.Rhs[0], en)
		if err != nil {
			return nil, err
		}

		if is {
			return t.bindResults(s.Lhs, s.Tok == token.DEFINE, call, s.Pos(), en, rest)
		}
	}

	if s.Tok == token.DEFINE && len(s.Lhs) == len(s.Rhs) && len(s.Lhs) > 1 {
		// a, b := x, y: all values first, then the variables
		vals := make([]*Node, len(s.Rhs))

		for i, r := range s.Rhs {
			v, err := t.expr(r, en)
			if err != nil {
				return nil, err
			}

			vals[i] = v
		}

		var step func(i int, e2 *env) (*Node, error)

		step = func(i int, e2 *env) (*Node, error) {
			if i == len(vals) {
				return rest(e2)
			}

			id, ok := s.Lhs[i].(*ast.Ident)
			if !ok {
				return nil, t.pkg.errorf(s.Pos(), "assignment to `%s` is not supported", Text(s.Lhs[i]))
			}

			return t.bindLet(id.Name, vals[i], e2, true, func(e3 *env) (*Node, error) { return step(i+1, e3) })
		}

		return step(0, en)
	}

	if len(s.Lhs) != 1 || len(s.Rhs) != 1 {
		return nil, t.pkg.errorf(s.Pos(), "assignment of several values is not supported (except the results of a call "+
			"the table knows)")
	}

	if id0, ok := s.Lhs[0].(*ast.Ident); ok && en.scanIdx != "" && id0.Name == en.scanIdx {
		k, err := t.scanAdvance(s)
		if err != nil {
			return nil, err
		}

		inner := rest
		rest = func(e2 *env) (*Node, error) {
			e3 := e2.push()
			e3.depth = e2.depth
			e3.scanOff = e2.scanOff + k

			return inner(e3)
		}
	}

	id, ok := s.Lhs[0].(*ast.Ident)
	if !ok {
		return nil, t.pkg.errorf(s.Pos(), "assignment to `%s` is not supported (local variables only)", Text(s.Lhs[0]))
	}

	rhs := s.Rhs[0]

	switch s.Tok {
	case token.DEFINE, token.ASSIGN:
	case token.ADD_ASSIGN, token.SUB_ASSIGN, token.MUL_ASSIGN:
		op := map[token.Token]token.Token{token.ADD_ASSIGN: token.ADD, token.SUB_ASSIGN: token.SUB,
			token.MUL_ASSIGN: token.MUL}[s.Tok]
		rhs = &ast.BinaryExpr{X: id, Op: op, OpPos: s.TokPos, Y: &ast.ParenExpr{X: rhs}}
	default:
		return nil, t.pkg.errorf(s.Pos(), "assignment operator %s is not supported", s.Tok)
	}

	old, bound := en.m[id.Name]
	define := s.Tok == token.DEFINE && (!bound || old.depth < en.depth)

	if !define && !bound && id.Name != "_" {
		return nil, t.pkg.errorf(s.Pos(), "assignment to %s, which is not a local variable", id.Name)
	}

	// a log handle
	if define && t.isLoggerExpr(rhs, en) {
		return rest(en.with(id.Name, binding{kind: bOpaque, lean: "logger", depth: en.depth}))
	}

	var (
		n   *Node
		err error
	)

	if isNil(unparen(rhs), en) && !define && bound && old.k == KOpt {
		n = &Node{Op: "onone", K: KOpt, T: old.t}
	} else {
		n, err = t.expr(rhs, en)
	}

	if err != nil {
		// not a value: a name for (a part of) an object the atoms speak about?
		if c, ok := t.canon(rhs, en); define && ok && isPath(c) {
			body, err2 := rest(en.with(id.Name, binding{kind: bAlias, alias: c, depth: en.depth}))
			if err2 != nil {
				return nil, err2
			}

			return Need(t.needs(c), body), nil
		}

		return nil, err
	}

	if !define && id.Name != "_" {
		if n, err = t.coerceT(n, TypeSpec{K: old.k, U: old.u, T: old.t}, s.Pos(), "value assigned to "+id.Name); err != nil {
			return nil, err
		}
	}

	if !define && id.Name != "_" && old.kind != bScalar {
		return nil, t.pkg.errorf(s.Pos(), "assignment to %s, which is not a local variable", id.Name)
	}

	return t.bindLet(id.Name, n, en, define, rest)
}

func (t *tr) ifStmt(s *ast.IfStmt, en *env, rest cont) (*Node, error) {
	inner := en.push()
	after := func(e3 *env) (*Node, error) { return rest(e3.leave(en)) }

	body := func(e1 *env) (*Node, error) {
		c, err := t.expr(s.Cond, e1)
		if err != nil {
			return nil, err
		}

		if c.K != KBool {
			return nil, t.pkg.errorf(s.Cond.Pos(), "condition is not a bool")
		}

		thenN, err := t.stmts(s.Body.List, e1.push(), func(e3 *env) (*Node, error) { return after(e3.leave(e1)) },
			s.Body.End())
		if err != nil {
			return nil, err
		}

		var elseN *Node

		if s.Else == nil {
			elseN, err = after(e1)
		} else {
			elseN, err = t.stmts([]ast.Stmt{s.Else}, e1, after, s.Else.End())
		}

		if err != nil {
			return nil, err
		}

		if c.isTrue() {
			return thenN, nil
		}

		if c.isFalse() {
			return elseN, nil
		}

		return Ite(c, thenN, elseN, false), nil
	}

	if s.Init != nil {
		return t.stmts([]ast.Stmt{s.Init}, inner, body, s.End())
	}

	return body(inner)
}

func (t *tr) switchStmt(s *ast.SwitchStmt, en *env, rest cont) (*Node, error) {
	if s.Init != nil {
		return nil, t.pkg.errorf(s.Pos(), "`switch` with an init statement is not supported")
	}

	if s.Tag != nil {
		// `switch x { case a: … }`: x is a side-effect free expression over the objects, compared with each value
		if c, ok := t.canon(s.Tag, en); !ok || !isPath(c) {
			return nil, t.pkg.errorf(s.Pos(), "`switch %s`: only fields of the known objects can be switched on",
				Text(s.Tag))
		}
	}

	// rewrite into an if / else chain
	var (
		chain   ast.Stmt
		last    *ast.IfStmt
		dflt    *ast.CaseClause
		clauses []*ast.CaseClause
	)

	for _, c := range s.Body.List {
		cc := c.(*ast.CaseClause) //nolint:forcetypeassert
		for _, st := range cc.Body {
			if b, ok := st.(*ast.BranchStmt); ok && b.Tok == token.FALLTHROUGH {
				return nil, t.pkg.errorf(b.Pos(), "%s inside switch is not supported", b.Tok)
			}
		}

		if cc.List == nil {
			dflt = cc
		} else {
			clauses = append(clauses, cc)
		}
	}

	for _, cc := range clauses {
		val := func(v ast.Expr) ast.Expr {
			if s.Tag == nil {
				return v
			}

			return &ast.BinaryExpr{X: s.Tag, Op: token.EQL, Y: v, OpPos: v.Pos()}
		}

		cond := val(cc.List[0])
		for _, o := range cc.List[1:] {
			cond = &ast.BinaryExpr{X: cond, Op: token.LOR, Y: val(o), OpPos: o.Pos()}
		}

		is := &ast.IfStmt{If: cc.Pos(), Cond: cond, Body: &ast.BlockStmt{Lbrace: cc.Colon, List: cc.Body, Rbrace: cc.End()}}
		if last == nil {
			chain = is
		} else {
			last.Else = is
		}

		last = is
	}

	if dflt != nil {
		blk := &ast.BlockStmt{Lbrace: dflt.Colon, List: dflt.Body, Rbrace: dflt.End()}
		if last == nil {
			chain = blk
		} else {
			last.Else = blk
		}
	}

	if chain == nil {
		return rest(en)
	}

	// `break` inside a switch leaves the switch, `continue` still belongs to the loop around it
	inner := en.push()
	inner.brk = func(e2 *env) (*Node, error) {
		e3 := e2.leave(en)
		e3.brk = en.brk

		return rest(e3)
	}

	return t.stmts([]ast.Stmt{chain}, inner, func(e2 *env) (*Node, error) {
		e3 := e2.leave(en)
		e3.brk = en.brk

		return rest(e3)
	}, s.End())
}

// ---------------------------------------------------------------------------------------------------------------
// canonical form of expressions that read objects

func isPath(e ast.Expr) bool {
	switch x := e.(type) {
	case *ast.Ident:
		return true
	case *ast.SelectorExpr:
		return isPath(x.X)
	case *ast.IndexExpr:
		_, lit := x.Index.(*ast.BasicLit)

		return lit && isPath(x.X)
	case *ast.StarExpr:
		return isPath(x.X)
	case *ast.CallExpr: // a getter without arguments
		return len(x.Args) == 0 && isPath(x.Fun)
	}

	return false
}

// canon rewrites an expression into canonical form; ok = false when it mentions a local value (then it is not an
// expression over the objects alone)
func (t *tr) canon(e ast.Expr, en *env) (ast.Expr, bool) {
	switch x := e.(type) {
	case *ast.ParenExpr:
		return t.canon(x.X, en)
	case *ast.BasicLit:
		return &ast.BasicLit{Kind: x.Kind, Value: x.Value}, true
	case *ast.Ident:
		if b, ok := en.m[x.Name]; ok {
			if b.kind == bAlias {
				return b.alias, true
			}

			if b.kind == bOpaque && b.lean == "logger" {
				return ast.NewIdent("logger"), true
			}

			return nil, false
		}

		if p := importPath(en.fr.file, x.Name); p != "" {
			return ast.NewIdent(p[strings.LastIndex(p, "/")+1:]), true
		}

		return ast.NewIdent(x.Name), true
	case *ast.SelectorExpr:
		c, ok := t.canon(x.X, en)
		if !ok {
			return nil, false
		}

		return &ast.SelectorExpr{X: c, Sel: ast.NewIdent(x.Sel.Name)}, true
	case *ast.IndexExpr:
		c, ok := t.canon(x.X, en)
		i, ok2 := t.canon(x.Index, en)

		if !ok || !ok2 {
			return nil, false
		}

		return &ast.IndexExpr{X: c, Index: i}, true
	case *ast.StarExpr:
		c, ok := t.canon(x.X, en)
		if !ok {
			return nil, false
		}

		return &ast.StarExpr{X: c}, true
	case *ast.UnaryExpr:
		c, ok := t.canon(x.X, en)
		if !ok {
			return nil, false
		}

		return &ast.UnaryExpr{Op: x.Op, X: c}, true
	case *ast.BinaryExpr:
		a, ok := t.canon(x.X, en)
		b, ok2 := t.canon(x.Y, en)

		if !ok || !ok2 {
			return nil, false
		}

		return &ast.BinaryExpr{X: a, Op: x.Op, Y: b}, true
	case *ast.CompositeLit:
		if x.Type == nil {
			return nil, false
		}

		c, ok := t.canon(x.Type, en)
		if !ok {
			return nil, false
		}

		if len(x.Elts) != 0 {
			// what a value is built from is not looked at: `T{…}`
			return &ast.CompositeLit{Type: c, Elts: []ast.Expr{ast.NewIdent("…")}}, true
		}

		return &ast.CompositeLit{Type: c}, true
	case *ast.CallExpr:
		f, ok := t.canon(x.Fun, en)
		if !ok || x.Ellipsis.IsValid() {
			return nil, false
		}

		out := &ast.CallExpr{Fun: f}

		for _, a := range x.Args {
			c, ok := t.canon(a, en)
			if !ok {
				return nil, false
			}

			out.Args = append(out.Args, c)
		}

		return out, true
	}

	return nil, false
}

// needs collects the conditions attached to the parts of a canonical expression
func (t *tr) needs(c ast.Expr) *Node {
	r := BLit(true)

	ast.Inspect(c, func(n ast.Node) bool {
		if e, ok := n.(ast.Expr); ok {
			if nd, ok := t.fam.Needs[Text(e)]; ok {
				r = And(r, nd)
			}
		}

		return true
	})

	return r
}

func (t *tr) atomOf(e ast.Expr, en *env) (Atom, ast.Expr, bool) {
	c, ok := t.canon(e, en)
	if !ok {
		return Atom{}, nil, false
	}

	a, ok := t.atoms[Text(c)]

	return a, c, ok
}

// ---------------------------------------------------------------------------------------------------------------
// expressions

func intLit(e ast.Expr) (int64, bool) {
	if p, ok := e.(*ast.ParenExpr); ok {
		return intLit(p.X)
	}

	if b, ok := e.(*ast.BasicLit); ok && b.Kind == token.INT {
		v, err := strconv.ParseInt(strings.ReplaceAll(b.Value, "_", ""), 0, 64)

		return v, err == nil
	}

	return 0, false
}

func isNil(e ast.Expr, en *env) bool {
	id, ok := e.(*ast.Ident)
	if !ok || id.Name != "nil" {
		return false
	}

	_, shadowed := en.m["nil"]

	return !shadowed
}

var timeUnits = map[string]int64{"Second": 1, "Minute": 60, "Hour": 3600}

func (t *tr) expr(e ast.Expr, en *env) (*Node, error) {
	if a, c, ok := t.atomOf(e, en); ok && a.Value != nil {
		return Need(t.needs(c), a.Value), nil
	}

	if t.scan != nil {
		if n, handled, err := t.scanExpr(e, en); handled {
			return n, err
		}
	}

	switch x := e.(type) {
	case *ast.ParenExpr:
		return t.expr(x.X, en)
	case *ast.BasicLit:
		if v, ok := intLit(x); ok {
			return Lit(v, UNum), nil
		}

		if x.Kind == token.CHAR {
			// a byte / rune constant is its number
			if r, _, _, err := strconv.UnquoteChar(strings.Trim(x.Value, "'"), '\''); err == nil {
				return Lit(int64(r), UNum), nil
			}
		}

		return nil, t.pkg.errorf(x.Pos(), "literal %s is not supported (integers only)", x.Value)
	case *ast.Ident:
		return t.ident(x, en)
	case *ast.UnaryExpr:
		n, err := t.expr(x.X, en)
		if err != nil {
			return nil, err
		}

		switch {
		case x.Op == token.NOT && n.K == KBool:
			return Not(n), nil
		case x.Op == token.SUB && n.K == KInt:
			if n.Op == "lit" {
				return Lit(-n.Val, n.U), nil
			}

			return Bin("sub", Lit(0, n.U), n, n.U), nil
		case x.Op == token.ADD && n.K == KInt:
			return n, nil
		}

		return nil, t.pkg.errorf(x.Pos(), "operator %s is not supported here", x.Op)
	case *ast.StarExpr:
		if a, c, ok := t.atomOf(x.X, en); ok && a.Deref != nil {
			return Need(t.needs(c), a.Deref), nil
		}

		return nil, t.pkg.errorf(x.Pos(), "`%s`: the translation does not know what is dereferenced here", Text(x))
	case *ast.BinaryExpr:
		return t.binary(x, en)
	case *ast.CallExpr:
		return t.call(x, en)
	case *ast.TypeAssertExpr:
		// `v.(T)` where the table gives the static type of v and T the same Lean type: the value itself (an assertion
		// that fails is a Go panic the code rules out by construction - forcetypeassert; it is not modelled)
		if x.Type != nil {
			v, err := t.expr(x.X, en)
			if err != nil {
				return nil, err
			}

			if ts, ok := t.goType(x.Type, en.fr.file); ok && ts.same(v.Spec()) {
				return v, nil
			}

			return nil, t.pkg.errorf(x.Pos(), "`%s`: the table does not give both types the same Lean type", Text(x))
		}
	case *ast.IndexExpr:
		// `obj[i]`: an element of a slice the table knows as an object is the uninterpreted function `<obj>[]` of the
		// index (what an index outside the slice does is not modelled: a Go panic)
		if c, ok := t.canon(x.X, en); ok {
			for i := range t.fam.Funcs {
				fa := &t.fam.Funcs[i]
				if fa.Fun != Text(c)+"[]" || len(fa.Res) != 1 {
					continue
				}

				ix, err := t.expr(x.Index, en)
				if err != nil {
					return nil, err
				}

				if ix.K != KInt {
					return nil, t.pkg.errorf(x.Pos(), "`%s`: the index is not an integer", Text(x))
				}

				return &Node{Op: "ucall", Name: fa.Lean, Args: []*Node{ix}, K: fa.Res[0].K, U: fa.Res[0].U, T: fa.Res[0].T}, nil
			}
		}
	case *ast.SelectorExpr:
		if id, ok := x.X.(*ast.Ident); ok {
			if _, local := en.m[id.Name]; !local && importPath(en.fr.file, id.Name) == "time" {
				if v, ok := timeUnits[x.Sel.Name]; ok {
					return Lit(v, UDur), nil
				}

				return nil, t.pkg.errorf(x.Pos(), "time.%s is not a whole number of seconds (durations are modelled in "+
					"whole seconds)", x.Sel.Name)
			}
		}
	}

	if c, ok := t.canon(e, en); ok {
		return nil, t.pkg.errorf(e.Pos(), "`%s` (canonical: `%s`) is not an expression the translation understands",
			Text(e), Text(c))
	}

	return nil, t.pkg.errorf(e.Pos(), "`%s` is not an expression the translation understands", Text(e))
}

func (t *tr) ident(x *ast.Ident, en *env) (*Node, error) {
	if b, ok := en.m[x.Name]; ok {
		switch b.kind {
		case bScalar:
			v := Var(b.lean, b.k, b.u)
			v.T = b.t

			return v, nil
		case bConst:
			return b.node, nil
		case bAlias:
			return nil, t.pkg.errorf(x.Pos(), "`%s` (= `%s`) is used as a value, the translation has no meaning for it",
				x.Name, Text(b.alias))
		default:
			return nil, t.pkg.errorf(x.Pos(), "`%s` (%s) is used as a value, the translation has no meaning for it",
				x.Name, b.lean)
		}
	}

	switch x.Name {
	case "true":
		return BLit(true), nil
	case "false":
		return BLit(false), nil
	}

	val, typ, isVar, file, ok := t.pkg.PkgValue(x.Name)
	if !ok {
		return nil, t.pkg.errorf(x.Pos(), "identifier %s is neither a local variable nor a package level constant",
			x.Name)
	}

	if isVar && t.pkg.Assigned(x.Name) {
		return nil, t.pkg.errorf(x.Pos(), "package level variable %s is assigned to somewhere: not a constant", x.Name)
	}

	key := "const " + x.Name
	for _, s := range t.stack {
		if s == key {
			return nil, t.pkg.errorf(x.Pos(), "constant %s is defined in terms of itself", x.Name)
		}
	}

	t.stack = append(t.stack, key)
	defer func() { t.stack = t.stack[:len(t.stack)-1] }()

	pe := &env{m: map[string]binding{}, names: map[string]bool{}, fr: &frame{file: file}}

	n, err := t.expr(val, pe)
	if err != nil {
		return nil, err
	}

	if typ != nil {
		k0, u0, ok := typeOf(typ, file)
		if !ok {
			return nil, t.pkg.errorf(val.Pos(), "declared type %s of %s is not supported", Text(typ), x.Name)
		}

		if n, err = t.coerce(n, k0, u0, val.Pos(), x.Name); err != nil {
			return nil, err
		}

		n = retag(n, u0)
	} else if isVar {
		n = retag(n, UPlain)
	}

	return n, nil
}

var cmpOps = map[token.Token]string{token.LSS: "lt", token.LEQ: "le", token.GTR: "gt", token.GEQ: "ge", token.EQL: "eq",
	token.NEQ: "ne"}

func (t *tr) binary(x *ast.BinaryExpr, en *env) (*Node, error) {
	// presence tests: <pointer> == nil, <pointer> != nil
	if x.Op == token.EQL || x.Op == token.NEQ {
		var other ast.Expr

		switch {
		case isNil(x.Y, en):
			other = x.X
		case isNil(x.X, en):
			other = x.Y
		}

		if other != nil {
			a, c, ok := t.atomOf(other, en)
			if !ok || a.Present == nil {
				// a local value that may be nil
				v, err := t.expr(other, en)
				if err == nil && v.K == KOpt {
					some := &Node{Op: "osome", K: KBool, Args: []*Node{v}}
					if x.Op == token.EQL {
						return Not(some), nil
					}

					return some, nil
				}

				if err != nil && t.eff {
					return nil, err
				}

				return nil, t.pkg.errorf(x.Pos(), "`%s`: the translation does not know what is compared with nil here",
					Text(x))
			}

			// only what leads to the pointer must be evaluable, not the pointer's target
			var parent *Node = BLit(true)
			if s, ok := c.(*ast.SelectorExpr); ok {
				parent = t.needs(s.X)
			}

			if x.Op == token.EQL {
				return Need(parent, Not(a.Present)), nil
			}

			return Need(parent, a.Present), nil
		}
	}

	// a length of which only "is it positive" is known
	if op, ok := cmpOps[x.Op]; ok {
		for side, pair := range [][2]ast.Expr{{x.X, x.Y}, {x.Y, x.X}} {
			a, c, isAtom := t.atomOf(pair[0], en)
			if !isAtom || a.Len == nil {
				continue
			}

			v, isLit := intLit(pair[1])
			if side == 1 { // literal on the left: mirror
				op = map[string]string{"lt": "gt", "le": "ge", "gt": "lt", "ge": "le", "eq": "eq", "ne": "ne"}[op]
			}

			pos := Need(t.needs(c), a.Len)

			switch {
			case isLit && v == 0 && (op == "gt" || op == "ne"), isLit && v == 1 && op == "ge":
				return pos, nil
			case isLit && v == 0 && (op == "eq" || op == "le"), isLit && v == 1 && op == "lt":
				return Not(pos), nil
			}

			return nil, t.pkg.errorf(x.Pos(), "`%s`: of this length only `> 0` / `== 0` is modelled", Text(x))
		}
	}

	a, err := t.expr(x.X, en)
	if err != nil {
		return nil, err
	}

	b, err := t.expr(x.Y, en)
	if err != nil {
		return nil, err
	}

	fail := func(err error) (*Node, error) { return nil, t.pkg.errorf(x.OpPos, "`%s`: %v", Text(x), err) }

	switch x.Op {
	case token.LAND, token.LOR:
		if a.K != KBool || b.K != KBool {
			return fail(fmt.Errorf("bool operands expected"))
		}

		if x.Op == token.LAND {
			return And(a, b), nil
		}

		return Or(a, b), nil
	case token.ADD, token.SUB:
		u, err := unify(a, b)
		if err != nil {
			return fail(err)
		}

		return Bin(map[token.Token]string{token.ADD: "add", token.SUB: "sub"}[x.Op], retag(a, u), retag(b, u), u), nil
	case token.SHL:
		if a.K != KInt || b.Op != "lit" || b.Val < 0 || b.Val > 30 || (a.U != UPlain && a.U != UNum) {
			return fail(fmt.Errorf("only a plain integer shifted by a constant is supported"))
		}

		return Bin("mul", retag(a, UPlain), Lit(1<<uint(b.Val), UPlain), UPlain), nil
	case token.OR:
		if a.K != KInt || b.K != KInt || a.U == UDur || b.U == UDur {
			return fail(fmt.Errorf("plain integer operands expected"))
		}

		// bitwise or of two integers that are not negative (holds under the guards of the code translated so far)
		return Bin("bor", retag(a, UPlain), retag(b, UPlain), UPlain), nil
	case token.MUL:
		if a.K != KInt || b.K != KInt {
			return fail(fmt.Errorf("integer operands expected"))
		}

		var u Unit

		switch {
		case a.U == URaw && b.U == UDur && b.Op == "lit", b.U == URaw && a.U == UDur && a.Op == "lit":
			u = UDur // time.Duration(n) * time.Second: n seconds
		case a.U == URaw || b.U == URaw:
			return fail(fmt.Errorf("a time.Duration built from a plain number must be scaled by time.Second, " +
				"time.Minute or time.Hour"))
		case a.U == UDur && b.U == UDur:
			return fail(fmt.Errorf("product of two durations"))
		case a.U == UDur || b.U == UDur:
			if a.U == UPlain || b.U == UPlain {
				return fail(fmt.Errorf("a duration is multiplied by a plain integer variable (Go would need a " +
					"conversion here)"))
			}

			u = UDur
		case a.U == UPlain || b.U == UPlain:
			u = UPlain
		default:
			u = UNum
		}

		if a.Op == "lit" && b.Op == "lit" {
			return Lit(a.Val*b.Val, u), nil
		}

		// multiplication by the unit (time.Second = 1) is dropped
		if a.Op == "lit" && a.Val == 1 {
			return retagAny(b, u), nil
		}

		if b.Op == "lit" && b.Val == 1 {
			return retagAny(a, u), nil
		}

		return Bin("mul", a, b, u), nil
	}

	if op, ok := cmpOps[x.Op]; ok {
		if a.K == KBool && b.K == KBool && (op == "eq" || op == "ne") {
			return Cmp("b"+op, a, b), nil
		}

		u, err := unify(a, b)
		if err != nil {
			return fail(err)
		}

		return Cmp(op, retag(a, u), retag(b, u)), nil
	}

	return fail(fmt.Errorf("operator %s is not supported", x.Op))
}

func retagAny(n *Node, u Unit) *Node {
	if n.U == u {
		return n
	}

	c := *n
	c.U = u

	return &c
}

func (t *tr) minmax(name string, x *ast.CallExpr, en *env) (*Node, error) {
	if len(x.Args) < 1 {
		return nil, t.pkg.errorf(x.Pos(), "%s without arguments", name)
	}

	acc, err := t.expr(x.Args[0], en)
	if err != nil {
		return nil, err
	}

	for _, a := range x.Args[1:] {
		n, err := t.expr(a, en)
		if err != nil {
			return nil, err
		}

		u, err := unify(acc, n)
		if err != nil {
			return nil, t.pkg.errorf(x.Pos(), "`%s`: %v", Text(x), err)
		}

		acc = Bin(name, retag(acc, u), retag(n, u), u)
	}

	return acc, nil
}

func (t *tr) call(x *ast.CallExpr, en *env) (*Node, error) {
	fun := x.Fun
	for {
		p, ok := fun.(*ast.ParenExpr)
		if !ok {
			break
		}

		fun = p.X
	}

	if x.Ellipsis.IsValid() {
		return nil, t.pkg.errorf(x.Pos(), "variadic call is not supported")
	}

	if n, is, err := t.funcCall(x, en); err != nil {
		return nil, err
	} else if is {
		if n.Eff || n.K == KTup {
			return nil, t.pkg.errorf(x.Pos(), "`%s` changes the context or has several results: it must stand alone on "+
				"the right-hand side of an assignment, as a statement or as the operand of return", Text(x))
		}

		return n, nil
	}

	switch f := fun.(type) {
	case *ast.Ident:
		if _, local := en.m[f.Name]; local {
			return nil, t.pkg.errorf(x.Pos(), "call of the local value %s is not supported", f.Name)
		}

		switch f.Name {
		case "len":
			if len(x.Args) == 1 {
				if c, ok := t.canon(x.Args[0], en); ok {
					if _, isSlice := t.fam.Slices[Text(c)]; isSlice {
						return &Node{Op: "slen", K: KInt, U: UPlain}, nil
					}
				}
			}
		case "min", "max":
			if _, _, _, _, shadow := t.pkg.PkgValue(f.Name); !shadow {
				if _, _, err := t.pkg.Func("", f.Name); err != nil {
					return t.minmax(f.Name, x, en)
				}
			}
		case "byte", "uint8":
			if len(x.Args) == 1 {
				n, err := t.expr(x.Args[0], en)
				if err != nil {
					return nil, err
				}

				if n.K != KInt || (n.U != UPlain && n.U != UNum) {
					return nil, t.pkg.errorf(x.Pos(), "`%s`: an integer is expected", Text(x))
				}

				// the low eight bits (the operand is not negative in the code translated so far; `%` of Lean agrees
				// with Go's conversion there)
				return Bin("mod", retag(n, UPlain), Lit(256, UPlain), UPlain), nil
			}
		case "int", "int8", "int16", "int32", "int64", "uint", "uint16", "uint32", "uint64":
			if len(x.Args) != 1 {
				return nil, t.pkg.errorf(x.Pos(), "conversion with %d arguments", len(x.Args))
			}

			n, err := t.expr(x.Args[0], en)
			if err != nil {
				return nil, err
			}

			if n.K != KInt || (n.U != UPlain && n.U != UNum) {
				return nil, t.pkg.errorf(x.Pos(), "`%s`: a %s converted to an integer would count nanoseconds "+
					"(durations are modelled in whole seconds)", Text(x), n.U)
			}

			return retag(n, UPlain), nil
		}

		fd, file, err := t.pkg.Func("", f.Name)
		if err != nil {
			return nil, t.pkg.errorf(x.Pos(), "call of %s: %v", f.Name, err)
		}

		if tg, ok := t.emitted["."+f.Name]; ok && tg.Site == "" && tg.Scan == "" && fd.Type.Params != nil {
			// a function that has a definition of its own: a call of it
			k, u, _, err := t.resultType(fd.Type, file, fd.Pos())
			if err != nil {
				return nil, err
			}

			n := &Node{Op: "call", Name: tg.Lean, K: k, U: u}
			i := 0

			for _, fl := range fd.Type.Params.List {
				pts, scalar := t.goType(fl.Type, file)
				if !scalar {
					return nil, t.pkg.errorf(x.Pos(), "parameter type %s of %s", Text(fl.Type), f.Name)
				}

				for range fl.Names {
					if i >= len(x.Args) {
						return nil, t.pkg.errorf(x.Pos(), "call of %s with too few arguments", f.Name)
					}

					a, err := t.exprAs(x.Args[i], pts, en, "argument of "+f.Name)
					if err != nil {
						return nil, err
					}

					n.Args = append(n.Args, a)
					i++
				}
			}

			if i != len(x.Args) {
				return nil, t.pkg.errorf(x.Pos(), "call of %s with too many arguments", f.Name)
			}

			return n, nil
		}

		return t.inline(fd, file, x, en, false)
	case *ast.SelectorExpr:
		if f.Sel.Name == "Seconds" && len(x.Args) == 0 {
			// `d.Seconds()` of a duration: durations are whole seconds, so this is their number (as Go's float64; the
			// only use the translation accepts afterwards is the conversion to an integer)
			if n, err := t.expr(f.X, en); err == nil && n.K == KInt && n.U == UDur {
				return retagAny(n, UPlain), nil
			}
		}

		if (f.Sel.Name == "Add" || f.Sel.Name == "Before" || f.Sel.Name == "After") && len(x.Args) == 1 {
			// instants are Unix seconds (the table says which expressions are instants): `t.Add(d)` = t + d,
			// `a.Before(b)` = a < b, `a.After(b)` = a > b
			if a, err := t.expr(f.X, en); err == nil && a.K == KInt && a.U == UPlain {
				if b, err := t.expr(x.Args[0], en); err == nil && b.K == KInt {
					switch {
					case f.Sel.Name == "Add" && b.U == UDur:
						return Bin("add", a, retagAny(b, UPlain), UPlain), nil
					case f.Sel.Name == "Before" && b.U == UPlain:
						return Cmp("lt", a, b), nil
					case f.Sel.Name == "After" && b.U == UPlain:
						return Cmp("gt", a, b), nil
					}
				}
			}
		}

		if id, ok := f.X.(*ast.Ident); ok {
			if b, local := en.m[id.Name]; local {
				if b.kind == bAlias && Text(b.alias) == "recv" {
					return t.methodCall(f.Sel.Name, x, en)
				}
			} else {
				switch p := importPath(en.fr.file, id.Name); {
				case p == "time" && f.Sel.Name == "Duration":
					if len(x.Args) != 1 {
						return nil, t.pkg.errorf(x.Pos(), "conversion with %d arguments", len(x.Args))
					}

					n, err := t.expr(x.Args[0], en)
					if err != nil {
						return nil, err
					}

					switch {
					case n.K != KInt:
						return nil, t.pkg.errorf(x.Pos(), "`%s`: a number is expected", Text(x))
					case n.U == UDur:
						return n, nil
					case n.IsZeroConst():
						return Lit(0, UDur), nil
					default:
						return retagAny(n, URaw), nil
					}
				case strings.HasSuffix(p, "/internal/x") && (f.Sel.Name == "IfThenElse" || f.Sel.Name == "IfThenElseExec"):
					return t.ifThenElse(f.Sel.Name == "IfThenElseExec", x, en)
				}
			}
		}
	}

	if c, ok := t.canon(x, en); ok {
		return nil, t.pkg.errorf(x.Pos(), "call `%s` (canonical: `%s`) is not understood by the translation", Text(x),
			Text(c))
	}

	return nil, t.pkg.errorf(x.Pos(), "call `%s` is not understood by the translation", Text(x))
}

func (t *tr) ifThenElse(exec bool, x *ast.CallExpr, en *env) (*Node, error) {
	if len(x.Args) != 3 { //nolint:mnd
		return nil, t.pkg.errorf(x.Pos(), "`%s`: three arguments expected", Text(x))
	}

	c, err := t.expr(x.Args[0], en)
	if err != nil {
		return nil, err
	}

	if c.K != KBool {
		return nil, t.pkg.errorf(x.Pos(), "`%s`: the first argument is not a bool", Text(x))
	}

	branch := func(a ast.Expr) (*Node, error) {
		if !exec {
			return t.expr(a, en)
		}

		for {
			p, ok := a.(*ast.ParenExpr)
			if !ok {
				break
			}

			a = p.X
		}

		fl, ok := a.(*ast.FuncLit)
		if !ok {
			return nil, t.pkg.errorf(a.Pos(), "`%s`: a function literal is expected", Text(a))
		}

		if fl.Type.Params != nil && len(fl.Type.Params.List) != 0 {
			return nil, t.pkg.errorf(a.Pos(), "function literal with parameters")
		}

		k, u, rt, err := t.resultType(fl.Type, en.fr.file, fl.Pos())
		if err != nil {
			return nil, err
		}

		inner := &env{m: en.m, names: en.names, depth: en.depth + 1,
			fr: &frame{file: en.fr.file, resK: k, resU: u, resT: rt, ret: t.lastRet}}

		return t.stmts(fl.Body.List, inner, nil, fl.Body.End())
	}

	a, err := branch(x.Args[1])
	if err != nil {
		return nil, err
	}

	b, err := branch(x.Args[2])
	if err != nil {
		return nil, err
	}

	if a.K != b.K {
		return nil, t.pkg.errorf(x.Pos(), "`%s`: the alternatives have different types", Text(x))
	}

	u := a.U

	if a.K == KInt {
		if u, err = unify(a, b); err != nil {
			return nil, t.pkg.errorf(x.Pos(), "`%s`: %v", Text(x), err)
		}

		a, b = retag(a, u), retag(b, u)
	}

	n := Ite(c, a, b, !exec)
	n.U = u

	return n, nil
}

// methodCall: a call of another method of the receiver
func (t *tr) methodCall(name string, x *ast.CallExpr, en *env) (*Node, error) {
	if tg, ok := t.emitted[t.recvType+"."+name]; ok && len(x.Args) == 0 && tg.Site == "" {
		n := &Node{Op: "call", Name: tg.Lean, K: KBool}
		if tg.Result == "Int" {
			fd, file, err := t.pkg.Func(t.recvType, name)
			if err != nil {
				return nil, err
			}

			k, u, _, err := t.resultType(fd.Type, file, fd.Pos())
			if err != nil {
				return nil, err
			}

			n.K, n.U = k, u
		}

		for _, p := range tg.Params {
			for _, fp := range t.fam.Params {
				if fp.Name != p {
					continue
				}

				switch fp.Type {
				case "Bool":
					n.Args = append(n.Args, Var(p, KBool, UNone))
				case "Int":
					n.Args = append(n.Args, Var(p, KInt, UPlain))
				default:
					n.Args = append(n.Args, &Node{Op: "var", Name: p, K: KInt})
				}
			}
		}

		return n, nil
	}

	fd, file, err := t.pkg.Func(t.recvType, name)
	if err != nil {
		return nil, t.pkg.errorf(x.Pos(), "call of method %s: %v", name, err)
	}

	return t.inline(fd, file, x, en, true)
}

// inline translates the body of a called function in place, parameters bound to the arguments
func (t *tr) inline(fd *ast.FuncDecl, file *ast.File, x *ast.CallExpr, en *env, method bool) (*Node, error) {
	name := fd.Name.Name
	if method {
		name = "(*" + t.recvType + ")." + name
	}

	for _, s := range t.stack {
		if s == name {
			return nil, t.pkg.errorf(x.Pos(), "%s is recursive", name)
		}
	}

	if len(t.stack) >= maxInline {
		return nil, t.pkg.errorf(x.Pos(), "calls nested deeper than %d", maxInline)
	}

	if fd.Type.TypeParams != nil {
		return nil, t.pkg.errorf(x.Pos(), "%s is generic", name)
	}

	k, u, rt, err := t.resultType(fd.Type, file, fd.Pos())
	if err != nil {
		return nil, err
	}

	inner := &env{m: map[string]binding{}, names: en.names, depth: en.depth + 1,
		fr: &frame{file: file, resK: k, resU: u, resT: rt, ret: t.lastRet}}
	if method {
		inner = t.bindReceiver(fd, inner)
	}

	type pend struct {
		lean string
		n    *Node
	}

	var (
		lets []pend
		need = BLit(true)
		i    int
	)

	if fd.Type.Params != nil {
		for _, f := range fd.Type.Params.List {
			if _, variadic := f.Type.(*ast.Ellipsis); variadic {
				return nil, t.pkg.errorf(x.Pos(), "%s is variadic", name)
			}

			names := f.Names
			if len(names) == 0 {
				names = []*ast.Ident{ast.NewIdent("_")}
			}

			for _, id := range names {
				if i >= len(x.Args) {
					return nil, t.pkg.errorf(x.Pos(), "call of %s with too few arguments", name)
				}

				arg := x.Args[i]
				i++

				if pts, scalar := t.goType(f.Type, file); scalar {
					n, err := t.exprAs(arg, pts, en, "argument "+id.Name+" of "+name)
					if err != nil {
						return nil, err
					}

					if id.Name == "_" {
						need = And(need, Defined(n))

						continue
					}

					if n.Op == "lit" || n.Op == "blit" || n.Op == "var" {
						inner = inner.with(id.Name, binding{kind: bConst, node: n, k: n.K, u: n.U, depth: inner.depth})

						continue
					}

					lean := t.fresh(id.Name, inner)
					lets = append(lets, pend{lean, n})
					inner = inner.with(id.Name, binding{kind: bScalar, lean: lean, k: n.K, u: n.U, t: n.T, depth: inner.depth})

					continue
				}

				c, ok := t.canon(arg, en)
				if !ok || !isPath(c) {
					return nil, t.pkg.errorf(arg.Pos(), "argument `%s` of %s (type %s) is neither a number nor a part of "+
						"an object the translation knows", Text(arg), name, Text(f.Type))
				}

				need = And(need, t.needs(c))

				if id.Name != "_" {
					inner = inner.with(id.Name, binding{kind: bAlias, alias: c, depth: inner.depth})
				}
			}
		}
	}

	if i != len(x.Args) {
		return nil, t.pkg.errorf(x.Pos(), "call of %s with too many arguments", name)
	}

	t.stack = append(t.stack, name)
	body, err := t.stmts(fd.Body.List, inner.push(), nil, fd.Body.End())
	t.stack = t.stack[:len(t.stack)-1]

	if err != nil {
		return nil, err
	}

	for j := len(lets) - 1; j >= 0; j-- {
		body = Let(lets[j].lean, lets[j].n, body)
	}

	return Need(need, body), nil
}

// ---------------------------------------------------------------------------------------------------------------
// the ttl argument and the guard of a cache write inside a larger function

func (t *tr) callSite(d *Def, fd *ast.FuncDecl, en *env) (*Def, error) {
	method, nargs, what := "Set", 4, "`<cache>.Set(ctx, key, value, ttl)`" //nolint:mnd
	if d.Target.Site == "get" {
		method, nargs, what = "Get", 2, "`<cache>.Get(ctx, key)`" //nolint:mnd
	}

	type site struct {
		call  *ast.CallExpr
		guard *ast.IfStmt
	}

	var (
		sites []site
		ifs   []*ast.IfStmt
		walk  func(n ast.Node)
	)

	walk = func(n ast.Node) {
		ast.Inspect(n, func(m ast.Node) bool {
			switch y := m.(type) {
			case *ast.IfStmt:
				// the condition and the init statement belong to the outside of this `if`
				if y.Init != nil {
					walk(y.Init)
				}

				walk(y.Cond)
				ifs = append(ifs, y)
				walk(y.Body)
				ifs = ifs[:len(ifs)-1]

				if y.Else != nil {
					walk(y.Else)
				}

				return false
			case *ast.CallExpr:
				if s, ok := y.Fun.(*ast.SelectorExpr); ok && s.Sel.Name == method && len(y.Args) == nargs {
					st := site{call: y}
					if len(ifs) > 0 {
						st.guard = ifs[len(ifs)-1]
					}

					sites = append(sites, st)
				}
			}

			return true
		})
	}

	walk(fd.Body)

	if len(sites) != 1 {
		return nil, t.pkg.errorf(fd.Pos(), "expected exactly one call %s inside %s, found %d", what, d.GoName,
			len(sites))
	}

	st := sites[0]
	if st.guard == nil {
		return nil, t.pkg.errorf(st.call.Pos(), "the call %s in %s is not guarded by an `if`", what, d.GoName)
	}

	d.Pos = t.pkg.Pos(st.guard.Pos())
	en.fr.resK, en.fr.resU, en.fr.resT = KBool, UNone, "bool"

	// what the `if` declares in front of its condition (`if ttl := ...; ttl > 0 {`) is visible in the condition and in
	// the ttl argument
	within := func(e ast.Expr) (*Node, error) {
		if st.guard.Init == nil {
			return t.expr(e, en)
		}

		return t.stmts([]ast.Stmt{st.guard.Init}, en.push(), func(e2 *env) (*Node, error) { return t.expr(e, e2) },
			st.guard.End())
	}

	guard, err := within(st.guard.Cond)
	if err != nil {
		return nil, err
	}

	if guard.K != KBool {
		return nil, t.pkg.errorf(st.guard.Pos(), "condition is not a bool")
	}

	d.Body, d.Defined = guard, Defined(guard)

	if d.Target.Site == "get" {
		d.GoName = "condition of the cache read in " + d.GoName

		return d, t.checkUsed(d, guard, d.GoName)
	}

	if err := t.checkUsed(d, guard, "the condition of the cache write in "+d.GoName); err != nil {
		return nil, err
	}

	ttl, err := within(st.call.Args[3])
	if err != nil {
		return nil, err
	}

	if ttl, err = t.coerce(ttl, KInt, UDur, st.call.Args[3].Pos(), "ttl argument of Set"); err != nil {
		return nil, err
	}

	tt := d.Target
	tt.Lean += "TTL"
	tt.Result = "Int"
	ex := &Def{Target: tt, Params: d.Params, Body: ttl, Defined: Defined(ttl), Pos: t.pkg.Pos(st.call.Pos()),
		GoName: "ttl argument of the cache write in " + d.GoName}

	if err := t.checkUsed(ex, ttl, ex.GoName); err != nil {
		return nil, err
	}

	d.GoName = "condition of the cache write in " + d.GoName
	d.Extra = []*Def{ex}

	return d, nil
}
