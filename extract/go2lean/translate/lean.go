package translate

import (
	"fmt"
	"os"
	"strings"
)

// Rendering of the intermediate representation as Lean 4 terms (core Lean only).
//
// Integers are `Int`. A boolean *condition* is rendered as a decidable proposition (`a ∧ b`, `¬ a`, `x ≤ y`,
// `p.isSome`), a boolean *value* (result of a Bool function, a let-bound bool) as `decide (...)`.

const (
	precLow = iota
	precOr
	precAnd
	precNot
	precCmp
	precAdd
	precMul
	precApp
	precAtom
)

func paren(s string, mine, ctx int) string {
	if mine < ctx {
		return "(" + s + ")"
	}

	return s
}

func intLitLean(v int64) string {
	if v < 0 {
		return fmt.Sprintf("(%d)", v)
	}

	return fmt.Sprintf("%d", v)
}

var binSym = map[string]string{"add": "+", "sub": "-", "mul": "*", "lt": "<", "le": "≤", "gt": ">", "ge": "≥", "eq": "=",
	"ne": "≠"}

// term renders an integer term or a boolean value
func term(n *Node, ctx int) string {
	if n.K == KBool {
		switch n.Op {
		case "var":
			return n.Name
		case "blit":
			if n.Val != 0 {
				return "true"
			}

			return "false"
		case "some":
			return n.Name + ".isSome"
		case "call":
			return paren(callText(n), precApp, ctx)
		case "let":
			return "(let " + n.Name + " := " + term(n.Args[0], precLow) + "; " + term(n.Args[1], precLow) + ")"
		case "need":
			return term(n.Args[1], ctx)
		case "scontains":
			return paren(fmt.Sprintf("%s.contains %d", n.Name, n.Val), precApp, ctx)
		case "ucall":
			return paren(ucallText(n), precApp, ctx)
		case "osome":
			return paren(term(n.Args[0], precAtom)+".isSome", precApp, ctx)
		case "oany":
			return paren(term(n.Args[0], precAtom)+".any "+n.Name, precApp, ctx)
		}

		return paren("decide ("+prop(n, precLow)+")", precApp, ctx)
	}

	switch n.Op {
	case "onone":
		return "none"
	case "owrap":
		return paren("some "+term(n.Args[0], precAtom), precApp, ctx)
	case "ucall":
		if len(n.Args) == 0 {
			return n.Name
		}

		return paren(ucallText(n), precApp, ctx)
	case "tuple":
		parts := make([]string, len(n.Args))
		for i, a := range n.Args {
			parts[i] = term(a, precLow)
		}

		return "(" + strings.Join(parts, ", ") + ")"
	case "slen":
		return "n"
	}

	switch n.Op {
	case "lit":
		return intLitLean(n.Val)
	case "var":
		return n.Name
	case "get":
		return paren(n.Name+".getD 0", precApp, ctx)
	case "add", "sub":
		return paren(term(n.Args[0], precAdd)+" "+binSym[n.Op]+" "+term(n.Args[1], precAdd+1), precAdd, ctx)
	case "mul":
		return paren(term(n.Args[0], precMul)+" * "+term(n.Args[1], precMul+1), precMul, ctx)
	case "mod":
		return paren(term(n.Args[0], precMul)+" % "+term(n.Args[1], precMul+1), precMul, ctx)
	case "bor":
		return "(((" + term(n.Args[0], precLow) + ").toNat ||| (" + term(n.Args[1], precLow) + ").toNat : Nat) : Int)"
	case "lget":
		if n.Val == 0 {
			return "c"
		}

		return paren(fmt.Sprintf("rest.getD %d 0", n.Val-1), precApp, ctx)
	case "llen":
		return "(rest.length : Int)"
	case "slen0":
		return "(" + n.Name + ".length : Int)"
	case "emit":
		return paren(term(n.Args[0], precAdd+1)+" :: "+term(n.Args[1], precAdd), precAdd, ctx)
	case "emitend":
		return "[]"
	case "scancall":
		l := "rest"
		if n.Val == 0 {
			l = "__all__"
		} else if n.Val > 1 {
			l = fmt.Sprintf("(rest.drop %d)", n.Val-1)
		}

		return paren(n.Name+" "+term(n.Args[0], precAtom)+" "+l, precApp, ctx)
	case "min", "max":
		return paren(n.Op+" "+term(n.Args[0], precAtom)+" "+term(n.Args[1], precAtom), precApp, ctx)
	case "ite":
		if effRender {
			return "(bif " + bterm(n.Args[0], 0) + " then " + term(n.Args[1], precLow) + " else " +
				term(n.Args[2], precLow) + ")"
		}

		return "(if " + prop(n.Args[0], precLow) + " then " + term(n.Args[1], precLow) + " else " +
			term(n.Args[2], precLow) + ")"
	case "let":
		return "(let " + n.Name + " := " + term(n.Args[0], precLow) + "; " + term(n.Args[1], precLow) + ")"
	case "call":
		return paren(callText(n), precApp, ctx)
	case "need":
		return term(n.Args[1], ctx)
	}

	panic(fmt.Sprintf("go2lean: cannot render %s (%d args)", n.Op, len(n.Args)))
}

func ucallText(n *Node) string {
	s := n.Name
	for _, a := range n.Args {
		s += " " + term(a, precAtom)
	}

	return s
}

func callText(n *Node) string {
	s := n.Name
	for _, a := range n.Args {
		if a.Op == "var" {
			s += " " + a.Name
		} else {
			s += " " + term(a, precAtom)
		}
	}

	return s
}

// prop renders a boolean expression as a proposition
func prop(n *Node, ctx int) string {
	switch n.Op {
	case "blit":
		if n.Val != 0 {
			return "True"
		}

		return "False"
	case "var":
		return n.Name
	case "some":
		return n.Name + ".isSome"
	case "call":
		return paren(callText(n), precApp, ctx)
	case "scontains":
		return paren(fmt.Sprintf("%s.contains %d", n.Name, n.Val), precApp, ctx)
	case "ucall":
		return paren(ucallText(n), precApp, ctx)
	case "osome":
		return paren(term(n.Args[0], precAtom)+".isSome", precApp, ctx)
	case "oany":
		return paren(term(n.Args[0], precAtom)+".any "+n.Name, precApp, ctx)
	case "not":
		if n.Args[0].Op == "some" {
			return n.Args[0].Name + ".isNone"
		}

		if n.Args[0].Op == "osome" {
			return paren(term(n.Args[0].Args[0], precAtom)+".isNone", precApp, ctx)
		}

		return paren("¬ "+prop(n.Args[0], precNot+1), precNot, ctx)
	case "and":
		return paren(prop(n.Args[0], precAnd+1)+" ∧ "+prop(n.Args[1], precAnd), precAnd, ctx)
	case "or":
		return paren(prop(n.Args[0], precOr+1)+" ∨ "+prop(n.Args[1], precOr), precOr, ctx)
	case "lt", "le", "gt", "ge", "eq", "ne":
		return paren(term(n.Args[0], precAdd)+" "+binSym[n.Op]+" "+term(n.Args[1], precAdd), precCmp, ctx)
	case "beq", "bne":
		s := map[string]string{"beq": "=", "bne": "≠"}[n.Op]

		return paren(term(n.Args[0], precApp)+" "+s+" "+term(n.Args[1], precApp), precCmp, ctx)
	case "ite":
		return "(if " + prop(n.Args[0], precLow) + " then " + prop(n.Args[1], precLow) + " else " +
			prop(n.Args[2], precLow) + ")"
	case "let":
		return "(let " + n.Name + " := " + term(n.Args[0], precLow) + "; " + prop(n.Args[1], precLow) + ")"
	case "need":
		return prop(n.Args[1], ctx)
	}

	panic("go2lean: cannot render " + n.Op + " as a proposition")
}

func simple(n *Node) bool {
	switch n.Op {
	case "let", "emit":
		return false
	case "ite":
		return false
	case "need":
		return simple(n.Args[1])
	}

	return true
}

// body renders a function body statement-like: one `let` / `if` per line, early returns as `if c then v else`
func body(n *Node, ind string, leaf func(*Node) string, sb *strings.Builder) {
	switch n.Op {
	case "emit":
		sb.WriteString(ind + term(n.Args[0], precAdd+1) + " ::\n")
		body(n.Args[1], ind, leaf, sb)
	case "need":
		body(n.Args[1], ind, leaf, sb)
	case "let":
		sb.WriteString(ind + "let " + n.Name + " := " + term(n.Args[0], precLow) + "\n")
		body(n.Args[1], ind, leaf, sb)
	case "ite":
		c := prop(n.Args[0], precLow)

		switch {
		case simple(n.Args[1]):
			sb.WriteString(ind + "if " + c + " then " + leaf(n.Args[1]) + " else\n")
			body(n.Args[2], ind, leaf, sb)
		case simple(n.Args[2]):
			sb.WriteString(ind + "if " + prop(Not(n.Args[0]), precLow) + " then " + leaf(n.Args[2]) + " else\n")
			body(n.Args[1], ind, leaf, sb)
		default:
			sb.WriteString(ind + "if " + c + " then\n")
			body(n.Args[1], ind+"  ", leaf, sb)
			sb.WriteString(ind + "else\n")
			body(n.Args[2], ind+"  ", leaf, sb)
		}
	default:
		sb.WriteString(ind + leaf(n) + "\n")
	}
}

func signature(d *Def, name, result string) string {
	s := "def " + name
	for _, p := range d.Params {
		s += " (" + p.Name + " : " + p.Type + ")"
	}

	return s + " : " + result + " :=\n"
}

// Lean renders a definition and its companion `<name>_defined`.
func (d *Def) Lean() string {
	var sb strings.Builder

	if d.Target.Scan != "" {
		return d.leanScan()
	}

	sb.WriteString("/-- `" + d.GoName + "`, " + d.Pos + " -/\n")
	sb.WriteString(signature(d, d.Target.Lean, d.Target.Result))
	body(d.Body, "  ", func(n *Node) string { return term(n, precLow) }, &sb)

	sb.WriteString("\n/-- evaluating `" + d.GoName + "` on these inputs dereferences no nil pointer and reads no absent " +
		"value -/\n")
	sb.WriteString(signature(d, d.Target.Lean+"_defined", "Bool"))
	body(d.Defined, "  ", conjuncts, &sb)

	for _, e := range d.Extra {
		sb.WriteString("\n" + e.Lean())
	}

	return sb.String()
}

// conjuncts renders a conjunction with one conjunct per line
func conjuncts(n *Node) string {
	if n.Op != "and" {
		return term(n, precLow)
	}

	var parts []string

	for n.Op == "and" {
		parts = append(parts, prop(n.Args[0], precAnd+1))
		n = n.Args[1]
	}

	parts = append(parts, prop(n, precAnd))

	return "decide (\n      " + strings.Join(parts, " ∧\n      ") + ")"
}

// ---------------------------------------------------------------------------------------------------------------
// definitions with effects

// effRender: a definition with effects is being rendered (conditions are `Bool`, `if` is `bif`)
var effRender bool

const (
	bprecOr  = 30
	bprecAnd = 35
	bprecNot = 100
)

// bterm renders a boolean expression as a `Bool` term (`&&`, `||`, `!`, `decide (a < b)`): the conditions of
// definitions with effects are `bif … then … else` on Bool, which carries no `Decidable` instance that rewriting
// could leave behind
func bterm(n *Node, ctx int) string {
	par := func(s string, mine int) string {
		if mine < ctx {
			return "(" + s + ")"
		}

		return s
	}

	switch n.Op {
	case "blit":
		if n.Val != 0 {
			return "true"
		}

		return "false"
	case "var":
		return n.Name
	case "not":
		if n.Args[0].Op == "osome" {
			return par(term(n.Args[0].Args[0], precAtom)+".isNone", bprecNot)
		}

		return par("!"+bterm(n.Args[0], bprecNot), bprecNot)
	case "and":
		return par(bterm(n.Args[0], bprecAnd+1)+" && "+bterm(n.Args[1], bprecAnd), bprecAnd)
	case "or":
		return par(bterm(n.Args[0], bprecOr+1)+" || "+bterm(n.Args[1], bprecOr), bprecOr)
	case "lt", "le", "gt", "ge", "eq", "ne", "beq", "bne":
		return par("decide ("+prop(n, precLow)+")", bprecNot)
	case "need":
		return bterm(n.Args[1], ctx)
	}

	return par(term(n, precApp), bprecNot)
}

func simpleEff(n *Node) bool {
	switch n.Op {
	case "let", "ite", "bind", "need":
		return false
	}

	return true
}

func (d *Def) leafEff(n *Node) string {
	if os.Getenv("GO2LEAN_DEBUG") != "" {
		fmt.Fprintf(os.Stderr, "leafEff %s %s\n", n.Op, n.Name)
		for _, a := range n.Args {
			fmt.Fprintf(os.Stderr, "   arg %s %s\n", a.Op, a.Name)
		}
	}

	switch n.Op {
	case "ret":
		return "Go.pure " + term(n.Args[0], precAtom)
	case "gopanic":
		return "Go.panic " + n.Name
	case "loopcall":
		s := n.Loop.Name + d.fixedArgs(n.Loop)
		for _, a := range n.Args {
			s += " " + term(a, precAtom)
		}

		return s
	}

	return term(n, precLow)
}

func (d *Def) bodyEff(n *Node, ind string, sb *strings.Builder) {
	switch n.Op {
	case "need":
		sb.WriteString(ind + "bif " + bterm(Not(n.Args[0]), 0) + " then Go.panic " + d.Fam.NilPanic + " else\n")
		d.bodyEff(n.Args[1], ind, sb)
	case "let":
		ty := ""
		if v := n.Args[0]; v.K == KOpt || v.K == KOpq {
			ty = " : " + v.Spec().Lean()
		}

		val := term(n.Args[0], precLow)
		if n.Args[0].K == KBool {
			val = bterm(n.Args[0], 0)
		}

		sb.WriteString(ind + "let " + n.Name + ty + " := " + val + "\n")
		d.bodyEff(n.Args[1], ind, sb)
	case "bind":
		pat := n.Names[0]
		if len(n.Names) > 1 {
			pat = "(" + strings.Join(n.Names, ", ") + ")"
		}

		if n.Eff {
			sb.WriteString(ind + "Go.bind " + term(n.Args[0], precAtom) + " fun " + pat + " =>\n")
		} else {
			sb.WriteString(ind + "let " + pat + " := " + term(n.Args[0], precLow) + "\n")
		}

		d.bodyEff(n.Args[1], ind, sb)
	case "ite":
		c := bterm(n.Args[0], 0)

		short := func(x *Node) bool { return simpleEff(x) && len(d.leafEff(x)) <= 40 }

		switch {
		case short(n.Args[1]):
			sb.WriteString(ind + "bif " + c + " then " + d.leafEff(n.Args[1]) + " else\n")
			d.bodyEff(n.Args[2], ind, sb)
		case short(n.Args[2]) && !simpleEff(n.Args[1]):
			sb.WriteString(ind + "bif " + bterm(Not(n.Args[0]), 0) + " then " + d.leafEff(n.Args[2]) + " else\n")
			d.bodyEff(n.Args[1], ind, sb)
		default:
			sb.WriteString(ind + "bif " + c + " then\n")
			d.bodyEff(n.Args[1], ind+"  ", sb)
			sb.WriteString(ind + "else\n")
			d.bodyEff(n.Args[2], ind+"  ", sb)
		}
	default:
		sb.WriteString(ind + d.leafEff(n) + "\n")
	}
}

func (d *Def) listParams() map[string]bool {
	out := map[string]bool{}
	for _, sp := range d.Fam.Slices {
		out[sp.List] = true
	}

	return out
}

// fixedArgs: what a loop function receives unchanged in every call
func (d *Def) fixedArgs(l *LoopDef) string {
	lists := d.listParams()
	s := ""

	for _, p := range d.Params {
		if !lists[p.Name] {
			s += " " + p.Name
		}
	}

	s += " n"

	for _, e := range l.Extra {
		s += " " + e.Name
	}

	return s
}

func (d *Def) typeVars() string {
	if len(d.Fam.TypeVars) == 0 {
		return ""
	}

	return " {" + strings.Join(d.Fam.TypeVars, " ") + " : Type}"
}

// LeanEff renders a function with effects: its loops (structurally recursive over the list), then the function.
func (d *Def) LeanEff() string {
	var sb strings.Builder

	effRender = true
	defer func() { effRender = false }()

	lists := d.listParams()

	for _, l := range d.Loops {
		sb.WriteString("/-- a `for … range` loop of `" + d.GoName + "`: `[]` = the slice is exhausted (the code after the loop), " +
			"`" + l.Elem + " :: " + l.Rest + "` = the loop body on the next element -/\n")
		sb.WriteString("def " + l.Name + d.typeVars())

		for _, p := range d.Params {
			if !lists[p.Name] {
				sb.WriteString(" (" + p.Name + " : " + p.Type + ")")
			}
		}

		sb.WriteString(" (n : Int)")

		for _, e := range l.Extra {
			sb.WriteString(" (" + e.Name + " : " + e.Type.Lean() + ")")
		}

		sb.WriteString(" :\n    ")

		var pats []string

		if l.Idx != "" {
			sb.WriteString("Int → ")
			pats = append(pats, l.Idx)
		}

		sb.WriteString("List " + l.ElemT + " → ")

		var carried []string
		for _, c := range l.Carried {
			sb.WriteString(c.Type.Lean() + " → ")
			carried = append(carried, c.Name)
		}

		sb.WriteString(d.ResType + "\n")

		head := func(list string) string {
			return "  | " + strings.Join(append(append(append([]string{}, pats...), list), carried...), ", ") + " =>\n"
		}

		sb.WriteString(head("[]"))
		d.bodyEff(l.Nil, "    ", &sb)
		sb.WriteString(head(l.Elem + " :: " + l.Rest))
		d.bodyEff(l.Cons, "    ", &sb)
		sb.WriteString("\n")
	}

	sb.WriteString("/-- `" + d.GoName + "`, " + d.Pos + " -/\n")
	sb.WriteString("def " + d.Target.Lean + d.typeVars())

	for _, p := range d.Params {
		sb.WriteString(" (" + p.Name + " : " + p.Type + ")")
	}

	sb.WriteString(" :\n    " + d.ResType + " :=\n")

	for _, sp := range d.Fam.Slices {
		if len(d.Loops) > 0 {
			sb.WriteString("  let n : Int := " + sp.List + ".length\n")
		}
	}

	d.bodyEff(d.Body, "  ", &sb)

	return sb.String()
}

// leanScan renders a scan function: its index loop as a function of the index and the remaining suffix, then the
// function itself
func (d *Def) leanScan() string {
	var sb strings.Builder

	leaf := func(n *Node) string { return term(n, precLow) }

	for _, sc := range d.Scans {
		sb.WriteString("/-- the index loop of `" + d.GoName + "` at index `" + sc.Idx + "` with the bytes `c :: rest` still to come: the " +
			"bytes written from here on -/\n")
		sb.WriteString("def " + sc.Name + " : Int → List Int → List Int\n")
		sb.WriteString("  | " + sc.Idx + ", [] =>\n")
		body(sc.Nil, "    ", leaf, &sb)
		sb.WriteString("  | " + sc.Idx + ", c :: rest =>\n")
		body(sc.Cons, "    ", leaf, &sb)
		sb.WriteString("termination_by _ l => l.length\ndecreasing_by all_goals simp_wf <;> omega\n\n")
	}

	sb.WriteString("/-- `" + d.GoName + "`, " + d.Pos + " -/\n")
	sb.WriteString("def " + d.Target.Lean + " (" + d.Target.Scan + " : List Int) : List Int :=\n")

	var b strings.Builder
	body(d.Body, "  ", leaf, &b)
	sb.WriteString(strings.ReplaceAll(b.String(), "__all__", d.Target.Scan))

	return sb.String()
}
