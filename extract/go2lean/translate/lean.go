package translate

import (
	"fmt"
	"strings"
)

// Rendering of the intermediate representation as Lean 4 terms (core Lean only).
//
// Integers are `Int`. A boolean *condition* is rendered as a decidable proposition (`a ∧ b`, `¬ a`, `x ≤ y`,
// `p.isSome`), a boolean *value* (result of a Bool function, a let-bound bool) as `decide (...)`.

const (
	precLow = iota
	precOr
	precAnd
	precNot
	precCmp
	precAdd
	precMul
	precApp
	precAtom
)

func paren(s string, mine, ctx int) string {
	if mine < ctx {
		return "(" + s + ")"
	}

	return s
}

func intLitLean(v int64) string {
	if v < 0 {
		return fmt.Sprintf("(%d)", v)
	}

	return fmt.Sprintf("%d", v)
}

var binSym = map[string]string{"add": "+", "sub": "-", "mul": "*", "lt": "<", "le": "≤", "gt": ">", "ge": "≥", "eq": "=",
	"ne": "≠"}

// term renders an integer term or a boolean value
func term(n *Node, ctx int) string {
	if n.K == KBool {
		switch n.Op {
		case "var":
			return n.Name
		case "blit":
			if n.Val != 0 {
				return "true"
			}

			return "false"
		case "some":
			return n.Name + ".isSome"
		case "call":
			return paren(callText(n), precApp, ctx)
		case "let":
			return "(let " + n.Name + " := " + term(n.Args[0], precLow) + "; " + term(n.Args[1], precLow) + ")"
		case "need":
			return term(n.Args[1], ctx)
		}

		return paren("decide ("+prop(n, precLow)+")", precApp, ctx)
	}

	switch n.Op {
	case "lit":
		return intLitLean(n.Val)
	case "var":
		return n.Name
	case "get":
		return paren(n.Name+".getD 0", precApp, ctx)
	case "add", "sub":
		return paren(term(n.Args[0], precAdd)+" "+binSym[n.Op]+" "+term(n.Args[1], precAdd+1), precAdd, ctx)
	case "mul":
		return paren(term(n.Args[0], precMul)+" * "+term(n.Args[1], precMul+1), precMul, ctx)
	case "min", "max":
		return paren(n.Op+" "+term(n.Args[0], precAtom)+" "+term(n.Args[1], precAtom), precApp, ctx)
	case "ite":
		return "(if " + prop(n.Args[0], precLow) + " then " + term(n.Args[1], precLow) + " else " +
			term(n.Args[2], precLow) + ")"
	case "let":
		return "(let " + n.Name + " := " + term(n.Args[0], precLow) + "; " + term(n.Args[1], precLow) + ")"
	case "call":
		return paren(callText(n), precApp, ctx)
	case "need":
		return term(n.Args[1], ctx)
	}

	panic("go2lean: cannot render " + n.Op)
}

func callText(n *Node) string {
	s := n.Name
	for _, a := range n.Args {
		s += " " + a.Name
	}

	return s
}

// prop renders a boolean expression as a proposition
func prop(n *Node, ctx int) string {
	switch n.Op {
	case "blit":
		if n.Val != 0 {
			return "True"
		}

		return "False"
	case "var":
		return n.Name
	case "some":
		return n.Name + ".isSome"
	case "call":
		return paren(callText(n), precApp, ctx)
	case "not":
		if n.Args[0].Op == "some" {
			return n.Args[0].Name + ".isNone"
		}

		return paren("¬ "+prop(n.Args[0], precNot+1), precNot, ctx)
	case "and":
		return paren(prop(n.Args[0], precAnd+1)+" ∧ "+prop(n.Args[1], precAnd), precAnd, ctx)
	case "or":
		return paren(prop(n.Args[0], precOr+1)+" ∨ "+prop(n.Args[1], precOr), precOr, ctx)
	case "lt", "le", "gt", "ge", "eq", "ne":
		return paren(term(n.Args[0], precAdd)+" "+binSym[n.Op]+" "+term(n.Args[1], precAdd), precCmp, ctx)
	case "beq", "bne":
		s := map[string]string{"beq": "=", "bne": "≠"}[n.Op]

		return paren(term(n.Args[0], precApp)+" "+s+" "+term(n.Args[1], precApp), precCmp, ctx)
	case "ite":
		return "(if " + prop(n.Args[0], precLow) + " then " + prop(n.Args[1], precLow) + " else " +
			prop(n.Args[2], precLow) + ")"
	case "let":
		return "(let " + n.Name + " := " + term(n.Args[0], precLow) + "; " + prop(n.Args[1], precLow) + ")"
	case "need":
		return prop(n.Args[1], ctx)
	}

	panic("go2lean: cannot render " + n.Op + " as a proposition")
}

func simple(n *Node) bool {
	switch n.Op {
	case "let":
		return false
	case "ite":
		return false
	case "need":
		return simple(n.Args[1])
	}

	return true
}

// body renders a function body statement-like: one `let` / `if` per line, early returns as `if c then v else`
func body(n *Node, ind string, leaf func(*Node) string, sb *strings.Builder) {
	switch n.Op {
	case "need":
		body(n.Args[1], ind, leaf, sb)
	case "let":
		sb.WriteString(ind + "let " + n.Name + " := " + term(n.Args[0], precLow) + "\n")
		body(n.Args[1], ind, leaf, sb)
	case "ite":
		c := prop(n.Args[0], precLow)

		switch {
		case simple(n.Args[1]):
			sb.WriteString(ind + "if " + c + " then " + leaf(n.Args[1]) + " else\n")
			body(n.Args[2], ind, leaf, sb)
		case simple(n.Args[2]):
			sb.WriteString(ind + "if " + prop(Not(n.Args[0]), precLow) + " then " + leaf(n.Args[2]) + " else\n")
			body(n.Args[1], ind, leaf, sb)
		default:
			sb.WriteString(ind + "if " + c + " then\n")
			body(n.Args[1], ind+"  ", leaf, sb)
			sb.WriteString(ind + "else\n")
			body(n.Args[2], ind+"  ", leaf, sb)
		}
	default:
		sb.WriteString(ind + leaf(n) + "\n")
	}
}

func signature(d *Def, name, result string) string {
	s := "def " + name
	for _, p := range d.Params {
		s += " (" + p.Name + " : " + p.Type + ")"
	}

	return s + " : " + result + " :=\n"
}

// Lean renders a definition and its companion `<name>_defined`.
func (d *Def) Lean() string {
	var sb strings.Builder

	sb.WriteString("/-- `" + d.GoName + "`, " + d.Pos + " -/\n")
	sb.WriteString(signature(d, d.Target.Lean, d.Target.Result))
	body(d.Body, "  ", func(n *Node) string { return term(n, precLow) }, &sb)

	sb.WriteString("\n/-- evaluating `" + d.GoName + "` on these inputs dereferences no nil pointer and reads no absent " +
		"value -/\n")
	sb.WriteString(signature(d, d.Target.Lean+"_defined", "Bool"))
	body(d.Defined, "  ", conjuncts, &sb)

	for _, e := range d.Extra {
		sb.WriteString("\n" + e.Lean())
	}

	return sb.String()
}

// conjuncts renders a conjunction with one conjunct per line
func conjuncts(n *Node) string {
	if n.Op != "and" {
		return term(n, precLow)
	}

	var parts []string

	for n.Op == "and" {
		parts = append(parts, prop(n.Args[0], precAnd+1))
		n = n.Args[1]
	}

	parts = append(parts, prop(n, precAnd))

	return "decide (\n      " + strings.Join(parts, " ∧\n      ") + ")"
}
