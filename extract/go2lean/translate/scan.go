package translate

import (
	"go/ast"
	"go/token"
	"strconv"
	"strings"
)

// Scan functions: a function from a string to a string that makes one pass over its argument with an index loop
//
//	for i := 0; i < len(s); i++ { … s[i] … s[i+2] … i+2 < len(s) … out.WriteByte(x) … i += 2; continue … }
//
// (or the while spelling `i := 0; for i < len(s) { …; i++ }`) and returns what it wrote to one accumulator
// (`strings.Builder` / `bytes.Buffer`: WriteByte, or `[]byte`: append). The string is a `List Int` (one element per
// byte). The loop becomes a function of the index and the REMAINING SUFFIX `c :: rest` (`s[i+k]` = element k of the
// suffix, `len(s)` = `i + length of the suffix`) that returns the bytes written from there on: `WriteByte(x)` is
// `x :: …`, `continue` / the end of the body is the call on the suffix without the bytes the body has moved over,
// the end of the string / `break` ends the output. Termination: the suffix gets shorter. Reads beyond the end of the
// string are not modelled (they yield 0, Go would panic). Anything else fails closed.

type scanInfo struct {
	strGo string // Go name of the string parameter
	list  string // Lean name of the list that stands for it
	acc   string // Go name of the accumulator ("" until it is declared)
	loops int
}

// ScanDef is the loop of a scan function.
type ScanDef struct {
	Name string
	Idx  string // Lean name of the index
	Nil  *Node
	Cons *Node
}

const listInt = "List Int"

func (t *tr) scanTarget(d *Def, fd *ast.FuncDecl, en *env) (*Def, error) {
	if fd.Type.Params == nil || len(fd.Type.Params.List) != 1 || len(fd.Type.Params.List[0].Names) != 1 ||
		Text(fd.Type.Params.List[0].Type) != "string" || fd.Type.Results == nil || len(fd.Type.Results.List) != 1 ||
		Text(fd.Type.Results.List[0].Type) != "string" {
		return nil, t.pkg.errorf(fd.Pos(), "%s is not a function from one string to a string", d.GoName)
	}

	name := fd.Type.Params.List[0].Names[0].Name
	t.scan = &scanInfo{strGo: name, list: d.Target.Scan}
	en = en.with(name, binding{kind: bString, lean: d.Target.Scan})
	en.fr.ret = TypeSpec{K: KOpq, T: listInt}
	en.fr.resK, en.fr.resT = KOpq, "string"

	body, err := t.stmts(fd.Body.List, en.push(), nil, fd.Body.End())
	if err != nil {
		return nil, err
	}

	d.Body, d.Defined, d.Scans = body, BLit(true), t.scans
	t.scan = nil

	return d, nil
}

func (t *tr) isStr(e ast.Expr, en *env) bool {
	id, ok := unparen(e).(*ast.Ident)
	if !ok {
		return false
	}

	b, bound := en.m[id.Name]

	return bound && b.kind == bString
}

func (t *tr) isAcc(e ast.Expr, en *env) bool {
	id, ok := unparen(e).(*ast.Ident)
	if !ok {
		return false
	}

	b, bound := en.m[id.Name]

	return bound && b.kind == bAcc
}

func accType(e ast.Expr) bool {
	if e == nil {
		return false
	}

	switch Text(e) {
	case "strings.Builder", "bytes.Buffer", "[]byte":
		return true
	}

	return false
}

func (t *tr) emit(x ast.Expr, en *env, rest cont) (*Node, error) {
	v, err := t.expr(x, en)
	if err != nil {
		return nil, err
	}

	if v.K != KInt {
		return nil, t.pkg.errorf(x.Pos(), "`%s` is not a byte", Text(x))
	}

	body, err := rest(en)
	if err != nil {
		return nil, err
	}

	return &Node{Op: "emit", K: KOpq, T: listInt, Args: []*Node{v, body}}, nil
}

// scanStmt: the statements that are special in a scan function
func (t *tr) scanStmt(st ast.Stmt, en *env, rest cont) (*Node, bool, error) {
	fail := func(pos token.Pos, format string, args ...any) (*Node, bool, error) {
		return nil, true, t.pkg.errorf(pos, format, args...)
	}

	switch s := st.(type) {
	case *ast.DeclStmt:
		gd, ok := s.Decl.(*ast.GenDecl)
		if !ok || gd.Tok != token.VAR || len(gd.Specs) != 1 {
			return nil, false, nil
		}

		vs := gd.Specs[0].(*ast.ValueSpec) //nolint:forcetypeassert
		if len(vs.Names) == 1 && len(vs.Values) == 0 && accType(vs.Type) {
			if t.scan.acc != "" {
				return fail(s.Pos(), "a second accumulator")
			}

			t.scan.acc = vs.Names[0].Name
			n, err := rest(en.with(vs.Names[0].Name, binding{kind: bAcc, depth: en.depth}))

			return n, true, err
		}
	case *ast.AssignStmt:
		if len(s.Lhs) != 1 || len(s.Rhs) != 1 {
			return nil, false, nil
		}

		id, isIdent := s.Lhs[0].(*ast.Ident)
		call, isCall := unparen(s.Rhs[0]).(*ast.CallExpr)

		if !isIdent || !isCall {
			return nil, false, nil
		}

		fn, _ := call.Fun.(*ast.Ident)

		// out := make([]byte, 0, n)
		if s.Tok == token.DEFINE && fn != nil && fn.Name == "make" && len(call.Args) >= 2 && Text(call.Args[0]) == "[]byte" {
			if v, isLit := intLit(call.Args[1]); !isLit || v != 0 || t.scan.acc != "" {
				return fail(s.Pos(), "`%s`: only an empty accumulator is supported", Text(s))
			}

			t.scan.acc = id.Name
			n, err := rest(en.with(id.Name, binding{kind: bAcc, depth: en.depth}))

			return n, true, err
		}

		// out = append(out, x)
		if s.Tok == token.ASSIGN && fn != nil && fn.Name == "append" && t.isAcc(id, en) {
			if len(call.Args) != 2 || !t.isAcc(call.Args[0], en) || call.Ellipsis.IsValid() {
				return fail(s.Pos(), "`%s`: only `out = append(out, b)` is supported", Text(s))
			}

			n, err := t.emit(call.Args[1], en, rest)

			return n, true, err
		}
	case *ast.ExprStmt:
		call, ok := s.X.(*ast.CallExpr)
		if !ok {
			return nil, false, nil
		}

		sel, ok := call.Fun.(*ast.SelectorExpr)
		if !ok || !t.isAcc(sel.X, en) {
			return nil, false, nil
		}

		switch sel.Sel.Name {
		case "Grow", "Reset":
			n, err := rest(en)

			return n, true, err
		case "WriteByte":
			if len(call.Args) == 1 {
				n, err := t.emit(call.Args[0], en, rest)

				return n, true, err
			}
		}

		return fail(s.Pos(), "`%s`: only WriteByte / Grow are supported on the accumulator", Text(s.X))
	case *ast.ReturnStmt:
		if len(s.Results) != 1 || en.fr.ret.T != listInt {
			return nil, false, nil
		}

		r := unparen(s.Results[0])
		if t.isStr(r, en) && en.scanIdx == "" && t.scan.loops == 0 {
			return &Node{Op: "var", Name: t.scan.list, K: KOpq, T: listInt}, true, nil
		}

		if call, ok := r.(*ast.CallExpr); ok {
			if sel, ok := call.Fun.(*ast.SelectorExpr); ok && sel.Sel.Name == "String" && len(call.Args) == 0 &&
				t.isAcc(sel.X, en) {
				return &Node{Op: "emitend", K: KOpq, T: listInt}, true, nil
			}

			if fn, ok := call.Fun.(*ast.Ident); ok && fn.Name == "string" && len(call.Args) == 1 && t.isAcc(call.Args[0], en) {
				return &Node{Op: "emitend", K: KOpq, T: listInt}, true, nil
			}
		}

		return fail(s.Pos(), "`%s`: a scan function returns its argument (before the loop) or what it has written",
			Text(s))
	case *ast.ForStmt:
		n, err := t.scanLoop(s, en, rest)

		return n, true, err
	}

	return nil, false, nil
}

// lenCmp: `i < len(s)` / `len(s) > i`
func (t *tr) isIndexBelowLen(e ast.Expr, idx string, en *env) bool {
	b, ok := unparen(e).(*ast.BinaryExpr)
	if !ok {
		return false
	}

	isLen := func(x ast.Expr) bool {
		c, ok := unparen(x).(*ast.CallExpr)
		if !ok || len(c.Args) != 1 {
			return false
		}

		f, ok := c.Fun.(*ast.Ident)

		return ok && f.Name == "len" && t.isStr(c.Args[0], en)
	}

	isIdx := func(x ast.Expr) bool {
		id, ok := unparen(x).(*ast.Ident)

		return ok && id.Name == idx
	}

	return (b.Op == token.LSS && isIdx(b.X) && isLen(b.Y)) || (b.Op == token.GTR && isLen(b.X) && isIdx(b.Y))
}

func (t *tr) scanLoop(s *ast.ForStmt, en *env, rest cont) (*Node, error) {
	if en.scanIdx != "" || t.scan.loops > 0 || len(t.stack) > 1 {
		return nil, t.pkg.errorf(s.Pos(), "only one index loop over the string is supported")
	}

	t.scan.loops++

	var (
		idx  string
		post int
	)

	switch {
	case s.Init != nil:
		as, ok := s.Init.(*ast.AssignStmt)
		if !ok || as.Tok != token.DEFINE || len(as.Lhs) != 1 || len(as.Rhs) != 1 {
			return nil, t.pkg.errorf(s.Pos(), "the loop must start with `i := 0`")
		}

		if v, isLit := intLit(as.Rhs[0]); !isLit || v != 0 {
			return nil, t.pkg.errorf(s.Pos(), "the loop must start with `i := 0`")
		}

		idx = as.Lhs[0].(*ast.Ident).Name //nolint:forcetypeassert
	case s.Cond != nil:
		// while spelling: the index is a variable that still holds its initial 0
		if b, ok := unparen(s.Cond).(*ast.BinaryExpr); ok {
			for _, side := range []ast.Expr{b.X, b.Y} {
				if id, ok := unparen(side).(*ast.Ident); ok {
					if bd, bound := en.m[id.Name]; bound && bd.kind == bScalar && bd.lit0 {
						idx = id.Name
					}
				}
			}
		}
	}

	if idx == "" || s.Cond == nil || !t.isIndexBelowLen(s.Cond, idx, en) {
		return nil, t.pkg.errorf(s.Pos(), "only `for i := 0; i < len(s); i++` and `i := 0; for i < len(s)` are supported")
	}

	if s.Post != nil {
		inc, ok := s.Post.(*ast.IncDecStmt)
		if id, isId := func() (*ast.Ident, bool) {
			if !ok {
				return nil, false
			}

			id, is := inc.X.(*ast.Ident)

			return id, is
		}(); !ok || !isId || inc.Tok != token.INC || id.Name != idx {
			return nil, t.pkg.errorf(s.Post.Pos(), "the post statement of the loop must be `%s++`", idx)
		}

		post = 1
	}

	sd := &ScanDef{Name: t.defName + "_loop"}
	inner := en.push()
	sd.Idx = t.fresh(idx, inner)
	inner = inner.with(idx, binding{kind: bScalar, lean: sd.Idx, k: KInt, u: UPlain, depth: inner.depth})
	inner = inner.withName("c").withName("rest")
	inner.scanIdx, inner.scanOff = idx, 0

	after := func(e2 *env) (*Node, error) {
		e3 := e2.leave(en)
		e3.scanIdx, e3.scanOff, e3.brk, e3.cnt = "", 0, en.brk, en.cnt

		return rest(e3)
	}

	var err error
	if sd.Nil, err = after(en); err != nil {
		return nil, err
	}

	next := func(e2 *env) (*Node, error) {
		drop := e2.scanOff + post
		if drop <= 0 {
			return nil, t.pkg.errorf(s.Pos(), "an iteration that does not advance the index")
		}

		cur, err := t.ident(ast.NewIdent(idx), e2)
		if err != nil {
			return nil, err
		}

		if post == 1 {
			cur = Bin("add", cur, Lit(1, UPlain), UPlain)
		}

		return &Node{Op: "scancall", Name: sd.Name, Val: int64(drop), K: KOpq, T: listInt, Args: []*Node{cur}}, nil
	}

	inner.brk, inner.cnt = after, next

	if sd.Cons, err = t.stmts(s.Body.List, inner.push(), next, s.Body.End()); err != nil {
		return nil, err
	}

	t.scans = append(t.scans, sd)

	return &Node{Op: "scancall", Name: sd.Name, Val: 0, K: KOpq, T: listInt, Args: []*Node{Lit(0, UPlain)}}, nil
}

// scanAdvance: by how much an assignment to the index advances it (`i += 2`, `i = i + 2`, `i++`)
func (t *tr) scanAdvance(s *ast.AssignStmt) (int, error) {
	idx := s.Lhs[0].(*ast.Ident).Name //nolint:forcetypeassert
	rhs := unparen(s.Rhs[0])

	if s.Tok == token.ADD_ASSIGN {
		if v, ok := intLit(rhs); ok && v > 0 {
			return int(v), nil
		}
	}

	if b, ok := rhs.(*ast.BinaryExpr); ok && s.Tok == token.ASSIGN && b.Op == token.ADD {
		for _, p := range [][2]ast.Expr{{b.X, b.Y}, {b.Y, b.X}} {
			if id, isId := unparen(p[0]).(*ast.Ident); isId && id.Name == idx {
				if v, isLit := intLit(p[1]); isLit && v > 0 {
					return int(v), nil
				}
			}
		}
	}

	return 0, t.pkg.errorf(s.Pos(), "`%s`: the index may only be advanced by a positive constant", Text(s))
}

// scanExpr: expressions that are special in a scan function
func (t *tr) scanExpr(e ast.Expr, en *env) (*Node, bool, error) {
	switch x := unparen(e).(type) {
	case *ast.IndexExpr:
		if !t.isStr(x.X, en) {
			return nil, false, nil
		}

		if en.scanIdx == "" {
			return nil, true, t.pkg.errorf(x.Pos(), "`%s` outside of the index loop", Text(x))
		}

		k := -1
		ix := unparen(x.Index)

		if id, ok := ix.(*ast.Ident); ok && id.Name == en.scanIdx {
			k = 0
		} else if b, ok := ix.(*ast.BinaryExpr); ok && b.Op == token.ADD {
			for _, p := range [][2]ast.Expr{{b.X, b.Y}, {b.Y, b.X}} {
				if id, isId := unparen(p[0]).(*ast.Ident); isId && id.Name == en.scanIdx {
					if v, isLit := intLit(p[1]); isLit && v >= 0 {
						k = int(v)
					}
				}
			}
		}

		if k < 0 {
			return nil, true, t.pkg.errorf(x.Pos(), "`%s`: only `s[i]` and `s[i+k]` with a constant k are supported", Text(x))
		}

		return &Node{Op: "lget", K: KInt, U: UPlain, Val: int64(en.scanOff + k)}, true, nil
	case *ast.CallExpr:
		if f, ok := x.Fun.(*ast.Ident); ok && f.Name == "len" && len(x.Args) == 1 && t.isStr(x.Args[0], en) {
			if en.scanIdx == "" {
				return &Node{Op: "slen0", K: KInt, U: UPlain, Name: t.scan.list}, true, nil
			}

			// len(s) = (current value of the index) - (what the body has advanced it by) + length of the suffix
			cur, err := t.ident(ast.NewIdent(en.scanIdx), en)
			if err != nil {
				return nil, true, err
			}

			l := Bin("add", &Node{Op: "llen", K: KInt, U: UPlain}, Lit(1, UPlain), UPlain)

			if en.scanOff != 0 {
				cur = Bin("sub", cur, Lit(int64(en.scanOff), UPlain), UPlain)
			}

			return Bin("add", cur, l, UPlain), true, nil
		}

		if sel, ok := x.Fun.(*ast.SelectorExpr); ok && Text(sel) == "strings.Contains" && len(x.Args) == 2 &&
			t.isStr(x.Args[0], en) && en.scanIdx == "" {
			if lit, isLit := x.Args[1].(*ast.BasicLit); isLit && lit.Kind == token.STRING {
				if v, err := strconv.Unquote(lit.Value); err == nil && len(v) == 1 {
					return &Node{Op: "scontains", K: KBool, Name: t.scan.list, Val: int64(v[0])}, true, nil
				}
			}

			return nil, true, t.pkg.errorf(x.Pos(), "`%s`: only a one-byte literal can be searched for", Text(x))
		}

		if sel, ok := x.Fun.(*ast.SelectorExpr); ok && strings.HasPrefix(Text(sel), "strings.") && len(x.Args) > 0 &&
			t.isStr(x.Args[0], en) {
			return nil, true, t.pkg.errorf(x.Pos(), "`%s` is not supported in a scan function", Text(x))
		}
	}

	return nil, false, nil
}
