package translate

import "fmt"

// Val is a value of the intermediate representation: an integer, a bool, or (for parameters of type `Option Int`)
// an optional integer.
type Val struct {
	I       int64
	B       bool
	Present bool // optional parameters only
}

func IntVal(v int64) Val  { return Val{I: v, Present: true} }
func BoolVal(b bool) Val  { return Val{B: b, Present: true} }
func NoneVal() Val        { return Val{} }
func SomeVal(v int64) Val { return Val{I: v, Present: true} }

// Eval evaluates a translated expression on concrete parameter values (used to probe a translated function, e.g. for
// the constant it subtracts; the theorems in Lean are what ties the result to all inputs). defs: the definitions a
// `call` node may refer to, by Lean name, with their parameter names.
func Eval(n *Node, env map[string]Val, defs map[string]*Def) (Val, error) {
	arg := func(i int) (Val, error) { return Eval(n.Args[i], env, defs) }

	switch n.Op {
	case "lit":
		return IntVal(n.Val), nil
	case "blit":
		return BoolVal(n.Val != 0), nil
	case "var":
		v, ok := env[n.Name]
		if !ok {
			return Val{}, fmt.Errorf("unbound variable %s", n.Name)
		}

		return v, nil
	case "some":
		return BoolVal(env[n.Name].Present), nil
	case "get":
		if !env[n.Name].Present {
			return IntVal(0), nil
		}

		return IntVal(env[n.Name].I), nil
	case "need":
		return arg(1)
	case "not":
		a, err := arg(0)

		return BoolVal(!a.B), err
	case "and", "or":
		a, err := arg(0)
		if err != nil {
			return Val{}, err
		}

		if a.B == (n.Op == "or") {
			return a, nil
		}

		return arg(1)
	case "ite":
		c, err := arg(0)
		if err != nil {
			return Val{}, err
		}

		if c.B {
			return arg(1)
		}

		return arg(2)
	case "let":
		v, err := arg(0)
		if err != nil {
			return Val{}, err
		}

		inner := make(map[string]Val, len(env)+1)
		for k, x := range env {
			inner[k] = x
		}

		inner[n.Name] = v

		return Eval(n.Args[1], inner, defs)
	case "call":
		d, ok := defs[n.Name]
		if !ok {
			return Val{}, fmt.Errorf("unknown definition %s", n.Name)
		}

		inner := map[string]Val{}
		for _, p := range d.Params {
			inner[p.Name] = env[p.Name]
		}

		return Eval(d.Body, inner, defs)
	}

	if len(n.Args) != 2 { //nolint:mnd
		return Val{}, fmt.Errorf("cannot evaluate %s", n.Op)
	}

	a, err := arg(0)
	if err != nil {
		return Val{}, err
	}

	b, err := arg(1)
	if err != nil {
		return Val{}, err
	}

	switch n.Op {
	case "add":
		return IntVal(a.I + b.I), nil
	case "sub":
		return IntVal(a.I - b.I), nil
	case "mul":
		return IntVal(a.I * b.I), nil
	case "min":
		return IntVal(min(a.I, b.I)), nil
	case "max":
		return IntVal(max(a.I, b.I)), nil
	case "lt":
		return BoolVal(a.I < b.I), nil
	case "le":
		return BoolVal(a.I <= b.I), nil
	case "gt":
		return BoolVal(a.I > b.I), nil
	case "ge":
		return BoolVal(a.I >= b.I), nil
	case "eq":
		return BoolVal(a.I == b.I), nil
	case "ne":
		return BoolVal(a.I != b.I), nil
	case "beq":
		return BoolVal(a.B == b.B), nil
	case "bne":
		return BoolVal(a.B != b.B), nil
	}

	return Val{}, fmt.Errorf("cannot evaluate %s", n.Op)
}
