package translate

import (
	"go/ast"
	"go/token"
	"sort"
	"strings"
)

// Control-flow kernels over opaque values (families with Effectful set).
//
// The functions translated here call methods of values the translation does not look into (the elements of the slice a
// composite ranges over, the condition and the wrapped handler of a conditional handler). Such a call becomes an
// *uninterpreted function*: a parameter of the generated definition (FuncAtom). A call that may change the request
// context or panic (Effect) runs in the monad `Go.M Ctx PV` (context state + panic, `Base/GoRun.lean`): it must stand
// alone on the right-hand side of an assignment, in the init statement of an `if`, as a statement, or as the operand of
// `return`; everything else (flags, `errors.Is`) is a pure function.
//
// `for i, x := range <slice>` becomes a structurally recursive function over the list (LoopDef); the variables that
// are declared before the loop and assigned inside travel as arguments.

// FuncAtom: a Go call that stands for an uninterpreted function.
type FuncAtom struct {
	// Fun is the canonical callee: `errors.Is`, `recv.c.CanExecuteOnSubject` (a path over the objects), or
	// `<T>.Method` — a method of a local value of the opaque Lean type T (the value becomes the first argument)
	Fun string
	// Args, one per Go argument: `$` = a value that is handed to the Lean function, `*` = anything (not looked at, not
	// handed on), anything else = the canonical text the argument must have (`ctx`, `heimdall.ErrArgument`); such an
	// argument is not handed on
	Args []string
	Lean string     // name of the parameter that stands for the function
	Res  []TypeSpec // result type(s)
	// Effect: the call reads / changes the context or may panic
	Effect bool
	// NilFalse: the `$` argument may be nil and the result is false then (errors.Is): rendered `e.any f`
	NilFalse bool
}

// SliceSpec: a slice the functions of the family range over.
type SliceSpec struct {
	Elem TypeSpec // type of the elements
	List string   // parameter (of type `List <Elem>`) that stands for the whole slice
}

func (t *tr) goType(e ast.Expr, file *ast.File) (TypeSpec, bool) {
	if ts, ok := t.fam.GoTypes[Text(e)]; ok {
		return ts, true
	}

	k, u, ok := typeOf(e, file)

	return TypeSpec{K: k, U: u}, ok
}

func zeroOf(ts TypeSpec) (*Node, bool) {
	switch ts.K {
	case KBool:
		return BLit(false), true
	case KInt:
		return Lit(0, ts.U), true
	case KOpt:
		return &Node{Op: "onone", K: KOpt, T: ts.T}, true
	}

	return nil, false
}

// exprAs translates an expression that stands where a value of type ts is expected (`nil` gets its type from there)
func (t *tr) exprAs(e ast.Expr, ts TypeSpec, en *env, what string) (*Node, error) {
	for {
		p, ok := e.(*ast.ParenExpr)
		if !ok {
			break
		}

		e = p.X
	}

	if isNil(e, en) {
		if ts.K != KOpt {
			return nil, t.pkg.errorf(e.Pos(), "%s: nil where a %s is expected", what, ts.Lean())
		}

		return &Node{Op: "onone", K: KOpt, T: ts.T}, nil
	}

	n, err := t.expr(e, en)
	if err != nil {
		return nil, err
	}

	return t.coerceT(n, ts, e.Pos(), what)
}

func (t *tr) coerceT(n *Node, ts TypeSpec, pos token.Pos, what string) (*Node, error) {
	switch {
	case ts.K == KInt || ts.K == KBool:
		if n.K != KInt && n.K != KBool {
			return nil, t.pkg.errorf(pos, "%s: %s expected, found a value of type %s", what, ts.Lean(), n.Spec().Lean())
		}

		m, err := t.coerce(n, ts.K, ts.U, pos, what)
		if err != nil {
			return nil, err
		}

		return retag(m, ts.U), nil
	case n.K == ts.K && n.T == ts.T:
		return n, nil
	case ts.K == KOpt && n.K == KOpq && n.T == ts.T:
		return &Node{Op: "owrap", K: KOpt, T: ts.T, Args: []*Node{n}}, nil
	}

	return nil, t.pkg.errorf(pos, "%s: a value of type %s is expected, found %s", what, ts.Lean(), n.Spec().Lean())
}

// ---------------------------------------------------------------------------------------------------------------
// uninterpreted functions

// funcCall recognises a call that stands for an uninterpreted function; ok = false: not such a call
func (t *tr) funcCall(x *ast.CallExpr, en *env) (*Node, bool, error) {
	if len(t.fam.Funcs) == 0 {
		return nil, false, nil
	}

	sel, isSel := x.Fun.(*ast.SelectorExpr)

	var (
		fun  string
		recv *Node
	)

	if c, ok := t.canon(x.Fun, en); ok {
		fun = Text(c)
	} else if isSel {
		if id, ok := sel.X.(*ast.Ident); ok {
			if b, bound := en.m[id.Name]; bound && b.kind == bScalar && b.k == KOpq {
				fun = b.t + "." + sel.Sel.Name
				recv = &Node{Op: "var", Name: b.lean, K: KOpq, T: b.t}
			} else if bound && b.kind == bConst && b.node != nil && b.node.K == KOpq {
				fun = b.node.T + "." + sel.Sel.Name
				recv = b.node
			}
		}
	}

	if fun == "" {
		return nil, false, nil
	}

	var last error

	for i := range t.fam.Funcs {
		fa := &t.fam.Funcs[i]
		if fa.Fun != fun || len(fa.Args) != len(x.Args) {
			continue
		}

		n := &Node{Op: "ucall", Name: fa.Lean, Eff: fa.Effect}
		if recv != nil {
			n.Args = append(n.Args, recv)
		}

		ok := true

		for j, want := range fa.Args {
			if want == "*" {
				continue // whatever is written there (a message text)
			}

			if want != "$" {
				c, isCanon := t.canon(x.Args[j], en)
				if !isCanon || Text(c) != want {
					ok = false

					break
				}

				continue
			}

			a, err := t.expr(x.Args[j], en)
			if err != nil {
				last = err
				ok = false

				break
			}

			n.Args = append(n.Args, a)
		}

		if !ok {
			continue
		}

		if fa.NilFalse {
			if len(n.Args) != 1 || n.Args[0].K != KOpt {
				return nil, true, t.pkg.errorf(x.Pos(), "`%s`: the argument is not a value that may be nil", Text(x))
			}

			return &Node{Op: "oany", Name: fa.Lean, K: KBool, Args: n.Args}, true, nil
		}

		if len(fa.Res) == 1 {
			n.K, n.U, n.T = fa.Res[0].K, fa.Res[0].U, fa.Res[0].T
		} else {
			n.K, n.Comp = KTup, fa.Res
		}

		return n, true, nil
	}

	if last != nil {
		return nil, true, last
	}

	return nil, false, nil
}

func unparen(e ast.Expr) ast.Expr {
	for {
		p, ok := e.(*ast.ParenExpr)
		if !ok {
			return e
		}

		e = p.X
	}
}

// stmtCall: the right-hand side of an assignment / a statement / a return operand that is a call of an uninterpreted
// function with an effect or with several results
func (t *tr) stmtCall(e ast.Expr, en *env) (*Node, bool, error) {
	x, ok := unparen(e).(*ast.CallExpr)
	if !ok {
		return nil, false, nil
	}

	n, is, err := t.funcCall(x, en)
	if err != nil || !is {
		return nil, false, err
	}

	if n.Op != "ucall" || (!n.Eff && n.K != KTup) {
		return nil, false, nil
	}

	return n, true, nil
}

func (n *Node) results() []TypeSpec {
	if n.K == KTup {
		return n.Comp
	}

	return []TypeSpec{n.Spec()}
}

// bindResults binds the results of such a call to the variables on the left-hand side
func (t *tr) bindResults(lhs []ast.Expr, define bool, call *Node, pos token.Pos, en *env, rest cont) (*Node, error) {
	res := call.results()
	if len(lhs) != len(res) {
		return nil, t.pkg.errorf(pos, "%d variables for the %d results of %s", len(lhs), len(res), call.Name)
	}

	names := make([]string, len(lhs))
	e2 := en

	for i, l := range lhs {
		id, ok := l.(*ast.Ident)
		if !ok {
			return nil, t.pkg.errorf(pos, "assignment to `%s` is not supported (local variables only)", Text(l))
		}

		if id.Name == "_" {
			names[i] = "_"

			continue
		}

		old, bound := en.m[id.Name]
		if define && (!bound || old.depth < en.depth) {
			b := binding{kind: bScalar, k: res[i].K, u: res[i].U, t: res[i].T, depth: en.depth, lean: t.fresh(id.Name, e2)}
			if b.k == KInt && b.u == UNum {
				b.u = UPlain
			}

			names[i] = b.lean
			e2 = e2.with(id.Name, b)

			continue
		}

		if !bound || old.kind != bScalar {
			return nil, t.pkg.errorf(pos, "assignment to %s, which is not a local variable", id.Name)
		}

		if old.k != res[i].K || old.t != res[i].T {
			return nil, t.pkg.errorf(pos, "%s has type %s, the result assigned to it %s", id.Name,
				TypeSpec{K: old.k, T: old.t}.Lean(), res[i].Lean())
		}

		names[i] = old.lean
		e2 = e2.with(id.Name, old)
	}

	body, err := rest(e2)
	if err != nil {
		return nil, err
	}

	return &Node{Op: "bind", Names: names, Eff: call.Eff, K: body.K, U: body.U, T: body.T, Args: []*Node{call, body}}, nil
}

// sideCall: a statement that is dropped — a call of the allow-list (Family.SideCalls) whose result is not used and which
// does not take part in what the function returns. What its arguments dereference still has to be there.
func (t *tr) sideCall(s *ast.ExprStmt, en *env) (*Node, bool) {
	x, ok := s.X.(*ast.CallExpr)
	if !ok {
		return nil, false
	}

	c, ok := t.canon(x.Fun, en)
	if !ok {
		return nil, false
	}

	listed := false

	for _, sc := range t.fam.SideCalls {
		listed = listed || sc == Text(c)
	}

	if !listed {
		return nil, false
	}

	need := BLit(true)

	for _, a := range x.Args {
		ast.Inspect(a, func(n ast.Node) bool {
			if sel, ok := n.(*ast.SelectorExpr); ok {
				if id, ok := sel.X.(*ast.Ident); ok {
					if b, bound := en.m[id.Name]; bound && b.kind == bScalar && b.k == KOpt {
						v := &Node{Op: "var", Name: b.lean, K: KOpt, T: b.t}
						need = And(need, &Node{Op: "osome", K: KBool, Args: []*Node{v}})
					}
				}
			}

			return true
		})
	}

	return need, true
}

// returnEff: `return` in a function with effects
func (t *tr) returnEff(s *ast.ReturnStmt, en *env) (*Node, error) {
	res := en.fr.res

	if en.fr.void {
		if len(s.Results) != 0 {
			return nil, t.pkg.errorf(s.Pos(), "return with a value in a function without results")
		}

		return unitRet(), nil
	}

	if len(s.Results) == 1 {
		call, is, err := t.stmtCall(s.Results[0], en)
		if err != nil {
			return nil, err
		}

		if is {
			got := call.results()
			if len(got) != len(res) {
				return nil, t.pkg.errorf(s.Pos(), "the call returns %d values, the function %d", len(got), len(res))
			}

			for i := range got {
				if !got[i].same(res[i]) {
					return nil, t.pkg.errorf(s.Pos(), "result %d of the call has type %s, the function returns %s", i+1,
						got[i].Lean(), res[i].Lean())
				}
			}

			if call.Eff {
				return call, nil
			}

			return &Node{Op: "ret", Args: []*Node{call}}, nil
		}
	}

	if len(s.Results) != len(res) {
		return nil, t.pkg.errorf(s.Pos(), "return with %d values expected", len(res))
	}

	vals := make([]*Node, len(res))

	type hoisted struct {
		name string
		call *Node
	}

	var (
		hs []hoisted
		e2 = en
	)

	for i, r := range s.Results {
		// `return nil, r.eh.Execute(ctx, err)`: the call runs first, its result is returned
		if call, is, err := t.stmtCall(r, e2); err != nil {
			return nil, err
		} else if is {
			if call.K == KTup || !call.Spec().same(res[i]) {
				return nil, t.pkg.errorf(r.Pos(), "result %d: the call does not return a %s", i+1, res[i].Lean())
			}

			name := t.fresh("r", e2)
			e2 = e2.withName(name)
			hs = append(hs, hoisted{name, call})
			vals[i] = &Node{Op: "var", Name: name, K: res[i].K, U: res[i].U, T: res[i].T}

			continue
		}

		v, err := t.exprAs(r, res[i], e2, "returned value")
		if err != nil {
			return nil, err
		}

		vals[i] = v
	}

	v := vals[0]
	if len(vals) > 1 {
		v = &Node{Op: "tuple", K: KTup, Comp: res, Args: vals}
	}

	out := &Node{Op: "ret", Args: []*Node{v}}

	for i := len(hs) - 1; i >= 0; i-- {
		out = &Node{Op: "bind", Names: []string{hs[i].name}, Eff: hs[i].call.Eff, Args: []*Node{hs[i].call, out}}
	}

	return out, nil
}

// mutation: a statement that only changes an object of Family.MutablePaths (an assignment to one of its fields or
// elements, a `range` loop over one of its parts that consists of such assignments)
func (t *tr) mutation(st ast.Stmt, en *env) bool {
	if len(t.fam.MutablePaths) == 0 {
		return false
	}

	mutable := func(e ast.Expr) bool {
		for {
			ix, ok := e.(*ast.IndexExpr)
			if !ok {
				break
			}

			e = ix.X
		}

		if _, isIdent := e.(*ast.Ident); isIdent {
			if b, bound := en.m[e.(*ast.Ident).Name]; !bound || b.kind != bAlias { //nolint:forcetypeassert
				return false
			}
		}

		c, ok := t.canon(e, en)
		if !ok {
			return false
		}

		text := Text(c)
		for _, p := range t.fam.MutablePaths {
			if text == p || strings.HasPrefix(text, p+".") || strings.HasPrefix(text, p+"[") {
				return true
			}
		}

		return false
	}

	switch s := st.(type) {
	case *ast.AssignStmt:
		if s.Tok != token.ASSIGN || len(s.Lhs) != 1 {
			return false
		}

		_, isIdent := s.Lhs[0].(*ast.Ident)

		return !isIdent && mutable(s.Lhs[0])
	case *ast.RangeStmt:
		if !mutable(s.X) {
			return false
		}

		// the loop variables are not known to the translation: nothing but assignments to the object may use them
		inner := en.push()

		for _, st2 := range s.Body.List {
			if !t.mutation(st2, inner) {
				return false
			}
		}

		return true
	}

	return false
}

// ---------------------------------------------------------------------------------------------------------------
// loops

func assignedIn(body *ast.BlockStmt) []string {
	seen := map[string]bool{}

	var out []string

	add := func(e ast.Expr) {
		if id, ok := e.(*ast.Ident); ok && id.Name != "_" && !seen[id.Name] {
			seen[id.Name] = true
			out = append(out, id.Name)
		}
	}

	ast.Inspect(body, func(n ast.Node) bool {
		switch x := n.(type) {
		case *ast.AssignStmt:
			for _, l := range x.Lhs {
				add(l)
			}
		case *ast.IncDecStmt:
			add(x.X)
		case *ast.FuncLit:
			return false
		}

		return true
	})

	return out
}

func mentionsAny(n *Node, names map[string]bool, out map[string]bool) {
	if n == nil {
		return
	}

	if n.Op == "var" && names[n.Name] {
		out[n.Name] = true
	}

	for _, a := range n.Args {
		mentionsAny(a, names, out)
	}
}

func (t *tr) rangeStmt(s *ast.RangeStmt, en *env, rest cont) (*Node, error) {
	if !t.eff {
		return nil, t.pkg.errorf(s.Pos(), "loops are not supported in this family")
	}

	if len(t.stack) > 1 {
		return nil, t.pkg.errorf(s.Pos(), "a loop inside a function that is translated in place is not supported")
	}

	c, ok := t.canon(s.X, en)
	if !ok {
		return nil, t.pkg.errorf(s.Pos(), "`range %s`: only slices the table knows can be ranged over", Text(s.X))
	}

	spec, ok := t.fam.Slices[Text(c)]
	if !ok {
		return nil, t.pkg.errorf(s.Pos(), "`range %s` (canonical: `%s`): only slices the table knows can be ranged over",
			Text(s.X), Text(c))
	}

	if s.Tok != token.DEFINE && (s.Key != nil || s.Value != nil) {
		return nil, t.pkg.errorf(s.Pos(), "`range` must declare its variables with :=")
	}

	ident := func(e ast.Expr) (string, error) {
		if e == nil {
			return "_", nil
		}

		id, ok := e.(*ast.Ident)
		if !ok {
			return "", t.pkg.errorf(e.Pos(), "`%s` as loop variable is not supported", Text(e))
		}

		return id.Name, nil
	}

	keyName, err := ident(s.Key)
	if err != nil {
		return nil, err
	}

	valName, err := ident(s.Value)
	if err != nil {
		return nil, err
	}

	ld := &LoopDef{ElemT: spec.Elem.T}
	ld.Name = t.fresh(t.defName+"_loop", en)
	t.reserved[ld.Name] = true

	// variables declared before the loop and assigned in it travel as arguments
	outer := map[string]bool{}
	carried := map[string]bool{}

	for _, name := range assignedIn(s.Body) {
		if b, bound := en.m[name]; bound && b.kind == bScalar && !carried[b.lean] {
			carried[b.lean] = true
			ld.Carried = append(ld.Carried, LoopVar{b.lean, TypeSpec{K: b.k, U: b.u, T: b.t}})
		}
	}

	byLean := map[string]TypeSpec{}

	for _, b := range en.m {
		if b.kind == bScalar && !carried[b.lean] && !t.paramNames[b.lean] {
			outer[b.lean] = true
			byLean[b.lean] = TypeSpec{K: b.k, U: b.u, T: b.t}
		}
	}

	call := func(idx *Node, list string) *Node {
		n := &Node{Op: "loopcall", Loop: ld}
		if ld.Idx != "" {
			n.Args = append(n.Args, idx)
		}

		n.Args = append(n.Args, &Node{Op: "var", Name: list, K: KOpq, T: "List " + ld.ElemT})

		for _, cv := range ld.Carried {
			n.Args = append(n.Args, &Node{Op: "var", Name: cv.Name, K: cv.Type.K, U: cv.Type.U, T: cv.Type.T})
		}

		return n
	}

	inner := en.push()
	ld.Rest = t.fresh("rest", inner)
	inner = inner.withName(ld.Rest)

	if keyName != "_" {
		ld.Idx = t.fresh(keyName, inner)
		inner = inner.with(keyName, binding{kind: bScalar, lean: ld.Idx, k: KInt, u: UPlain, depth: inner.depth})
	}

	ld.Elem = "_"
	if valName != "_" {
		ld.Elem = t.fresh(valName, inner)
		inner = inner.with(valName, binding{kind: bScalar, lean: ld.Elem, k: spec.Elem.K, t: spec.Elem.T,
			depth: inner.depth})
	}

	// the list is exhausted, or `break`: the code after the loop
	after := func(e2 *env) (*Node, error) {
		e3 := e2.leave(en)
		e3.brk, e3.cnt = en.brk, en.cnt

		return rest(e3)
	}

	if ld.Nil, err = after(en); err != nil {
		return nil, err
	}

	next := func(*env) (*Node, error) {
		var idx *Node
		if ld.Idx != "" {
			idx = Bin("add", Var(ld.Idx, KInt, UPlain), Lit(1, UPlain), UPlain)
		}

		return call(idx, ld.Rest), nil
	}

	inner.brk, inner.cnt = after, next

	if ld.Cons, err = t.stmts(s.Body.List, inner.push(), next, s.Body.End()); err != nil {
		return nil, err
	}

	used := map[string]bool{}
	mentionsAny(ld.Nil, outer, used)
	mentionsAny(ld.Cons, outer, used)

	names := make([]string, 0, len(used))
	for n := range used {
		names = append(names, n)
	}

	sort.Strings(names)

	for _, n := range names {
		ld.Extra = append(ld.Extra, LoopVar{n, byLean[n]})
	}

	t.loops = append(t.loops, ld)

	return call(Lit(0, UPlain), spec.List), nil
}

func (t *tr) branchStmt(s *ast.BranchStmt, en *env) (*Node, error) {
	if s.Label != nil {
		return nil, t.pkg.errorf(s.Pos(), "labels are not supported")
	}

	switch {
	case s.Tok == token.BREAK && en.brk != nil:
		return en.brk(en)
	case s.Tok == token.CONTINUE && en.cnt != nil:
		return en.cnt(en)
	}

	return nil, t.pkg.errorf(s.Pos(), "`%s` outside of a translated loop", strings.ToLower(s.Tok.String()))
}
