package translate

import (
	"fmt"
	"go/ast"
	"go/parser"
	"go/printer"
	"go/token"
	"os"
	"path/filepath"
	"sort"
	"strconv"
	"strings"
)

// Package is the set of non-test Go files of one directory.
type Package struct {
	Fset  *token.FileSet
	Rel   string               // directory relative to the repository root
	Files map[string]*ast.File // by file name
	names []string             // sorted file names
}

// Load parses every non-test .go file of repo/rel (files injected by the verification harness are skipped).
func Load(repo, rel string) (*Package, error) {
	dir := filepath.Join(repo, rel)

	entries, err := os.ReadDir(dir)
	if err != nil {
		return nil, fmt.Errorf("cannot read %s: %w", rel, err)
	}

	p := &Package{Fset: token.NewFileSet(), Rel: rel, Files: map[string]*ast.File{}}

	for _, e := range entries {
		name := e.Name()
		if e.IsDir() || !strings.HasSuffix(name, ".go") || strings.HasSuffix(name, "_test.go") ||
			strings.HasPrefix(name, "zz_verif_") {
			continue
		}

		f, err := parser.ParseFile(p.Fset, filepath.Join(dir, name), nil, parser.SkipObjectResolution)
		if err != nil {
			return nil, fmt.Errorf("cannot parse %s/%s: %w", rel, name, err)
		}

		p.Files[name] = f
		p.names = append(p.names, name)
	}

	sort.Strings(p.names)

	return p, nil
}

// Pos renders a position as `dir/file.go:line`.
func (p *Package) Pos(pos token.Pos) string {
	if !pos.IsValid() {
		return p.Rel
	}

	ps := p.Fset.Position(pos)

	return fmt.Sprintf("%s/%s:%d", p.Rel, filepath.Base(ps.Filename), ps.Line)
}

func (p *Package) errorf(pos token.Pos, format string, args ...any) error {
	return fmt.Errorf("%s: %s", p.Pos(pos), fmt.Sprintf(format, args...))
}

// Text prints an expression on one line.
func Text(e ast.Node) string {
	var sb strings.Builder
	_ = printer.Fprint(&sb, token.NewFileSet(), e)

	return strings.Join(strings.Fields(sb.String()), " ")
}

func recvTypeName(fd *ast.FuncDecl) string {
	if fd.Recv == nil || len(fd.Recv.List) != 1 {
		return ""
	}

	t := fd.Recv.List[0].Type
	if s, ok := t.(*ast.StarExpr); ok {
		t = s.X
	}

	if ix, ok := t.(*ast.IndexExpr); ok { // generic receiver
		t = ix.X
	}

	if id, ok := t.(*ast.Ident); ok {
		return id.Name
	}

	return ""
}

// Func finds the function `name` (recv == "") or the method `recv.name`; exactly one declaration with a body must
// exist in the package.
func (p *Package) Func(recv, name string) (*ast.FuncDecl, *ast.File, error) {
	var (
		found *ast.FuncDecl
		file  *ast.File
		n     int
	)

	for _, fn := range p.names {
		for _, d := range p.Files[fn].Decls {
			fd, ok := d.(*ast.FuncDecl)
			if !ok || fd.Body == nil || fd.Name.Name != name || recvTypeName(fd) != recv {
				continue
			}

			found, file = fd, p.Files[fn]
			n++
		}
	}

	what := name
	if recv != "" {
		what = "(" + recv + ")." + name
	}

	if n != 1 {
		return nil, nil, fmt.Errorf("%s: expected exactly one declaration of %s, found %d", p.Rel, what, n)
	}

	return found, file, nil
}

// PkgValue finds the package level constant or variable `name` together with its declared type (may be nil).
func (p *Package) PkgValue(name string) (value, typ ast.Expr, isVar bool, file *ast.File, ok bool) {
	for _, fn := range p.names {
		for _, d := range p.Files[fn].Decls {
			gd, isGen := d.(*ast.GenDecl)
			if !isGen || (gd.Tok != token.CONST && gd.Tok != token.VAR) {
				continue
			}

			for _, sp := range gd.Specs {
				vs := sp.(*ast.ValueSpec) //nolint:forcetypeassert
				for i, id := range vs.Names {
					if id.Name == name && i < len(vs.Values) && len(vs.Values) == len(vs.Names) {
						return vs.Values[i], vs.Type, gd.Tok == token.VAR, p.Files[fn], true
					}
				}
			}
		}
	}

	return nil, nil, false, nil, false
}

// Assigned reports whether a package level variable is assigned to (or has its address taken) anywhere in the package.
func (p *Package) Assigned(name string) bool {
	hit := false

	for _, fn := range p.names {
		ast.Inspect(p.Files[fn], func(n ast.Node) bool {
			switch x := n.(type) {
			case *ast.AssignStmt:
				if x.Tok != token.DEFINE {
					for _, l := range x.Lhs {
						if id, ok := l.(*ast.Ident); ok && id.Name == name {
							hit = true
						}
					}
				}
			case *ast.IncDecStmt:
				if id, ok := x.X.(*ast.Ident); ok && id.Name == name {
					hit = true
				}
			case *ast.UnaryExpr:
				if id, ok := x.X.(*ast.Ident); ok && x.Op == token.AND && id.Name == name {
					hit = true
				}
			}

			return true
		})
	}

	return hit
}

// StructField returns the type text of field `field` of the struct type `typ` declared in the package.
func (p *Package) StructField(typ, field string) (string, error) {
	for _, fn := range p.names {
		for _, d := range p.Files[fn].Decls {
			gd, ok := d.(*ast.GenDecl)
			if !ok || gd.Tok != token.TYPE {
				continue
			}

			for _, sp := range gd.Specs {
				ts := sp.(*ast.TypeSpec) //nolint:forcetypeassert
				st, ok := ts.Type.(*ast.StructType)

				if ts.Name.Name != typ || !ok {
					continue
				}

				for _, f := range st.Fields.List {
					for _, id := range f.Names {
						if id.Name == field {
							return Text(f.Type), nil
						}
					}
				}

				return "", fmt.Errorf("%s: struct %s has no field %s", p.Pos(ts.Pos()), typ, field)
			}
		}
	}

	return "", fmt.Errorf("%s: no struct type %s", p.Rel, typ)
}

// importName returns the name under which `path` is imported in file f ("" if it is not).
func importName(f *ast.File, path string) string {
	for _, im := range f.Imports {
		v, err := strconv.Unquote(im.Path.Value)
		if err != nil || v != path {
			continue
		}

		if im.Name != nil {
			return im.Name.Name
		}

		return path[strings.LastIndex(path, "/")+1:]
	}

	return ""
}

// importPath returns the import path the identifier `name` stands for in file f ("" if none).
func importPath(f *ast.File, name string) string {
	for _, im := range f.Imports {
		v, err := strconv.Unquote(im.Path.Value)
		if err != nil {
			continue
		}

		n := v[strings.LastIndex(v, "/")+1:]
		if im.Name != nil {
			n = im.Name.Name
		}

		if n == name {
			return v
		}
	}

	return ""
}
