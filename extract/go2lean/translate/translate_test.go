package translate

import (
	"os"
	"path/filepath"
	"strings"
	"testing"
)

const prelude = `package p

import (
	"time"

	"github.com/dadrus/heimdall/internal/x"
)

type resp struct{ Expiry *int64 }

func (r *resp) Unix() int64 { return *r.Expiry }

type thing struct {
	ttl *time.Duration
	n   time.Duration
}

var _ = x.IfThenElse[int]
`

func family() *Family {
	return &Family{
		Name: "T", Dir: "p", RecvType: "thing",
		Params:     []Param{{"ttl", "Option Int"}, {"n", "Int"}, {"exp", "Option Int"}, {"now", "Int"}},
		Objects:    map[string]string{"*resp": "resp"},
		RecvFields: map[string]string{"ttl": "ttl", "n": "n"},
		Atoms: map[string]Atom{
			"resp.Expiry":        {Present: Some("exp")},
			"resp.Unix()":        {Value: Get("exp", UPlain)},
			"time.Now().Unix()":  {Value: Var("now", KInt, UPlain)},
			"len(resp.Chain)":    {Len: Some("exp")},
			"resp.Chain[0].At()": {Value: Get("exp", UPlain)},
		},
		Needs: map[string]*Node{"resp.Chain[0]": Some("exp")},
		Targets: []Target{{Recv: "thing", Method: "f", Lean: "f", Params: []string{"ttl", "n", "exp", "now"},
			Result: "Int"}},
	}
}

func run(t *testing.T, src string) (string, error) {
	t.Helper()

	dir := t.TempDir()
	if err := os.MkdirAll(filepath.Join(dir, "p"), 0o755); err != nil {
		t.Fatal(err)
	}

	if err := os.WriteFile(filepath.Join(dir, "p", "a.go"), []byte(prelude+src), 0o600); err != nil {
		t.Fatal(err)
	}

	defs, err := TranslateFamily(dir, family())
	if err != nil {
		return "", err
	}

	out := defs[0].Lean()
	// drop the doc comments: they carry line numbers
	var keep []string

	for _, l := range strings.Split(out, "\n") {
		if !strings.HasPrefix(l, "/--") {
			keep = append(keep, l)
		}
	}

	return strings.Join(keep, "\n"), nil
}

const reference = `
func (a *thing) f(r *resp) time.Duration {
	const leeway = 10

	if a.ttl != nil && *a.ttl <= 0 {
		return 0
	}

	if r.Expiry == nil {
		return a.n
	}

	left := r.Unix() - time.Now().Unix() - leeway
	if left <= 0 {
		return 0
	}

	return min(a.n, time.Duration(left)*time.Second)
}
`

// semantics-preserving rewrites of `reference` that must give exactly the same Lean text
var sameAsReference = map[string]string{
	"constant hoisted and typed": `
const cacheLeeway int64 = 10

func (t *thing) f(in *resp) time.Duration {
	if t.ttl != nil && *t.ttl <= 0 {
		return 0
	}

	if in.Expiry == nil {
		return t.n
	}

	left := in.Unix() - time.Now().Unix() - cacheLeeway
	if left <= 0 {
		return 0
	}

	return min(t.n, time.Second*time.Duration(left))
}
`,
	"else chain instead of early returns": `
func (a *thing) f(r *resp) time.Duration {
	const leeway = 10

	if a.ttl != nil && *a.ttl <= 0 {
		return 0
	} else if r.Expiry == nil {
		return a.n
	} else {
		left := r.Unix() - time.Now().Unix() - leeway
		if left <= 0 {
			return 0
		} else {
			return min(a.n, time.Duration(left)*time.Second)
		}
	}
}
`,
	"helper method extracted": `
func (a *thing) left(r *resp) int64 {
	const leeway = 10

	return r.Unix() - time.Now().Unix() - leeway
}

func (a *thing) f(r *resp) time.Duration {
	if a.ttl != nil && *a.ttl <= 0 {
		return 0
	}

	if r.Expiry == nil {
		return a.n
	}

	left := a.left(r)
	if left <= 0 {
		return 0
	}

	return min(a.n, time.Duration(left)*time.Second)
}
`,
}

func TestRewritesGiveTheSameTerm(t *testing.T) {
	want, err := run(t, reference)
	if err != nil {
		t.Fatal(err)
	}

	for _, frag := range []string{
		"def f (ttl : Option Int) (n : Int) (exp : Option Int) (now : Int) : Int :=",
		"if ttl.isSome ∧ ttl.getD 0 ≤ 0 then 0 else",
		"if exp.isNone then n else",
		"let left := exp.getD 0 - now - 10",
		"min n left",
		"def f_defined",
	} {
		if !strings.Contains(want, frag) {
			t.Errorf("reference translation lacks %q:\n%s", frag, want)
		}
	}

	for name, src := range sameAsReference {
		got, err := run(t, src)
		if err != nil {
			t.Errorf("%s: %v", name, err)

			continue
		}

		if got != want {
			t.Errorf("%s: translation differs\n--- want\n%s\n--- got\n%s", name, want, got)
		}
	}
}

func TestControlFlow(t *testing.T) {
	out, err := run(t, `
func (a *thing) f(r *resp) time.Duration {
	res := a.n
	k := 0

	switch {
	case r.Expiry == nil:
		k++
	case r.Unix() > time.Now().Unix():
		res = 0
	default:
		res -= 1 * time.Second
	}

	if k > 0 {
		return x.IfThenElseExec(a.ttl != nil, func() time.Duration { return *a.ttl }, func() time.Duration { return res })
	}

	return res
}
`)
	if err != nil {
		t.Fatal(err)
	}

	for _, frag := range []string{"let res := n", "let k := k + 1", "let res := res - 1", "if ttl.isSome then ttl.getD 0 else"} {
		if !strings.Contains(out, frag) {
			t.Errorf("missing %q in\n%s", frag, out)
		}
	}
}

func TestDefinedness(t *testing.T) {
	// the dereference is not guarded: f_defined must say so
	out, err := run(t, `
func (a *thing) f(r *resp) time.Duration {
	return *a.ttl + time.Duration(r.Unix())*time.Second
}
`)
	if err != nil {
		t.Fatal(err)
	}

	if !strings.Contains(out, "ttl.isSome ∧") || !strings.Contains(out, "exp.isSome") {
		t.Errorf("definedness condition missing:\n%s", out)
	}

	// guarded by short-circuit evaluation and by an alias with an index
	out, err = run(t, `
type cert struct{}

func (c *cert) At() int64 { return 0 }

func (a *thing) f(r *resp) time.Duration {
	if len(r.Chain) == 0 {
		return 0
	}

	first := r.Chain[0]

	return time.Duration(first.At()) * time.Second
}
`)
	if err != nil {
		t.Fatal(err)
	}

	if !strings.Contains(out, "if exp.isNone then true else") {
		t.Errorf("guarded index should need the guard only:\n%s", out)
	}
}

func TestFailsClosed(t *testing.T) {
	cases := map[string][2]string{
		"loop": {`
func (a *thing) f(r *resp) time.Duration {
	for i := 0; i < 3; i++ {
	}

	return a.n
}`, "are not supported"},
		"unknown call": {`
func (a *thing) f(r *resp) time.Duration { return time.Duration(r.Other()) * time.Second }`, "not understood"},
		"unscaled duration": {`
func (a *thing) f(r *resp) time.Duration { return time.Duration(r.Unix()) }`, "unscaled duration"},
		"bare number meets duration": {`
func (a *thing) f(r *resp) time.Duration { return a.n - 5 }`, "bare number"},
		"sub-second unit": {`
func (a *thing) f(r *resp) time.Duration { return a.n - 5*time.Millisecond }`, "whole number of seconds"},
		"assigned package variable": {`
var slack = 5 * time.Second

func init() { slack = time.Second }

func (a *thing) f(r *resp) time.Duration { return a.n - slack }`, "assigned to somewhere"},
		"side effect": {`
func (a *thing) f(r *resp) time.Duration {
	println("x")

	return a.n
}`, "not supported"},
		"recursion": {`
func (a *thing) g(r *resp) time.Duration { return a.g(r) }

func (a *thing) f(r *resp) time.Duration { return a.g(r) }`, "recursive"},
		"field changed its kind": {`
type other struct{}

func (a *thing) f(r *resp, o *other) time.Duration { return a.n + time.Duration(o.v())*time.Second }`, "not understood"},
	}

	for name, c := range cases {
		_, err := run(t, c[0])
		if err == nil {
			t.Errorf("%s: translation should fail", name)

			continue
		}

		if !strings.Contains(err.Error(), c[1]) {
			t.Errorf("%s: error %q does not mention %q", name, err, c[1])
		}

		if !strings.Contains(err.Error(), "p/a.go:") && !strings.Contains(err.Error(), "p:") {
			t.Errorf("%s: error %q has no position", name, err)
		}
	}
}

func TestEval(t *testing.T) {
	dir := t.TempDir()
	_ = os.MkdirAll(filepath.Join(dir, "p"), 0o755)
	_ = os.WriteFile(filepath.Join(dir, "p", "a.go"), []byte(prelude+reference), 0o600)

	defs, err := TranslateFamily(dir, family())
	if err != nil {
		t.Fatal(err)
	}

	env := map[string]Val{"ttl": NoneVal(), "n": IntVal(300), "exp": SomeVal(1100), "now": IntVal(1000)}

	v, err := Eval(defs[0].Body, env, nil)
	if err != nil || v.I != 90 {
		t.Errorf("f = %v, %v; want 90", v, err)
	}

	env["ttl"] = SomeVal(0)
	if v, _ := Eval(defs[0].Body, env, nil); v.I != 0 {
		t.Errorf("f with ttl 0 = %v; want 0", v)
	}

	env["ttl"] = NoneVal()
	if v, _ := Eval(defs[0].Defined, env, nil); !v.B {
		t.Errorf("f_defined = %v; want true", v)
	}
}
