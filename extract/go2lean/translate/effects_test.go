package translate

import (
	"os"
	"path/filepath"
	"strings"
	"testing"
)

const effPrelude = `package p

import (
	"errors"

	"github.com/rs/zerolog"
)

type Context interface{ App() any }

type step interface {
	Execute(ctx Context, in *string) error
	Skip() bool
}

var errSkip = errors.New("skip")

type steps []step
`

func effFamily() *Family {
	optErr := TypeSpec{K: KOpt, T: "Err"}
	optIn := TypeSpec{K: KOpt, T: "In"}
	elem := TypeSpec{K: KOpq, T: "A"}

	return &Family{
		Name: "T", Dir: "p", RecvType: "steps", Effectful: true, Monad: "Go.M Ctx PV", NilPanic: "nilDeref",
		TypeVars: []string{"A", "Ctx", "PV", "In", "Err"},
		Params: []Param{{"exec", "A → Option In → Go.M Ctx PV (Option Err)"}, {"skip", "A → Bool"}, {"isSkip", "Err → Bool"},
			{"nilDeref", "PV"}, {"xs", "List A"}, {"inp", "Option In"}},
		Objects:     map[string]string{"Context": "ctx"},
		GoTypes:     map[string]TypeSpec{"error": optErr, "*string": optIn, "step": elem},
		ValueParams: map[string]string{"*string": "inp"},
		Funcs: []FuncAtom{
			{Fun: "A.Execute", Args: []string{"ctx", "$"}, Lean: "exec", Res: []TypeSpec{optErr}, Effect: true},
			{Fun: "A.Skip", Lean: "skip", Res: []TypeSpec{{K: KBool}}},
			{Fun: "errors.Is", Args: []string{"$", "errSkip"}, Lean: "isSkip", Res: []TypeSpec{{K: KBool}}, NilFalse: true},
		},
		Slices: map[string]SliceSpec{"recv": {Elem: elem, List: "xs"}},
		Targets: []Target{{Recv: "steps", Method: "Run", Lean: "Run",
			Params: []string{"exec", "skip", "isSkip", "nilDeref", "xs", "inp"}}},
	}
}

func runEff(t *testing.T, src string) (string, error) {
	t.Helper()

	dir := t.TempDir()
	_ = os.MkdirAll(filepath.Join(dir, "p"), 0o755)

	if err := os.WriteFile(filepath.Join(dir, "p", "a.go"), []byte(effPrelude+src), 0o600); err != nil {
		t.Fatal(err)
	}

	defs, err := TranslateFamily(dir, effFamily())
	if err != nil {
		return "", err
	}

	var keep []string

	for _, l := range strings.Split(defs[0].LeanEff(), "\n") {
		if !strings.HasPrefix(l, "/--") {
			keep = append(keep, l)
		}
	}

	return strings.Join(keep, "\n"), nil
}

const effReference = `
func (ss steps) Run(ctx Context, in *string) error {
	logger := zerolog.Ctx(nil)

	var last error

	for _, s := range ss {
		if s.Skip() {
			continue
		}

		if err := s.Execute(ctx, in); err != nil {
			if errors.Is(err, errSkip) {
				last = err

				continue
			}

			logger.Error().Err(err).Msg("failed")

			return err
		}

		break
	}

	return last
}
`

// the same loop written with inverted conditions, an else branch and a switch
const effRewritten = `
func (ss steps) Run(ctx Context, in *string) error {
	var last error

	for _, s := range ss {
		if !s.Skip() {
			err := s.Execute(ctx, in)

			switch {
			case err == nil:
				return last
			case !errors.Is(err, errSkip):
				return err
			default:
				last = err
			}
		}
	}

	return last
}
`

func TestLoop(t *testing.T) {
	out, err := runEff(t, effReference)
	if err != nil {
		t.Fatal(err)
	}

	for _, frag := range []string{
		"def Run_loop {A Ctx PV In Err : Type}",
		"List A → Option Err → Go.M Ctx PV (Option Err)",
		"| [], last =>",
		"| s :: rest, last =>",
		"Run_loop exec skip isSkip nilDeref inp n rest last",
		"Go.bind (exec s inp) fun err =>",
		"err.any isSkip",
		"let last : Option Err := none",
		"Run_loop exec skip isSkip nilDeref inp n xs last",
	} {
		if !strings.Contains(out, frag) {
			t.Errorf("missing %q in\n%s", frag, out)
		}
	}

	// a log statement is dropped, `break` leads to the code after the loop
	if strings.Contains(out, "logger") || !strings.Contains(out, "Go.pure last") {
		t.Errorf("unexpected translation:\n%s", out)
	}

	if _, err := runEff(t, effRewritten); err != nil {
		t.Errorf("rewritten loop: %v", err)
	}
}

func TestEffectsFailClosed(t *testing.T) {
	cases := map[string][2]string{
		"defer": {`
func (ss steps) Run(ctx Context, in *string) error {
	defer func() {}()

	return nil
}`, "defer"},
		"effect inside an expression": {`
func (ss steps) Run(ctx Context, in *string) error {
	for _, s := range ss {
		if s.Execute(ctx, in) != nil {
			return nil
		}
	}

	return nil
}`, "must stand alone"},
		"unknown slice": {`
func (ss steps) Run(ctx Context, in *string) error {
	other := []int{1}
	for range other {
	}

	return nil
}`, "understands"},
		"unknown statement": {`
func (ss steps) Run(ctx Context, in *string) error {
	println("x")

	return nil
}`, "not supported"},
		"break outside": {`
func (ss steps) Run(ctx Context, in *string) error {
	for i := 0; i < 1; i++ {
	}

	return nil
}`, "not supported"},
	}

	for name, c := range cases {
		_, err := runEff(t, c[0])
		if err == nil {
			t.Errorf("%s: translation should fail", name)

			continue
		}

		if !strings.Contains(err.Error(), c[1]) {
			t.Errorf("%s: error %q does not mention %q", name, err, c[1])
		}
	}
}
