#!/usr/bin/env python3
"""Fact extractor for property C20: what the JSON schema applied to the configuration FILE accepts versus what the
LOADER (Go structs and mechanism registries) supports. Reads /repo's current working tree, writes
lean/HeimdallModel/Gen/ConfigSchema.lean. Fails closed: any shape it does not understand aborts with exit 2.

Facts:
  * mechanism types per category: schema (`definitions.mechanismDefinitions.properties.<cat>.items` -> `type.const`)
    vs. loader (`registerTypeFactory(... if typ != <Const> ...)` in internal/rules/mechanisms/<pkg>, constants
    resolved from the package's const blocks);
  * option names of the static configuration: for every path at which the Go `Configuration` has a struct, the
    `koanf` tags of its fields vs. the `properties` of the schema object at the same path (free-form maps and
    foreign types end the walk);
  * mechanism types whose factory ignores the `config` it is handed (the parameter of the registered factory function
    is `_`);
  * options INSIDE a mechanism's `config`: not extracted but MEASURED on the running code by the check
    (tools/props/c20.py, harness op `mech`: which names the real file validation refuses, which names the real type
    factory refuses, per type and per place below `config`); the measurement is handed in as `--measured <json>` and
    written into the same generated module (`mechOptionTable`). Without a measurement the table is empty and
    `mechMeasured` is false, which fails the obligation.
"""
import json
import os
import re
import sys

REPO = os.environ.get("VERIF_REPO", "/repo")
OUT = os.path.join(os.path.dirname(os.path.dirname(os.path.dirname(os.path.abspath(__file__)))),
                   "lean", "HeimdallModel", "Gen", "ConfigSchema.lean")

CATEGORIES = {  # schema property -> Go package
    "authenticators": "authenticators", "authorizers": "authorizers", "contextualizers": "contextualizers",
    "finalizers": "finalizers", "error_handlers": "errorhandlers",
}
# properties of the file that describe the file itself and are no configuration property
FILE_METADATA = {"": ["version"]}
# the three services share one Go struct; a field no handler of a service reads is not an option of that service
SERVICE_HANDLERS = {"serve.decision": ["decision", "envoyextauth"], "serve.management": ["management"],
                    "serve.proxy": ["proxy"]}


def die(msg):
    print("extract config_schema: " + msg, file=sys.stderr)
    sys.exit(2)


# --------------------------------------------------------------------------------------------------- schema side

def load_schema():
    path = os.path.join(REPO, "schema", "config.schema.json")
    try:
        with open(path) as fh:
            return json.load(fh)
    except Exception as e:  # noqa: BLE001
        die(f"cannot read {path}: {e}")


def deref(schema, node):
    seen = 0
    while isinstance(node, dict) and "$ref" in node:
        ref = node["$ref"]
        if not ref.startswith("#/"):
            die(f"unsupported $ref {ref}")
        cur = schema
        for part in ref[2:].split("/"):
            if part not in cur:
                die(f"dangling $ref {ref}")
            cur = cur[part]
        node = cur
        seen += 1
        if seen > 20:
            die("cyclic $ref")
    return node


def schema_mech_types(schema):
    defs = deref(schema, {"$ref": "#/definitions/mechanismDefinitions"})
    props = defs.get("properties")
    if not isinstance(props, dict):
        die("mechanismDefinitions has no properties")
    if set(props) != set(CATEGORIES):
        die(f"mechanism categories of the schema changed: {sorted(props)}")
    res = []
    for cat in sorted(props):
        items = props[cat].get("items")
        if items is None:
            die(f"{cat}: no items")
        alts = items.get("anyOf") or items.get("oneOf") or [items]
        for alt in alts:
            d = deref(schema, alt)
            t = d.get("properties", {}).get("type")
            if not isinstance(t, dict):
                die(f"{cat}: an alternative without a type property")
            if "const" in t:
                res.append((cat, t["const"]))
            elif "enum" in t:
                res += [(cat, v) for v in t["enum"]]
            else:
                die(f"{cat}: type is neither const nor enum")
    return sorted(set(res))


# ------------------------------------------------------------------------------------------------------- Go side

def read(path):
    try:
        with open(path) as fh:
            return fh.read()
    except Exception as e:  # noqa: BLE001
        die(f"cannot read {path}: {e}")


def strip_go_comments(src):
    src = re.sub(r"/\*.*?\*/", "", src, flags=re.S)
    return re.sub(r"(?m)//[^\n]*$", "", src)


def cache_types(schema):
    """(schema, loader) cache types: `cache.oneOf[*].type.const` vs `cache.Register("<type>", ...)` plus the built-in
    `if typ == "noop"` of cache.Create"""
    node = deref(schema, schema.get("properties", {}).get("cache") or die("schema: no cache property"))
    alts = node.get("oneOf") or node.get("anyOf") or die("schema: cache is not a list of alternatives")
    stypes = []
    for a in alts:
        t = deref(schema, a).get("properties", {}).get("type", {})
        if "const" not in t:
            die("schema: cache alternative without type const")
        stypes.append(("cache", t["const"]))
    ltypes = []
    root = os.path.join(REPO, "internal", "cache")
    for d, _, files in sorted(os.walk(root)):
        if "/mocks" in d:
            continue
        for f in sorted(files):
            if not f.endswith(".go") or f.endswith("_test.go"):
                continue
            src = strip_go_comments(read(os.path.join(d, f)))
            for m in re.finditer(r"\bcache\.Register\(\s*([^,]+),", src):
                lit = m.group(1).strip()
                if not re.fullmatch(r'"[^"]*"', lit):
                    die(f"{f}: cache.Register with a non-literal type {lit}")
                ltypes.append(("cache", lit[1:-1]))
    reg = strip_go_comments(read(os.path.join(root, "factory_registry.go")))
    builtin = re.findall(r'if\s+typ\s*==\s*"([^"]*)"\s*\{', reg)
    if not re.search(r"func Create\(", reg):
        die("cache.Create not found")
    ltypes += [("cache", b) for b in builtin]
    if not ltypes:
        die("no cache types found")
    return sorted(set(stypes)), sorted(set(ltypes))


def loader_mech_types():
    return _loader_mech_facts()[0]


def ignoring_mech_types():
    """types whose registered factory function names its `config` parameter `_`: whatever stands there is ignored"""
    return _loader_mech_facts()[1]


_FACTS = None


def _loader_mech_facts():
    global _FACTS
    if _FACTS is not None:
        return _FACTS
    res = []
    ignoring = []
    for cat, pkg in sorted(CATEGORIES.items()):
        d = os.path.join(REPO, "internal", "rules", "mechanisms", pkg)
        if not os.path.isdir(d):
            die(f"package {pkg} not found")
        consts = {}
        registered = []
        for f in sorted(os.listdir(d)):
            if not f.endswith(".go") or f.endswith("_test.go"):
                continue
            src = strip_go_comments(read(os.path.join(d, f)))
            for m in re.finditer(r'(?m)^\s*([A-Z]\w*)\s*=\s*"([^"]*)"', src):
                consts[m.group(1)] = m.group(2)
            n_calls = len(re.findall(r"\bregisterTypeFactory\(\s*\n?\s*func", src))
            conds = re.findall(r"registerTypeFactory\(\s*func\(([^)]*)\)\s*\([^)]*\)\s*\{\s*if\s+([^{]*?)\s*\{\s*return\s+false\b", src)
            if n_calls != len(conds):
                die(f"{pkg}/{f}: registerTypeFactory call of an unknown shape")
            for params, cond in conds:   # `typ != A` or `typ != A && typ != B ...`: the factory answers for A, B, ...
                names = [prm.strip().split()[0] for prm in params.split(",") if prm.strip()]
                if len(names) != 4:
                    die(f"{pkg}/{f}: factory function with {len(names)} parameters")
                parts = [c.strip() for c in cond.split("&&")]
                for part in parts:
                    m = re.fullmatch(r"typ\s*!=\s*(\w+)", part)
                    if not m:
                        die(f"{pkg}/{f}: type guard of an unknown shape: {cond!r}")
                    registered.append((m.group(1), names[3] == "_"))
        if not registered:
            die(f"{pkg}: no registered type factory found")
        for c, ign in registered:
            if c not in consts:
                die(f"{pkg}: constant {c} not resolved")
            res.append((cat, consts[c]))
            if ign:
                ignoring.append((cat, consts[c]))
    _FACTS = (sorted(set(res)), sorted(set(ignoring)))
    return _FACTS


FIELD_RE = re.compile(r'^\s*(\w+)\s+(\S.*?)\s+`([^`]*)`\s*$')


def handler_reads(service_path, field):
    """does any non-test Go file of the service's handler packages select `.Field`?"""
    pat = re.compile(r"\." + re.escape(field) + r"\b")
    for pkg in SERVICE_HANDLERS[service_path]:
        root = os.path.join(REPO, "internal", "handler", pkg)
        if not os.path.isdir(root):
            die(f"handler package {pkg} not found")
        for d, _, files in os.walk(root):
            for f in files:
                if f.endswith(".go") and not f.endswith("_test.go"):
                    if pat.search(strip_go_comments(read(os.path.join(d, f)))):
                        return True
    return False


def parse_struct_body(body, where):
    """returns list of (tag, type expression or nested body dict)"""
    fields = []
    lines = body.split("\n")
    i = 0
    while i < len(lines):
        line = lines[i].strip()
        i += 1
        if not line:
            continue
        m = re.match(r"^(\w+)\s+struct\s*\{\s*$", line)
        if m:  # anonymous nested struct
            depth = 1
            nested = []
            while i < len(lines) and depth > 0:
                l2 = lines[i]
                i += 1
                depth += l2.count("{") - l2.count("}")
                if depth > 0:
                    nested.append(l2)
                else:
                    tagm = re.search(r"`([^`]*)`", l2)
                    if not tagm:
                        die(f"{where}: nested struct {m.group(1)} without tag")
                    tag = koanf_tag(tagm.group(1), where)
                    fields.append((tag, {"__body__": "\n".join(nested)}, m.group(1)))
            continue
        fm = FIELD_RE.match(line)
        if not fm:
            die(f"{where}: field line not understood: {line!r}")
        tag = koanf_tag(fm.group(3), where)
        fields.append((tag, fm.group(2).strip(), fm.group(1)))
    return fields


def koanf_tag(tagstr, where):
    m = re.search(r'koanf:"([^",]*)', tagstr)
    if not m or not m.group(1):
        die(f"{where}: field without koanf tag: {tagstr!r}")
    return m.group(1)


def go_structs():
    d = os.path.join(REPO, "internal", "config")
    structs = {}
    for f in sorted(os.listdir(d)):
        if not f.endswith(".go") or f.endswith("_test.go"):
            continue
        src = strip_go_comments(read(os.path.join(d, f)))
        for m in re.finditer(r"(?m)^type\s+(\w+)\s+struct\s*\{", src):
            # find the matching closing brace
            start = m.end()
            depth = 1
            j = start
            while j < len(src) and depth > 0:
                if src[j] == "{":
                    depth += 1
                elif src[j] == "}":
                    depth -= 1
                j += 1
            structs[m.group(1)] = src[start:j - 1]
    if "Configuration" not in structs:
        die("type Configuration not found")
    return structs


def option_tables(schema, structs):
    rows = []
    unread = []

    def walk(path, body_or_name, snode, where):
        if isinstance(body_or_name, dict):
            body = body_or_name["__body__"]
        else:
            body = structs[body_or_name]
        fields = parse_struct_body(body, where)
        snode = deref(schema, snode)
        if isinstance(snode.get("properties"), dict):
            alts = [snode]
        else:  # alternatives selected by a `type` constant (cache)
            alts = [deref(schema, a) for a in (snode.get("oneOf") or snode.get("anyOf") or [])]
        if snode.get("type") != "object" or not alts or not all(isinstance(a.get("properties"), dict) for a in alts):
            die(f"schema at '{path}' is not an object with properties, the loader has a struct there")
        closed = all(a.get("additionalProperties") is False for a in alts)
        merged = {}
        for a in alts:
            for k, v in a["properties"].items():
                merged.setdefault(k, v)
        snode = {"properties": merged}
        skeys = sorted(k for k in merged if k not in FILE_METADATA.get(path, []))
        if path in SERVICE_HANDLERS:
            for tag, _, goname in fields:
                if tag not in merged and not handler_reads(path, goname):
                    unread.append((path, tag))
            fields = [fl for fl in fields if (path, fl[0]) not in unread]
        lkeys = sorted(t for t, _, _ in fields)
        rows.append((path, closed, skeys, lkeys))
        for tag, typ, _ in fields:
            sub = snode["properties"].get(tag)
            if sub is None:
                continue  # reported by the row above
            child = f"{path}.{tag}" if path else tag
            if isinstance(typ, dict):
                walk(child, typ, sub, child)
                continue
            base = typ.lstrip("*")
            if base in structs:
                walk(child, base, sub, child)
            # slices, maps and foreign types end the walk (mechanism lists are covered by the type tables)

    walk("", "Configuration", schema, "Configuration")
    return rows, unread


# ---------------------------------------------------------------------------------------------------------- emit

def lean_str(s):
    return json.dumps(s, ensure_ascii=False)


def lean_list(xs):
    return "[" + ", ".join(xs) + "]"


def measured_rows():
    """--measured <json>: {"rows": [[category, type, place, schemaClosed, [names], loaderClosed, [names]], ...]}"""
    if "--measured" not in sys.argv:
        return None
    path = sys.argv[sys.argv.index("--measured") + 1]
    try:
        with open(path) as fh:
            rows = json.load(fh)["rows"]
    except Exception as e:  # noqa: BLE001
        die(f"cannot read the measurement {path}: {e}")
    for r in rows:
        if not (isinstance(r, list) and len(r) == 7 and all(isinstance(r[i], str) for i in (0, 1, 2))
                and isinstance(r[3], bool) and isinstance(r[5], bool)
                and all(isinstance(k, str) for k in r[4] + r[6])):
            die(f"measurement row of an unknown shape: {r!r}")
    return sorted(rows)


def main():
    schema = load_schema()
    sct, lct = cache_types(schema)
    smt = sorted(schema_mech_types(schema) + sct)
    lmt = sorted(loader_mech_types() + lct)
    rows, unread = option_tables(schema, go_structs())
    out = []
    out.append("-- GENERATED by extract/config_schema/extract.py from /repo's working tree on every check run. Do not edit.")
    out.append("namespace Heimdall.Gen.ConfigSchema\n")
    out.append("/-- (category, type) pairs the JSON schema accepts in a configuration file -/")
    out.append("def schemaMechTypes : List (String × String) :=\n  " + lean_list(f"({lean_str(a)}, {lean_str(b)})" for a, b in smt) + "\n")
    out.append("/-- (category, type) pairs for which a mechanism factory is registered -/")
    out.append("def loaderMechTypes : List (String × String) :=\n  " + lean_list(f"({lean_str(a)}, {lean_str(b)})" for a, b in lmt) + "\n")
    out.append("/-- per struct of the static configuration: path, does the schema forbid other names there, property names of the\n    schema, koanf tags of the loader -/")
    out.append("def optionTable : List (String × Bool × List String × List String) :=\n  [" + ",\n   ".join(
        f"({lean_str(p)}, {'true' if c else 'false'}, {lean_list(lean_str(k) for k in sk)}, {lean_list(lean_str(k) for k in lk)})"
        for p, c, sk, lk in rows) + "]\n")
    out.append("/-- fields of the shared service struct that no handler of that service reads (not options of that service) -/")
    out.append("def unreadServiceFields : List (String × String) :=\n  " + lean_list(f"({lean_str(a)}, {lean_str(b)})" for a, b in unread) + "\n")
    mrows = measured_rows()
    ign = ignoring_mech_types()
    out.append("/-- mechanism types whose registered factory ignores the `config` handed to it (parameter `_`) -/")
    out.append("def ignoresConfig : List (String × String) :=\n  " + lean_list(f"({lean_str(a)}, {lean_str(b)})" for a, b in ign) + "\n")
    out.append("/-- was the table below measured on the running code in this run? -/")
    out.append(f"def mechMeasured : Bool := {'true' if mrows is not None else 'false'}\n")
    out.append("/-- MEASURED on the real file validation and the real type factories (harness op `mech`), per mechanism type and\n"
               "    place below its `config` (\"\" = the config itself, `endpoint.retry`, `expressions[0]`): does the file validation\n"
               "    refuse names it does not know there, the candidate names it lets pass, does the type factory refuse names it\n"
               "    does not read there, the candidate names it reads -/")
    out.append("def mechOptionTable : List (String × String × String × Bool × List String × Bool × List String) :=\n  [" + ",\n   ".join(
        f"({lean_str(c)}, {lean_str(t)}, {lean_str(pl)}, {'true' if sc else 'false'}, {lean_list(lean_str(k) for k in sn)}, "
        f"{'true' if lc else 'false'}, {lean_list(lean_str(k) for k in ln)})"
        for c, t, pl, sc, sn, lc, ln in (mrows or [])) + "]\n")
    out.append("end Heimdall.Gen.ConfigSchema")
    if "--facts-only" not in sys.argv:
        os.makedirs(os.path.dirname(OUT), exist_ok=True)
        with open(OUT, "w") as fh:
            fh.write("\n".join(out) + "\n")
    json.dump({"schemaMechTypes": smt, "loaderMechTypes": lmt, "optionTable": rows, "unread": unread,
               "ignoresConfig": ign, "mechOptionTable": mrows}, sys.stdout)


if __name__ == "__main__":
    main()
