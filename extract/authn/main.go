// Command authn extracts, from the current source of heimdall's authenticators, the facts the Lean model of
// property C04 is stated about, and prints them as a Lean module:
//
//   - per source file, in source order, every error value constructed with errorchain.New / NewWithMessage /
//     NewWithMessagef(...).CausedBy(...)... as the list of its elements (a heimdall sentinel or "dyn" for any other
//     expression), separately for the entry method (Execute / GetAuthData: where credentials are looked for and
//     missing ones are reported) and for the rest of the file (everything that runs after a credential was found);
//   - the signature algorithms of supportedAlgorithms();
//   - per source file, how often heimdall.ErrArgument is mentioned at all, and the arguments of the CausedBy calls
//     that are not part of such a constructor expression;
//   - the condition under which compositeSubjectCreator.Execute goes on to the next authenticator, and the shape of
//     its loop. The condition may be written in place, with the help of local variables of the error branch that are
//     defined once, or as a call of a function of the package / a method of compositeSubjectCreator whose body is
//     `x := <expr>`… `return <expr>` (type inliner): such calls and variables are replaced by what they stand for
//     before the condition is read, so that extracting the condition into a helper yields the same facts. The
//     condition the model knows is ONE disjunction (besides the bound check); every further conjunct, a negation, a
//     helper of another shape is reported as an unknown condition or aborts the extraction.
//
// It fails closed: any shape it does not understand aborts the extraction with exit status 3.
package main

import (
	"bytes"
	"fmt"
	"go/ast"
	"go/parser"
	"go/printer"
	"go/token"
	"os"
	"os/exec"
	"path/filepath"
	"sort"
	"strings"
)

var fset = token.NewFileSet()

func fail(n ast.Node, format string, args ...any) {
	pos := ""
	if n != nil {
		pos = fset.Position(n.Pos()).String() + ": "
	}

	if inGuard && softGuard {
		panic(guardFailure(pos + fmt.Sprintf(format, args...)))
	}

	fmt.Fprintf(os.Stderr, "authn extractor: %s%s\n", pos, fmt.Sprintf(format, args...))
	os.Exit(3)
}

// -soft-guard: when only the shape of compositeSubjectCreator.Execute is not understood, the extraction does not fail
// as a whole: `compositeGuard` is then not an extracted fact (the output says so in a marker line) and the check has to
// establish the composite's condition otherwise - by the theorem about the translated function, c04_src_composite.
type guardFailure string

var softGuard, inGuard bool

func compositeOrFallback(path string) (text string) {
	inGuard = true

	defer func() {
		inGuard = false

		if r := recover(); r != nil {
			msg, ok := r.(guardFailure)
			if !ok {
				panic(r)
			}

			text = "Heimdall.Authn.compositeGuard\n-- compositeGuard: NOT EXTRACTED (" +
				strings.ReplaceAll(string(msg), "\n", " ") + ")"
		}
	}()

	return composite(path)
}

var kinds = map[string]string{
	"ErrArgument":             "argument",
	"ErrAuthentication":       "authentication",
	"ErrAuthorization":        "authorization",
	"ErrCommunication":        "communication",
	"ErrCommunicationTimeout": "timeout",
	"ErrConfiguration":        "configuration",
	"ErrInternal":             "internal",
	"ErrNoRuleFound":          "noRule",
}

func render(n ast.Node) string {
	var buf bytes.Buffer

	printer.Fprint(&buf, fset, n) //nolint:errcheck

	return strings.Join(strings.Fields(buf.String()), " ")
}

const heimdallPkg = "github.com/dadrus/heimdall/internal/heimdall"

// the names under which the file at hand imports package internal/heimdall (set by parse)
var heimdallNames = map[string]bool{}

// inside package internal/heimdall itself the sentinels are used without qualifier
var inHeimdallPkg bool

// sentinel returns the error kind if x is <heimdall>.ErrXxx, whatever the package is called in this file
func sentinel(x ast.Expr) (string, bool) {
	sel, ok := x.(*ast.SelectorExpr)
	if !ok {
		return "", false
	}

	pkg, ok := sel.X.(*ast.Ident)
	if !ok || !heimdallNames[pkg.Name] {
		return "", false
	}

	k, ok := kinds[sel.Sel.Name]
	if !ok {
		if strings.HasPrefix(sel.Sel.Name, "Err") {
			fail(x, "unknown heimdall sentinel %s", sel.Sel.Name)
		}

		return "", false
	}

	return k, true
}

func elem(x ast.Expr) string {
	if k, ok := sentinel(x); ok {
		return ".k ." + k
	}

	return ".dyn"
}

// chainOf: if call is errorchain.NewXxx(e0, ...).M1(...).M2(...)..., the elements of the error chain built
func chainOf(call *ast.CallExpr, inner map[*ast.CallExpr]bool) ([]string, bool) {
	type step struct {
		name string
		call *ast.CallExpr
	}

	var steps []step

	cur := call

	for {
		sel, ok := cur.Fun.(*ast.SelectorExpr)
		if !ok {
			return nil, false
		}

		if pkg, ok := sel.X.(*ast.Ident); ok && pkg.Name == "errorchain" {
			switch sel.Sel.Name {
			case "New", "NewWithMessage", "NewWithMessagef":
			default:
				fail(cur, "unknown errorchain constructor %s", sel.Sel.Name)
			}

			if len(cur.Args) == 0 {
				fail(cur, "errorchain constructor without arguments")
			}

			res := []string{elem(cur.Args[0])}

			for i := len(steps) - 1; i >= 0; i-- {
				switch steps[i].name {
				case "CausedBy":
					if len(steps[i].call.Args) != 1 {
						fail(steps[i].call, "CausedBy with %d arguments", len(steps[i].call.Args))
					}

					res = append(res, elem(steps[i].call.Args[0]))
				case "WithErrorContext":
				default:
					fail(steps[i].call, "unknown method %s on an error chain", steps[i].name)
				}
			}

			for _, s := range steps {
				inner[s.call] = true
			}

			inner[cur] = true

			return res, true
		}

		next, ok := sel.X.(*ast.CallExpr)
		if !ok {
			return nil, false
		}

		steps = append(steps, step{sel.Sel.Name, cur})
		cur = next
	}
}

type fileFacts struct {
	entry    [][]string // constructor expressions inside the entry method (Execute / GetAuthData), in source order
	others   [][]string // all other constructor expressions of the file, in source order
	argument int        // mentions of heimdall.ErrArgument
	loose    []string   // arguments of CausedBy calls outside constructor expressions
}

func parse(path string) *ast.File {
	f, err := parser.ParseFile(fset, path, nil, parser.SkipObjectResolution)
	if err != nil {
		fail(nil, "%v", err)
	}

	heimdallNames = map[string]bool{}
	inHeimdallPkg = f.Name.Name == "heimdall" && strings.HasSuffix(filepath.Dir(path), "internal/heimdall")

	for _, imp := range f.Imports {
		if strings.Trim(imp.Path.Value, "\"`") != heimdallPkg {
			continue
		}

		switch {
		case imp.Name == nil:
			heimdallNames["heimdall"] = true
		case imp.Name.Name == "." || imp.Name.Name == "_":
			fail(imp, "package internal/heimdall imported as %q", imp.Name.Name)
		default:
			heimdallNames[imp.Name.Name] = true
		}
	}

	return f
}

// the methods in which an authenticator / extractor looks for credentials and reports that there are none
func isEntry(d ast.Decl) bool {
	fd, ok := d.(*ast.FuncDecl)

	return ok && fd.Recv != nil && (fd.Name.Name == "Execute" || fd.Name.Name == "GetAuthData")
}

func factsOf(path string, strict bool) fileFacts {
	f := parse(path)
	ff := fileFacts{}
	inner := map[*ast.CallExpr]bool{}
	defs := map[*ast.Ident]bool{}
	accounted := 0

	for _, decl := range f.Decls {
		entry := isEntry(decl)

		ast.Inspect(decl, func(n ast.Node) bool {
			switch v := n.(type) {
			case *ast.CallExpr:
				if inner[v] {
					return true
				}

				if els, ok := chainOf(v, inner); ok {
					if entry {
						ff.entry = append(ff.entry, els)
					} else {
						ff.others = append(ff.others, els)
					}

					for _, e := range els {
						if e == ".k .argument" {
							accounted++
						}
					}

					return true
				}

				if sel, ok := v.Fun.(*ast.SelectorExpr); ok && sel.Sel.Name == "CausedBy" {
					if len(v.Args) != 1 {
						fail(v, "CausedBy with %d arguments", len(v.Args))
					}

					e := elem(v.Args[0])
					if e == ".k .argument" {
						accounted++
					}

					ff.loose = append(ff.loose, e)
				}
			case *ast.SelectorExpr:
				if k, ok := sentinel(v); ok && k == "argument" {
					ff.argument++
				}
			case *ast.ValueSpec:
				if inHeimdallPkg {
					for _, name := range v.Names {
						if name.Name == "ErrArgument" {
							defs[name] = true
						}
					}
				}
			case *ast.Ident:
				if inHeimdallPkg && v.Name == "ErrArgument" && !defs[v] {
					ff.argument++
					accounted++ // there is no constructor expression to account it to: reported as a mention
				}
			}

			return true
		})
	}

	if strict && accounted != ff.argument {
		fail(f, "%s: heimdall.ErrArgument is mentioned %d times, but only %d times inside an error chain constructor",
			path, ff.argument, accounted)
	}

	return ff
}

func leanList(items []string) string { return "[" + strings.Join(items, ", ") + "]" }

func leanSites(sites [][]string) string {
	if len(sites) == 0 {
		return "[]"
	}

	rows := make([]string, len(sites))
	for i, s := range sites {
		rows[i] = "    " + leanList(s)
	}

	return "[\n" + strings.Join(rows, ",\n") + " ]"
}

// ---------------------------------------------------------------------------------------------------------------
// the composite

type guard struct {
	onArgument, onFallbackFlag, boundCheck bool
	other                                  []string
}

func isCall(x ast.Expr, recv, name string) (*ast.CallExpr, bool) {
	c, ok := x.(*ast.CallExpr)
	if !ok {
		return nil, false
	}

	sel, ok := c.Fun.(*ast.SelectorExpr)
	if !ok || sel.Sel.Name != name {
		return nil, false
	}

	if id, ok := sel.X.(*ast.Ident); !ok || (recv != "" && id.Name != recv) {
		return nil, false
	}

	return c, true
}

func strip(x ast.Expr) ast.Expr {
	for {
		p, ok := x.(*ast.ParenExpr)
		if !ok {
			return x
		}

		x = p.X
	}
}

func disjuncts(x ast.Expr, op token.Token) []ast.Expr {
	x = strip(x)
	if b, ok := x.(*ast.BinaryExpr); ok && b.Op == op {
		return append(disjuncts(b.X, op), disjuncts(b.Y, op)...)
	}

	return []ast.Expr{x}
}

// ---- conditions written with the help of functions / methods of the same package and of local variables ---------

// inliner rewrites a condition of compositeSubjectCreator.Execute into an expression over the variables of Execute:
// a call of a function of the package or of a method of compositeSubjectCreator whose body consists of `x := <expr>`
// definitions followed by one `return <expr>` is replaced by that expression (parameters replaced by the arguments,
// locals by their definitions). Everything else is left as it stands (and then is no condition the model knows) or
// aborts the extraction.
type inliner struct {
	funcs   map[string]*ast.FuncDecl    // functions of the package
	methods map[string]*ast.FuncDecl    // methods of compositeSubjectCreator
	imports map[*ast.FuncDecl]*ast.File // the file a declaration stands in
	home    *ast.File                   // the file of Execute
	recv    string                      // the receiver variable of Execute
}

func importsOf(f *ast.File) map[string]string {
	res := map[string]string{}

	for _, imp := range f.Imports {
		path := strings.Trim(imp.Path.Value, "\"`")
		name := path[strings.LastIndex(path, "/")+1:]

		if imp.Name != nil {
			name = imp.Name.Name
		}

		res[name] = path
	}

	return res
}

func newInliner(path string, home *ast.File, recv string) *inliner {
	in := &inliner{
		funcs: map[string]*ast.FuncDecl{}, methods: map[string]*ast.FuncDecl{},
		imports: map[*ast.FuncDecl]*ast.File{}, home: home, recv: recv,
	}

	entries, err := os.ReadDir(filepath.Dir(path))
	if err != nil {
		fail(nil, "%v", err)
	}

	for _, e := range entries {
		name := e.Name()
		if e.IsDir() || !strings.HasSuffix(name, ".go") || strings.HasSuffix(name, "_test.go") {
			continue
		}

		f, err := parser.ParseFile(fset, filepath.Join(filepath.Dir(path), name), nil, parser.SkipObjectResolution)
		if err != nil {
			fail(nil, "%v", err)
		}

		for _, d := range f.Decls {
			fd, ok := d.(*ast.FuncDecl)
			if !ok || fd.Body == nil {
				continue
			}

			switch {
			case fd.Recv == nil:
				in.funcs[fd.Name.Name] = fd
			case strings.TrimPrefix(render(fd.Recv.List[0].Type), "*") == "compositeSubjectCreator":
				in.methods[fd.Name.Name] = fd
			default:
				continue
			}

			in.imports[fd] = f
		}
	}

	return in
}

// pure: an argument whose evaluation has no effect (so that it may be copied or dropped)
func pure(x ast.Expr) bool {
	ok := true

	ast.Inspect(x, func(n ast.Node) bool {
		switch v := n.(type) {
		case *ast.CallExpr:
			if id, isID := v.Fun.(*ast.Ident); !isID || id.Name != "len" {
				ok = false
			}
		case *ast.FuncLit:
			ok = false
		case *ast.UnaryExpr:
			if v.Op == token.ARROW {
				ok = false
			}
		}

		return ok
	})

	return ok
}

// paren puts x into parentheses unless it is atomic (so that it can stand for an identifier anywhere)
func paren(x ast.Expr) ast.Expr {
	switch x.(type) {
	case *ast.Ident, *ast.BasicLit, *ast.SelectorExpr, *ast.CallExpr, *ast.IndexExpr, *ast.ParenExpr:
		return x
	}

	return &ast.ParenExpr{X: x}
}

// expr resolves x. env: what the identifiers in scope stand for; in: the declaration x is part of (nil: Execute)
func (in *inliner) expr(x ast.Expr, env map[string]ast.Expr, decl *ast.FuncDecl, depth int) ast.Expr {
	switch v := x.(type) {
	case *ast.ParenExpr:
		return &ast.ParenExpr{X: in.expr(v.X, env, decl, depth)}
	case *ast.BinaryExpr:
		return &ast.BinaryExpr{X: in.expr(v.X, env, decl, depth), Op: v.Op, Y: in.expr(v.Y, env, decl, depth)}
	case *ast.UnaryExpr:
		return &ast.UnaryExpr{Op: v.Op, X: in.expr(v.X, env, decl, depth)}
	case *ast.BasicLit:
		return &ast.BasicLit{Kind: v.Kind, Value: v.Value}
	case *ast.Ident:
		if r, ok := env[v.Name]; ok {
			return r
		}

		if decl != nil {
			// inside a helper: nothing but builtins may be referred to besides parameters and locals
			switch v.Name {
			case "len", "nil", "true", "false":
			default:
				fail(v, "%s refers to %s, which is neither a parameter nor a local variable", decl.Name.Name, v.Name)
			}
		}

		// (copies carry no source position: the rewritten expression is printed in one canonical layout)
		return ast.NewIdent(v.Name)
	case *ast.SelectorExpr:
		if id, ok := v.X.(*ast.Ident); ok {
			if _, bound := env[id.Name]; !bound {
				// a package (inside a helper nothing else is left): the names the condition is recognised by have to
				// stand for the packages they stand for in today's source, in whichever file the helper is declared
				file := in.home
				if decl != nil {
					file = in.imports[decl]
				}

				path, imported := importsOf(file)[id.Name]
				if !imported && decl != nil {
					fail(v, "%s refers to %s, which is neither a parameter, a local variable nor an imported package",
						decl.Name.Name, id.Name)
				}

				if imported && ((id.Name == "errors" && path != "errors") || (id.Name == "heimdall" && path != heimdallPkg)) {
					fail(v, "%s stands for package %s here", id.Name, path)
				}

				return &ast.SelectorExpr{X: ast.NewIdent(id.Name), Sel: ast.NewIdent(v.Sel.Name)}
			}
		}

		return &ast.SelectorExpr{X: in.expr(v.X, env, decl, depth), Sel: ast.NewIdent(v.Sel.Name)}
	case *ast.IndexExpr:
		return &ast.IndexExpr{X: in.expr(v.X, env, decl, depth), Index: in.expr(v.Index, env, decl, depth)}
	case *ast.CallExpr:
		args := make([]ast.Expr, len(v.Args))
		for i, a := range v.Args {
			args[i] = in.expr(a, env, decl, depth)
		}

		var (
			helper *ast.FuncDecl
			self   ast.Expr
		)

		switch fun := v.Fun.(type) {
		case *ast.Ident:
			if _, shadowed := env[fun.Name]; !shadowed {
				helper = in.funcs[fun.Name]
			}

			if helper == nil {
				if decl != nil && fun.Name != "len" {
					fail(v, "%s calls %s, which is no function of the package", decl.Name.Name, fun.Name)
				}

				return &ast.CallExpr{Fun: ast.NewIdent(fun.Name), Args: args}
			}
		case *ast.SelectorExpr:
			sel, _ := in.expr(fun, env, decl, depth).(*ast.SelectorExpr)
			if sel == nil {
				fail(v, "call of %s is not understood", render(fun))
			}

			self = sel.X
			if render(strip(self)) == in.recv {
				helper = in.methods[sel.Sel.Name]
			}

			if helper == nil {
				return &ast.CallExpr{Fun: sel, Args: args}
			}
		default:
			if decl != nil {
				fail(v, "%s: call of %s", decl.Name.Name, render(v.Fun))
			}

			return v
		}

		return in.inline(v, helper, self, args, depth)
	}

	if decl != nil {
		fail(x, "%s: expression %s is not understood", decl.Name.Name, render(x))
	}

	return x
}

// inline: the value of the call helper(args) (self: the receiver, if helper is a method)
func (in *inliner) inline(call *ast.CallExpr, helper *ast.FuncDecl, self ast.Expr, args []ast.Expr, depth int) ast.Expr {
	name := helper.Name.Name

	if depth > 8 { //nolint:mnd
		fail(call, "calls nested too deeply (recursion?) at %s", name)
	}

	if helper.Type.TypeParams != nil || helper.Type.Results == nil || len(helper.Type.Results.List) != 1 ||
		len(helper.Type.Results.List[0].Names) != 0 || render(helper.Type.Results.List[0].Type) != "bool" {
		fail(helper, "%s is used in the condition of the fallback but does not return exactly one unnamed bool", name)
	}

	env := map[string]ast.Expr{}

	if self != nil && len(helper.Recv.List[0].Names) == 1 {
		env[helper.Recv.List[0].Names[0].Name] = self
	}

	var params []string

	for _, fld := range helper.Type.Params.List {
		if _, variadic := fld.Type.(*ast.Ellipsis); variadic || len(fld.Names) == 0 {
			fail(helper, "%s: variadic or unnamed parameters", name)
		}

		for _, n := range fld.Names {
			params = append(params, n.Name)
		}
	}

	if len(params) != len(args) {
		fail(call, "%s called with %d arguments, declared with %d parameters", name, len(args), len(params))
	}

	for i, p := range params {
		if !pure(args[i]) {
			fail(call, "argument %s of %s may have an effect", render(args[i]), name)
		}

		if p != "_" {
			env[p] = paren(args[i])
		}
	}

	for i, st := range helper.Body.List {
		switch v := st.(type) {
		case *ast.AssignStmt:
			id, ok := v.Lhs[0].(*ast.Ident)
			if !ok || v.Tok != token.DEFINE || len(v.Lhs) != 1 || len(v.Rhs) != 1 || id.Name == "_" {
				fail(v, "%s: statement %s is not understood", name, render(v))
			}

			if _, twice := env[id.Name]; twice {
				fail(v, "%s: %s is defined more than once", name, id.Name)
			}

			env[id.Name] = paren(in.expr(v.Rhs[0], env, helper, depth+1))
		case *ast.ReturnStmt:
			if i != len(helper.Body.List)-1 || len(v.Results) != 1 {
				fail(v, "%s: return statement is not understood", name)
			}

			return paren(in.expr(v.Results[0], env, helper, depth+1))
		default:
			fail(st, "%s: statement %s is not understood", name, render(st))
		}
	}

	fail(helper, "%s does not end with a return statement", name)

	return nil
}

func composite(path string) string {
	f := parse(path)

	var fn *ast.FuncDecl

	for _, d := range f.Decls {
		if fd, ok := d.(*ast.FuncDecl); ok && fd.Name.Name == "Execute" && fd.Recv != nil &&
			render(fd.Recv.List[0].Type) == "compositeSubjectCreator" {
			fn = fd
		}
	}

	if fn == nil {
		fail(f, "compositeSubjectCreator.Execute not found")
	}

	recv := fn.Recv.List[0].Names[0].Name

	var loops []*ast.RangeStmt

	ast.Inspect(fn, func(n ast.Node) bool {
		switch v := n.(type) {
		case *ast.RangeStmt:
			loops = append(loops, v)
		case *ast.ForStmt:
			fail(v, "unexpected for loop")
		case *ast.GoStmt, *ast.DeferStmt, *ast.SelectStmt, *ast.LabeledStmt:
			fail(v, "unexpected statement")
		case *ast.BranchStmt:
			if v.Tok == token.GOTO || v.Label != nil {
				fail(v, "unexpected branch")
			}
		}

		return true
	})

	if len(loops) != 1 || render(loops[0].X) != recv || loops[0].Tok != token.DEFINE {
		fail(fn, "expected exactly one loop ranging over the receiver")
	}

	loop := loops[0]
	idx, item := render(loop.Key), render(loop.Value)

	// body: [assign sub, err = item.Execute(ctx)] [if err != nil {...}] ... [return sub, nil]
	var (
		g         guard
		assigned  bool
		errBranch *ast.IfStmt
		okReturns bool
	)

	var subVar, errVar string

	// a statement that only calls something other than the authenticator (logging, accesscontext.SetSubject)
	sideCall := func(st ast.Stmt) bool {
		es, ok := st.(*ast.ExprStmt)
		if !ok {
			return false
		}

		if _, ok := es.X.(*ast.CallExpr); !ok {
			return false
		}

		r := render(es)

		return !strings.Contains(r, item+".Execute(") && !strings.Contains(r, ".IsFallbackOnErrorAllowed(") &&
			!strings.Contains(r, recv+"[")
	}

	// bookkeeping that cannot influence the loop: counters, assignments to other variables without calling the
	// authenticator
	harmless := func(st ast.Stmt) bool {
		touches := func(e ast.Expr) bool {
			r := render(e)

			return r == subVar || r == errVar || r == idx || r == item || r == recv || strings.HasPrefix(r, recv+"[")
		}

		switch v := st.(type) {
		case *ast.IncDecStmt:
			return !touches(v.X)
		case *ast.AssignStmt:
			for _, l := range v.Lhs {
				if _, ok := l.(*ast.Ident); !ok || touches(l) {
					return false
				}
			}

			r := render(v)

			return !strings.Contains(r, ".Execute(") && !strings.Contains(r, ".IsFallbackOnErrorAllowed(")
		}

		return false
	}

	for _, st := range loop.Body.List {
		switch v := st.(type) {
		case *ast.AssignStmt:
			if len(v.Rhs) == 1 {
				if c, ok := isCall(v.Rhs[0], item, "Execute"); ok && len(c.Args) == 1 && len(v.Lhs) == 2 {
					if assigned || errBranch != nil {
						fail(v, "authenticator executed more than once per iteration")
					}

					assigned = true
					subVar, errVar = render(v.Lhs[0]), render(v.Lhs[1])

					continue
				}
			}

			if !harmless(v) {
				fail(v, "unexpected assignment in the loop: %s", render(v))
			}
		case *ast.IncDecStmt:
			if !harmless(v) {
				fail(v, "unexpected statement in the loop: %s", render(v))
			}
		case *ast.IfStmt:
			if !assigned || errBranch != nil || v.Init != nil || v.Else != nil || render(v.Cond) != errVar+" != nil" {
				fail(v, "unexpected if statement in the loop")
			}

			errBranch = v
		case *ast.ExprStmt:
			if !sideCall(v) {
				fail(v, "unexpected statement in the loop: %s", render(v))
			}
		case *ast.ReturnStmt:
			if errBranch == nil || len(v.Results) != 2 || render(v.Results[1]) != "nil" || render(v.Results[0]) != subVar {
				fail(v, "unexpected return in the loop: %s", render(v))
			}

			okReturns = true
		default:
			fail(st, "unexpected statement in the loop: %s", render(st))
		}
	}

	if errBranch == nil || !okReturns {
		fail(loop, "loop without error branch or without return of the subject")
	}

	// error branch: logging, if <guard> { logging; continue }, break
	var (
		guardIf *ast.IfStmt
		breaks  bool
	)

	// local variables of the error branch that are defined once, before the guard, and never assigned again: the
	// guard may be written with their help
	inl := newInliner(path, f, recv)
	locals := map[string]ast.Expr{}
	assignments := map[string]int{}

	ast.Inspect(fn, func(n ast.Node) bool {
		switch v := n.(type) {
		case *ast.AssignStmt:
			for _, l := range v.Lhs {
				assignments[render(l)]++
			}
		case *ast.IncDecStmt:
			assignments[render(v.X)]++
		case *ast.UnaryExpr:
			if v.Op == token.AND {
				assignments[render(v.X)] += 2 //nolint:mnd
			}
		}

		return true
	})

	definesCondition := func(v *ast.AssignStmt) bool {
		if v.Tok != token.DEFINE || len(v.Lhs) != 1 || len(v.Rhs) != 1 || guardIf != nil {
			return false
		}

		id, ok := v.Lhs[0].(*ast.Ident)
		if !ok || id.Name == "_" || assignments[id.Name] != 1 {
			return false
		}

		for _, taken := range []string{subVar, errVar, idx, item, recv} {
			if id.Name == taken {
				return false
			}
		}

		val := inl.expr(v.Rhs[0], locals, nil, 0)
		if strings.Contains(render(val), ".Execute(") {
			return false
		}

		locals[id.Name] = paren(val)

		return true
	}

	for _, st := range errBranch.Body.List {
		switch v := st.(type) {
		case *ast.ExprStmt:
			if !sideCall(v) {
				fail(v, "unexpected statement in the error branch: %s", render(v))
			}
		case *ast.IfStmt:
			if guardIf != nil || breaks || v.Init != nil || v.Else != nil {
				fail(v, "unexpected if statement in the error branch")
			}

			guardIf = v
		case *ast.BranchStmt:
			if v.Tok != token.BREAK || guardIf == nil {
				fail(v, "unexpected branch in the error branch")
			}

			breaks = true
		case *ast.ReturnStmt:
			// `return nil, err` is what `break` leads to
			if guardIf == nil || len(v.Results) != 2 || render(v.Results[0]) != "nil" || render(v.Results[1]) != errVar {
				fail(v, "unexpected return in the error branch: %s", render(v))
			}

			breaks = true
		case *ast.IncDecStmt, *ast.AssignStmt:
			if as, ok := v.(*ast.AssignStmt); ok && definesCondition(as) {
				continue
			}

			if !harmless(v) {
				fail(v, "unexpected statement in the error branch: %s", render(v))
			}
		default:
			fail(st, "unexpected statement in the error branch: %s", render(st))
		}
	}

	if guardIf == nil || !breaks {
		fail(errBranch, "error branch without guarded continue followed by break")
	}

	continues := false

	for _, st := range guardIf.Body.List {
		switch v := st.(type) {
		case *ast.ExprStmt:
			if !sideCall(v) {
				fail(v, "unexpected statement in the fallback branch: %s", render(v))
			}
		case *ast.BranchStmt:
			if v.Tok != token.CONTINUE {
				fail(v, "unexpected branch in the fallback branch")
			}

			continues = true
		case *ast.IncDecStmt, *ast.AssignStmt:
			if !harmless(v) {
				fail(v, "unexpected statement in the fallback branch: %s", render(v))
			}
		default:
			fail(st, "unexpected statement in the fallback branch: %s", render(st))
		}
	}

	if !continues {
		fail(guardIf, "fallback branch does not continue")
	}

	// guard: the bound check and ONE disjunction, after calls of helpers of the package and local variables have been
	// replaced by what they stand for; every further conjunct is a condition the model does not know
	decided := false

	for _, conj := range disjuncts(inl.expr(guardIf.Cond, locals, nil, 0), token.LAND) {
		r := render(strip(conj))
		if r == idx+" < len("+recv+")" || r == idx+" < len("+recv+")-1" {
			g.boundCheck = true

			continue
		}

		if decided {
			g.other = append(g.other, r)

			continue
		}

		decided = true

		for _, d := range disjuncts(conj, token.LOR) {
			rd := render(strip(d))

			switch {
			case rd == "errors.Is("+errVar+", heimdall.ErrArgument)":
				g.onArgument = true
			case rd == item+".IsFallbackOnErrorAllowed()":
				g.onFallbackFlag = true
			default:
				g.other = append(g.other, rd)
			}
		}
	}

	// after the loop: return nil, err
	last := fn.Body.List[len(fn.Body.List)-1]
	if r, ok := last.(*ast.ReturnStmt); !ok || len(r.Results) != 2 || render(r.Results[0]) != "nil" ||
		render(r.Results[1]) != errVar {
		fail(last, "the function does not end with returning the last error")
	}

	return fmt.Sprintf("{ onArgument := %v, onFallbackFlag := %v, otherConditions := %d }",
		g.onArgument, g.onFallbackFlag, len(g.other))
}

// ---------------------------------------------------------------------------------------------------------------

// closure lists the directories of all packages of the module the given roots depend on (transitively, `go list
// -deps`), the roots included
func closure(root string) []string {
	cmd := exec.Command("go", "list", "-deps", "-f", "{{if not .Standard}}{{.ImportPath}}\t{{.Dir}}{{end}}",
		"./internal/rules/mechanisms/authenticators/...", "./internal/cache/...",
		"./internal/rules/mechanisms/contenttype/...")
	cmd.Dir = root

	var stderr bytes.Buffer

	cmd.Stderr = &stderr

	outp, err := cmd.Output()
	if err != nil {
		fail(nil, "go list -deps failed: %v: %s", err, stderr.String())
	}

	var dirs []string

	for _, line := range strings.Split(strings.TrimSpace(string(outp)), "\n") {
		parts := strings.Split(line, "\t")
		if len(parts) != 2 || !strings.HasPrefix(parts[0], "github.com/dadrus/heimdall/") {
			continue
		}

		if strings.Contains(parts[0], "/mocks") {
			continue
		}

		dirs = append(dirs, parts[1])
	}

	if len(dirs) < 10 {
		fail(nil, "go list -deps returned only %d packages of the module", len(dirs))
	}

	sort.Strings(dirs)

	return dirs
}

// algorithms reads the list returned by supportedAlgorithms()
func algorithms(path string) []string {
	f := parse(path)

	var res []string

	found := false

	for _, d := range f.Decls {
		fd, ok := d.(*ast.FuncDecl)
		if !ok || fd.Name.Name != "supportedAlgorithms" || fd.Recv != nil {
			continue
		}

		found = true

		if len(fd.Body.List) != 1 {
			fail(fd, "supportedAlgorithms is expected to consist of one return statement")
		}

		ret, ok := fd.Body.List[0].(*ast.ReturnStmt)
		if !ok || len(ret.Results) != 1 {
			fail(fd, "supportedAlgorithms is expected to consist of one return statement")
		}

		lit, ok := ret.Results[0].(*ast.CompositeLit)
		if !ok {
			fail(ret, "supportedAlgorithms is expected to return a composite literal")
		}

		for _, e := range lit.Elts {
			sel, ok := e.(*ast.SelectorExpr)
			if !ok {
				fail(e, "unexpected element %s", render(e))
			}

			if pkg, ok := sel.X.(*ast.Ident); !ok || pkg.Name != "jose" {
				fail(e, "unexpected element %s", render(e))
			}

			switch sel.Sel.Name {
			case "ES256", "ES384", "ES512", "EdDSA", "PS256", "PS384", "PS512", "RS256", "RS384", "RS512", "HS256",
				"HS384", "HS512":
				res = append(res, "."+sel.Sel.Name)
			default:
				fail(e, "unknown signature algorithm %s", sel.Sel.Name)
			}
		}
	}

	if !found {
		fail(f, "supportedAlgorithms not found")
	}

	return res
}

func main() {
	if len(os.Args) == 3 && os.Args[1] == "-soft-guard" {
		softGuard = true
		os.Args = []string{os.Args[0], os.Args[2]}
	}

	if len(os.Args) != 2 {
		fail(nil, "usage: authn [-soft-guard] <repository root>")
	}

	root := os.Args[1]
	adir := filepath.Join(root, "internal/rules/mechanisms/authenticators")

	named := []struct{ lean, file string }{
		{"anonymous", "anonymous_authenticator.go"},
		{"unauthorized", "unauthorized_authenticator.go"},
		{"basic", "basic_auth_authenticator.go"},
		{"jwt", "jwt_authenticator.go"},
		{"introspection", "oauth2_introspection_authenticator.go"},
		{"generic", "generic_authenticator.go"},
		{"headerExtractor", "extractors/header_value_extract_strategy.go"},
		{"queryExtractor", "extractors/query_parameter_extract_strategy.go"},
		{"cookieExtractor", "extractors/cookie_value_extract_strategy.go"},
		{"bodyExtractor", "extractors/body_parameter_extract_strategy.go"},
		{"compositeExtractor", "extractors/composite_extract_strategy.go"},
	}

	var out strings.Builder

	out.WriteString("import HeimdallModel.Model.Authn\n")
	out.WriteString("/-! GENERATED by extract/authn from the working tree of the repository on every check run — do not edit.\n")
	out.WriteString("The error values the authenticators construct, as the source states them. -/\n")
	out.WriteString("namespace Heimdall.Authn.Gen\nopen Heimdall.Authn\n\n")

	known := map[string]bool{}

	for _, n := range named {
		path := filepath.Join(adir, n.file)
		known[path] = true
		ff := factsOf(path, true)
		fmt.Fprintf(&out, "/-- `%s` -/\ndef %s : FileFacts :=\n  { entry := %s,\n    others := %s,\n    loose := %s }\n\n",
			n.file, n.lean, leanSites(ff.entry), leanSites(ff.others), leanList(ff.loose))
	}

	// every other non-test source file of the module that the authenticators (and the cache implementations and body
	// decoders they meet at run time) depend on, transitively: mentions of ErrArgument
	var (
		others []string
		pkgs   int
	)

	for _, dir := range closure(root) {
		pkgs++

		entries, err := os.ReadDir(dir)
		if err != nil {
			fail(nil, "%v", err)
		}

		for _, e := range entries {
			name := e.Name()
			if e.IsDir() || !strings.HasSuffix(name, ".go") || strings.HasSuffix(name, "_test.go") {
				continue
			}

			path := filepath.Join(dir, name)
			if known[path] {
				continue
			}

			ff := factsOf(path, false)
			if ff.argument != 0 {
				rel, _ := filepath.Rel(root, path)
				others = append(others, fmt.Sprintf("%s: %d", rel, ff.argument))
			}
		}
	}

	sort.Strings(others)

	fmt.Fprintf(&out, "/-- mentions of the sentinel `ErrArgument` (under whatever name package `internal/heimdall` is imported) in any\n"+
		"other source file of the %d packages of the module that the authenticators, the cache implementations and the body\n"+
		"decoders depend on (`go list -deps`)%s -/\n", pkgs,
		func() string {
			if len(others) == 0 {
				return ""
			}

			return ": " + strings.Join(others, "; ")
		}())
	fmt.Fprintf(&out, "def argumentMentionsElsewhere : Nat := %d\n\n", len(others))

	fmt.Fprintf(&out, "/-- `supportedAlgorithms()` (`supported_algorithms.go`): what `jwt.ParseSigned` is told to accept -/\n"+
		"def supportedAlgorithms : List Alg :=\n  %s\n\n", leanList(algorithms(filepath.Join(adir, "supported_algorithms.go"))))

	fmt.Fprintf(&out, "/-- `compositeSubjectCreator.Execute` (`internal/rules/composite_subject_creator.go`): one loop over the\n"+
		"authenticators in order, the first success is returned, a failure leads to the next authenticator under this\n"+
		"condition and ends the loop otherwise, the last error is returned -/\n")
	fmt.Fprintf(&out, "def compositeGuard : Guard :=\n  %s\n\n", compositeOrFallback(filepath.Join(root, "internal/rules/composite_subject_creator.go")))
	out.WriteString("end Heimdall.Authn.Gen\n")

	fmt.Print(out.String())
}
