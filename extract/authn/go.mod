module verif/extract/authn

go 1.23
