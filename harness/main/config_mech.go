package main

// Family "config" (property C20), op "mech": what the process does with the mechanism catalogue on start up, on the
// real code: config.NewConfiguration (real schema validation of the file, real loader) followed by
// mechanisms.NewMechanismFactory, which creates every mechanism of the catalogue from its `config` through the
// registered type factories (decodeConfig with ErrorUnused). A configuration is USABLE when both succeed.
//
// Reported: {"stage": "ok" | "schema" | "config" | "create" | "panic"} and "refused": per place below the mechanism's
// `config` the option names the failing stage refuses BY NAME (file validation: the `additionalProperties` errors of the
// alternative of the mechanism's own type, read off the structured validation error; type factory: mapstructure's
// `has invalid keys`). With "validate": true only the file validation runs (what the schema says about the file,
// whatever the loader thinks).

import (
	"errors"
	"regexp"
	"sort"
	"strconv"
	"strings"

	"github.com/go-jose/go-jose/v4"
	"github.com/rs/zerolog"
	"github.com/santhosh-tekuri/jsonschema/v6"
	"github.com/santhosh-tekuri/jsonschema/v6/kind"

	"github.com/dadrus/heimdall/internal/config"
	"github.com/dadrus/heimdall/internal/keyholder"
	"github.com/dadrus/heimdall/internal/otel/metrics/certificate"
	"github.com/dadrus/heimdall/internal/rules/mechanisms"
	"github.com/dadrus/heimdall/internal/watcher"
)

type c20Watcher struct{}

func (c20Watcher) Add(string, watcher.ChangeListener) error { return nil }

type c20KeyHolders struct{}

func (c20KeyHolders) AddKeyHolder(keyholder.KeyHolder) {}
func (c20KeyHolders) Keys() []jose.JSONWebKey          { return nil }

type c20Observer struct{}

func (c20Observer) Add(certificate.Supplier) {}
func (c20Observer) Start() error             { return nil }

var c20InvalidRe = regexp.MustCompile(`'([^'\n]*)' has invalid keys: ([^\n]*)`)

// c20Place: a place below a mechanism's `config` in one spelling for both sides: the empty text (the config itself), `endpoint`,
// `endpoint.retry`, `expressions[0]`
func c20Place(segs []string) string {
	var sb strings.Builder

	for _, seg := range segs {
		if _, err := strconv.Atoi(seg); err == nil {
			sb.WriteString("[" + seg + "]")

			continue
		}

		if sb.Len() != 0 {
			sb.WriteString(".")
		}

		sb.WriteString(seg)
	}

	return sb.String()
}

// c20SchemaRefusals: the names the file validation refuses BY NAME (`additionalProperties`), per place. Where the schema
// offers alternatives selected by a `type` constant (the mechanism kinds of one category), only the alternative of the
// instance's own type counts: an alternative whose `type` constant does not fit says nothing about this mechanism.
// Places are relative to `/mechanisms/<category>/<index>/config`; a refusal of `config` itself is reported at place `-`.
func c20SchemaRefusals(err error, res map[string][]string) {
	var verr *jsonschema.ValidationError
	if !errors.As(err, &verr) {
		return
	}

	var walk func(e *jsonschema.ValidationError) (map[string][]string, bool)

	walk = func(e *jsonschema.ValidationError) (map[string][]string, bool) {
		found := map[string][]string{}
		wrongType := false

		switch k := e.ErrorKind.(type) {
		case *kind.AdditionalProperties:
			loc := e.InstanceLocation
			if len(loc) >= 4 && loc[0] == "mechanisms" && loc[3] == "config" {
				place := c20Place(loc[4:])
				found[place] = append(found[place], k.Properties...)
			} else if len(loc) == 3 && loc[0] == "mechanisms" {
				for _, name := range k.Properties {
					if name == "config" {
						found["-"] = append(found["-"], name)
					}
				}
			}
		case *kind.Const, *kind.Enum:
			loc := e.InstanceLocation
			if len(loc) == 4 && loc[0] == "mechanisms" && loc[3] == "type" {
				wrongType = true
			}
		}

		_, anyOf := e.ErrorKind.(*kind.AnyOf)
		_, oneOf := e.ErrorKind.(*kind.OneOf)

		for _, cause := range e.Causes {
			sub, wrong := walk(cause)

			if (anyOf || oneOf) && wrong {
				continue // the alternative of another mechanism type
			}

			if wrong {
				wrongType = true
			}

			for place, names := range sub {
				found[place] = append(found[place], names...)
			}
		}

		return found, wrongType
	}

	found, _ := walk(verr)
	for place, names := range found {
		res[place] = append(res[place], names...)
	}
}

// c20LoaderRefusals: the names a type factory refuses BY NAME (mapstructure `ErrorUnused`), per place
func c20LoaderRefusals(err error, res map[string][]string) {
	for _, m := range c20InvalidRe.FindAllStringSubmatch(err.Error(), -1) {
		place := m[1]

		for _, part := range strings.Split(m[2], ",") {
			if name := strings.TrimSpace(part); name != "" {
				res[place] = append(res[place], name)
			}
		}
	}
}

func c20SortedRefusals(res map[string][]string) map[string]any {
	out := map[string]any{}

	for place, names := range res {
		seen := map[string]bool{}
		uniq := []string{}

		for _, n := range names {
			if !seen[n] {
				seen[n] = true
				uniq = append(uniq, n)
			}
		}

		sort.Strings(uniq)
		out[place] = uniq
	}

	return out
}

func c20Mech(c map[string]any, file string) (out any) {
	defer func() {
		if r := recover(); r != nil {
			out = map[string]any{"stage": "panic"}
		}
	}()

	debug := getBool(c, "debug")

	answer := func(stage string, err error, schema bool) any {
		res := map[string]any{"stage": stage}

		if err != nil {
			refused := map[string][]string{}

			if schema {
				c20SchemaRefusals(err, refused)
			} else {
				c20LoaderRefusals(err, refused)
			}

			res["refused"] = c20SortedRefusals(refused)

			if debug {
				res["msg"] = err.Error()
			}
		}

		return res
	}

	if getBool(c, "validate") {
		if err := config.ValidateConfig(file); err != nil {
			return answer(strings.TrimPrefix(c20ErrKind(err), "err:"), err, true)
		}

		return answer("ok", nil, true)
	}

	cfg, err := config.NewConfiguration(config.EnvVarPrefix(c20EnvPrefix(c)), config.ConfigurationPath(file))
	if err != nil {
		kind := c20ErrKind(err)
		if strings.HasPrefix(kind, "err:schema") {
			return answer("schema", err, true)
		}

		return answer("config", err, false)
	}

	if cfg.Prototypes == nil {
		return answer("ok", nil, false)
	}

	if _, err = mechanisms.NewMechanismFactory(cfg, zerolog.Nop(), c20Watcher{}, c20KeyHolders{}, c20Observer{}); err != nil {
		return answer("create", err, false)
	}

	return answer("ok", nil, false)
}
