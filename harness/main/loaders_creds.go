package main

// Family "loaders", operation "creds" (property C19): the hot-reloaded credentials file of the redis cache
// (internal/cache/redis: fileCredentials).  The file is read once when the configuration is decoded and again on
// the watcher goroutine whenever it is written; rueidis asks for the credentials on goroutines of its own whenever
// it (re-)connects, where nothing recovers.
//
//   describe  what generic YAML decoding (yaml.v3 into a yaml.Node; nothing of heimdall involved) finds in each text:
//             no document / not YAML / null / scalar / sequence / mapping with its keys and the kinds of its values.
//             This is the descriptor the model works on.
//   direct    the real fileCredentials (created by the real decode hook, wired by the real clientOptions): start with
//             the first content, then OnChanged() after each further content, the real AuthCredentialsFn after each
//   watch     the same below the real fsnotify watcher: the file is rewritten, the watcher goroutine reloads
//
// Asking for the credentials is done under recover here, so that the case can report it; in heimdall a panic there
// ends the process.

import (
	"bytes"
	"errors"
	"io"
	"os"
	"path/filepath"
	"time"

	"github.com/rs/zerolog"
	"gopkg.in/yaml.v3"

	"github.com/dadrus/heimdall/internal/cache/redis"
	"github.com/dadrus/heimdall/internal/watcher"
)

func c19Latin1(text string, latin1 bool) []byte {
	if !latin1 {
		return []byte(text)
	}

	raw := make([]byte, 0, len(text))
	for _, r := range text {
		raw = append(raw, byte(r))
	}

	return raw
}

// c19DescribeYAML: see above. "exotic": something the model has no word for (aliases, merge keys, explicit tags,
// keys that are no scalars); such contents are judged by the specification only.
func c19DescribeYAML(raw []byte) (res map[string]any) {
	defer func() {
		if r := recover(); r != nil {
			res = map[string]any{"kind": "exotic"}
		}
	}()

	var doc yaml.Node

	if err := yaml.NewDecoder(bytes.NewReader(raw)).Decode(&doc); err != nil {
		if errors.Is(err, io.EOF) {
			return map[string]any{"kind": "none"}
		}

		return map[string]any{"kind": "malformed"}
	}

	if doc.Kind != yaml.DocumentNode || len(doc.Content) != 1 {
		return map[string]any{"kind": "exotic"}
	}

	top := doc.Content[0]
	if top.Style&yaml.TaggedStyle != 0 {
		return map[string]any{"kind": "exotic"}
	}

	switch top.Kind {
	case yaml.ScalarNode:
		if top.ShortTag() == "!!null" {
			return map[string]any{"kind": "null"}
		}

		return map[string]any{"kind": "scalar"}
	case yaml.SequenceNode:
		return map[string]any{"kind": "seq"}
	case yaml.MappingNode:
		fields := []any{}

		for i := 0; i+1 < len(top.Content); i += 2 {
			key, val := top.Content[i], top.Content[i+1]
			if key.Kind != yaml.ScalarNode || key.Style&yaml.TaggedStyle != 0 || key.ShortTag() == "!!merge" ||
				key.ShortTag() == "!!binary" || val.Style&yaml.TaggedStyle != 0 {
				return map[string]any{"kind": "exotic"}
			}

			if key.ShortTag() == "!!null" {
				return map[string]any{"kind": "exotic"}
			}

			name := key.Value

			var v any

			switch val.Kind {
			case yaml.ScalarNode:
				switch val.ShortTag() {
				case "!!null":
					v = nil
				case "!!binary", "!!merge":
					return map[string]any{"kind": "exotic"}
				default:
					v = map[string]any{"scalar": val.Value}
				}
			case yaml.SequenceNode, yaml.MappingNode:
				v = "collection"
			default:
				return map[string]any{"kind": "exotic"}
			}

			fields = append(fields, []any{name, v})
		}

		return map[string]any{"kind": "map", "fields": fields}
	default:
		return map[string]any{"kind": "exotic"}
	}
}

func c19CredsState(c *redis.VerifC19Creds) any {
	var state any

	cls, _ := c19Guard(func() error {
		user, pass, err := c.Get()
		if err != nil {
			return err
		}

		state = map[string]any{"user": user, "pass": pass}

		return nil
	})
	if cls != "ok" {
		return cls
	}

	return state
}

// c19CredsOp: {"mode": "describe"|"direct"|"watch", "contents": [text...], "latin1": bool, "expect_states": [...]}
func c19CredsOp(c map[string]any) (any, error) {
	contents := getStrs(c, "contents")
	latin1 := getBool(c, "latin1")

	if getStr(c, "mode") == "describe" {
		res := make([]any, 0, len(contents))
		for _, text := range contents {
			res = append(res, c19DescribeYAML(c19Latin1(text, latin1)))
		}

		return map[string]any{"docs": res}, nil
	}

	if len(contents) == 0 {
		return nil, errors.New("loaders: creds without contents")
	}

	dir, err := c19TempDir()
	if err != nil {
		return nil, err
	}

	defer os.RemoveAll(dir)

	path := filepath.Join(dir, "credentials.yaml")
	if err = os.WriteFile(path, c19Latin1(contents[0], latin1), 0o600); err != nil {
		return nil, err
	}

	watched := getStr(c, "mode") == "watch"
	log := &c19Log{}

	var cw watcher.Watcher = &watcher.NoopWatcher{}

	if watched {
		w, err := watcher.VerifC19NewWatcher(zerolog.New(log))
		if err != nil {
			return nil, err
		}

		w.Start()

		defer w.Stop() //nolint:errcheck

		cw = w.Watcher()
	}

	var creds *redis.VerifC19Creds

	cls, detail := c19Guard(func() error {
		var err error

		creds, err = redis.VerifC19NewCreds(path, cw)

		return err
	})

	res := map[string]any{"start": cls}
	if watched {
		res["alive"] = true
	}

	if cls != "ok" {
		// heimdall does not start with such a file: there is nothing to reload
		if cls == "panic" {
			res["detail"] = detail
		}

		return res, nil
	}

	states := []any{c19CredsState(creds)}
	reloads := []any{}
	expect := getArr(c, "expect_states")

	for i, content := range contents[1:] {
		before := log.lines()

		if err = os.WriteFile(path, c19Latin1(content, latin1), 0o600); err != nil {
			return nil, err
		}

		if !watched {
			cls, detail = c19Reload(creds.Listener())
			reloads = append(reloads, cls)

			if cls == "panic" || cls == "unlogged" {
				res["detail"] = detail
			}
		} else {
			var want string
			if i+1 < len(expect) {
				want = c19Canon(expect[i+1])
			}

			// the listener has run at least once for this content (it logs the result of every run), and, if the
			// model expects the content to be taken over, it has been
			// (credentials that cannot be asked for any more will not get better by waiting)
			ok := c19WaitFor(func() bool {
				if log.lines() <= before {
					return false
				}

				cur := c19CredsState(creds)

				return want == "" || cur == "panic" || c19Canon(cur) == want
			})
			if !ok {
				res["timeout"] = true
			}

			time.Sleep(c19Settle)
		}

		states = append(states, c19CredsState(creds))
	}

	res["states"] = states
	if !watched {
		res["reloads"] = reloads
	}

	return res, nil
}
