package main

// Family "errmap", ops "svc" and "cfgkeys" (property C12): the decision, proxy and Envoy gRPC services of /repo are
// assembled from a configuration file with the real configuration loader, the real mechanism catalogue, the real
// rule factory / repository / executor and the services' own constructors, and are served on loopback ports chosen
// by the kernel. Failures are provoked with real mechanisms; the error which reaches the translators is recorded by
// a wrapper around the real rule executor.

import (
	"bufio"
	"context"
	"errors"
	"fmt"
	"io"
	"net"
	"net/http"
	"os"
	"path/filepath"
	"strings"
	"sync"
	"time"

	envoy_auth "github.com/envoyproxy/go-control-plane/envoy/service/auth/v3"
	"github.com/rs/zerolog"
	"go.uber.org/fx"
	"google.golang.org/grpc"
	"google.golang.org/grpc/credentials/insecure"

	"github.com/dadrus/heimdall/internal/cache"
	cachemodule "github.com/dadrus/heimdall/internal/cache/module"
	"github.com/dadrus/heimdall/internal/config"
	"github.com/dadrus/heimdall/internal/handler/decision"
	"github.com/dadrus/heimdall/internal/handler/envoyextauth/grpcv3"
	"github.com/dadrus/heimdall/internal/handler/proxy"
	"github.com/dadrus/heimdall/internal/heimdall"
	"github.com/dadrus/heimdall/internal/keyholder"
	"github.com/dadrus/heimdall/internal/logging"
	"github.com/dadrus/heimdall/internal/otel/metrics/certificate"
	"github.com/dadrus/heimdall/internal/rules"
	"github.com/dadrus/heimdall/internal/rules/endpoint"
	"github.com/dadrus/heimdall/internal/rules/mechanisms"
	"github.com/dadrus/heimdall/internal/rules/rule"
	"github.com/dadrus/heimdall/internal/watcher"
)

const c12Rules = `
version: "1alpha4"
name: c12
rules:
- id: ok
  match: { routes: [ { path: /ok } ] }
  forward_to: { host: "UPSTREAM" }
  execute:
    - authenticator: anon
- id: authn
  match: { routes: [ { path: /authn } ] }
  forward_to: { host: "UPSTREAM" }
  execute:
    - authenticator: deny_all
- id: authz
  match: { routes: [ { path: /authz } ] }
  forward_to: { host: "UPSTREAM" }
  execute:
    - authenticator: anon
    - authorizer: deny
- id: comm
  match: { routes: [ { path: /comm } ] }
  forward_to: { host: "UPSTREAM" }
  execute:
    - authenticator: anon
    - authorizer: remote_dead
- id: slash
  match: { routes: [ { path: "/slash/:x" } ] }
  forward_to: { host: "UPSTREAM" }
  execute:
    - authenticator: anon
- id: internal
  match: { routes: [ { path: /internal } ] }
  forward_to: { host: "UPSTREAM" }
  execute:
    - authenticator: anon
    - finalizer: failing_header
- id: leak
  match: { routes: [ { path: /leak } ] }
  forward_to: { host: "UPSTREAM" }
  execute:
    - authenticator: anon
    - finalizer: secret_header
    - finalizer: failing_header
- id: leakwww
  match: { routes: [ { path: /leakwww } ] }
  forward_to: { host: "UPSTREAM" }
  execute:
    - authenticator: anon
    - finalizer: secret_header
    - finalizer: failing_header
  on_error:
    - error_handler: challenge
- id: redirect
  match: { routes: [ { path: /redirect } ] }
  forward_to: { host: "UPSTREAM" }
  execute:
    - authenticator: deny_all
  on_error:
    - error_handler: to_login
- id: www
  match: { routes: [ { path: /www } ] }
  forward_to: { host: "UPSTREAM" }
  execute:
    - authenticator: deny_all
  on_error:
    - error_handler: challenge
- id: basic
  match: { routes: [ { path: /basic } ] }
  forward_to: { host: "UPSTREAM" }
  execute:
    - authenticator: basic
  on_error:
    - error_handler: challenge
      if: type(Error) == authentication_error
- id: celauthz
  match: { routes: [ { path: /cel/authz } ] }
  forward_to: { host: "UPSTREAM" }
  execute:
    - authenticator: anon
    - authorizer: cel_mode
- id: celattr
  match: { routes: [ { path: /cel/attr } ] }
  forward_to: { host: "UPSTREAM" }
  execute:
    - authenticator: anon
    - authorizer: cel_role
- id: celdiv
  match: { routes: [ { path: /cel/div } ] }
  forward_to: { host: "UPSTREAM" }
  execute:
    - authenticator: anon
    - authorizer: cel_div
- id: celstepif
  match: { routes: [ { path: /cel/stepif } ] }
  forward_to: { host: "UPSTREAM" }
  execute:
    - authenticator: anon
    - authorizer: deny
      if: '{"ok": true, "deny": false}[Request.Header("X-Mode")]'
- id: celehif
  match: { routes: [ { path: /cel/ehif } ] }
  forward_to: { host: "UPSTREAM" }
  execute:
    - authenticator: deny_all
  on_error:
    - error_handler: to_login
      if: '{"ok": true, "deny": false}[Request.Header("X-Mode")]'
    - error_handler: challenge
- id: celehlast
  match: { routes: [ { path: /cel/ehlast } ] }
  forward_to: { host: "UPSTREAM" }
  execute:
    - authenticator: anon
    - authorizer: deny
  on_error:
    - error_handler: to_login
      if: type(Error) == authentication_error
    - error_handler: challenge
      if: '[true, false][Request.Header("X-Mode").size() - 2]'
- id: unreachable
  match: { routes: [ { path: /unreachable } ] }
  forward_to: { host: "DEADHOST" }
  execute:
    - authenticator: anon
- id: hangcomm
  match: { routes: [ { path: /hang/comm } ] }
  forward_to: { host: "UPSTREAM" }
  execute:
    - authenticator: anon
    - authorizer: remote_blocked
- id: hanggeneric
  match: { routes: [ { path: /hang/generic } ] }
  forward_to: { host: "UPSTREAM" }
  execute:
    - authenticator: generic_blocked
- id: hangupstream
  match: { routes: [ { path: /hang/upstream } ] }
  forward_to: { host: "BLOCKEDHOST" }
  execute:
    - authenticator: anon
`

const c12Config = `
serve:
  decision: { host: 127.0.0.1, port: 0 }
  proxy: { host: 127.0.0.1, port: 0 }
  management: { host: 127.0.0.1, port: 0 }
log: { level: error }
mechanisms:
  authenticators:
    - id: anon
      type: anonymous
    - id: deny_all
      type: unauthorized
    - id: basic
      type: basic_auth
      config: { user_id: user, password: secret }
    - id: generic_blocked
      type: generic
      config:
        identity_info_endpoint: { url: "http://BLOCKEDHOST/userinfo" }
        authentication_data_source: [ { header: X-Token } ]
        subject: { id: sub }
  authorizers:
    - id: deny
      type: deny
    - id: cel_mode
      type: cel
      config:
        expressions:
          - expression: '{"ok": true, "deny": false}[Request.Header("X-Mode")]'
    - id: cel_div
      type: cel
      config:
        expressions:
          - expression: '10 / (Request.Header("X-Mode").size() - 2) > 3'
    - id: cel_role
      type: cel
      config:
        expressions:
          - expression: 'Subject.Attributes.role == "admin"'
    - id: remote_dead
      type: remote
      config:
        endpoint: { url: "http://DEADHOST/authz" }
        payload: "{}"
    - id: remote_blocked
      type: remote
      config:
        endpoint: { url: "http://BLOCKEDHOST/authz" }
        payload: "{}"
  finalizers:
    - id: secret_header
      type: header
      config:
        headers:
          X-Internal-Token: "secret-for-the-upstream"
          WWW-Authenticate-Not: "nope"
    - id: failing_header
      type: header
      config:
        headers:
          X-Fail: '{{ fail "template failure" }}'
  error_handlers:
    - id: to_login
      type: redirect
      config:
        to: "http://login.local/sign-in?origin={{ .Request.URL.Path | urlenc }}"
providers:
  file_system:
    src: RULESFILE
`

// c12WaitStep is a scripted pipeline step behind a `/ctxwait/...` path: it waits on "a remote system" with the
// context of the request, as every mechanism of heimdall does, and fails the way the mechanisms fail when that context
// is done meanwhile. Either a real outbound call through endpoint.Endpoint.SendRequest to a server which never
// answers (send), or a wait for ctx.AppContext() followed by the given error value.
type c12WaitStep struct {
	send bool
	err  error
}

const c12WaitLimit = 15 * time.Second

type c12Recorder struct {
	inner   rule.Executor
	blocked string // address of the server which never answers
	mu      sync.Mutex
	last    map[string]any
	rctx    string
	waits   map[string]c12WaitStep
}

func (r *c12Recorder) script(path string, step c12WaitStep) {
	r.mu.Lock()
	defer r.mu.Unlock()

	if r.waits == nil {
		r.waits = map[string]c12WaitStep{}
	}

	r.waits[path] = step
}

func (r *c12Recorder) wait(ctx heimdall.Context, step c12WaitStep) error {
	if step.send {
		_, err := endpoint.Endpoint{URL: "http://" + r.blocked + "/resource", Method: http.MethodGet}.
			SendRequest(ctx.AppContext(), nil, nil)
		if err == nil {
			err = errors.New("the server which never answers has answered")
		}

		return err
	}

	select {
	case <-ctx.AppContext().Done():
	case <-time.After(c12WaitLimit):
	}

	return step.err
}

// Execute delegates to the real executor and remembers which error will reach the translator: the returned error
// or, for a handled error, the pipeline error kept by the request context.
func (r *c12Recorder) Execute(ctx heimdall.Context) (rule.Backend, error) {
	var (
		be  rule.Backend
		err error
	)

	r.mu.Lock()
	step, scripted := r.waits[ctx.Request().URL.Path]
	r.mu.Unlock()

	if scripted {
		err = r.wait(ctx, step)
	} else {
		be, err = r.inner.Execute(ctx)
	}

	// the state of the context of the request when the pipeline has returned
	rctx := "live"
	if cerr := ctx.AppContext().Err(); errors.Is(cerr, context.DeadlineExceeded) {
		rctx = "deadline"
	} else if cerr != nil {
		rctx = "cancelled"
	}

	seen := err
	if seen == nil {
		switch rc := ctx.(type) {
		case interface{ PipelineError() error }:
			seen = rc.PipelineError()
		case interface{ VerifC12PipelineError() error }:
			seen = rc.VerifC12PipelineError()
		}
	}

	r.mu.Lock()
	r.last = c12TermOf(seen, 0)
	r.rctx = rctx
	r.mu.Unlock()

	return be, err
}

func (r *c12Recorder) take() map[string]any {
	r.mu.Lock()
	defer r.mu.Unlock()

	t := r.last
	r.last = nil

	return t
}

func (r *c12Recorder) takeState() string {
	r.mu.Lock()
	defer r.mu.Unlock()

	s := r.rctx
	r.rctx = ""

	return s
}

type c12Stack struct {
	app       *fx.App
	rec       *c12Recorder
	conf      *config.Configuration
	servers   []*http.Server
	grpcSrv   *grpc.Server
	listeners []net.Listener
	addr      map[string]string
	conn      *grpc.ClientConn
	dir       string
	held      *c12HeldConns
}

// connections accepted by the server which never answers
type c12HeldConns struct {
	mu     sync.Mutex
	conns  []net.Conn
	closed bool
}

func (h *c12HeldConns) add(conn net.Conn) {
	h.mu.Lock()
	defer h.mu.Unlock()

	if h.closed {
		conn.Close()

		return
	}

	h.conns = append(h.conns, conn)
}

func (h *c12HeldConns) closeAll() {
	h.mu.Lock()
	defer h.mu.Unlock()

	h.closed = true

	for _, conn := range h.conns {
		conn.Close()
	}

	h.conns = nil
}

func (s *c12Stack) stop() {
	if s.conn != nil {
		s.conn.Close()
	}

	for _, srv := range s.servers {
		srv.Close()
	}

	if s.grpcSrv != nil {
		s.grpcSrv.Stop()
	}

	for _, l := range s.listeners {
		l.Close()
	}

	if s.held != nil {
		s.held.closeAll()
	}

	if s.app != nil {
		ctx, cancel := context.WithTimeout(context.Background(), 5*time.Second)
		s.app.Stop(ctx) //nolint:errcheck
		cancel()
	}

	if s.dir != "" {
		os.RemoveAll(s.dir)
	}
}

func c12Listen() (net.Listener, error) { return net.Listen("tcp", "127.0.0.1:0") }

// c12ApplyOverrides sets the response overrides of a service programmatically (independent of configuration keys).
func c12ApplyOverrides(rc *config.RespondConfig, cfg c12Cfg) {
	rc.Verbose = cfg.verbose
	rc.With.ArgumentError.Code = cfg.precond
	rc.With.AuthenticationError.Code = cfg.authn
	rc.With.AuthorizationError.Code = cfg.authz
	rc.With.CommunicationError.Code = cfg.comm
	rc.With.NoRuleError.Code = cfg.noRule
	rc.With.InternalError.Code = cfg.internalErr
}

// c12RedirectRules: one rule per configured redirect code, answered by a redirect error handler of its own
func c12RedirectRules(codes []int) string {
	var sb strings.Builder

	for _, code := range codes {
		fmt.Fprintf(&sb, `- id: redirect%d
  match: { routes: [ { path: /redirect/%d } ] }
  forward_to: { host: "UPSTREAM" }
  execute:
    - authenticator: deny_all
  on_error:
    - error_handler: to_login_%d
`, code, code, code)
	}

	return sb.String()
}

func c12StartStack(c map[string]any, cfgText string, mutate func(*config.Configuration)) (*c12Stack, error) {
	st := &c12Stack{addr: map[string]string{}}

	dir, err := os.MkdirTemp(getStr(c, "tmp"), "c12-svc-")
	if err != nil {
		return nil, err
	}

	st.dir = dir

	// an upstream which answers 200 and a listener which closes every connection at once
	upstream, err := c12Listen()
	if err != nil {
		return st, err
	}

	st.listeners = append(st.listeners, upstream)
	upSrv := &http.Server{Handler: http.HandlerFunc(func(rw http.ResponseWriter, _ *http.Request) {
		rw.Header().Set("X-Upstream", "reached")
		rw.WriteHeader(http.StatusOK)
	}), ReadHeaderTimeout: 5 * time.Second}
	st.servers = append(st.servers, upSrv)

	go upSrv.Serve(upstream) //nolint:errcheck

	dead, err := c12Listen()
	if err != nil {
		return st, err
	}

	st.listeners = append(st.listeners, dead)

	go func() {
		for {
			conn, err := dead.Accept()
			if err != nil {
				return
			}

			conn.Close()
		}
	}()

	// a "remote system" which takes requests and never answers them: whoever calls it waits until his context is
	// done (or the stack is stopped)
	blocked, err := c12Listen()
	if err != nil {
		return st, err
	}

	st.listeners = append(st.listeners, blocked)
	st.held = &c12HeldConns{}

	go func() {
		for {
			conn, err := blocked.Accept()
			if err != nil {
				return
			}

			st.held.add(conn)

			go func() {
				// read whatever arrives; the connection ends when the caller gives up
				io.Copy(io.Discard, conn) //nolint:errcheck
				conn.Close()
			}()
		}
	}()

	rulesFile := filepath.Join(dir, "rules.yaml")
	rulesText := strings.ReplaceAll(c12Rules+c12RedirectRules(getInts(c, "rcodes")), "UPSTREAM", upstream.Addr().String())
	rulesText = strings.ReplaceAll(rulesText, "DEADHOST", dead.Addr().String())
	rulesText = strings.ReplaceAll(rulesText, "BLOCKEDHOST", blocked.Addr().String())

	if err = os.WriteFile(rulesFile, []byte(rulesText), 0o600); err != nil {
		return st, err
	}

	cfgFile := filepath.Join(dir, "heimdall.yaml")
	cfgText = strings.ReplaceAll(cfgText, "RULESFILE", rulesFile)
	cfgText = strings.ReplaceAll(cfgText, "DEADHOST", dead.Addr().String())
	cfgText = strings.ReplaceAll(cfgText, "BLOCKEDHOST", blocked.Addr().String())

	if err = os.WriteFile(cfgFile, []byte(cfgText), 0o600); err != nil {
		return st, err
	}

	var (
		conf   *config.Configuration
		cch    cache.Cache
		logger zerolog.Logger
		exec   rule.Executor
	)

	st.app = fx.New(
		fx.NopLogger,
		fx.Supply(config.ConfigurationPath(cfgFile), config.EnvVarPrefix("C12VERIFUNUSED_"), config.ProxyMode),
		config.Module,
		logging.Module,
		watcher.Module,
		keyholder.Module,
		fx.Provide(certificate.NewObserver),
		cachemodule.Module,
		mechanisms.Module,
		rules.Module,
		fx.Decorate(func(cf *config.Configuration) *config.Configuration {
			if mutate != nil {
				mutate(cf)
			}

			return cf
		}),
		fx.Populate(&conf, &cch, &logger, &exec),
	)
	if err = st.app.Err(); err != nil {
		return st, fmt.Errorf("assembling: %w", err)
	}

	ctx, cancel := context.WithTimeout(context.Background(), 20*time.Second)
	defer cancel()

	if err = st.app.Start(ctx); err != nil {
		return st, fmt.Errorf("starting: %w", err)
	}

	st.conf = conf
	st.rec = &c12Recorder{inner: exec, blocked: blocked.Addr().String()}
	logger = zerolog.Nop()

	for _, name := range []string{"decision", "proxy"} {
		ln, err := c12Listen()
		if err != nil {
			return st, err
		}

		var srv *http.Server
		if name == "decision" {
			srv = decision.VerifC12NewService(conf, cch, logger, st.rec)
		} else {
			srv = proxy.VerifC12NewService(conf, cch, logger, st.rec)
		}

		st.listeners = append(st.listeners, ln)
		st.servers = append(st.servers, srv)
		st.addr[name] = ln.Addr().String()

		go srv.Serve(ln) //nolint:errcheck
	}

	ln, err := c12Listen()
	if err != nil {
		return st, err
	}

	st.listeners = append(st.listeners, ln)
	st.grpcSrv = grpcv3.VerifC12NewService(conf, cch, logger, st.rec)
	st.addr["envoy"] = ln.Addr().String()

	go st.grpcSrv.Serve(ln) //nolint:errcheck

	st.conn, err = grpc.NewClient(st.addr["envoy"], grpc.WithTransportCredentials(insecure.NewCredentials()))
	if err != nil {
		return st, err
	}

	return st, nil
}

var c12Client = &http.Client{ //nolint:gochecknoglobals
	Timeout:       20 * time.Second,
	CheckRedirect: func(*http.Request, []*http.Request) error { return http.ErrUseLastResponse },
	Transport:     &http.Transport{DisableKeepAlives: true, Proxy: nil},
}

var c12IgnoredHeaders = map[string]bool{ //nolint:gochecknoglobals
	"Date": true, "Content-Length": true, "Connection": true, "Vary": true, "Transfer-Encoding": true,
}

func (s *c12Stack) doHTTP(svc, path string, accept any, extra map[string]any) c12Resp {
	req, err := http.NewRequest(http.MethodGet, "http://"+s.addr[svc]+path, nil)
	if err != nil {
		return c12Resp{Out: "rpcerr", GRPC: -1, Hdrs: [][]string{{"error", err.Error()}}}
	}

	if a, ok := accept.(string); ok {
		req.Header.Set("Accept", a)
	}

	for k, v := range extra {
		if sv, ok := v.(string); ok {
			req.Header.Set(k, sv)
		}
	}

	res, err := c12Client.Do(req)
	if err != nil {
		// the connection was torn down without a response (a panic below the recovery middleware)
		return c12Resp{Out: "panic", GRPC: -1, Hdrs: [][]string{}}
	}

	defer res.Body.Close()

	return c12FromHTTPResponse(svc, res)
}

func c12FromHTTPResponse(svc string, res *http.Response) c12Resp {
	body, _ := io.ReadAll(res.Body)

	var hdrs [][]string

	for k, vs := range res.Header {
		if c12IgnoredHeaders[k] {
			continue
		}

		if k == "Content-Type" && len(body) == 0 {
			continue
		}

		for _, v := range vs {
			hdrs = append(hdrs, []string{k, v})
		}
	}

	out := "resp"
	if res.Header.Get("X-Upstream") == "reached" || (svc == "decision" && res.StatusCode/100 == 2) {
		out = "ok"
	}

	return c12Resp{Out: out, Status: res.StatusCode, Hdrs: c12SortHdrs(hdrs), Body: len(body) != 0,
		Fmt: c12BodyFmt(body), GRPC: -1}
}

// doHalfClose is a client which sends its request, closes its SENDING direction only (shutdown(SHUT_WR): what netcat,
// HTTP/1.0 style clients and some load balancers do) and then reads the answer. net/http's background read sees EOF
// and cancels the context of the request — while the client is still waiting for its response.
func (s *c12Stack) doHalfClose(svc, path string, accept any, extra map[string]any, delay time.Duration) c12Resp {
	noAnswer := func(why string, err error) c12Resp {
		return c12Resp{Out: "noresp", GRPC: -1, Hdrs: [][]string{{"error", why + ": " + err.Error()}}}
	}

	conn, err := net.DialTimeout("tcp", s.addr[svc], 10*time.Second)
	if err != nil {
		return noAnswer("dial", err)
	}

	defer conn.Close()

	var sb strings.Builder

	sb.WriteString("GET " + path + " HTTP/1.1\r\nHost: " + s.addr[svc] + "\r\nUser-Agent: c12-half-close\r\n")

	if a, ok := accept.(string); ok {
		sb.WriteString("Accept: " + a + "\r\n")
	}

	for k, v := range extra {
		if sv, ok := v.(string); ok {
			sb.WriteString(k + ": " + sv + "\r\n")
		}
	}

	sb.WriteString("\r\n")

	if _, err = conn.Write([]byte(sb.String())); err != nil {
		return noAnswer("write", err)
	}

	if delay > 0 {
		// the pipeline is already waiting when the FIN arrives
		time.Sleep(delay)
	}

	tcp, ok := conn.(*net.TCPConn)
	if !ok {
		return noAnswer("half-close", errors.New("not a TCP connection"))
	}

	if err = tcp.CloseWrite(); err != nil {
		return noAnswer("half-close", err)
	}

	conn.SetReadDeadline(time.Now().Add(2 * c12WaitLimit)) //nolint:errcheck

	res, err := http.ReadResponse(bufio.NewReader(conn), nil)
	if err != nil {
		// the connection was closed without any response
		return noAnswer("read", err)
	}

	defer res.Body.Close()

	return c12FromHTTPResponse(svc, res)
}

func (s *c12Stack) doGRPC(path string, accept any, extra map[string]any) c12Resp {
	hdrs := map[string]string{}
	if a, ok := accept.(string); ok {
		hdrs["accept"] = a
	}

	for k, v := range extra {
		if sv, ok := v.(string); ok {
			hdrs[strings.ToLower(k)] = sv
		}
	}

	ctx, cancel := context.WithTimeout(context.Background(), 20*time.Second)
	defer cancel()

	res, err := envoy_auth.NewAuthorizationClient(s.conn).Check(ctx, c12CheckRequest("GET", path, hdrs))
	if err != nil {
		return c12Resp{Out: "rpcerr", GRPC: -2, Hdrs: [][]string{{"error", err.Error()}}}
	}

	return c12FromCheckResponse(res, nil)
}

func c12ErrorHandlerPrototypes(c map[string]any) []config.Mechanism {
	realm := getStr(c, "realm")
	mech := config.Mechanism{ID: "challenge", Type: "www_authenticate"}

	if realm != "" {
		mech.Config = config.MechanismConfig{"realm": realm}
	}

	return []config.Mechanism{mech}
}

func c12RunServices(c map[string]any) (any, error) {
	cfg := c12ReadCfg(obj(c["cfg"]))
	pcfg := cfg

	if _, ok := c["pcfg"]; ok {
		pcfg = c12ReadCfg(obj(c["pcfg"]))
	}

	rcode := getInt(c, "rcode")

	cfgText := c12Config

	st, err := c12StartStack(c, cfgText, func(cf *config.Configuration) {
		c12ApplyOverrides(&cf.Serve.Decision.Respond, cfg)
		c12ApplyOverrides(&cf.Serve.Proxy.Respond, pcfg)
		// the configuration schema does not admit the type name the mechanism loader knows, so the challenge
		// handler is added to the loaded catalogue
		cf.Prototypes.ErrorHandlers = append(cf.Prototypes.ErrorHandlers, c12ErrorHandlerPrototypes(c)...)

		// the schema admits the redirect codes 301 and 302 only, the mechanism any integer
		for _, code := range getInts(c, "rcodes") {
			cf.Prototypes.ErrorHandlers = append(cf.Prototypes.ErrorHandlers, config.Mechanism{
				ID: fmt.Sprintf("to_login_%d", code), Type: "redirect",
				Config: config.MechanismConfig{
					"to":   "http://login.local/sign-in?origin={{ .Request.URL.Path | urlenc }}",
					"code": code,
				},
			})
		}

		if rcode != 0 {
			for i, m := range cf.Prototypes.ErrorHandlers {
				if m.ID == "to_login" {
					cf.Prototypes.ErrorHandlers[i].Config["code"] = rcode
				}
			}
		}
	})
	defer st.stop()

	if err != nil {
		return nil, err
	}

	out := []any{}

	for _, r := range getArr(c, "reqs") {
		rq := obj(r)
		st.rec.take()

		var resp c12Resp

		svc := getStr(rq, "svc")

		if w, ok := rq["werr"]; ok && w != nil {
			// a scripted step which waits with the context of the request and then fails
			step := c12WaitStep{send: getStr(obj(w), "t") == "send"}

			if !step.send {
				if step.err, err = c12BuildErr(obj(w)); err != nil {
					return nil, err
				}
			}

			st.rec.script(getStr(rq, "path"), step)
		}

		switch {
		case getBool(rq, "hc") && svc != "envoy":
			begin := time.Now()
			resp = st.doHalfClose(svc, getStr(rq, "path"), rq["accept"], obj(rq["hdr"]),
				time.Duration(getInt(rq, "hcdelay"))*time.Millisecond)
			out = append(out, map[string]any{"err": st.rec.take(), "resp": resp, "rctx": st.rec.takeState(),
				"ms": time.Since(begin).Milliseconds()})

			continue
		}

		switch svc {
		case "decision", "proxy":
			resp = st.doHTTP(svc, getStr(rq, "path"), rq["accept"], obj(rq["hdr"]))
		case "envoy":
			resp = st.doGRPC(getStr(rq, "path"), rq["accept"], obj(rq["hdr"]))
		default:
			return nil, errors.New("unknown service " + svc)
		}

		out = append(out, map[string]any{"err": st.rec.take(), "resp": resp, "rctx": st.rec.takeState()})
	}

	return out, nil
}

// op "cfgkeys": which response overrides arrive in the services' configuration when a configuration file sets them
// under the given keys (the keys the configuration schema admits).
func c12RunCfgKeys(c map[string]any) (any, error) {
	var sb strings.Builder

	sb.WriteString("serve:\n")

	for _, svc := range []string{"decision", "proxy"} {
		sb.WriteString("  " + svc + ":\n    respond:\n      verbose: true\n      with:\n")

		for _, kv := range getArr(c, "keys") {
			p := obj(kv)
			fmt.Fprintf(&sb, "        %s: { code: %d }\n", getStr(p, "key"), getInt(p, "code"))
		}
	}

	dir, err := os.MkdirTemp(getStr(c, "tmp"), "c12-cfg-")
	if err != nil {
		return nil, err
	}

	defer os.RemoveAll(dir)

	cfgFile := filepath.Join(dir, "heimdall.yaml")
	if err = os.WriteFile(cfgFile, []byte(sb.String()), 0o600); err != nil {
		return nil, err
	}

	conf, err := config.NewConfiguration("C12VERIFUNUSED_", config.ConfigurationPath(cfgFile))
	if err != nil {
		return map[string]any{"load": "rejected"}, nil //nolint:nilerr
	}

	view := func(rc config.RespondConfig) map[string]any {
		return map[string]any{
			"verbose": rc.Verbose,
			"authn":   rc.With.AuthenticationError.Code, "authz": rc.With.AuthorizationError.Code,
			"comm": rc.With.CommunicationError.Code, "precond": rc.With.ArgumentError.Code,
			"noRule": rc.With.NoRuleError.Code, "internal": rc.With.InternalError.Code,
		}
	}

	return map[string]any{"load": "ok", "decision": view(conf.Serve.Decision.Respond),
		"proxy": view(conf.Serve.Proxy.Respond)}, nil
}
