package main

// Family "errmap", ops "svc" and "cfgkeys" (property C12): the decision, proxy and Envoy gRPC services of /repo are
// assembled from a configuration file with the real configuration loader, the real mechanism catalogue, the real
// rule factory / repository / executor and the services' own constructors, and are served on loopback ports chosen
// by the kernel. Failures are provoked with real mechanisms; the error which reaches the translators is recorded by
// a wrapper around the real rule executor.

import (
	"context"
	"errors"
	"fmt"
	"io"
	"net"
	"net/http"
	"os"
	"path/filepath"
	"strings"
	"sync"
	"time"

	envoy_auth "github.com/envoyproxy/go-control-plane/envoy/service/auth/v3"
	"github.com/rs/zerolog"
	"go.uber.org/fx"
	"google.golang.org/grpc"
	"google.golang.org/grpc/credentials/insecure"

	"github.com/dadrus/heimdall/internal/cache"
	cachemodule "github.com/dadrus/heimdall/internal/cache/module"
	"github.com/dadrus/heimdall/internal/config"
	"github.com/dadrus/heimdall/internal/handler/decision"
	"github.com/dadrus/heimdall/internal/handler/envoyextauth/grpcv3"
	"github.com/dadrus/heimdall/internal/handler/proxy"
	"github.com/dadrus/heimdall/internal/heimdall"
	"github.com/dadrus/heimdall/internal/keyholder"
	"github.com/dadrus/heimdall/internal/logging"
	"github.com/dadrus/heimdall/internal/otel/metrics/certificate"
	"github.com/dadrus/heimdall/internal/rules"
	"github.com/dadrus/heimdall/internal/rules/mechanisms"
	"github.com/dadrus/heimdall/internal/rules/rule"
	"github.com/dadrus/heimdall/internal/watcher"
)

const c12Rules = `
version: "1alpha4"
name: c12
rules:
- id: ok
  match: { routes: [ { path: /ok } ] }
  forward_to: { host: "UPSTREAM" }
  execute:
    - authenticator: anon
- id: authn
  match: { routes: [ { path: /authn } ] }
  forward_to: { host: "UPSTREAM" }
  execute:
    - authenticator: deny_all
- id: authz
  match: { routes: [ { path: /authz } ] }
  forward_to: { host: "UPSTREAM" }
  execute:
    - authenticator: anon
    - authorizer: deny
- id: comm
  match: { routes: [ { path: /comm } ] }
  forward_to: { host: "UPSTREAM" }
  execute:
    - authenticator: anon
    - authorizer: remote_dead
- id: slash
  match: { routes: [ { path: "/slash/:x" } ] }
  forward_to: { host: "UPSTREAM" }
  execute:
    - authenticator: anon
- id: internal
  match: { routes: [ { path: /internal } ] }
  forward_to: { host: "UPSTREAM" }
  execute:
    - authenticator: anon
    - finalizer: failing_header
- id: leak
  match: { routes: [ { path: /leak } ] }
  forward_to: { host: "UPSTREAM" }
  execute:
    - authenticator: anon
    - finalizer: secret_header
    - finalizer: failing_header
- id: leakwww
  match: { routes: [ { path: /leakwww } ] }
  forward_to: { host: "UPSTREAM" }
  execute:
    - authenticator: anon
    - finalizer: secret_header
    - finalizer: failing_header
  on_error:
    - error_handler: challenge
- id: redirect
  match: { routes: [ { path: /redirect } ] }
  forward_to: { host: "UPSTREAM" }
  execute:
    - authenticator: deny_all
  on_error:
    - error_handler: to_login
- id: www
  match: { routes: [ { path: /www } ] }
  forward_to: { host: "UPSTREAM" }
  execute:
    - authenticator: deny_all
  on_error:
    - error_handler: challenge
- id: basic
  match: { routes: [ { path: /basic } ] }
  forward_to: { host: "UPSTREAM" }
  execute:
    - authenticator: basic
  on_error:
    - error_handler: challenge
      if: type(Error) == authentication_error
- id: celauthz
  match: { routes: [ { path: /cel/authz } ] }
  forward_to: { host: "UPSTREAM" }
  execute:
    - authenticator: anon
    - authorizer: cel_mode
- id: celattr
  match: { routes: [ { path: /cel/attr } ] }
  forward_to: { host: "UPSTREAM" }
  execute:
    - authenticator: anon
    - authorizer: cel_role
- id: celdiv
  match: { routes: [ { path: /cel/div } ] }
  forward_to: { host: "UPSTREAM" }
  execute:
    - authenticator: anon
    - authorizer: cel_div
- id: celstepif
  match: { routes: [ { path: /cel/stepif } ] }
  forward_to: { host: "UPSTREAM" }
  execute:
    - authenticator: anon
    - authorizer: deny
      if: '{"ok": true, "deny": false}[Request.Header("X-Mode")]'
- id: celehif
  match: { routes: [ { path: /cel/ehif } ] }
  forward_to: { host: "UPSTREAM" }
  execute:
    - authenticator: deny_all
  on_error:
    - error_handler: to_login
      if: '{"ok": true, "deny": false}[Request.Header("X-Mode")]'
    - error_handler: challenge
- id: celehlast
  match: { routes: [ { path: /cel/ehlast } ] }
  forward_to: { host: "UPSTREAM" }
  execute:
    - authenticator: anon
    - authorizer: deny
  on_error:
    - error_handler: to_login
      if: type(Error) == authentication_error
    - error_handler: challenge
      if: '[true, false][Request.Header("X-Mode").size() - 2]'
- id: unreachable
  match: { routes: [ { path: /unreachable } ] }
  forward_to: { host: "DEADHOST" }
  execute:
    - authenticator: anon
`

const c12Config = `
serve:
  decision: { host: 127.0.0.1, port: 0 }
  proxy: { host: 127.0.0.1, port: 0 }
  management: { host: 127.0.0.1, port: 0 }
log: { level: error }
mechanisms:
  authenticators:
    - id: anon
      type: anonymous
    - id: deny_all
      type: unauthorized
    - id: basic
      type: basic_auth
      config: { user_id: user, password: secret }
  authorizers:
    - id: deny
      type: deny
    - id: cel_mode
      type: cel
      config:
        expressions:
          - expression: '{"ok": true, "deny": false}[Request.Header("X-Mode")]'
    - id: cel_div
      type: cel
      config:
        expressions:
          - expression: '10 / (Request.Header("X-Mode").size() - 2) > 3'
    - id: cel_role
      type: cel
      config:
        expressions:
          - expression: 'Subject.Attributes.role == "admin"'
    - id: remote_dead
      type: remote
      config:
        endpoint: { url: "http://DEADHOST/authz" }
        payload: "{}"
  finalizers:
    - id: secret_header
      type: header
      config:
        headers:
          X-Internal-Token: "secret-for-the-upstream"
          WWW-Authenticate-Not: "nope"
    - id: failing_header
      type: header
      config:
        headers:
          X-Fail: '{{ fail "template failure" }}'
  error_handlers:
    - id: to_login
      type: redirect
      config:
        to: "http://login.local/sign-in?origin={{ .Request.URL.Path | urlenc }}"
providers:
  file_system:
    src: RULESFILE
`

type c12Recorder struct {
	inner rule.Executor
	mu    sync.Mutex
	last  map[string]any
}

// Execute delegates to the real executor and remembers which error will reach the translator: the returned error
// or, for a handled error, the pipeline error kept by the request context.
func (r *c12Recorder) Execute(ctx heimdall.Context) (rule.Backend, error) {
	be, err := r.inner.Execute(ctx)

	seen := err
	if seen == nil {
		switch rc := ctx.(type) {
		case interface{ PipelineError() error }:
			seen = rc.PipelineError()
		case interface{ VerifC12PipelineError() error }:
			seen = rc.VerifC12PipelineError()
		}
	}

	r.mu.Lock()
	r.last = c12TermOf(seen, 0)
	r.mu.Unlock()

	return be, err
}

func (r *c12Recorder) take() map[string]any {
	r.mu.Lock()
	defer r.mu.Unlock()

	t := r.last
	r.last = nil

	return t
}

type c12Stack struct {
	app       *fx.App
	rec       *c12Recorder
	conf      *config.Configuration
	servers   []*http.Server
	grpcSrv   *grpc.Server
	listeners []net.Listener
	addr      map[string]string
	conn      *grpc.ClientConn
	dir       string
}

func (s *c12Stack) stop() {
	if s.conn != nil {
		s.conn.Close()
	}

	for _, srv := range s.servers {
		srv.Close()
	}

	if s.grpcSrv != nil {
		s.grpcSrv.Stop()
	}

	for _, l := range s.listeners {
		l.Close()
	}

	if s.app != nil {
		ctx, cancel := context.WithTimeout(context.Background(), 5*time.Second)
		s.app.Stop(ctx) //nolint:errcheck
		cancel()
	}

	if s.dir != "" {
		os.RemoveAll(s.dir)
	}
}

func c12Listen() (net.Listener, error) { return net.Listen("tcp", "127.0.0.1:0") }

// c12ApplyOverrides sets the response overrides of a service programmatically (independent of configuration keys).
func c12ApplyOverrides(rc *config.RespondConfig, cfg c12Cfg) {
	rc.Verbose = cfg.verbose
	rc.With.ArgumentError.Code = cfg.precond
	rc.With.AuthenticationError.Code = cfg.authn
	rc.With.AuthorizationError.Code = cfg.authz
	rc.With.CommunicationError.Code = cfg.comm
	rc.With.NoRuleError.Code = cfg.noRule
	rc.With.InternalError.Code = cfg.internalErr
}

// c12RedirectRules: one rule per configured redirect code, answered by a redirect error handler of its own
func c12RedirectRules(codes []int) string {
	var sb strings.Builder

	for _, code := range codes {
		fmt.Fprintf(&sb, `- id: redirect%d
  match: { routes: [ { path: /redirect/%d } ] }
  forward_to: { host: "UPSTREAM" }
  execute:
    - authenticator: deny_all
  on_error:
    - error_handler: to_login_%d
`, code, code, code)
	}

	return sb.String()
}

func c12StartStack(c map[string]any, cfgText string, mutate func(*config.Configuration)) (*c12Stack, error) {
	st := &c12Stack{addr: map[string]string{}}

	dir, err := os.MkdirTemp(getStr(c, "tmp"), "c12-svc-")
	if err != nil {
		return nil, err
	}

	st.dir = dir

	// an upstream which answers 200 and a listener which closes every connection at once
	upstream, err := c12Listen()
	if err != nil {
		return st, err
	}

	st.listeners = append(st.listeners, upstream)
	upSrv := &http.Server{Handler: http.HandlerFunc(func(rw http.ResponseWriter, _ *http.Request) {
		rw.Header().Set("X-Upstream", "reached")
		rw.WriteHeader(http.StatusOK)
	}), ReadHeaderTimeout: 5 * time.Second}
	st.servers = append(st.servers, upSrv)

	go upSrv.Serve(upstream) //nolint:errcheck

	dead, err := c12Listen()
	if err != nil {
		return st, err
	}

	st.listeners = append(st.listeners, dead)

	go func() {
		for {
			conn, err := dead.Accept()
			if err != nil {
				return
			}

			conn.Close()
		}
	}()

	rulesFile := filepath.Join(dir, "rules.yaml")
	rulesText := strings.ReplaceAll(c12Rules+c12RedirectRules(getInts(c, "rcodes")), "UPSTREAM", upstream.Addr().String())
	rulesText = strings.ReplaceAll(rulesText, "DEADHOST", dead.Addr().String())

	if err = os.WriteFile(rulesFile, []byte(rulesText), 0o600); err != nil {
		return st, err
	}

	cfgFile := filepath.Join(dir, "heimdall.yaml")
	cfgText = strings.ReplaceAll(cfgText, "RULESFILE", rulesFile)
	cfgText = strings.ReplaceAll(cfgText, "DEADHOST", dead.Addr().String())

	if err = os.WriteFile(cfgFile, []byte(cfgText), 0o600); err != nil {
		return st, err
	}

	var (
		conf   *config.Configuration
		cch    cache.Cache
		logger zerolog.Logger
		exec   rule.Executor
	)

	st.app = fx.New(
		fx.NopLogger,
		fx.Supply(config.ConfigurationPath(cfgFile), config.EnvVarPrefix("C12VERIFUNUSED_"), config.ProxyMode),
		config.Module,
		logging.Module,
		watcher.Module,
		keyholder.Module,
		fx.Provide(certificate.NewObserver),
		cachemodule.Module,
		mechanisms.Module,
		rules.Module,
		fx.Decorate(func(cf *config.Configuration) *config.Configuration {
			if mutate != nil {
				mutate(cf)
			}

			return cf
		}),
		fx.Populate(&conf, &cch, &logger, &exec),
	)
	if err = st.app.Err(); err != nil {
		return st, fmt.Errorf("assembling: %w", err)
	}

	ctx, cancel := context.WithTimeout(context.Background(), 20*time.Second)
	defer cancel()

	if err = st.app.Start(ctx); err != nil {
		return st, fmt.Errorf("starting: %w", err)
	}

	st.conf = conf
	st.rec = &c12Recorder{inner: exec}
	logger = zerolog.Nop()

	for _, name := range []string{"decision", "proxy"} {
		ln, err := c12Listen()
		if err != nil {
			return st, err
		}

		var srv *http.Server
		if name == "decision" {
			srv = decision.VerifC12NewService(conf, cch, logger, st.rec)
		} else {
			srv = proxy.VerifC12NewService(conf, cch, logger, st.rec)
		}

		st.listeners = append(st.listeners, ln)
		st.servers = append(st.servers, srv)
		st.addr[name] = ln.Addr().String()

		go srv.Serve(ln) //nolint:errcheck
	}

	ln, err := c12Listen()
	if err != nil {
		return st, err
	}

	st.listeners = append(st.listeners, ln)
	st.grpcSrv = grpcv3.VerifC12NewService(conf, cch, logger, st.rec)
	st.addr["envoy"] = ln.Addr().String()

	go st.grpcSrv.Serve(ln) //nolint:errcheck

	st.conn, err = grpc.NewClient(st.addr["envoy"], grpc.WithTransportCredentials(insecure.NewCredentials()))
	if err != nil {
		return st, err
	}

	return st, nil
}

var c12Client = &http.Client{ //nolint:gochecknoglobals
	Timeout:       20 * time.Second,
	CheckRedirect: func(*http.Request, []*http.Request) error { return http.ErrUseLastResponse },
	Transport:     &http.Transport{DisableKeepAlives: true, Proxy: nil},
}

var c12IgnoredHeaders = map[string]bool{ //nolint:gochecknoglobals
	"Date": true, "Content-Length": true, "Connection": true, "Vary": true, "Transfer-Encoding": true,
}

func (s *c12Stack) doHTTP(svc, path string, accept any, extra map[string]any) c12Resp {
	req, err := http.NewRequest(http.MethodGet, "http://"+s.addr[svc]+path, nil)
	if err != nil {
		return c12Resp{Out: "rpcerr", GRPC: -1, Hdrs: [][]string{{"error", err.Error()}}}
	}

	if a, ok := accept.(string); ok {
		req.Header.Set("Accept", a)
	}

	for k, v := range extra {
		if sv, ok := v.(string); ok {
			req.Header.Set(k, sv)
		}
	}

	res, err := c12Client.Do(req)
	if err != nil {
		// the connection was torn down without a response (a panic below the recovery middleware)
		return c12Resp{Out: "panic", GRPC: -1, Hdrs: [][]string{}}
	}

	defer res.Body.Close()

	body, _ := io.ReadAll(res.Body)

	var hdrs [][]string

	for k, vs := range res.Header {
		if c12IgnoredHeaders[k] {
			continue
		}

		if k == "Content-Type" && len(body) == 0 {
			continue
		}

		for _, v := range vs {
			hdrs = append(hdrs, []string{k, v})
		}
	}

	out := "resp"
	if res.Header.Get("X-Upstream") == "reached" || (svc == "decision" && res.StatusCode/100 == 2) {
		out = "ok"
	}

	return c12Resp{Out: out, Status: res.StatusCode, Hdrs: c12SortHdrs(hdrs), Body: len(body) != 0,
		Fmt: c12BodyFmt(body), GRPC: -1}
}

func (s *c12Stack) doGRPC(path string, accept any, extra map[string]any) c12Resp {
	hdrs := map[string]string{}
	if a, ok := accept.(string); ok {
		hdrs["accept"] = a
	}

	for k, v := range extra {
		if sv, ok := v.(string); ok {
			hdrs[strings.ToLower(k)] = sv
		}
	}

	ctx, cancel := context.WithTimeout(context.Background(), 20*time.Second)
	defer cancel()

	res, err := envoy_auth.NewAuthorizationClient(s.conn).Check(ctx, c12CheckRequest("GET", path, hdrs))
	if err != nil {
		return c12Resp{Out: "rpcerr", GRPC: -2, Hdrs: [][]string{{"error", err.Error()}}}
	}

	return c12FromCheckResponse(res, nil)
}

func c12ErrorHandlerPrototypes(c map[string]any) []config.Mechanism {
	realm := getStr(c, "realm")
	mech := config.Mechanism{ID: "challenge", Type: "www_authenticate"}

	if realm != "" {
		mech.Config = config.MechanismConfig{"realm": realm}
	}

	return []config.Mechanism{mech}
}

func c12RunServices(c map[string]any) (any, error) {
	cfg := c12ReadCfg(obj(c["cfg"]))
	pcfg := cfg

	if _, ok := c["pcfg"]; ok {
		pcfg = c12ReadCfg(obj(c["pcfg"]))
	}

	rcode := getInt(c, "rcode")

	cfgText := c12Config

	st, err := c12StartStack(c, cfgText, func(cf *config.Configuration) {
		c12ApplyOverrides(&cf.Serve.Decision.Respond, cfg)
		c12ApplyOverrides(&cf.Serve.Proxy.Respond, pcfg)
		// the configuration schema does not admit the type name the mechanism loader knows, so the challenge
		// handler is added to the loaded catalogue
		cf.Prototypes.ErrorHandlers = append(cf.Prototypes.ErrorHandlers, c12ErrorHandlerPrototypes(c)...)

		// the schema admits the redirect codes 301 and 302 only, the mechanism any integer
		for _, code := range getInts(c, "rcodes") {
			cf.Prototypes.ErrorHandlers = append(cf.Prototypes.ErrorHandlers, config.Mechanism{
				ID: fmt.Sprintf("to_login_%d", code), Type: "redirect",
				Config: config.MechanismConfig{
					"to":   "http://login.local/sign-in?origin={{ .Request.URL.Path | urlenc }}",
					"code": code,
				},
			})
		}

		if rcode != 0 {
			for i, m := range cf.Prototypes.ErrorHandlers {
				if m.ID == "to_login" {
					cf.Prototypes.ErrorHandlers[i].Config["code"] = rcode
				}
			}
		}
	})
	defer st.stop()

	if err != nil {
		return nil, err
	}

	out := []any{}

	for _, r := range getArr(c, "reqs") {
		rq := obj(r)
		st.rec.take()

		var resp c12Resp

		switch svc := getStr(rq, "svc"); svc {
		case "decision", "proxy":
			resp = st.doHTTP(svc, getStr(rq, "path"), rq["accept"], obj(rq["hdr"]))
		case "envoy":
			resp = st.doGRPC(getStr(rq, "path"), rq["accept"], obj(rq["hdr"]))
		default:
			return nil, errors.New("unknown service " + svc)
		}

		out = append(out, map[string]any{"err": st.rec.take(), "resp": resp})
	}

	return out, nil
}

// op "cfgkeys": which response overrides arrive in the services' configuration when a configuration file sets them
// under the given keys (the keys the configuration schema admits).
func c12RunCfgKeys(c map[string]any) (any, error) {
	var sb strings.Builder

	sb.WriteString("serve:\n")

	for _, svc := range []string{"decision", "proxy"} {
		sb.WriteString("  " + svc + ":\n    respond:\n      verbose: true\n      with:\n")

		for _, kv := range getArr(c, "keys") {
			p := obj(kv)
			fmt.Fprintf(&sb, "        %s: { code: %d }\n", getStr(p, "key"), getInt(p, "code"))
		}
	}

	dir, err := os.MkdirTemp(getStr(c, "tmp"), "c12-cfg-")
	if err != nil {
		return nil, err
	}

	defer os.RemoveAll(dir)

	cfgFile := filepath.Join(dir, "heimdall.yaml")
	if err = os.WriteFile(cfgFile, []byte(sb.String()), 0o600); err != nil {
		return nil, err
	}

	conf, err := config.NewConfiguration("C12VERIFUNUSED_", config.ConfigurationPath(cfgFile))
	if err != nil {
		return map[string]any{"load": "rejected"}, nil //nolint:nilerr
	}

	view := func(rc config.RespondConfig) map[string]any {
		return map[string]any{
			"verbose": rc.Verbose,
			"authn":   rc.With.AuthenticationError.Code, "authz": rc.With.AuthorizationError.Code,
			"comm": rc.With.CommunicationError.Code, "precond": rc.With.ArgumentError.Code,
			"noRule": rc.With.NoRuleError.Code, "internal": rc.With.InternalError.Code,
		}
	}

	return map[string]any{"load": "ok", "decision": view(conf.Serve.Decision.Respond),
		"proxy": view(conf.Serve.Proxy.Respond)}, nil
}
