package main

// Family "errmap", ops "svc" and "cfgkeys" (property C12): the decision, proxy and Envoy gRPC services of /repo are
// assembled from a configuration file with the real configuration loader, the real mechanism catalogue, the real
// rule factory / repository / executor and the services' own constructors, and are served on loopback ports chosen
// by the kernel. Failures are provoked with real mechanisms; the error which reaches the translators is recorded by
// a wrapper around the real rule executor.
//
// Round 5 (errmap_ep.go): every request may name the log level of the service which gets it (one service per level,
// built by the service's own constructor), the proxy can forward to a scripted upstream (informational responses, dying
// in every way), and the endpoints of real mechanisms authenticate against a scripted token endpoint.

import (
	"bufio"
	"context"
	"errors"
	"fmt"
	"io"
	"net"
	"net/http"
	"net/http/httptrace"
	"net/textproto"
	"os"
	"path/filepath"
	"strings"
	"sync"
	"time"

	envoy_auth "github.com/envoyproxy/go-control-plane/envoy/service/auth/v3"
	"github.com/rs/zerolog"
	"go.uber.org/fx"
	"google.golang.org/grpc"
	"google.golang.org/grpc/credentials/insecure"

	"github.com/dadrus/heimdall/internal/cache"
	cachemodule "github.com/dadrus/heimdall/internal/cache/module"
	"github.com/dadrus/heimdall/internal/config"
	"github.com/dadrus/heimdall/internal/handler/decision"
	"github.com/dadrus/heimdall/internal/handler/envoyextauth/grpcv3"
	"github.com/dadrus/heimdall/internal/handler/proxy"
	"github.com/dadrus/heimdall/internal/heimdall"
	"github.com/dadrus/heimdall/internal/keyholder"
	"github.com/dadrus/heimdall/internal/logging"
	"github.com/dadrus/heimdall/internal/otel/metrics/certificate"
	"github.com/dadrus/heimdall/internal/rules"
	"github.com/dadrus/heimdall/internal/rules/endpoint"
	"github.com/dadrus/heimdall/internal/rules/mechanisms"
	"github.com/dadrus/heimdall/internal/rules/rule"
	"github.com/dadrus/heimdall/internal/watcher"
)

const c12Rules = `
version: "1alpha4"
name: c12
rules:
- id: ok
  match: { routes: [ { path: /ok } ] }
  forward_to: { host: "UPSTREAM" }
  execute:
    - authenticator: anon
- id: authn
  match: { routes: [ { path: /authn } ] }
  forward_to: { host: "UPSTREAM" }
  execute:
    - authenticator: deny_all
- id: authz
  match: { routes: [ { path: /authz } ] }
  forward_to: { host: "UPSTREAM" }
  execute:
    - authenticator: anon
    - authorizer: deny
- id: comm
  match: { routes: [ { path: /comm } ] }
  forward_to: { host: "UPSTREAM" }
  execute:
    - authenticator: anon
    - authorizer: remote_dead
- id: slash
  match: { routes: [ { path: "/slash/:x" } ] }
  forward_to: { host: "UPSTREAM" }
  execute:
    - authenticator: anon
- id: internal
  match: { routes: [ { path: /internal } ] }
  forward_to: { host: "UPSTREAM" }
  execute:
    - authenticator: anon
    - finalizer: failing_header
- id: leak
  match: { routes: [ { path: /leak } ] }
  forward_to: { host: "UPSTREAM" }
  execute:
    - authenticator: anon
    - finalizer: secret_header
    - finalizer: failing_header
- id: leakwww
  match: { routes: [ { path: /leakwww } ] }
  forward_to: { host: "UPSTREAM" }
  execute:
    - authenticator: anon
    - finalizer: secret_header
    - finalizer: failing_header
  on_error:
    - error_handler: challenge
- id: redirect
  match: { routes: [ { path: /redirect } ] }
  forward_to: { host: "UPSTREAM" }
  execute:
    - authenticator: deny_all
  on_error:
    - error_handler: to_login
- id: www
  match: { routes: [ { path: /www } ] }
  forward_to: { host: "UPSTREAM" }
  execute:
    - authenticator: deny_all
  on_error:
    - error_handler: challenge
- id: basic
  match: { routes: [ { path: /basic } ] }
  forward_to: { host: "UPSTREAM" }
  execute:
    - authenticator: basic
  on_error:
    - error_handler: challenge
      if: type(Error) == authentication_error
- id: celauthz
  match: { routes: [ { path: /cel/authz } ] }
  forward_to: { host: "UPSTREAM" }
  execute:
    - authenticator: anon
    - authorizer: cel_mode
- id: celattr
  match: { routes: [ { path: /cel/attr } ] }
  forward_to: { host: "UPSTREAM" }
  execute:
    - authenticator: anon
    - authorizer: cel_role
- id: celdiv
  match: { routes: [ { path: /cel/div } ] }
  forward_to: { host: "UPSTREAM" }
  execute:
    - authenticator: anon
    - authorizer: cel_div
- id: celstepif
  match: { routes: [ { path: /cel/stepif } ] }
  forward_to: { host: "UPSTREAM" }
  execute:
    - authenticator: anon
    - authorizer: deny
      if: '{"ok": true, "deny": false}[Request.Header("X-Mode")]'
- id: celehif
  match: { routes: [ { path: /cel/ehif } ] }
  forward_to: { host: "UPSTREAM" }
  execute:
    - authenticator: deny_all
  on_error:
    - error_handler: to_login
      if: '{"ok": true, "deny": false}[Request.Header("X-Mode")]'
    - error_handler: challenge
- id: celehlast
  match: { routes: [ { path: /cel/ehlast } ] }
  forward_to: { host: "UPSTREAM" }
  execute:
    - authenticator: anon
    - authorizer: deny
  on_error:
    - error_handler: to_login
      if: type(Error) == authentication_error
    - error_handler: challenge
      if: '[true, false][Request.Header("X-Mode").size() - 2]'
- id: unreachable
  match: { routes: [ { path: /unreachable } ] }
  forward_to: { host: "DEADHOST" }
  execute:
    - authenticator: anon
- id: hangcomm
  match: { routes: [ { path: /hang/comm } ] }
  forward_to: { host: "UPSTREAM" }
  execute:
    - authenticator: anon
    - authorizer: remote_blocked
- id: hanggeneric
  match: { routes: [ { path: /hang/generic } ] }
  forward_to: { host: "UPSTREAM" }
  execute:
    - authenticator: generic_blocked
- id: hangupstream
  match: { routes: [ { path: /hang/upstream } ] }
  forward_to: { host: "BLOCKEDHOST" }
  execute:
    - authenticator: anon
`

const c12Config = `
serve:
  decision: { host: 127.0.0.1, port: 0 }
  proxy: { host: 127.0.0.1, port: 0 }
  management: { host: 127.0.0.1, port: 0 }
log: { level: error }
mechanisms:
  authenticators:
    - id: anon
      type: anonymous
    - id: deny_all
      type: unauthorized
    - id: basic
      type: basic_auth
      config: { user_id: user, password: secret }
    - id: generic_blocked
      type: generic
      config:
        identity_info_endpoint: { url: "http://BLOCKEDHOST/userinfo" }
        authentication_data_source: [ { header: X-Token } ]
        subject: { id: sub }
EXTRA_AUTHENTICATORS
  authorizers:
    - id: deny
      type: deny
    - id: cel_mode
      type: cel
      config:
        expressions:
          - expression: '{"ok": true, "deny": false}[Request.Header("X-Mode")]'
    - id: cel_div
      type: cel
      config:
        expressions:
          - expression: '10 / (Request.Header("X-Mode").size() - 2) > 3'
    - id: cel_role
      type: cel
      config:
        expressions:
          - expression: 'Subject.Attributes.role == "admin"'
    - id: remote_dead
      type: remote
      config:
        endpoint: { url: "http://DEADHOST/authz" }
        payload: "{}"
    - id: remote_blocked
      type: remote
      config:
        endpoint: { url: "http://BLOCKEDHOST/authz" }
        payload: "{}"
EXTRA_AUTHORIZERS
EXTRA_CONTEXTUALIZERS
  finalizers:
    - id: secret_header
      type: header
      config:
        headers:
          X-Internal-Token: "secret-for-the-upstream"
          WWW-Authenticate-Not: "nope"
    - id: failing_header
      type: header
      config:
        headers:
          X-Fail: '{{ fail "template failure" }}'
  error_handlers:
    - id: to_login
      type: redirect
      config:
        to: "http://login.local/sign-in?origin={{ .Request.URL.Path | urlenc }}"
providers:
  file_system:
    src: RULESFILE
`

// c12WaitStep is a scripted pipeline step behind a `/ctxwait/...` path: it waits on "a remote system" with the
// context of the request, as every mechanism of heimdall does, and fails the way the mechanisms fail when that context
// is done meanwhile. Either a real outbound call through endpoint.Endpoint.SendRequest to a server which never
// answers (send), or a wait for ctx.AppContext() followed by the given error value.
type c12WaitStep struct {
	send bool
	err  error
	// send through an endpoint which authenticates with oauth2_client_credentials (round 5); deadline: the context
	// of the call expires after that time (0: the context of the request as it is)
	auth     bool
	deadline time.Duration
}

const c12WaitLimit = 15 * time.Second

type c12Recorder struct {
	inner   rule.Executor
	blocked string // address of the server which never answers
	target  string // address of a server which answers every request
	token   string // address of the scripted token endpoint
	mu      sync.Mutex
	last    map[string]any
	rctx    string
	waits   map[string]c12WaitStep
}

func (r *c12Recorder) script(path string, step c12WaitStep) {
	r.mu.Lock()
	defer r.mu.Unlock()

	if r.waits == nil {
		r.waits = map[string]c12WaitStep{}
	}

	r.waits[path] = step
}

func (r *c12Recorder) wait(ctx heimdall.Context, step c12WaitStep) error {
	if step.send && step.auth {
		err := c12AuthenticatedSend(ctx.AppContext(), r.target, r.token, step.deadline)
		if err == nil {
			err = errors.New("the call through the authenticating endpoint succeeded")
		}

		return err
	}

	if step.send {
		_, err := endpoint.Endpoint{URL: "http://" + r.blocked + "/resource", Method: http.MethodGet}.
			SendRequest(ctx.AppContext(), nil, nil)
		if err == nil {
			err = errors.New("the server which never answers has answered")
		}

		return err
	}

	select {
	case <-ctx.AppContext().Done():
	case <-time.After(c12WaitLimit):
	}

	return step.err
}

// Execute delegates to the real executor and remembers which error will reach the translator: the returned error
// or, for a handled error, the pipeline error kept by the request context.
func (r *c12Recorder) Execute(ctx heimdall.Context) (rule.Backend, error) {
	var (
		be  rule.Backend
		err error
	)

	r.mu.Lock()
	step, scripted := r.waits[ctx.Request().URL.Path]
	r.mu.Unlock()

	if scripted {
		err = r.wait(ctx, step)
	} else {
		be, err = r.inner.Execute(ctx)
	}

	// the state of the context of the request when the pipeline has returned
	rctx := "live"
	if cerr := ctx.AppContext().Err(); errors.Is(cerr, context.DeadlineExceeded) {
		rctx = "deadline"
	} else if cerr != nil {
		rctx = "cancelled"
	}

	seen := err
	if seen == nil {
		switch rc := ctx.(type) {
		case interface{ PipelineError() error }:
			seen = rc.PipelineError()
		case interface{ VerifC12PipelineError() error }:
			seen = rc.VerifC12PipelineError()
		}
	}

	r.mu.Lock()
	r.last = c12TermOf(seen, 0)
	r.rctx = rctx
	r.mu.Unlock()

	return be, err
}

func (r *c12Recorder) take() map[string]any {
	r.mu.Lock()
	defer r.mu.Unlock()

	t := r.last
	r.last = nil

	return t
}

func (r *c12Recorder) takeState() string {
	r.mu.Lock()
	defer r.mu.Unlock()

	s := r.rctx
	r.rctx = ""

	return s
}

type c12Stack struct {
	app       *fx.App
	rec       *c12Recorder
	conf      *config.Configuration
	servers   []*http.Server
	grpcSrv   *grpc.Server
	listeners []net.Listener
	addr      map[string]string
	conn      *grpc.ClientConn
	dir       string
	held      *c12HeldConns
	// round 5: one service per (service, log level); the scripted token endpoint; things to release
	cch      cache.Cache
	conns    map[string]*grpc.ClientConn
	grpcSrvs []*grpc.Server
	token    *c12TokenEndpoint
	stopCh   chan struct{}
	release  []func()
}

// connections accepted by the server which never answers
type c12HeldConns struct {
	mu     sync.Mutex
	conns  []net.Conn
	closed bool
}

func (h *c12HeldConns) add(conn net.Conn) {
	h.mu.Lock()
	defer h.mu.Unlock()

	if h.closed {
		conn.Close()

		return
	}

	h.conns = append(h.conns, conn)
}

func (h *c12HeldConns) closeAll() {
	h.mu.Lock()
	defer h.mu.Unlock()

	h.closed = true

	for _, conn := range h.conns {
		conn.Close()
	}

	h.conns = nil
}

func (s *c12Stack) stop() {
	if s.stopCh != nil {
		close(s.stopCh)
	}

	if s.conn != nil {
		s.conn.Close()
	}

	for _, conn := range s.conns {
		conn.Close()
	}

	for _, srv := range s.grpcSrvs {
		srv.Stop()
	}

	for _, f := range s.release {
		f()
	}

	for _, srv := range s.servers {
		srv.Close()
	}

	if s.grpcSrv != nil {
		s.grpcSrv.Stop()
	}

	for _, l := range s.listeners {
		l.Close()
	}

	if s.held != nil {
		s.held.closeAll()
	}

	if s.app != nil {
		ctx, cancel := context.WithTimeout(context.Background(), 5*time.Second)
		s.app.Stop(ctx) //nolint:errcheck
		cancel()
	}

	if s.dir != "" {
		os.RemoveAll(s.dir)
	}
}

func c12Listen() (net.Listener, error) { return net.Listen("tcp", "127.0.0.1:0") }

// c12ApplyOverrides sets the response overrides of a service programmatically (independent of configuration keys).
func c12ApplyOverrides(rc *config.RespondConfig, cfg c12Cfg) {
	rc.Verbose = cfg.verbose
	rc.With.ArgumentError.Code = cfg.precond
	rc.With.AuthenticationError.Code = cfg.authn
	rc.With.AuthorizationError.Code = cfg.authz
	rc.With.CommunicationError.Code = cfg.comm
	rc.With.NoRuleError.Code = cfg.noRule
	rc.With.InternalError.Code = cfg.internalErr
}

// c12RedirectRules: one rule per configured redirect code, answered by a redirect error handler of its own
func c12RedirectRules(codes []int) string {
	var sb strings.Builder

	for _, code := range codes {
		fmt.Fprintf(&sb, `- id: redirect%d
  match: { routes: [ { path: /redirect/%d } ] }
  forward_to: { host: "UPSTREAM" }
  execute:
    - authenticator: deny_all
  on_error:
    - error_handler: to_login_%d
`, code, code, code)
	}

	return sb.String()
}

func c12StartStack(c map[string]any, cfgText string, mutate func(*config.Configuration)) (*c12Stack, error) {
	st := &c12Stack{addr: map[string]string{}, conns: map[string]*grpc.ClientConn{}, stopCh: make(chan struct{})}

	dir, err := os.MkdirTemp(getStr(c, "tmp"), "c12-svc-")
	if err != nil {
		return nil, err
	}

	st.dir = dir

	// an upstream which answers 200 and a listener which closes every connection at once
	upstream, err := c12Listen()
	if err != nil {
		return st, err
	}

	st.listeners = append(st.listeners, upstream)
	upSrv := &http.Server{Handler: http.HandlerFunc(func(rw http.ResponseWriter, req *http.Request) {
		rw.Header().Set("X-Upstream", "reached")

		// what the endpoints of the authenticating mechanisms (round 5) are expected to answer
		switch req.URL.Path {
		case "/userinfo":
			rw.Header().Set("Content-Type", "application/json")
			io.WriteString(rw, `{"sub":"user-1"}`) //nolint:errcheck
		case "/introspect":
			rw.Header().Set("Content-Type", "application/json")
			fmt.Fprintf(rw, `{"active":true,"sub":"user-1","iss":"c12-issuer","exp":%d}`, time.Now().Add(time.Hour).Unix())
		case "/ctxdata":
			rw.Header().Set("Content-Type", "application/json")
			io.WriteString(rw, `{"plan":"gold"}`) //nolint:errcheck
		default:
			rw.WriteHeader(http.StatusOK)
		}
	}), ReadHeaderTimeout: 5 * time.Second}
	st.servers = append(st.servers, upSrv)

	go upSrv.Serve(upstream) //nolint:errcheck

	dead, err := c12Listen()
	if err != nil {
		return st, err
	}

	st.listeners = append(st.listeners, dead)

	go func() {
		for {
			conn, err := dead.Accept()
			if err != nil {
				return
			}

			conn.Close()
		}
	}()

	// a "remote system" which takes requests and never answers them: whoever calls it waits until his context is
	// done (or the stack is stopped)
	blocked, err := c12Listen()
	if err != nil {
		return st, err
	}

	st.listeners = append(st.listeners, blocked)
	st.held = &c12HeldConns{}

	go func() {
		for {
			conn, err := blocked.Accept()
			if err != nil {
				return
			}

			st.held.add(conn)

			go func() {
				// read whatever arrives; the connection ends when the caller gives up
				io.Copy(io.Discard, conn) //nolint:errcheck
				conn.Close()
			}()
		}
	}()

	// round 5: the scripted upstream of the proxy, the scripted token endpoint, a port on which connections are refused
	script, err := c12Listen()
	if err != nil {
		return st, err
	}

	st.listeners = append(st.listeners, script)

	go c12ScriptedUpstream(script, st.stopCh)

	tokenLn, err := c12Listen()
	if err != nil {
		return st, err
	}

	st.listeners = append(st.listeners, tokenLn)
	st.token = &c12TokenEndpoint{stop: st.stopCh}
	tokenSrv := &http.Server{Handler: st.token, ReadHeaderTimeout: 5 * time.Second}
	st.servers = append(st.servers, tokenSrv)

	go tokenSrv.Serve(tokenLn) //nolint:errcheck

	refused, releaseRefused, err := c12RefusedPort()
	if err != nil {
		return st, err
	}

	st.release = append(st.release, releaseRefused)

	keyFile := filepath.Join(dir, "signer.pem")
	if err = c12WriteSignerKey(keyFile); err != nil {
		return st, err
	}

	hosts := strings.NewReplacer("UPSTREAM", upstream.Addr().String(), "DEADHOST", dead.Addr().String(),
		"BLOCKEDHOST", blocked.Addr().String(), "SCRIPTHOST", script.Addr().String(),
		"TOKENHOST", tokenLn.Addr().String(), "REFUSEDHOST", refused)

	rulesFile := filepath.Join(dir, "rules.yaml")
	rulesText := hosts.Replace(c12Rules + c12EndpointRules + c12RedirectRules(getInts(c, "rcodes")))

	if err = os.WriteFile(rulesFile, []byte(rulesText), 0o600); err != nil {
		return st, err
	}

	cfgFile := filepath.Join(dir, "heimdall.yaml")
	cfgText = hosts.Replace(strings.ReplaceAll(c12EndpointConfig(cfgText), "RULESFILE", rulesFile))

	if err = os.WriteFile(cfgFile, []byte(cfgText), 0o600); err != nil {
		return st, err
	}

	var (
		conf   *config.Configuration
		cch    cache.Cache
		logger zerolog.Logger
		exec   rule.Executor
	)

	st.app = fx.New(
		fx.NopLogger,
		fx.Supply(config.ConfigurationPath(cfgFile), config.EnvVarPrefix("C12VERIFUNUSED_"), config.ProxyMode),
		config.Module,
		logging.Module,
		watcher.Module,
		keyholder.Module,
		fx.Provide(certificate.NewObserver),
		cachemodule.Module,
		mechanisms.Module,
		rules.Module,
		fx.Decorate(func(cf *config.Configuration) *config.Configuration {
			if mutate != nil {
				mutate(cf)
			}

			cf.Prototypes.Authorizers = append(cf.Prototypes.Authorizers,
				c12SignatureAuthorizers(upstream.Addr().String(), keyFile)...)

			return cf
		}),
		fx.Populate(&conf, &cch, &logger, &exec),
	)
	if err = st.app.Err(); err != nil {
		return st, fmt.Errorf("assembling: %w", err)
	}

	ctx, cancel := context.WithTimeout(context.Background(), 20*time.Second)
	defer cancel()

	if err = st.app.Start(ctx); err != nil {
		return st, fmt.Errorf("starting: %w", err)
	}

	st.conf = conf
	st.cch = cch
	st.rec = &c12Recorder{inner: exec, blocked: blocked.Addr().String(), target: upstream.Addr().String(),
		token: tokenLn.Addr().String()}
	logger = zerolog.Nop()

	for _, name := range []string{"decision", "proxy"} {
		ln, err := c12Listen()
		if err != nil {
			return st, err
		}

		var srv *http.Server
		if name == "decision" {
			srv = decision.VerifC12NewService(conf, cch, logger, st.rec)
		} else {
			srv = proxy.VerifC12NewService(conf, cch, logger, st.rec)
		}

		st.listeners = append(st.listeners, ln)
		st.servers = append(st.servers, srv)
		st.addr[name] = ln.Addr().String()

		go srv.Serve(ln) //nolint:errcheck
	}

	ln, err := c12Listen()
	if err != nil {
		return st, err
	}

	st.listeners = append(st.listeners, ln)
	st.grpcSrv = grpcv3.VerifC12NewService(conf, cch, logger, st.rec)
	st.addr["envoy"] = ln.Addr().String()

	go st.grpcSrv.Serve(ln) //nolint:errcheck

	st.conn, err = grpc.NewClient(st.addr["envoy"], grpc.WithTransportCredentials(insecure.NewCredentials()))
	if err != nil {
		return st, err
	}

	return st, nil
}

// service returns the key (in addr / conns) of the service `svc` running at log level `level`, building it with the
// service's own constructor on first use ("" is the service with the no-op logger every stack starts with).
func (s *c12Stack) service(svc, level string) (string, error) {
	if level == "" {
		return svc, nil
	}

	key := svc + "@" + level
	if _, ok := s.addr[key]; ok {
		return key, nil
	}

	logger, err := c12Logger(level)
	if err != nil {
		return "", err
	}

	ln, err := c12Listen()
	if err != nil {
		return "", err
	}

	s.listeners = append(s.listeners, ln)

	switch svc {
	case "decision", "proxy":
		var srv *http.Server
		if svc == "decision" {
			srv = decision.VerifC12NewService(s.conf, s.cch, logger, s.rec)
		} else {
			srv = proxy.VerifC12NewService(s.conf, s.cch, logger, s.rec)
		}

		s.servers = append(s.servers, srv)

		go srv.Serve(ln) //nolint:errcheck
	case "envoy":
		srv := grpcv3.VerifC12NewService(s.conf, s.cch, logger, s.rec)
		s.grpcSrvs = append(s.grpcSrvs, srv)

		go srv.Serve(ln) //nolint:errcheck

		conn, err := grpc.NewClient(ln.Addr().String(), grpc.WithTransportCredentials(insecure.NewCredentials()))
		if err != nil {
			return "", err
		}

		s.conns[key] = conn
	default:
		return "", errors.New("unknown service " + svc)
	}

	s.addr[key] = ln.Addr().String()

	return key, nil
}

var c12Client = &http.Client{ //nolint:gochecknoglobals
	Timeout:       20 * time.Second,
	CheckRedirect: func(*http.Request, []*http.Request) error { return http.ErrUseLastResponse },
	Transport:     &http.Transport{DisableKeepAlives: true, Proxy: nil},
}

var c12IgnoredHeaders = map[string]bool{ //nolint:gochecknoglobals
	"Date": true, "Content-Length": true, "Connection": true, "Vary": true, "Transfer-Encoding": true,
}

func (s *c12Stack) doHTTP(svc, path string, accept any, extra map[string]any) c12Resp {
	resp, _ := s.doHTTPInfo(svc, path, accept, extra)

	return resp
}

// doHTTPInfo: the answer and the status codes of the informational (1xx) responses which preceded it
func (s *c12Stack) doHTTPInfo(svc, path string, accept any, extra map[string]any) (c12Resp, []int) {
	info := []int{}

	ctx := httptrace.WithClientTrace(context.Background(), &httptrace.ClientTrace{
		Got1xxResponse: func(code int, _ textproto.MIMEHeader) error {
			info = append(info, code)

			return nil
		},
	})

	req, err := http.NewRequestWithContext(ctx, http.MethodGet, "http://"+s.addr[svc]+path, nil)
	if err != nil {
		return c12Resp{Out: "rpcerr", GRPC: -1, Hdrs: [][]string{{"error", err.Error()}}}, info
	}

	if a, ok := accept.(string); ok {
		req.Header.Set("Accept", a)
	}

	for k, v := range extra {
		if sv, ok := v.(string); ok {
			req.Header.Set(k, sv)
		}
	}

	res, err := c12Client.Do(req)
	if err != nil {
		// the connection was torn down without a response (a panic below the recovery middleware)
		return c12Resp{Out: "panic", GRPC: -1, Hdrs: [][]string{}}, info
	}

	defer res.Body.Close()

	return c12FromHTTPResponse(svc, res), info
}

func c12FromHTTPResponse(svc string, res *http.Response) c12Resp {
	body, rerr := io.ReadAll(res.Body)
	if rerr != nil {
		// the transfer of the announced body was cut short: the client knows that it did not get the response
		return c12Resp{Out: "aborted", Status: res.StatusCode, GRPC: -1, Hdrs: [][]string{}}
	}

	var hdrs [][]string

	for k, vs := range res.Header {
		if c12IgnoredHeaders[k] {
			continue
		}

		if k == "Content-Type" && len(body) == 0 {
			continue
		}

		for _, v := range vs {
			hdrs = append(hdrs, []string{k, v})
		}
	}

	out := "resp"
	if res.Header.Get("X-Upstream") == "reached" || (strings.HasPrefix(svc, "decision") && res.StatusCode/100 == 2) {
		out = "ok"
	}

	return c12Resp{Out: out, Status: res.StatusCode, Hdrs: c12SortHdrs(hdrs), Body: len(body) != 0,
		Fmt: c12BodyFmt(body), GRPC: -1}
}

// doHalfClose is a client which sends its request, closes its SENDING direction only (shutdown(SHUT_WR): what netcat,
// HTTP/1.0 style clients and some load balancers do) and then reads the answer. net/http's background read sees EOF
// and cancels the context of the request — while the client is still waiting for its response.
func (s *c12Stack) doHalfClose(svc, path string, accept any, extra map[string]any, delay time.Duration) c12Resp {
	noAnswer := func(why string, err error) c12Resp {
		return c12Resp{Out: "noresp", GRPC: -1, Hdrs: [][]string{{"error", why + ": " + err.Error()}}}
	}

	conn, err := net.DialTimeout("tcp", s.addr[svc], 10*time.Second)
	if err != nil {
		return noAnswer("dial", err)
	}

	defer conn.Close()

	var sb strings.Builder

	sb.WriteString("GET " + path + " HTTP/1.1\r\nHost: " + s.addr[svc] + "\r\nUser-Agent: c12-half-close\r\n")

	if a, ok := accept.(string); ok {
		sb.WriteString("Accept: " + a + "\r\n")
	}

	for k, v := range extra {
		if sv, ok := v.(string); ok {
			sb.WriteString(k + ": " + sv + "\r\n")
		}
	}

	sb.WriteString("\r\n")

	if _, err = conn.Write([]byte(sb.String())); err != nil {
		return noAnswer("write", err)
	}

	if delay > 0 {
		// the pipeline is already waiting when the FIN arrives
		time.Sleep(delay)
	}

	tcp, ok := conn.(*net.TCPConn)
	if !ok {
		return noAnswer("half-close", errors.New("not a TCP connection"))
	}

	if err = tcp.CloseWrite(); err != nil {
		return noAnswer("half-close", err)
	}

	conn.SetReadDeadline(time.Now().Add(2 * c12WaitLimit)) //nolint:errcheck

	br := bufio.NewReader(conn)

	for {
		res, err := http.ReadResponse(br, nil)
		if err != nil {
			// the connection was closed without any (final) response
			return noAnswer("read", err)
		}

		if res.StatusCode >= 100 && res.StatusCode < 200 && res.StatusCode != http.StatusSwitchingProtocols {
			// an informational response: the final one follows
			res.Body.Close()

			continue
		}

		defer res.Body.Close()

		return c12FromHTTPResponse(svc, res)
	}
}

func (s *c12Stack) doGRPC(path string, accept any, extra map[string]any) c12Resp {
	return s.doGRPCOn("envoy", path, accept, extra)
}

// doGRPCOn: the Check RPC against the Envoy gRPC service with the given key (see service)
func (s *c12Stack) doGRPCOn(key, path string, accept any, extra map[string]any) c12Resp {
	conn := s.conn
	if c, ok := s.conns[key]; ok {
		conn = c
	}

	hdrs := map[string]string{}
	if a, ok := accept.(string); ok {
		hdrs["accept"] = a
	}

	for k, v := range extra {
		if sv, ok := v.(string); ok {
			hdrs[strings.ToLower(k)] = sv
		}
	}

	ctx, cancel := context.WithTimeout(context.Background(), 20*time.Second)
	defer cancel()

	res, err := envoy_auth.NewAuthorizationClient(conn).Check(ctx, c12CheckRequest("GET", path, hdrs))
	if err != nil {
		return c12Resp{Out: "rpcerr", GRPC: -2, Hdrs: [][]string{{"error", err.Error()}}}
	}

	return c12FromCheckResponse(res, nil)
}

func c12ErrorHandlerPrototypes(c map[string]any) []config.Mechanism {
	realm := getStr(c, "realm")
	mech := config.Mechanism{ID: "challenge", Type: "www_authenticate"}

	if realm != "" {
		mech.Config = config.MechanismConfig{"realm": realm}
	}

	return []config.Mechanism{mech}
}

func c12RunServices(c map[string]any) (any, error) {
	cfg := c12ReadCfg(obj(c["cfg"]))
	pcfg := cfg

	if _, ok := c["pcfg"]; ok {
		pcfg = c12ReadCfg(obj(c["pcfg"]))
	}

	rcode := getInt(c, "rcode")

	cfgText := c12Config

	st, err := c12StartStack(c, cfgText, func(cf *config.Configuration) {
		c12ApplyOverrides(&cf.Serve.Decision.Respond, cfg)
		c12ApplyOverrides(&cf.Serve.Proxy.Respond, pcfg)

		// `serve.proxy.timeout.read` (ms): also the time the proxy waits for the header of the upstream's response
		if ms := getInt(c, "ptimeout"); ms > 0 {
			cf.Serve.Proxy.Timeout.Read = time.Duration(ms) * time.Millisecond
		}
		// the configuration schema does not admit the type name the mechanism loader knows, so the challenge
		// handler is added to the loaded catalogue
		cf.Prototypes.ErrorHandlers = append(cf.Prototypes.ErrorHandlers, c12ErrorHandlerPrototypes(c)...)

		// the schema admits the redirect codes 301 and 302 only, the mechanism any integer
		for _, code := range getInts(c, "rcodes") {
			cf.Prototypes.ErrorHandlers = append(cf.Prototypes.ErrorHandlers, config.Mechanism{
				ID: fmt.Sprintf("to_login_%d", code), Type: "redirect",
				Config: config.MechanismConfig{
					"to":   "http://login.local/sign-in?origin={{ .Request.URL.Path | urlenc }}",
					"code": code,
				},
			})
		}

		if rcode != 0 {
			for i, m := range cf.Prototypes.ErrorHandlers {
				if m.ID == "to_login" {
					cf.Prototypes.ErrorHandlers[i].Config["code"] = rcode
				}
			}
		}
	})
	defer st.stop()

	if err != nil {
		return nil, err
	}

	out := []any{}

	for _, r := range getArr(c, "reqs") {
		rq := obj(r)
		st.rec.take()

		var resp c12Resp

		svc := getStr(rq, "svc")

		// the service at the log level of the request; what the token endpoint does with the token requests made
		// while this request is processed
		key, err := st.service(svc, getStr(rq, "log"))
		if err != nil {
			return nil, err
		}

		st.token.set(getStr(rq, "tfault"))

		if w, ok := rq["werr"]; ok && w != nil {
			// a scripted step which waits with the context of the request and then fails
			step := c12WaitStep{send: getStr(obj(w), "t") == "send", auth: getBool(obj(w), "auth"),
				deadline: time.Duration(getInt(obj(w), "deadline")) * time.Millisecond}

			if !step.send {
				if step.err, err = c12BuildErr(obj(w)); err != nil {
					return nil, err
				}
			}

			st.rec.script(getStr(rq, "path"), step)
		}

		switch {
		case getBool(rq, "hc") && svc != "envoy":
			begin := time.Now()
			resp = st.doHalfClose(key, getStr(rq, "path"), rq["accept"], obj(rq["hdr"]),
				time.Duration(getInt(rq, "hcdelay"))*time.Millisecond)
			out = append(out, map[string]any{"err": st.rec.take(), "resp": resp, "rctx": st.rec.takeState(),
				"ms": time.Since(begin).Milliseconds(), "tokreq": st.token.called()})

			continue
		}

		info := []int{}
		begin := time.Now()

		switch svc {
		case "decision", "proxy":
			resp, info = st.doHTTPInfo(key, getStr(rq, "path"), rq["accept"], obj(rq["hdr"]))
		case "envoy":
			resp = st.doGRPCOn(key, getStr(rq, "path"), rq["accept"], obj(rq["hdr"]))
		default:
			return nil, errors.New("unknown service " + svc)
		}

		out = append(out, map[string]any{"err": st.rec.take(), "resp": resp, "rctx": st.rec.takeState(),
			"info": info, "ms": time.Since(begin).Milliseconds(), "tokreq": st.token.called()})
	}

	return out, nil
}

// op "cfgkeys": which response overrides arrive in the services' configuration when a configuration file sets them
// under the given keys (the keys the configuration schema admits).
func c12RunCfgKeys(c map[string]any) (any, error) {
	var sb strings.Builder

	sb.WriteString("serve:\n")

	for _, svc := range []string{"decision", "proxy"} {
		sb.WriteString("  " + svc + ":\n    respond:\n      verbose: true\n      with:\n")

		for _, kv := range getArr(c, "keys") {
			p := obj(kv)
			fmt.Fprintf(&sb, "        %s: { code: %d }\n", getStr(p, "key"), getInt(p, "code"))
		}
	}

	dir, err := os.MkdirTemp(getStr(c, "tmp"), "c12-cfg-")
	if err != nil {
		return nil, err
	}

	defer os.RemoveAll(dir)

	cfgFile := filepath.Join(dir, "heimdall.yaml")
	if err = os.WriteFile(cfgFile, []byte(sb.String()), 0o600); err != nil {
		return nil, err
	}

	conf, err := config.NewConfiguration("C12VERIFUNUSED_", config.ConfigurationPath(cfgFile))
	if err != nil {
		return map[string]any{"load": "rejected"}, nil //nolint:nilerr
	}

	view := func(rc config.RespondConfig) map[string]any {
		return map[string]any{
			"verbose": rc.Verbose,
			"authn":   rc.With.AuthenticationError.Code, "authz": rc.With.AuthorizationError.Code,
			"comm": rc.With.CommunicationError.Code, "precond": rc.With.ArgumentError.Code,
			"noRule": rc.With.NoRuleError.Code, "internal": rc.With.InternalError.Code,
		}
	}

	return map[string]any{"load": "ok", "decision": view(conf.Serve.Decision.Respond),
		"proxy": view(conf.Serve.Proxy.Respond)}, nil
}
