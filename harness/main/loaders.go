package main

// Family "loaders" (property C19): runs heimdall's real load / reload entry points on concrete file contents and
// reports, per case, whether the call returned, returned an error or panicked, and the state the component would
// work with afterwards.
//
//   material/jwt      finalizers.jwtSigner            load() at start, OnChanged() for the reload
//   material/tls      tlsx.keyStore                   load() at start, OnChanged() for the reload
//   material/httpsig  authstrategy.HTTPMessageSignatures  init() at start, OnChanged() for the reload
//   material/keystore keystore.NewKeyStoreFromPEMFile
//   material/trust    truststore.NewTrustStoreFromPEMFile
//   creds             redis.fileCredentials (loaders_creds.go): the hot-reloaded credentials file of the redis cache
//   rulehist          histories of rule files of several sources with lookups after every step (loaders_rules.go)
//
// Panics are caught per call (the check wants to know which call panicked); the operations "watch" and "provider"
// (loaders_bg.go) run the real background goroutines without any protection of their own: there a panic ends the
// harness process, which the check reports as a crash.

import (
	"bytes"
	"encoding/json"
	"errors"
	"fmt"
	"os"
	"path/filepath"
	"runtime/debug"
	"sort"
	"strings"
	"sync"

	"github.com/rs/zerolog"

	"github.com/dadrus/heimdall/internal/keystore"
	"github.com/dadrus/heimdall/internal/rules/endpoint/authstrategy"
	"github.com/dadrus/heimdall/internal/rules/mechanisms/finalizers"
	"github.com/dadrus/heimdall/internal/truststore"
	"github.com/dadrus/heimdall/internal/watcher"
	"github.com/dadrus/heimdall/internal/x/tlsx"
)

func init() { families["loaders"] = runLoaders }

// an unbounded recursion must end the process quickly instead of eating 1 GB of stack first
var c19StackOnce sync.Once

func runLoaders(c map[string]any) (any, error) {
	c19StackOnce.Do(func() { debug.SetMaxStack(48 << 20) })

	switch op := getStr(c, "op"); op {
	case "pool":
		return c19Pool(c)
	case "material":
		return c19Material(c)
	case "ruleset":
		return c19RuleSet(c)
	case "watch":
		return c19Watch(c)
	case "provider":
		return c19Provider(c)
	case "serve":
		return c19Serve(c)
	case "remote":
		return c19RemoteOp(c)
	case "raw":
		return c19RawOp(c)
	case "creds":
		return c19CredsOp(c)
	case "rulehist":
		return c19RuleHistory(c)
	case "k8s":
		return c19K8s(c)
	case "endpoint":
		return c19Endpoint(c)
	case "watchfiles":
		return c19WatchFiles(c)
	default:
		return nil, errors.New("loaders: unknown op " + op)
	}
}

// c19Guard runs f and classifies what happened: "ok", "error" or "panic" (with the panic value for the replay).
func c19Guard(f func() error) (cls string, detail string) {
	defer func() {
		if r := recover(); r != nil {
			cls, detail = "panic", fmt.Sprint(r)
		}
	}()

	if err := f(); err != nil {
		return "error", err.Error()
	}

	return "ok", ""
}

// c19Reload calls the listener like the watcher does (synchronously, so that a panic can be attributed) and
// classifies the reload by what the listener logged: info = reloaded, warn = rejected.
func c19Reload(l watcher.ChangeListener) (string, string) {
	var buf bytes.Buffer

	cls, detail := c19Guard(func() error {
		l.OnChanged(zerolog.New(&buf).Level(zerolog.InfoLevel))

		return nil
	})
	if cls == "panic" {
		return cls, detail
	}

	levels := []string{}

	for _, line := range strings.Split(strings.TrimSpace(buf.String()), "\n") {
		var entry map[string]any
		if json.Unmarshal([]byte(line), &entry) == nil {
			lvl, _ := entry["level"].(string)
			levels = append(levels, lvl)
		}
	}

	switch {
	case len(levels) == 1 && levels[0] == "info":
		return "ok", ""
	case len(levels) == 1 && levels[0] == "warn":
		return "error", buf.String()
	default:
		return "unlogged", buf.String()
	}
}

func c19TempDir() (string, error) { return os.MkdirTemp("", "verif-c19-") }

func c19Write(path string, content any) error {
	s, _ := content.(string)

	return os.WriteFile(path, []byte(s), 0o600)
}

func c19Sorted(l []string) []string {
	res := append([]string{}, l...)
	sort.Strings(res)

	return res
}

type c19Component interface {
	start() error
	listener() watcher.ChangeListener
	state() any
}

type c19JWT struct{ s *finalizers.VerifC19Signer }

func (c c19JWT) start() error                     { return c.s.Load() }
func (c c19JWT) listener() watcher.ChangeListener { return c.s.Listener() }
func (c c19JWT) state() any {
	kid, alg, kids := c.s.State()
	if kid == "" && len(kids) == 0 {
		return nil
	}

	return map[string]any{"kid": kid, "alg": alg, "kids": kids}
}

type c19TLS struct{ ks *tlsx.VerifC19KeyStore }

func (c c19TLS) start() error                     { return c.ks.Load() }
func (c c19TLS) listener() watcher.ChangeListener { return c.ks.Listener() }
func (c c19TLS) state() any {
	serial, n := c.ks.State()
	if serial == "" {
		return nil
	}

	return map[string]any{"serial": serial, "chain": n}
}

type c19Sig struct {
	s *authstrategy.HTTPMessageSignatures
}

func (c c19Sig) start() error                     { return c.s.VerifC19Init() }
func (c c19Sig) listener() watcher.ChangeListener { return c.s }
func (c c19Sig) state() any {
	ok, kids := c.s.VerifC19State()
	if !ok {
		return nil
	}

	return map[string]any{"kids": kids}
}

func c19NewComponent(consumer, path, password, keyID string) (c19Component, error) {
	switch consumer {
	case "jwt":
		return c19JWT{finalizers.VerifC19BareSigner(path, password, keyID)}, nil
	case "tls":
		return c19TLS{tlsx.VerifC19BareKeyStore(path, password, keyID)}, nil
	case "httpsig":
		return c19Sig{&authstrategy.HTTPMessageSignatures{
			Signer: authstrategy.SignerConfig{
				KeyStore: authstrategy.KeyStore{Path: path, Password: password}, KeyID: keyID,
			},
			Components: []string{"@method"},
		}}, nil
	}

	return nil, errors.New("loaders: unknown consumer " + consumer)
}

// c19Material: {"consumer", "first": pem|null, "second": pem, "password", "key_id", "strict"}
func c19Material(c map[string]any) (any, error) {
	dir, err := c19TempDir()
	if err != nil {
		return nil, err
	}

	defer os.RemoveAll(dir)

	path := filepath.Join(dir, "store.pem")
	consumer, password, keyID := getStr(c, "consumer"), getStr(c, "password"), getStr(c, "key_id")

	switch consumer {
	case "keystore":
		if err = c19Write(path, c["second"]); err != nil {
			return nil, err
		}

		var entries []any

		cls, detail := c19Guard(func() error {
			ks, err := keystore.NewKeyStoreFromPEMFile(path, password)
			if err != nil {
				return err
			}

			for _, e := range ks.Entries() {
				entries = append(entries, map[string]any{
					"kid": e.KeyID, "alg": e.Alg, "bits": e.KeySize, "chain": len(e.CertChain),
				})
			}

			return nil
		})

		res := map[string]any{"load": cls}
		if cls == "ok" {
			if entries == nil {
				entries = []any{}
			}

			res["entries"] = entries
		}

		if cls == "panic" {
			res["detail"] = detail
		}

		return res, nil
	case "trust":
		if err = c19Write(path, c["second"]); err != nil {
			return nil, err
		}

		serials := []string{}

		cls, detail := c19Guard(func() error {
			ts, err := truststore.NewTrustStoreFromPEMFile(path, getBool(c, "strict"))
			if err != nil {
				return err
			}

			for _, cert := range ts {
				serials = append(serials, cert.SerialNumber.String())
			}

			return nil
		})

		res := map[string]any{"load": cls}
		if cls == "ok" {
			res["certs"] = serials
		}

		if cls == "panic" {
			res["detail"] = detail
		}

		return res, nil
	}

	comp, err := c19NewComponent(consumer, path, password, keyID)
	if err != nil {
		return nil, err
	}

	res := map[string]any{}

	if first, ok := c["first"].(string); ok {
		if err = c19Write(path, first); err != nil {
			return nil, err
		}

		cls, detail := c19Guard(comp.start)
		res["start"] = cls

		if cls == "panic" {
			res["detail"] = detail
		}
	} else {
		res["start"] = "skipped"
	}

	res["state0"] = comp.state()

	if err = c19Write(path, c["second"]); err != nil {
		return nil, err
	}

	cls, detail := c19Reload(comp.listener())
	res["reload"] = cls

	if cls == "panic" || cls == "unlogged" {
		res["detail"] = detail
	}

	res["state1"] = comp.state()

	return res, nil
}
