package main

// Family "errmap", op "svc" (property C12), the dimensions added in round 5:
//
//   - the LOG LEVEL of a service (trace … disabled, what is logged is discarded): every (service, level) pair is a
//     service of its own, built by the service's own constructor around the one rule executor of the stack
//   - a scripted UPSTREAM for the proxy service (raw TCP): answers / closes / resets / sends informational responses
//     (100 Continue, 102 Processing, 103 Early Hints with Link headers) and then answers or dies / sends a partial
//     final response / never answers
//   - ENDPOINT AUTHENTICATION STRATEGIES of the real mechanisms (remote authorizer, generic authenticator, generic
//     contextualizer, OAuth2 introspection authenticator): oauth2_client_credentials against a scripted token
//     endpoint (answers / 503 / 401 / garbage / OAuth2 error document / closes / never answers / refuses the
//     connection), basic_auth, api_key, http_message_signatures

import (
	"bufio"
	"context"
	"crypto/ecdsa"
	"crypto/elliptic"
	"crypto/rand"
	"crypto/x509"
	"encoding/pem"
	"errors"
	"fmt"
	"io"
	"net"
	"net/http"
	"os"
	"strings"
	"sync"
	"syscall"
	"time"

	"github.com/rs/zerolog"

	"github.com/dadrus/heimdall/internal/config"
	"github.com/dadrus/heimdall/internal/rules/endpoint"
	"github.com/dadrus/heimdall/internal/rules/endpoint/authstrategy"
	"github.com/dadrus/heimdall/internal/rules/oauth2/clientcredentials"
)

// c12Logger is the logger cmd/serve creates for `log.level` (zerolog.New(writer).Level(level)), writing to a
// discarded writer. "" is the no-op logger the stream used before the level became a dimension.
func c12Logger(level string) (zerolog.Logger, error) {
	switch level {
	case "":
		return zerolog.Nop(), nil
	case "disabled":
		return zerolog.New(io.Discard).Level(zerolog.Disabled).With().Timestamp().Logger(), nil
	}

	lvl, err := zerolog.ParseLevel(level)
	if err != nil || lvl < zerolog.TraceLevel || lvl > zerolog.ErrorLevel {
		return zerolog.Nop(), fmt.Errorf("harness: unknown log level %q", level)
	}

	return zerolog.New(io.Discard).Level(lvl).With().Timestamp().Logger(), nil
}

// c12RefusedPort reserves a loopback port on which connections are REFUSED: a socket that is bound but does not
// listen. The port stays reserved (no other process can be given it) until the returned function is called.
func c12RefusedPort() (string, func(), error) {
	fd, err := syscall.Socket(syscall.AF_INET, syscall.SOCK_STREAM, 0)
	if err != nil {
		return "", nil, err
	}

	if err = syscall.Bind(fd, &syscall.SockaddrInet4{Port: 0, Addr: [4]byte{127, 0, 0, 1}}); err != nil {
		syscall.Close(fd)

		return "", nil, err
	}

	sa, err := syscall.Getsockname(fd)
	if err != nil {
		syscall.Close(fd)

		return "", nil, err
	}

	in4, ok := sa.(*syscall.SockaddrInet4)
	if !ok {
		syscall.Close(fd)

		return "", nil, errors.New("not an IPv4 socket")
	}

	return fmt.Sprintf("127.0.0.1:%d", in4.Port), func() { syscall.Close(fd) }, nil
}

// ---------------------------------------------------------------------------------------------------------------
// the scripted upstream of the proxy service

const (
	c12EarlyHints = "HTTP/1.1 103 Early Hints\r\nLink: </style.css>; rel=preload; as=style\r\n" +
		"Link: </script.js>; rel=preload; as=script\r\n\r\n"
	c12UpstreamBody = "the-body-of-the-upstream-response"
)

// c12ServeScript: the request was read; the last path segment says what the upstream does, steps separated by '.':
//
//	c100 p102 h103   an informational response (100 Continue / 102 Processing / 103 Early Hints with two Link headers)
//	ok s404          the final response (200 / 404), marked with `X-Upstream: reached`
//	die reset        the connection is closed (FIN) / reset (RST) without a final response
//	partstatus parthdr   part of the status line / of the header section, then the connection is closed
//	partbody partchunk   the complete header section and part of the announced body (Content-Length / chunked), then the
//	                 connection is closed
//	hang             nothing more is sent until the peer gives up
func c12ServeScript(conn net.Conn, script string, stop <-chan struct{}) {
	defer conn.Close()

	for _, step := range strings.Split(script, ".") {
		switch step {
		case "c100":
			io.WriteString(conn, "HTTP/1.1 100 Continue\r\n\r\n") //nolint:errcheck
		case "p102":
			io.WriteString(conn, "HTTP/1.1 102 Processing\r\n\r\n") //nolint:errcheck
		case "h103":
			io.WriteString(conn, c12EarlyHints) //nolint:errcheck
		case "ok", "s404":
			status := "200 OK"
			if step == "s404" {
				status = "404 Not Found"
			}

			fmt.Fprintf(conn, "HTTP/1.1 %s\r\nX-Upstream: reached\r\nContent-Type: text/plain\r\nContent-Length: %d\r\n"+
				"Connection: close\r\n\r\n%s", status, len(c12UpstreamBody), c12UpstreamBody)

			return
		case "die":
			return
		case "reset":
			if tcp, ok := conn.(*net.TCPConn); ok {
				tcp.SetLinger(0) //nolint:errcheck
			}

			return
		case "partstatus":
			io.WriteString(conn, "HTTP/1.1 20") //nolint:errcheck

			return
		case "parthdr":
			io.WriteString(conn, "HTTP/1.1 200 OK\r\nX-Upstream: reached\r\nContent-Le") //nolint:errcheck

			return
		case "partbody":
			fmt.Fprintf(conn, "HTTP/1.1 200 OK\r\nX-Upstream: reached\r\nContent-Type: text/plain\r\n"+
				"Content-Length: %d\r\n\r\n%s", 4*len(c12UpstreamBody), c12UpstreamBody)

			return
		case "partchunk":
			fmt.Fprintf(conn, "HTTP/1.1 200 OK\r\nX-Upstream: reached\r\nContent-Type: text/plain\r\n"+
				"Transfer-Encoding: chunked\r\n\r\n%x\r\n%s\r\n%x\r\n%s", len(c12UpstreamBody), c12UpstreamBody,
				4*len(c12UpstreamBody), c12UpstreamBody[:8])

			return
		case "hang":
			done := make(chan struct{})

			go func() {
				io.Copy(io.Discard, conn) //nolint:errcheck
				close(done)
			}()

			select {
			case <-done:
			case <-stop:
			case <-time.After(2 * c12WaitLimit):
			}

			return
		default:
			// an unknown step: answer with something no scenario expects
			io.WriteString(conn, "HTTP/1.1 599 Unknown Script Step\r\nContent-Length: 0\r\n\r\n") //nolint:errcheck

			return
		}
	}
}

func c12ScriptedUpstream(ln net.Listener, stop <-chan struct{}) {
	for {
		conn, err := ln.Accept()
		if err != nil {
			return
		}

		go func() {
			conn.SetDeadline(time.Now().Add(3 * c12WaitLimit)) //nolint:errcheck

			req, err := http.ReadRequest(bufio.NewReader(conn))
			if err != nil {
				conn.Close()

				return
			}

			path := req.URL.Path
			c12ServeScript(conn, path[strings.LastIndex(path, "/")+1:], stop)
		}()
	}
}

// ---------------------------------------------------------------------------------------------------------------
// the scripted OAuth2 token endpoint

type c12TokenEndpoint struct {
	mu    sync.Mutex
	fault string
	calls int
	stop  chan struct{}
}

func (t *c12TokenEndpoint) set(fault string) {
	t.mu.Lock()
	defer t.mu.Unlock()

	t.fault = fault
	t.calls = 0
}

func (t *c12TokenEndpoint) called() int {
	t.mu.Lock()
	defer t.mu.Unlock()

	return t.calls
}

// ServeHTTP answers a token request as the fault set for the current request of the case says
func (t *c12TokenEndpoint) ServeHTTP(rw http.ResponseWriter, req *http.Request) {
	t.mu.Lock()
	fault := t.fault
	t.calls++
	t.mu.Unlock()

	io.Copy(io.Discard, req.Body) //nolint:errcheck

	answer := func(code int, ctype, body string) {
		if ctype != "" {
			rw.Header().Set("Content-Type", ctype)
		}

		rw.WriteHeader(code)
		io.WriteString(rw, body) //nolint:errcheck
	}

	switch fault {
	case "", "ok":
		answer(http.StatusOK, "application/json", `{"access_token":"tok-123","token_type":"Bearer","expires_in":300}`)
	case "s503":
		answer(http.StatusServiceUnavailable, "text/plain", "try again later")
	case "s401":
		answer(http.StatusUnauthorized, "application/json", `{"error":"invalid_client"}`)
	case "garbage200":
		answer(http.StatusOK, "text/html", "<html><body>welcome to the captive portal</body></html>")
	case "err200":
		answer(http.StatusOK, "application/json", `{"error":"invalid_client","error_description":"unknown client"}`)
	case "invalid_client":
		answer(http.StatusBadRequest, "application/json",
			`{"error":"invalid_client","error_description":"client authentication failed"}`)
	case "garbage400":
		answer(http.StatusBadRequest, "text/plain", "Bad Request")
	case "die":
		if hj, ok := rw.(http.Hijacker); ok {
			if conn, _, err := hj.Hijack(); err == nil {
				conn.Close()
			}
		}
	case "hang":
		select {
		case <-req.Context().Done():
		case <-t.stop:
		case <-time.After(2 * c12WaitLimit):
		}
	default:
		answer(599, "text/plain", "unknown fault "+fault)
	}
}

// ---------------------------------------------------------------------------------------------------------------
// configuration: mechanisms whose endpoints authenticate, and their rules

// placeholders: UPSTREAM (answers every request), TOKENHOST (the scripted token endpoint), REFUSEDHOST (connections
// are refused), SCRIPTHOST (the scripted upstream)
const c12EndpointAuthenticators = `
    - id: generic_cc
      type: generic
      config:
        identity_info_endpoint: { url: "http://UPSTREAM/userinfo", method: GET, auth: CC_AUTH }
        authentication_data_source: [ { header: X-Token } ]
        subject: { id: sub }
    - id: generic_ccx
      type: generic
      config:
        identity_info_endpoint: { url: "http://UPSTREAM/userinfo", method: GET, auth: CCX_AUTH }
        authentication_data_source: [ { header: X-Token } ]
        subject: { id: sub }
    - id: introspect_cc
      type: oauth2_introspection
      config:
        introspection_endpoint: { url: "http://UPSTREAM/introspect", auth: CC_AUTH }
        token_source: [ { header: X-Token } ]
        assertions: { issuers: [ "c12-issuer" ] }
        cache_ttl: 0s
    - id: introspect_ccx
      type: oauth2_introspection
      config:
        introspection_endpoint: { url: "http://UPSTREAM/introspect", auth: CCX_AUTH }
        token_source: [ { header: X-Token } ]
        assertions: { issuers: [ "c12-issuer" ] }
        cache_ttl: 0s
`

const c12EndpointContextualizers = `
  contextualizers:
    - id: ctx_cc
      type: generic
      config:
        endpoint: { url: "http://UPSTREAM/ctxdata", auth: CC_AUTH }
        payload: "{}"
        cache_ttl: 0s
    - id: ctx_ccx
      type: generic
      config:
        endpoint: { url: "http://UPSTREAM/ctxdata", auth: CCX_AUTH }
        payload: "{}"
        cache_ttl: 0s
`

const c12EndpointAuthorizers = `
    - id: remote_cc
      type: remote
      config:
        endpoint: { url: "http://UPSTREAM/authz", auth: CC_AUTH }
        payload: "{}"
    - id: remote_ccx
      type: remote
      config:
        endpoint: { url: "http://UPSTREAM/authz", auth: CCX_AUTH }
        payload: "{}"
    - id: remote_ccbody
      type: remote
      config:
        endpoint:
          url: "http://UPSTREAM/authz"
          auth:
            type: oauth2_client_credentials
            config: { token_url: "http://TOKENHOST/token", client_id: heimdall, client_secret: secret, cache_ttl: 0s, auth_method: request_body, scopes: [ a, b ], header: { name: X-Api-Token, scheme: Token } }
        payload: "{}"
    - id: remote_basic
      type: remote
      config:
        endpoint: { url: "http://UPSTREAM/authz", auth: { type: basic_auth, config: { user: heimdall, password: secret } } }
        payload: "{}"
    - id: remote_apikey
      type: remote
      config:
        endpoint: { url: "http://UPSTREAM/authz", auth: { type: api_key, config: { in: query, name: key, value: secret } } }
        payload: "{}"
    - id: remote_apikey_dead
      type: remote
      config:
        endpoint: { url: "http://DEADHOST/authz", auth: { type: api_key, config: { in: header, name: X-Key, value: secret } } }
        payload: "{}"
`

const (
	c12CCAuth  = `{ type: oauth2_client_credentials, config: { token_url: "http://TOKENHOST/token", client_id: heimdall, client_secret: secret, cache_ttl: 0s } }`
	c12CCXAuth = `{ type: oauth2_client_credentials, config: { token_url: "http://REFUSEDHOST/token", client_id: heimdall, client_secret: secret, cache_ttl: 0s } }`
)

const c12EndpointRules = `
- id: up
  match: { routes: [ { path: "/up/:script" } ] }
  forward_to: { host: "SCRIPTHOST" }
  execute:
    - authenticator: anon
- id: upwww
  match: { routes: [ { path: "/upwww/:script" } ] }
  forward_to: { host: "SCRIPTHOST" }
  execute:
    - authenticator: anon
  on_error:
    - error_handler: challenge
- id: refused
  match: { routes: [ { path: /refused } ] }
  forward_to: { host: "REFUSEDHOST" }
  execute:
    - authenticator: anon
- id: epremote
  match: { routes: [ { path: /ep/remote } ] }
  forward_to: { host: "UPSTREAM" }
  execute:
    - authenticator: anon
    - authorizer: remote_cc
- id: epremotebody
  match: { routes: [ { path: /ep/remotebody } ] }
  forward_to: { host: "UPSTREAM" }
  execute:
    - authenticator: anon
    - authorizer: remote_ccbody
- id: epgeneric
  match: { routes: [ { path: /ep/generic } ] }
  forward_to: { host: "UPSTREAM" }
  execute:
    - authenticator: generic_cc
- id: epintrospect
  match: { routes: [ { path: /ep/introspect } ] }
  forward_to: { host: "UPSTREAM" }
  execute:
    - authenticator: introspect_cc
- id: epctx
  match: { routes: [ { path: /ep/ctx } ] }
  forward_to: { host: "UPSTREAM" }
  execute:
    - authenticator: anon
    - contextualizer: ctx_cc
- id: epxremote
  match: { routes: [ { path: /epx/remote } ] }
  forward_to: { host: "UPSTREAM" }
  execute:
    - authenticator: anon
    - authorizer: remote_ccx
- id: epxgeneric
  match: { routes: [ { path: /epx/generic } ] }
  forward_to: { host: "UPSTREAM" }
  execute:
    - authenticator: generic_ccx
- id: epxintrospect
  match: { routes: [ { path: /epx/introspect } ] }
  forward_to: { host: "UPSTREAM" }
  execute:
    - authenticator: introspect_ccx
- id: epxctx
  match: { routes: [ { path: /epx/ctx } ] }
  forward_to: { host: "UPSTREAM" }
  execute:
    - authenticator: anon
    - contextualizer: ctx_ccx
- id: epsbasic
  match: { routes: [ { path: /eps/basic } ] }
  forward_to: { host: "UPSTREAM" }
  execute:
    - authenticator: anon
    - authorizer: remote_basic
- id: epsapikey
  match: { routes: [ { path: /eps/apikey } ] }
  forward_to: { host: "UPSTREAM" }
  execute:
    - authenticator: anon
    - authorizer: remote_apikey
- id: epsapikeydead
  match: { routes: [ { path: /eps/apikeydead } ] }
  forward_to: { host: "UPSTREAM" }
  execute:
    - authenticator: anon
    - authorizer: remote_apikey_dead
- id: epssig
  match: { routes: [ { path: /eps/sig } ] }
  forward_to: { host: "UPSTREAM" }
  execute:
    - authenticator: anon
    - authorizer: remote_sig
- id: epssigfail
  match: { routes: [ { path: /eps/sigfail } ] }
  forward_to: { host: "UPSTREAM" }
  execute:
    - authenticator: anon
    - authorizer: remote_sigfail
`

// c12EndpointConfig inserts the mechanisms above into the configuration text of the stream (markers EXTRA_…)
func c12EndpointConfig(cfgText string) string {
	cfgText = strings.Replace(cfgText, "EXTRA_AUTHENTICATORS\n", strings.TrimPrefix(c12EndpointAuthenticators, "\n"), 1)
	cfgText = strings.Replace(cfgText, "EXTRA_AUTHORIZERS\n", strings.TrimPrefix(c12EndpointAuthorizers, "\n"), 1)
	cfgText = strings.Replace(cfgText, "EXTRA_CONTEXTUALIZERS\n", strings.TrimPrefix(c12EndpointContextualizers, "\n"), 1)
	cfgText = strings.ReplaceAll(cfgText, "CCX_AUTH", c12CCXAuth)
	cfgText = strings.ReplaceAll(cfgText, "CC_AUTH", c12CCAuth)

	return cfgText
}

// c12WriteSignerKey writes an EC key (PEM) for the http_message_signatures strategy
func c12WriteSignerKey(path string) error {
	key, err := ecdsa.GenerateKey(elliptic.P256(), rand.Reader)
	if err != nil {
		return err
	}

	der, err := x509.MarshalECPrivateKey(key)
	if err != nil {
		return err
	}

	return os.WriteFile(path, pem.EncodeToMemory(&pem.Block{Type: "EC PRIVATE KEY", Bytes: der}), 0o600)
}

// c12SignatureAuthorizers: the configuration schema does not admit the `http_message_signatures` strategy the loader
// knows, so the two remote authorizers using it are added to the loaded catalogue. `remote_sig` signs what every
// request has; `remote_sigfail` is asked to sign a header the request to the endpoint does not carry, so `Apply` fails
// for every request.
func c12SignatureAuthorizers(upstream, keyFile string) []config.Mechanism {
	mk := func(id string, components []any) config.Mechanism {
		return config.Mechanism{ID: id, Type: "remote", Config: config.MechanismConfig{
			"endpoint": map[string]any{
				"url": "http://" + upstream + "/authz",
				"auth": map[string]any{
					"type": "http_message_signatures",
					"config": map[string]any{
						"signer":     map[string]any{"name": "c12", "key_store": map[string]any{"path": keyFile}},
						"components": components,
					},
				},
			},
			"payload": "{}",
		}}
	}

	return []config.Mechanism{
		mk("remote_sig", []any{"@method", "@target-uri"}),
		mk("remote_sigfail", []any{"@method", "x-not-on-the-request"}),
	}
}

// c12AuthenticatedSend is the scripted step `{"t": "send", "auth": true, "deadline": ms}`: a real outbound call
// through endpoint.Endpoint.SendRequest whose endpoint authenticates with the oauth2_client_credentials strategy
// against the scripted token endpoint, made with a context that expires after `deadline` ms (a mechanism or a
// caller which bounds the time it is willing to wait).
func c12AuthenticatedSend(ctx context.Context, target, tokenHost string, deadline time.Duration) error {
	noCaching := time.Duration(0)

	if deadline > 0 {
		var cancel context.CancelFunc

		ctx, cancel = context.WithTimeout(ctx, deadline)
		defer cancel()
	}

	_, err := endpoint.Endpoint{
		URL: "http://" + target + "/resource", Method: http.MethodGet,
		AuthStrategy: &authstrategy.OAuth2ClientCredentials{Config: clientcredentials.Config{
			TokenURL: "http://" + tokenHost + "/token", ClientID: "heimdall", ClientSecret: "secret", TTL: &noCaching,
		}},
	}.SendRequest(ctx, nil, nil)

	return err
}
