package main

import (
	"context"
	"crypto"
	"crypto/ecdsa"
	"crypto/elliptic"
	"crypto/rand"
	"crypto/sha256"
	"crypto/x509"
	"encoding/base64"
	"encoding/hex"
	"encoding/json"
	"encoding/pem"
	"errors"
	"fmt"
	"io"
	"net/http"
	"net/http/httptest"
	"net/url"
	"os"
	"regexp"
	"sort"
	"strings"
	"sync"
	"time"

	"github.com/go-jose/go-jose/v4"
	gojson "github.com/goccy/go-json"
	"github.com/rs/zerolog"

	"github.com/dadrus/heimdall/internal/cache"
	"github.com/dadrus/heimdall/internal/cache/memory"
	"github.com/dadrus/heimdall/internal/heimdall"
	"github.com/dadrus/heimdall/internal/httpcache"
	"github.com/dadrus/heimdall/internal/keyholder"
	"github.com/dadrus/heimdall/internal/otel/metrics/certificate"
	"github.com/dadrus/heimdall/internal/rules/endpoint"
	"github.com/dadrus/heimdall/internal/rules/endpoint/authstrategy"
	"github.com/dadrus/heimdall/internal/rules/mechanisms/authenticators"
	"github.com/dadrus/heimdall/internal/rules/mechanisms/authorizers"
	"github.com/dadrus/heimdall/internal/rules/mechanisms/contextualizers"
	"github.com/dadrus/heimdall/internal/rules/mechanisms/finalizers"
	"github.com/dadrus/heimdall/internal/rules/mechanisms/subject"
	"github.com/dadrus/heimdall/internal/rules/mechanisms/template"
	"github.com/dadrus/heimdall/internal/rules/oauth2/clientcredentials"
	"github.com/dadrus/heimdall/internal/watcher"
)

// Family "cachekey" (C11): the real cache-key functions and the real caching mechanisms (created through their type
// registries, rule-level overrides through WithConfig) with a recording cache around the real in-memory cache and an
// echo server on a loopback port.

func init() { families["cachekey"] = runCacheKey }

// ---------------------------------------------------------------------------------------------------------------
// recording cache

type c11Cache struct {
	inner cache.Cache // nil: cache off (every Get misses, Set is dropped) but keys are still recorded
	canned []byte     // if set: every Get hits with this value (used to learn keys without remote calls)

	mu   sync.Mutex
	gets []string
	hits int
	sets []string
}

func (c *c11Cache) Start(context.Context) error { return nil }
func (c *c11Cache) Stop(context.Context) error  { return nil }

func (c *c11Cache) Get(ctx context.Context, key string) ([]byte, error) {
	c.mu.Lock()
	c.gets = append(c.gets, key)
	c.mu.Unlock()

	if c.canned != nil {
		c.mu.Lock()
		c.hits++
		c.mu.Unlock()

		return c.canned, nil
	}

	if c.inner == nil {
		return nil, errors.New("no cache entry")
	}

	val, err := c.inner.Get(ctx, key)
	if err == nil {
		c.mu.Lock()
		c.hits++
		c.mu.Unlock()
	}

	return val, err
}

func (c *c11Cache) Set(ctx context.Context, key string, value []byte, ttl time.Duration) error {
	c.mu.Lock()
	c.sets = append(c.sets, key)
	c.mu.Unlock()

	if c.inner == nil {
		return nil
	}

	return c.inner.Set(ctx, key, value, ttl)
}

func (c *c11Cache) take() (gets []string, hits int, sets []string) {
	c.mu.Lock()
	defer c.mu.Unlock()

	gets, hits, sets = c.gets, c.hits, c.sets
	c.gets, c.hits, c.sets = nil, 0, nil

	return gets, hits, sets
}

// ---------------------------------------------------------------------------------------------------------------
// creation context, request context

// the watcher of the creation context remembers who asked to be told about a change of a file, so that a reload can be
// delivered to the living objects the way the real watcher does it (listener.OnChanged)
type c11Watcher struct{}

// the listeners registered since the last reset (those of the mechanism created last)
var c11Listeners []watcher.ChangeListener

func (c11Watcher) Add(_ string, l watcher.ChangeListener) error {
	c11Listeners = append(c11Listeners, l)

	return nil
}

func c11Notify(listeners []watcher.ChangeListener) {
	for _, l := range listeners {
		l.OnChanged(zerolog.Nop())
	}
}

type c11KeyHolders struct{}

// the key holder registered last (the signer of the jwt finalizer created last)
var c11LastHolder keyholder.KeyHolder

func (c11KeyHolders) AddKeyHolder(kh keyholder.KeyHolder) { c11LastHolder = kh }
func (c11KeyHolders) Keys() []jose.JSONWebKey              { return nil }

// what the signer behind a key holder feeds into its hash, as far as it is visible from outside: key id, algorithm and
// thumbprint of its (single) key
func c11SignerFacts(kh keyholder.KeyHolder) (string, string, []byte, bool) {
	if kh == nil || len(kh.Keys()) == 0 {
		return "", "", nil, false
	}

	jwk := kh.Keys()[0]
	tp, _ := jwk.Thumbprint(crypto.SHA256)

	return jwk.KeyID, jwk.Algorithm, tp, true
}

type c11Observer struct{}

func (c11Observer) Add(certificate.Supplier) {}
func (c11Observer) Start() error             { return nil }

type c11CreationContext struct{}

func (c11CreationContext) Watcher() watcher.Watcher                  { return c11Watcher{} }
func (c11CreationContext) KeyHolderRegistry() keyholder.Registry     { return c11KeyHolders{} }
func (c11CreationContext) CertificateObserver() certificate.Observer { return c11Observer{} }

type c11ReqFuncs struct {
	headers map[string]string
	cookies map[string]string
}

func (r *c11ReqFuncs) Header(name string) string {
	for k, v := range r.headers {
		if strings.EqualFold(k, name) {
			return v
		}
	}

	return ""
}
func (r *c11ReqFuncs) Cookie(name string) string   { return r.cookies[name] }
func (r *c11ReqFuncs) Headers() map[string]string  { return r.headers }
func (r *c11ReqFuncs) Body() any                   { return nil }

type c11Ctx struct {
	result   any // what the mechanism produced (subject / outputs entry), with its Go types
	app      context.Context
	req      *heimdall.Request
	outputs  map[string]any
	upstream http.Header
}

func (c *c11Ctx) Request() *heimdall.Request                { return c.req }
func (c *c11Ctx) AddHeaderForUpstream(name, value string)   { c.upstream.Add(name, value) }
func (c *c11Ctx) AddCookieForUpstream(string, string)       {}
func (c *c11Ctx) AppContext() context.Context               { return c.app }
func (c *c11Ctx) SetPipelineError(error)                    {}
func (c *c11Ctx) Outputs() map[string]any                   { return c.outputs }

func c11StrMap(v any) map[string]string {
	res := map[string]string{}

	for k, x := range obj(v) {
		s, _ := x.(string)
		res[k] = c11SignIfJWT(s)
	}

	return res
}

// "JWT:<kid>:<sub>" -> a token signed with the key the echo server publishes under /jwks
func c11SignIfJWT(s string) string {
	if !strings.HasPrefix(s, "JWT:") || c11PrivKey == nil {
		return s
	}

	parts := strings.SplitN(s, ":", 4)
	if len(parts) < 3 {
		return s
	}

	issuer := "issuer-1"
	if len(parts) == 4 {
		issuer = parts[3]
	}

	signer, err := jose.NewSigner(jose.SigningKey{Algorithm: jose.ES256, Key: c11PrivKey},
		(&jose.SignerOptions{}).WithHeader("kid", parts[1]).WithType("JWT"))
	if err != nil {
		return s
	}

	payload, _ := json.Marshal(map[string]any{
		"iss": issuer, "sub": parts[2], "exp": int64(4102444800), "scp": []string{"s1"},
	})

	jws, err := signer.Sign(payload)
	if err != nil {
		return s
	}

	tok, err := jws.CompactSerialize()
	if err != nil {
		return s
	}

	return tok
}

func c11NewCtx(cch cache.Cache, step map[string]any) *c11Ctx {
	app := context.Background()
	app = zerolog.Nop().WithContext(app)

	if cch != nil {
		app = cache.WithContext(app, cch)
	}

	outputs := map[string]any{}
	for k, v := range obj(step["outputs"]) {
		outputs[k] = c11Plain(v)
	}

	u, _ := url.Parse("http://app.local/some/path")

	return &c11Ctx{
		app: app,
		req: &heimdall.Request{
			RequestFunctions: &c11ReqFuncs{headers: c11StrMap(step["headers"]), cookies: c11StrMap(step["cookies"])},
			Method:           http.MethodGet,
			URL:              &heimdall.URL{URL: *u},
		},
		outputs:  outputs,
		upstream: http.Header{},
	}
}

// json.Number -> float64 / int so that values look like decoded JSON
func c11Plain(v any) any {
	switch x := v.(type) {
	case json.Number:
		if i, err := x.Int64(); err == nil {
			return i
		}

		f, _ := x.Float64()

		return f
	case map[string]any:
		res := make(map[string]any, len(x))
		for k, e := range x {
			res[k] = c11Plain(e)
		}

		return res
	case []any:
		res := make([]any, len(x))
		for i, e := range x {
			res[i] = c11Plain(e)
		}

		return res
	default:
		return v
	}
}

func c11Subject(v any) *subject.Subject {
	m := obj(v)
	if m == nil {
		return &subject.Subject{ID: "anon", Attributes: map[string]any{}}
	}

	attrs, _ := c11Plain(m["attrs"]).(map[string]any)
	if attrs == nil {
		attrs = map[string]any{}
	}

	return &subject.Subject{ID: getStr(m, "id"), Attributes: attrs}
}

// ---------------------------------------------------------------------------------------------------------------
// echo server

var (
	c11Srv      *httptest.Server
	c11SrvOnce  sync.Once
	c11SrvMu    sync.Mutex
	c11SrvCalls int
	c11SrvSeen  []string
	c11Level    = regexp.MustCompile(`lvl([0-9])`)
	c11KeyFile  string
	c11KeyJWK   []byte
	c11PrivKey  *ecdsa.PrivateKey
	c11FinKey   *ecdsa.PrivateKey
)

// (re)writes the key store of the jwt finalizer with a fresh key under the same key id
func c11RotateFinalizerKey() {
	key, err := ecdsa.GenerateKey(elliptic.P256(), rand.Reader)
	if err != nil {
		panic(err)
	}

	c11WriteFinalizerKey(key)
}

// writes the key store of the jwt finalizer: the given key under the fixed key id; it is the key tokens are expected
// to verify with from now on
func c11WriteFinalizerKey(key *ecdsa.PrivateKey) {
	if err := c11WriteKeyStore(c11KeyFile, "c11key", key); err != nil {
		panic(err)
	}

	c11FinKey = key
}

func c11WriteKeyStore(path, kid string, key *ecdsa.PrivateKey) error {
	der, err := x509.MarshalPKCS8PrivateKey(key)
	if err != nil {
		return err
	}

	hdr := map[string]string{}
	if kid != "" {
		hdr["X-Key-ID"] = kid
	}

	return os.WriteFile(path, pem.EncodeToMemory(&pem.Block{Type: "PRIVATE KEY", Bytes: der, Headers: hdr}), 0o600)
}

// a change of a watched key store followed by the notification of the living listeners (the file watcher firing):
// "new" = another key under the same key id, "same" = the file rewritten with the key in force, "back" = the key that was
// in force before the last change (a roll-back; without an earlier key: "same"). Returns the keys now in force / before.
func c11ReloadKeyStore(
	how string, cur, prev *ecdsa.PrivateKey, write func(*ecdsa.PrivateKey), listeners []watcher.ChangeListener,
) (*ecdsa.PrivateKey, *ecdsa.PrivateKey) {
	switch how {
	case "new":
		key, err := ecdsa.GenerateKey(elliptic.P256(), rand.Reader)
		if err != nil {
			panic(err)
		}

		prev, cur = cur, key
	case "back":
		if prev != nil {
			prev, cur = cur, prev
		}
	}

	write(cur)
	c11Notify(listeners)

	return cur, prev
}

func c11Describe(r *http.Request, body []byte) string {
	var hdrs []string

	for k, vs := range r.Header {
		lk := strings.ToLower(k)
		if strings.HasPrefix(lk, "x-") || lk == "authorization" || lk == "cookie" || lk == "content-type" ||
			lk == "accept" {
			sorted := append([]string(nil), vs...)
			sort.Strings(sorted)
			hdrs = append(hdrs, lk+"="+strings.Join(sorted, ","))
		}
	}

	sort.Strings(hdrs)

	return r.Method + " " + r.URL.RequestURI() + "\n" + strings.Join(hdrs, "\n") + "\n\n" + string(body)
}

func c11Handler(w http.ResponseWriter, r *http.Request) {
	body, _ := io.ReadAll(r.Body)
	desc := c11Describe(r, body)
	sum := sha256.Sum256([]byte(desc))
	echo := hex.EncodeToString(sum[:8])

	c11SrvMu.Lock()
	c11SrvCalls++
	c11SrvSeen = append(c11SrvSeen, desc)
	c11SrvMu.Unlock()

	if strings.Contains(desc, "fail500") {
		w.WriteHeader(http.StatusInternalServerError)

		return
	}

	level := 0
	if m := c11Level.FindStringSubmatch(desc); m != nil {
		level = int(m[1][0] - '0')
	}

	w.Header().Set("Content-Type", "application/json")
	w.Header().Set("X-R1", "r1-"+echo)
	w.Header().Set("X-R2", "r2-"+echo)

	switch {
	case strings.Contains(r.URL.Path, "/ct-yaml"):
		w.Header().Set("Content-Type", "application/yaml")
		fmt.Fprintf(w, "echo: \"%s\"\nsub: \"%s\"\nlevel: %d\nroles: [a, b]\nnested:\n  n: %d\n", echo, echo, level, level)
	case strings.Contains(r.URL.Path, "/ct-form"):
		w.Header().Set("Content-Type", "application/x-www-form-urlencoded")
		fmt.Fprintf(w, "echo=%s&sub=%s&level=%d&roles=a&roles=b", echo, echo, level)
	case strings.Contains(r.URL.Path, "/ct-text"):
		w.Header().Set("Content-Type", "text/plain")
		fmt.Fprintf(w, "echo %s lvl%d", echo, level)
	case strings.Contains(r.URL.Path, "/ct-empty"):
		w.Header().Del("Content-Type")
		w.WriteHeader(http.StatusOK)
	case strings.HasPrefix(r.URL.Path, "/intro"):
		form, _ := url.ParseQuery(string(body))
		token := form.Get("token")
		scope := ""

		if idx := strings.Index(token, "~"); idx >= 0 {
			scope = strings.ReplaceAll(token[idx+1:], "+", " ")
		}

		_ = json.NewEncoder(w).Encode(map[string]any{
			"active": true, "sub": echo, "scope": scope, "iss": "issuer-1",
			"exp": int64(4102444800), "iat": int64(1000000000), // fixed, so that responses can be compared
		})
	case strings.HasPrefix(r.URL.Path, "/jwks"):
		var keys []jose.JSONWebKey
		for _, kid := range []string{"k1", "k2", "k12"} {
			keys = append(keys, jose.JSONWebKey{Key: c11PrivKey.Public(), KeyID: kid, Algorithm: "ES256", Use: "sig"})
		}

		_ = json.NewEncoder(w).Encode(jose.JSONWebKeySet{Keys: keys})
	case strings.HasPrefix(r.URL.Path, "/token"):
		_ = json.NewEncoder(w).Encode(map[string]any{
			"access_token": echo, "token_type": "Bearer", "expires_in": 3600,
		})
	case strings.HasPrefix(r.URL.Path, "/http"):
		if r.URL.Query().Get("vary") != "" {
			w.Header().Set("Vary", "X-Tenant")
		}

		w.Header().Set("Cache-Control", "max-age=600")
		_, _ = w.Write([]byte(`{"echo":"` + echo + `"}`))
	default:
		_ = json.NewEncoder(w).Encode(map[string]any{
			"sub": echo, "echo": echo, "level": level, "roles": []string{"a", "b"}, "nested": map[string]any{"n": level},
		})
	}
}

func c11Setup() {
	c11SrvOnce.Do(func() {
		c11Srv = httptest.NewServer(http.HandlerFunc(c11Handler))

		key, err := ecdsa.GenerateKey(elliptic.P256(), rand.Reader)
		if err != nil {
			panic(err)
		}

		f, err := os.CreateTemp("", "verif-c11-*.pem")
		if err != nil {
			panic(err)
		}

		f.Close()

		c11KeyFile = f.Name()
		c11PrivKey = key
		c11RotateFinalizerKey()
		jwk := jose.JSONWebKey{Key: key.Public(), KeyID: "k1", Algorithm: "ES256", Use: "sig"}
		c11KeyJWK, _ = jwk.MarshalJSON()
	})
}

func c11TakeCalls() (int, []string) {
	c11SrvMu.Lock()
	defer c11SrvMu.Unlock()

	n, seen := c11SrvCalls, c11SrvSeen
	c11SrvCalls, c11SrvSeen = 0, nil

	return n, seen
}

// replaces the placeholder host of the case by the echo server and the key store placeholder by the generated file
func c11Subst(v any) any {
	switch x := v.(type) {
	case string:
		s := strings.ReplaceAll(x, "http://SRV", c11Srv.URL)

		return strings.ReplaceAll(s, "KEYFILE", c11KeyFile)
	case map[string]any:
		res := make(map[string]any, len(x))
		for k, e := range x {
			res[k] = c11Subst(e)
		}

		return res
	case []any:
		res := make([]any, len(x))
		for i, e := range x {
			res[i] = c11Subst(e)
		}

		return res
	case json.Number:
		if i, err := x.Int64(); err == nil {
			return int(i)
		}

		return v
	default:
		return v
	}
}

// ---------------------------------------------------------------------------------------------------------------
// mechanisms

type c11Mech struct {
	kind string
	exec func(ctx *c11Ctx, sub *subject.Subject) (string, error) // result echo
}

// a mechanism of the catalogue: created once, handed out to rules as it is or through WithConfig
type c11Proto struct {
	kind   string
	holder keyholder.KeyHolder
	// who the file watcher would notify about a change of a watched file (the signer of the jwt finalizer)
	listeners []watcher.ChangeListener
	with   func(override map[string]any) (*c11Mech, error)
}

func c11Unsub(s string) string {
	if c11Srv == nil {
		return s
	}

	return strings.ReplaceAll(s, c11Srv.URL, "http://SRV")
}

func c11JWTClaims(header string) string {
	parts := strings.Split(strings.TrimSpace(strings.TrimPrefix(strings.TrimPrefix(header, "Bearer"), "Foo")), ".")
	if len(parts) != 3 {
		return "not-a-jwt"
	}

	raw, err := base64.RawURLEncoding.DecodeString(parts[1])
	if err != nil {
		return "not-a-jwt"
	}

	var claims map[string]any
	if err = json.Unmarshal(raw, &claims); err != nil {
		return "not-a-jwt"
	}

	for _, k := range []string{"iat", "nbf", "exp", "jti"} {
		delete(claims, k)
	}

	out, _ := json.Marshal(claims)
	sig := "bad"

	if tok, err := jose.ParseSigned(strings.Join(parts, "."), []jose.SignatureAlgorithm{jose.ES256}); err == nil {
		if _, err = tok.Verify(c11FinKey.Public()); err == nil {
			sig = "ok"
		}
	}

	return string(out) + "|sig=" + sig
}

func c11NewProto(kind, id string, conf map[string]any) (*c11Proto, error) {
	proto, err := c11NewProtoOf(kind, id, conf)
	if proto != nil {
		proto.listeners = c11Listeners
	}

	return proto, err
}

func c11NewProtoOf(kind, id string, conf map[string]any) (*c11Proto, error) {
	cctx := c11CreationContext{}
	c11LastHolder = nil
	c11Listeners = nil

	switch kind {
	case "genericAuthenticator", "introspection", "jwtAuthenticator":
		typ := map[string]string{
			"genericAuthenticator": authenticators.AuthenticatorGeneric,
			"introspection":        authenticators.AuthenticatorOAuth2Introspection,
			"jwtAuthenticator":     authenticators.AuthenticatorJwt,
		}[kind]

		proto, err := authenticators.CreatePrototype(cctx, id, typ, conf)
		if err != nil {
			return nil, err
		}

		return &c11Proto{kind: kind, with: func(override map[string]any) (*c11Mech, error) {
			mech := proto // as the mechanism factory does: without a rule-level configuration the prototype itself is used

			if override != nil {
				var err error
				if mech, err = proto.WithConfig(override); err != nil {
					return nil, err
				}
			}

			return &c11Mech{kind: kind, exec: func(ctx *c11Ctx, _ *subject.Subject) (string, error) {
				sub, err := mech.Execute(ctx)
				if err != nil {
					return "", err
				}

				ctx.result = map[string]any{"ID": sub.ID, "Attributes": sub.Attributes}

				return sub.ID, nil
			}}, nil
		}}, nil
	case "remoteAuthorizer":
		proto, err := authorizers.CreatePrototype(cctx, id, authorizers.AuthorizerRemote, conf)
		if err != nil {
			return nil, err
		}

		return &c11Proto{kind: kind, with: func(override map[string]any) (*c11Mech, error) {
			mech := proto // as the mechanism factory does: without a rule-level configuration the prototype itself is used

			if override != nil {
				var err error
				if mech, err = proto.WithConfig(override); err != nil {
					return nil, err
				}
			}

			return &c11Mech{kind: kind, exec: func(ctx *c11Ctx, sub *subject.Subject) (string, error) {
				if err := mech.Execute(ctx, sub); err != nil {
					return "", err
				}

				ctx.result = ctx.outputs[id]

				return c11EchoOf(ctx.outputs[id]), nil
			}}, nil
		}}, nil
	case "genericContextualizer":
		proto, err := contextualizers.CreatePrototype(cctx, id, contextualizers.ContextualizerGeneric, conf)
		if err != nil {
			return nil, err
		}

		return &c11Proto{kind: kind, with: func(override map[string]any) (*c11Mech, error) {
			mech := proto // as the mechanism factory does: without a rule-level configuration the prototype itself is used

			if override != nil {
				var err error
				if mech, err = proto.WithConfig(override); err != nil {
					return nil, err
				}
			}

			return &c11Mech{kind: kind, exec: func(ctx *c11Ctx, sub *subject.Subject) (string, error) {
				if err := mech.Execute(ctx, sub); err != nil {
					return "", err
				}

				ctx.result = ctx.outputs[id]

				return c11EchoOf(ctx.outputs[id]), nil
			}}, nil
		}}, nil
	case "jwtFinalizer", "ccFinalizer":
		typ := finalizers.FinalizerJwt
		if kind == "ccFinalizer" {
			typ = finalizers.FinalizerOAuth2ClientCredentials
		}

		proto, err := finalizers.CreatePrototype(cctx, id, typ, conf)
		if err != nil {
			return nil, err
		}

		return &c11Proto{kind: kind, holder: c11LastHolder, with: func(override map[string]any) (*c11Mech, error) {
			mech := proto // as the mechanism factory does: without a rule-level configuration the prototype itself is used

			if override != nil {
				var err error
				if mech, err = proto.WithConfig(override); err != nil {
					return nil, err
				}
			}

			return &c11Mech{kind: kind, exec: func(ctx *c11Ctx, sub *subject.Subject) (string, error) {
				if err := mech.Execute(ctx, sub); err != nil {
					return "", err
				}

				for _, vs := range ctx.upstream {
					if len(vs) != 0 {
						if kind == "ccFinalizer" {
							return strings.TrimSpace(strings.TrimPrefix(vs[0], "Bearer")), nil
						}

						return c11JWTClaims(vs[0]), nil
					}
				}

				return "no-header", nil
			}}, nil
		}}, nil
	}

	return nil, fmt.Errorf("unknown mechanism kind %s", kind)
}

func c11Build(kind, id string, conf map[string]any, override map[string]any) (*c11Mech, *c11Proto, error) {
	proto, err := c11NewProto(kind, id, conf)
	if err != nil {
		return nil, nil, err
	}

	mech, err := proto.with(override)

	return mech, proto, err
}

func c11EchoOf(v any) string {
	switch x := v.(type) {
	case map[string]any:
		switch e := x["echo"].(type) {
		case string:
			return e
		case []string:
			if len(e) != 0 {
				return e[0]
			}
		case []any:
			if len(e) != 0 {
				return fmt.Sprint(e[0])
			}
		}
	case string:
		if f := strings.Fields(x); len(f) >= 2 && f[0] == "echo" {
			return f[1]
		}

		return "str:" + x
	case nil:
		return "none"
	}

	return "other"
}

// the typed value as an expression or template sees it
func c11Typed(v any) string { return fmt.Sprintf("%#v", v) }

func c11Upstream(h http.Header) string {
	var lines []string
	for k, vs := range h {
		lines = append(lines, k+"="+strings.Join(vs, ","))
	}

	sort.Strings(lines)

	return strings.Join(lines, ";")
}

func c11CannedFor(kind string) []byte {
	switch kind {
	case "genericAuthenticator":
		return []byte(`{"sub":"canned"}`)
	case "introspection":
		return []byte(`{"active":true,"sub":"canned","iss":"issuer-1"}`)
	case "jwtAuthenticator":
		return c11KeyJWK
	case "remoteAuthorizer":
		return []byte(`{"headers":{},"payload":{"echo":"canned","level":9}}`)
	case "genericContextualizer":
		return []byte(`{"payload":{"echo":"canned"}}`)
	case "jwtFinalizer":
		return []byte(`a.b.c`)
	}

	return []byte(`{}`)
}

// ---------------------------------------------------------------------------------------------------------------
// op "key": the set of keys a key function produces for one configuration, over `reps` evaluations

func c11Endpoint(m map[string]any) endpoint.Endpoint {
	ep := endpoint.Endpoint{URL: getStr(m, "url"), Method: getStr(m, "method")}

	if h := obj(m["headers"]); h != nil {
		ep.Headers = c11StrMap(h)
	}

	if a := obj(m["auth"]); a != nil {
		ep.AuthStrategy = c11Strategy(a)
	}

	return ep
}

func c11Strategy(a map[string]any) endpoint.AuthenticationStrategy {
	switch getStr(a, "type") {
	case "api_key":
		return &authstrategy.APIKey{In: getStr(a, "in"), Name: getStr(a, "name"), Value: getStr(a, "value")}
	case "basic_auth":
		return &authstrategy.BasicAuth{User: getStr(a, "user"), Password: getStr(a, "password")}
	case "http_message_signatures":
		s := &authstrategy.HTTPMessageSignatures{
			Label: getStr(a, "label"), Components: getStrs(a, "components"),
			Signer: authstrategy.SignerConfig{Name: getStr(a, "name"), KeyID: getStr(a, "key_id")},
		}

		if _, ok := a["ttl"]; ok {
			ttl := time.Duration(c11Int(a, "ttl"))
			s.TTL = &ttl
		}

		return s
	case "oauth2_client_credentials":
		return &authstrategy.OAuth2ClientCredentials{Config: c11ClientCredentials(a)}
	}

	return nil
}

func c11ClientCredentials(a map[string]any) clientcredentials.Config {
	cfg := clientcredentials.Config{
		TokenURL: getStr(a, "token_url"), ClientID: getStr(a, "client_id"), ClientSecret: getStr(a, "client_secret"),
		Scopes: getStrs(a, "scopes"),
	}

	if _, ok := a["ttl"]; ok {
		ttl := time.Duration(c11Int(a, "ttl"))
		cfg.TTL = &ttl
	}

	return cfg
}

func c11ErrKind(err error) string {
	switch {
	case err == nil:
		return "ok"
	case errors.Is(err, heimdall.ErrAuthentication):
		return "authentication"
	case errors.Is(err, heimdall.ErrAuthorization):
		return "authorization"
	case errors.Is(err, heimdall.ErrCommunicationTimeout):
		return "timeout"
	case errors.Is(err, heimdall.ErrCommunication):
		return "communication"
	case errors.Is(err, heimdall.ErrArgument):
		return "argument"
	case errors.Is(err, heimdall.ErrConfiguration):
		return "configuration"
	case errors.Is(err, heimdall.ErrInternal):
		return "internal"
	default:
		return "other"
	}
}

func c11Int(m map[string]any, k string) int {
	if i, ok := m[k].(int); ok {
		return i
	}

	return getInt(m, k)
}

func c11Distinct(vals []string) []string {
	seen := map[string]bool{}
	res := []string{}

	for _, v := range vals {
		if !seen[v] {
			seen[v] = true
			res = append(res, v)
		}
	}

	sort.Strings(res)

	return res
}

func c11KeyOp(c map[string]any) (any, error) {
	c11Setup()

	fn := getStr(c, "fn")
	cfg, _ := c11Subst(obj(c["cfg"])).(map[string]any)
	reps := c11Int(c, "reps")

	if reps <= 0 {
		reps = 1
	}

	var (
		keys []string
		obs  = map[string][]string{}
	)

	note := func(label string, val []byte) { obs[label] = append(obs[label], hex.EncodeToString(val)) }

	switch fn {
	case "endpoint":
		ep := c11Endpoint(cfg)
		for range reps {
			keys = append(keys, hex.EncodeToString(ep.Hash()))
		}
	case "apiKey", "basicAuth", "httpMessageSignatures":
		s := c11Strategy(cfg)
		for range reps {
			keys = append(keys, hex.EncodeToString(s.Hash()))
		}
	case "clientCredentialsHash":
		cc := c11ClientCredentials(cfg)
		for range reps {
			keys = append(keys, hex.EncodeToString(cc.Hash()))
		}
	case "clientCredentialsKey":
		cc := c11ClientCredentials(cfg)
		for range reps {
			keys = append(keys, clientcredentials.VerifC11CacheKey(&cc))
		}
	case "jwtSigner":
		// a signer created by its constructor from a key store holding the harness key under the given key id; then
		// the changes of the key store listed in `reloads`, each delivered to the living signer as the file watcher
		// does; the keys reported are those of the final state
		f, err := os.CreateTemp("", "verif-c11-signer-*.pem")
		if err != nil {
			return nil, err
		}

		f.Close()

		defer os.Remove(f.Name())

		if err = c11WriteKeyStore(f.Name(), getStr(cfg, "kid"), c11FinKey); err != nil {
			return nil, err
		}

		c11Listeners = nil

		signer, err := finalizers.VerifC11NewSigner(f.Name(), getStr(cfg, "iss"), c11Watcher{})
		if err != nil {
			return map[string]any{"error": "signer: " + c11ErrKind(err)}, nil
		}

		listeners := c11Listeners
		cur, prev := c11FinKey, (*ecdsa.PrivateKey)(nil)

		for _, how := range getArr(cfg, "reloads") {
			// the digest is asked for on every request, hence also between two changes of the key store
			_ = signer.Hash()

			h, _ := how.(string)
			cur, prev = c11ReloadKeyStore(h, cur, prev, func(k *ecdsa.PrivateKey) {
				if err := c11WriteKeyStore(f.Name(), getStr(cfg, "kid"), k); err != nil {
					panic(err)
				}
			}, listeners)
		}

		for range reps {
			keys = append(keys, hex.EncodeToString(signer.Hash()))
		}

		if kid, alg, tp, ok := c11SignerFacts(signer); ok {
			note("jwk.KeyID", []byte(kid))
			note("jwk.Algorithm", []byte(alg))
			note("jwk.Thumbprint(crypto.SHA256)", tp)
		}
	case "subject":
		sub := c11Subject(cfg)
		for range reps {
			keys = append(keys, hex.EncodeToString(sub.Hash()))
			raw, _ := gojson.Marshal(sub)
			note("json.Marshal(s)", raw)
		}
	case "template":
		for range reps {
			tpl, err := template.New(getStr(cfg, "val"))
			if err != nil {
				return map[string]any{"error": "template"}, nil
			}

			keys = append(keys, hex.EncodeToString(tpl.Hash()))
		}
	case "httpCache":
		for range reps {
			rec := &c11Cache{}
			rt := &httpcache.RoundTripper{Transport: c11StubTransport{}}
			ctx := cache.WithContext(context.Background(), rec)

			req, err := http.NewRequestWithContext(ctx, getStr(cfg, "method"), getStr(cfg, "url"), nil)
			if err != nil {
				return map[string]any{"error": "request"}, nil
			}

			if v, ok := cfg["authorization"].(string); ok {
				req.Header.Set("Authorization", v)
			}

			resp, err := rt.RoundTrip(req)
			if err == nil {
				resp.Body.Close()
			}

			gets, _, _ := rec.take()
			keys = append(keys, gets...)
		}
	default:
		// a mechanism: created by its factory, executed with a cache that answers every lookup
		conf, _ := cfg["conf"].(map[string]any)
		override, _ := cfg["override"].(map[string]any)
		step, _ := cfg["step"].(map[string]any)

		mech, proto, err := c11Build(fn, getStr(cfg, "id"), conf, override)
		if err != nil {
			return map[string]any{"error": "create: " + c11ErrKind(err), "msg": c11Unsub(err.Error())}, nil
		}

		for range reps {
			rec := &c11Cache{canned: c11CannedFor(fn)}
			ctx := c11NewCtx(rec, step)
			sub := c11Subject(step["subject"])

			raw, _ := gojson.Marshal(sub)
			note("json.Marshal(s)", raw)

			raw, _ = gojson.Marshal(ctx.Outputs())
			note("json.Marshal(ctx.Outputs())", raw)

			_, _ = mech.exec(ctx, sub)
			gets, _, _ := rec.take()
			keys = append(keys, gets...)
		}

		if fn == "jwtFinalizer" {
			if kid, alg, tp, ok := c11SignerFacts(proto.holder); ok {
				note("jwk.KeyID", []byte(kid))
				note("jwk.Algorithm", []byte(alg))
				note("jwk.Thumbprint(crypto.SHA256)", tp)
			}
		}
	}

	res := map[string]any{"keys": c11Distinct(keys), "n": len(keys), "srv": c11Srv.URL}

	if len(obs) != 0 {
		o := map[string]any{}
		for k, v := range obs {
			o[k] = c11Distinct(v)
		}

		res["obs"] = o
	}

	return res, nil
}

type c11StubTransport struct{}

func (c11StubTransport) RoundTrip(req *http.Request) (*http.Response, error) {
	return &http.Response{
		StatusCode: http.StatusOK, Proto: "HTTP/1.1", ProtoMajor: 1, ProtoMinor: 1, Header: http.Header{},
		Body: io.NopCloser(strings.NewReader("ok")), Request: req,
	}, nil
}

// ---------------------------------------------------------------------------------------------------------------
// op "run": a history of requests against one mechanism, with the cache on and with the cache off

func c11RunOnce(c map[string]any, cacheOn bool) ([]any, error) {
	fn := getStr(c, "fn")
	conf, _ := c11Subst(obj(c["conf"])).(map[string]any)
	id := getStr(c, "id")

	var inner cache.Cache

	if cacheOn {
		var err error
		if inner, err = memory.NewCache(nil, nil, nil); err != nil {
			return nil, err
		}
	}

	rec := &c11Cache{inner: inner}

	var overrides []map[string]any

	for _, o := range getArr(c, "overrides") {
		m, _ := c11Subst(obj(o)).(map[string]any)
		overrides = append(overrides, m)
	}

	var (
		out     []any
		proto   *c11Proto
		prevKey *ecdsa.PrivateKey // the key of the finalizer's key store before its last change
	)

	c11TakeCalls()

	for _, s := range getArr(c, "steps") {
		step := obj(s)
		rec.take()

		var (
			echo      string
			typed, up string
			err       error
			obs       map[string]any
		)

		switch fn {
		case "clientCredentialsKey":
			cfg, _ := c11Subst(obj(step["cc"])).(map[string]any)
			cc := c11ClientCredentials(cfg)
			ctx := cache.WithContext(zerolog.Nop().WithContext(context.Background()), rec)

			var ti *clientcredentials.TokenInfo
			if ti, err = cc.Token(ctx); err == nil {
				echo = ti.AccessToken
			}
		case "httpCache":
			echo, err = c11HTTPStep(rec, step)
		default:
			var override map[string]any
			if idx := c11Int(step, "override"); idx > 0 && idx <= len(overrides) {
				override = overrides[idx-1]
			}

			// the mechanism is created once and used by all rules (steps); a replaced key store means a reload
			if getBool(step, "rotate") {
				prevKey = c11FinKey
				c11RotateFinalizerKey()

				proto = nil
			}

			// the key store changes and the file watcher tells the LIVING signer (OnChanged): mechanism, rule-level
			// variants and cache stay
			if how := getStr(step, "reload"); how != "" {
				var listeners []watcher.ChangeListener
				if proto != nil {
					listeners = proto.listeners
				}

				_, prevKey = c11ReloadKeyStore(how, c11FinKey, prevKey, c11WriteFinalizerKey, listeners)
			}

			if proto == nil {
				if proto, err = c11NewProto(fn, id, conf); err != nil {
					return nil, fmt.Errorf("create: %s: %s", c11ErrKind(err), c11Unsub(err.Error()))
				}
			}

			var mech *c11Mech
			if mech, err = proto.with(override); err != nil {
				return nil, fmt.Errorf("create: %s: %s", c11ErrKind(err), c11Unsub(err.Error()))
			}

			ctx := c11NewCtx(rec, step)
			sub := c11Subject(step["subject"])

			rawSub, _ := gojson.Marshal(sub)
			rawOut, _ := gojson.Marshal(ctx.Outputs())
			obs = map[string]any{
				"json.Marshal(s)": hex.EncodeToString(rawSub), "json.Marshal(ctx.Outputs())": hex.EncodeToString(rawOut),
			}

			if kid, alg, tp, ok := c11SignerFacts(proto.holder); ok {
				obs["jwk.KeyID"] = hex.EncodeToString([]byte(kid))
				obs["jwk.Algorithm"] = hex.EncodeToString([]byte(alg))
				obs["jwk.Thumbprint(crypto.SHA256)"] = hex.EncodeToString(tp)
			}

			echo, err = mech.exec(ctx, sub)
			typed, up = c11Typed(ctx.result), c11Upstream(ctx.upstream)

			if fn == "jwtFinalizer" || fn == "ccFinalizer" {
				up = "" // the token itself is compared through its claims / its origin
			}
		}

		gets, hits, sets := rec.take()
		calls, seen := c11TakeCalls()

		r := map[string]any{
			"keys": c11Distinct(gets), "hit": hits > 0, "stored": len(sets) > 0, "calls": calls, "out": c11ErrKind(err),
			"echo": echo, "typed": typed, "up": up,
		}
		if obs != nil {
			r["obs"] = obs
		}

		if getBool(c, "trace") {
			for i := range seen {
				seen[i] = c11Unsub(seen[i])
			}

			r["seen"] = seen

			if err != nil {
				r["err"] = c11Unsub(err.Error())
			}
		}

		out = append(out, r)
	}

	return out, nil
}

func c11HTTPStep(rec *c11Cache, step map[string]any) (string, error) {
	ep := endpoint.Endpoint{
		URL: strings.ReplaceAll(getStr(step, "url"), "http://SRV", c11Srv.URL), Method: getStr(step, "method"),
		HTTPCache: &endpoint.HTTPCache{Enabled: true, DefaultTTL: 10 * time.Minute},
	}

	if h := obj(step["headers"]); h != nil {
		ep.Headers = c11StrMap(h)
	}

	if a := obj(step["auth"]); a != nil {
		ep.AuthStrategy = c11Strategy(a)
	}

	ctx := cache.WithContext(zerolog.Nop().WithContext(context.Background()), rec)

	var body io.Reader
	if b := getStr(step, "body"); b != "" {
		body = strings.NewReader(b)
	}

	raw, err := ep.SendRequest(ctx, body, nil)
	if err != nil {
		return "", err
	}

	var m map[string]any
	if json.Unmarshal(raw, &m) != nil {
		return "unparsable", nil
	}

	e, _ := m["echo"].(string)

	return e, nil
}

func c11RunOp(c map[string]any) (any, error) {
	c11Setup()

	on, err := c11RunOnce(c, true)
	if err != nil {
		return map[string]any{"error": err.Error()}, nil
	}

	off, err := c11RunOnce(c, false)
	if err != nil {
		return map[string]any{"error": err.Error()}, nil
	}

	return map[string]any{"on": on, "off": off, "srv": c11Srv.URL}, nil
}

func runCacheKey(c map[string]any) (any, error) {
	switch getStr(c, "op") {
	case "key":
		return c11KeyOp(c)
	case "run":
		return c11RunOp(c)
	}

	return nil, errors.New("unknown op")
}
