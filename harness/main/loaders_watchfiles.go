package main

// Family "loaders", operation "watchfiles" (property C19): the real secrets watcher over SEVERAL watched files.
//
// internal/watcher (fsnotify) watches the files f0 … f(n-1), each in a directory of its own, each with a listener that
// counts its notifications.  The case is a history of real file operations:
//
//	write       the content is overwritten in place (one write system call, no truncation)
//	rewrite     os.WriteFile: truncate + write (what `cp new file` does)
//	truncate    os.Truncate(path, 0)
//	chmod       permission bits changed
//	replace     a new file is written next to it and renamed over it (atomic replacement)
//	remove      os.Remove
//	create      the file is written where none is
//	move_away   renamed to another name in its directory
//	move_back   … and back
//	rmdir       the directory of the file is removed with everything in it
//	mkdir       … and created again, with the file
//	register    a further file is created and registered with the watcher (Add)
//
// After every operation the content of EVERY file that exists is overwritten in place, and the harness reports per
// file whether its listener was notified of that ("delivered"), was not ("silent"), or whether there is no file
// ("absent").  A watcher goroutine that has left its loop shows as "silent" for files it should still deliver.
// Waiting: for what the case expects to be delivered (`expect`, filled in from the model) up to `limit_ms`; without
// expectation for a fixed time.  The case stops at the first step that does not meet its expectation.

import (
	"errors"
	"fmt"
	"os"
	"path/filepath"
	"sync/atomic"
	"time"

	"github.com/rs/zerolog"

	"github.com/dadrus/heimdall/internal/watcher"
)

type c19CountListener struct{ n atomic.Int64 }

func (l *c19CountListener) OnChanged(_ zerolog.Logger) { l.n.Add(1) }

type c19WatchedFile struct {
	dir, path string
	listener  *c19CountListener
	marker    int
}

// overwrite: one write system call on the existing file, hence exactly one modification event
func (f *c19WatchedFile) overwrite() error {
	fh, err := os.OpenFile(f.path, os.O_WRONLY, 0)
	if err != nil {
		return err
	}

	defer fh.Close()

	f.marker++
	_, err = fh.WriteAt([]byte(fmt.Sprintf("%08d\n", f.marker)), 0)

	return err
}

func (f *c19WatchedFile) exists() bool {
	st, err := os.Stat(f.path)

	return err == nil && st.Mode().IsRegular()
}

func c19WatchFiles(c map[string]any) (any, error) {
	root, err := c19TempDir()
	if err != nil {
		return nil, err
	}

	defer os.RemoveAll(root)

	w, err := watcher.VerifC19NewWatcher(zerolog.New(&c19Log{}))
	if err != nil {
		return nil, err
	}

	w.Start()

	defer w.Stop() //nolint:errcheck

	files := []*c19WatchedFile{}

	newFile := func() (*c19WatchedFile, error) {
		dir := filepath.Join(root, fmt.Sprintf("d%d", len(files)))
		f := &c19WatchedFile{dir: dir, path: filepath.Join(dir, "store.pem"), listener: &c19CountListener{}}

		if err := os.Mkdir(dir, 0o700); err != nil {
			return nil, err
		}

		if err := os.WriteFile(f.path, []byte("00000000\n"), 0o600); err != nil {
			return nil, err
		}

		if err := w.Watcher().Add(f.path, f.listener); err != nil {
			return nil, err
		}

		files = append(files, f)

		return f, nil
	}

	for i := 0; i < getInt(c, "files"); i++ {
		if _, err = newFile(); err != nil {
			return nil, err
		}
	}

	limit := time.Duration(getInt(c, "limit_ms")) * time.Millisecond
	if limit <= 0 {
		limit = c19WaitLimit
	}

	counts := func() []int64 {
		res := make([]int64, len(files))
		for i, f := range files {
			res[i] = f.listener.n.Load()
		}

		return res
	}

	// quiet: no notification for a little while (those caused by an operation itself have arrived)
	quiet := func() []int64 {
		last := counts()
		deadline := time.Now().Add(500 * time.Millisecond)

		for time.Now().Before(deadline) {
			time.Sleep(c19Settle / 2)

			cur := counts()
			same := true

			for i := range cur {
				same = same && cur[i] == last[i]
			}

			if same {
				return cur
			}

			last = cur
		}

		return last
	}

	expect := getArr(c, "expect")
	observed := [][]string{}
	res := map[string]any{"alive": true}

	for n, s := range getArr(c, "steps") {
		step := obj(s)
		k := getInt(step, "file")

		if getStr(step, "do") != "register" && (k < 0 || k >= len(files)) {
			return nil, errors.New("loaders: watchfiles: no such file")
		}

		var f *c19WatchedFile
		if k >= 0 && k < len(files) {
			f = files[k]
		}

		switch do := getStr(step, "do"); do {
		case "write":
			err = f.overwrite()
		case "rewrite":
			err = os.WriteFile(f.path, []byte("rewritten\n"), 0o600)
		case "truncate":
			err = os.Truncate(f.path, 0)
		case "chmod":
			var st os.FileInfo
			if st, err = os.Stat(f.path); err == nil {
				err = os.Chmod(f.path, st.Mode().Perm()^0o040)
			}
		case "replace":
			tmp := f.path + ".new"
			if err = os.WriteFile(tmp, []byte("replaced\n"), 0o600); err == nil {
				err = os.Rename(tmp, f.path)
			}
		case "remove":
			err = os.Remove(f.path)
		case "create":
			if f.exists() {
				err = errors.New("create: the file exists")
			} else {
				err = os.WriteFile(f.path, []byte("created\n"), 0o600)
			}
		case "move_away":
			err = os.Rename(f.path, f.path+".away")
		case "move_back":
			err = os.Rename(f.path+".away", f.path)
		case "rmdir":
			err = os.RemoveAll(f.dir)
		case "mkdir":
			if err = os.Mkdir(f.dir, 0o700); err == nil {
				err = os.WriteFile(f.path, []byte("created\n"), 0o600)
			}
		case "register":
			_, err = newFile()
		default:
			err = errors.New("unknown operation " + do)
		}

		if err != nil {
			return nil, fmt.Errorf("loaders: watchfiles: step %d: %w", n, err)
		}

		base := quiet()
		present := make([]bool, len(files))

		for i, g := range files {
			if present[i] = g.exists(); present[i] {
				if err = g.overwrite(); err != nil {
					return nil, fmt.Errorf("loaders: watchfiles: step %d: probe of file %d: %w", n, i, err)
				}
			}
		}

		var want []any
		if n < len(expect) {
			want, _ = expect[n].([]any)
		}

		look := func() []string {
			cur := counts()
			obs := make([]string, len(files))

			for i := range files {
				switch {
				case !present[i]:
					obs[i] = "absent"
				case cur[i] > base[i]:
					obs[i] = "delivered"
				default:
					obs[i] = "silent"
				}
			}

			return obs
		}

		met := true

		if want != nil {
			deadline := time.Now().Add(limit)

			for {
				obs := look()
				met = true

				for i := range obs {
					if i < len(want) && want[i] == "delivered" && obs[i] != "delivered" {
						met = false
					}
				}

				if met || time.Now().After(deadline) {
					break
				}

				time.Sleep(c19Poll)
			}
		} else {
			time.Sleep(300 * time.Millisecond)
		}

		// a notification the case does not expect would have been queued before the expected ones
		time.Sleep(c19Settle)

		observed = append(observed, look())

		if !met {
			res["timeout"] = n

			break
		}
	}

	res["observed"] = observed

	return res, nil
}
