package main

// Family "errmap" (property C12): error values are built as real Go values from the model's term and pushed through
// the real HTTP error handler and the real Envoy gRPC error interceptor of /repo.

import (
	"bytes"
	"context"
	"encoding/json"
	"encoding/xml"
	"errors"
	"fmt"
	"net/http"
	"net/http/httptest"
	"net/url"
	"reflect"
	"sort"
	"strings"
	"sync"
	"time"

	envoy_core "github.com/envoyproxy/go-control-plane/envoy/config/core/v3"
	envoy_auth "github.com/envoyproxy/go-control-plane/envoy/service/auth/v3"
	"github.com/google/cel-go/cel"
	"google.golang.org/grpc"

	"github.com/dadrus/heimdall/internal/handler/decision"
	"github.com/dadrus/heimdall/internal/handler/envoyextauth/grpcv3"
	grpceh "github.com/dadrus/heimdall/internal/handler/middleware/grpc/errorhandler"
	httpeh "github.com/dadrus/heimdall/internal/handler/middleware/http/errorhandler"
	"github.com/dadrus/heimdall/internal/handler/proxy"
	"github.com/dadrus/heimdall/internal/handler/requestcontext"
	"github.com/dadrus/heimdall/internal/handler/service"
	"github.com/dadrus/heimdall/internal/heimdall"
	"github.com/dadrus/heimdall/internal/rules/mechanisms/cellib"
	"github.com/dadrus/heimdall/internal/rules/mechanisms/errorhandlers"
	"github.com/dadrus/heimdall/internal/rules/rule"
	"github.com/dadrus/heimdall/internal/x/errorchain"
)

func init() { families["errmap"] = runErrMap }

// ---------------------------------------------------------------------------------------------------------------
// error terms -> real error values

var errmapKinds = map[string]error{
	"argument":       heimdall.ErrArgument,
	"authentication": heimdall.ErrAuthentication,
	"authorization":  heimdall.ErrAuthorization,
	"communication":  heimdall.ErrCommunication,
	"timeout":        heimdall.ErrCommunicationTimeout,
	"configuration":  heimdall.ErrConfiguration,
	"internal":       heimdall.ErrInternal,
	"noRule":         heimdall.ErrNoRuleFound,
}

// a foreign error type with value semantics and exported fields
type c12ForeignStruct struct {
	Reason string
	Code   int
}

func (e c12ForeignStruct) Error() string { return "foreign struct error: " + e.Reason }

// a foreign error type which wraps nothing but has an Unwrap method returning nil
type c12ForeignUnwrapNil struct{ msg string }

func (e *c12ForeignUnwrapNil) Error() string { return e.msg }
func (e *c12ForeignUnwrapNil) Unwrap() error { return nil }

// a foreign wrapper type (neither fmt nor errorchain) with a single Unwrap
type c12ForeignWrapper struct {
	msg string
	err error
}

func (e *c12ForeignWrapper) Error() string { return e.msg + ": " + e.err.Error() }
func (e *c12ForeignWrapper) Unwrap() error { return e.err }

var (
	c12EvalErrOnce sync.Once
	c12EvalErr     error
)

// a real *cellib.EvalError as produced by a failed CEL expression of heimdall
func c12RealEvalError() error {
	c12EvalErrOnce.Do(func() {
		env, err := cel.NewEnv()
		if err != nil {
			panic(err)
		}

		expr, err := cellib.CompileExpression(env, "1 == 2", "expression evaluated to false")
		if err != nil {
			panic(err)
		}

		c12EvalErr = expr.Eval(map[string]any{})
		if c12EvalErr == nil {
			panic("no eval error")
		}

		var ee *cellib.EvalError
		if !errors.As(c12EvalErr, &ee) {
			panic(fmt.Sprintf("unexpected eval error type %T", c12EvalErr))
		}
	})

	return c12EvalErr
}

func c12BuildErr(t map[string]any) (error, error) {
	switch getStr(t, "t") {
	case "kind":
		e, ok := errmapKinds[getStr(t, "k")]
		if !ok {
			return nil, fmt.Errorf("unknown kind %q", getStr(t, "k"))
		}

		return e, nil
	case "redirect":
		return &heimdall.RedirectError{Message: "redirect", Code: getInt(t, "code"), RedirectTo: getStr(t, "to")}, nil
	case "foreign":
		switch getInt(t, "v") % 5 {
		case 0:
			return errors.New("some foreign error"), nil
		case 1:
			return c12ForeignStruct{Reason: "disk full", Code: 28}, nil
		case 2:
			return c12RealEvalError(), nil
		case 3:
			return &c12ForeignUnwrapNil{msg: "foreign with nil unwrap"}, nil
		default:
			return context.DeadlineExceeded, nil
		}
	case "ctxdone":
		// what an outbound call, a cache access ... returns when the context of the request is done
		if getStr(t, "c") == "deadline" {
			return context.DeadlineExceeded, nil
		}

		return context.Canceled, nil
	case "wrap":
		inner, err := c12BuildErr(obj(t["e"]))
		if err != nil {
			return nil, err
		}

		switch getInt(t, "v") % 3 {
		case 1:
			return &c12ForeignWrapper{msg: "wrapped", err: inner}, nil
		case 2:
			// the error of an aborted / failed call of net/http's client
			return &url.Error{Op: "Get", URL: "http://remote.local/resource", Err: inner}, nil
		}

		return fmt.Errorf("while doing something: %w", inner), nil
	case "join", "chain":
		var es []error

		for _, x := range getArr(t, "es") {
			e, err := c12BuildErr(obj(x))
			if err != nil {
				return nil, err
			}

			es = append(es, e)
		}

		if getStr(t, "t") == "join" {
			if len(es) == 0 {
				return nil, errors.New("empty join is not an error value")
			}

			if getInt(t, "v")%2 == 1 && len(es) == 2 {
				return fmt.Errorf("first %w and second %w", es[0], es[1]), nil
			}

			return errors.Join(es...), nil
		}

		if len(es) == 0 {
			return &errorchain.ErrorChain{}, nil
		}

		var ec *errorchain.ErrorChain
		if getInt(t, "v")%2 == 1 {
			ec = errorchain.NewWithMessage(es[0], "with a message")
		} else {
			ec = errorchain.New(es[0])
		}

		for _, e := range es[1:] {
			ec = ec.CausedBy(e)
		}

		if getInt(t, "v")%4 >= 2 {
			ec = ec.WithErrorContext(&c12ForeignUnwrapNil{msg: "context object"})
		}

		return ec, nil
	}

	return nil, fmt.Errorf("unknown error term %v", t)
}

// c12TermOf is the inverse direction: the shape of an arbitrary error value produced by real code, as a model term
// (used for errors which the assembled services produce themselves).
func c12TermOf(err error, depth int) map[string]any {
	if err == nil {
		return nil
	}

	if depth > 12 {
		return map[string]any{"t": "foreign", "v": 0}
	}

	if err == context.Canceled { //nolint:errorlint
		return map[string]any{"t": "ctxdone", "c": "canceled"}
	}

	if err == context.DeadlineExceeded { //nolint:errorlint
		return map[string]any{"t": "ctxdone", "c": "deadline"}
	}

	for k, s := range errmapKinds {
		if err == s { //nolint:errorlint
			return map[string]any{"t": "kind", "k": k}
		}
	}

	var re *heimdall.RedirectError
	if r, ok := err.(*heimdall.RedirectError); ok { //nolint:errorlint
		re = r

		return map[string]any{"t": "redirect", "code": re.Code, "to": re.RedirectTo}
	}

	if ec, ok := err.(*errorchain.ErrorChain); ok { //nolint:errorlint
		es := []any{}
		for _, e := range ec.Errors() {
			es = append(es, c12TermOf(e, depth+1))
		}

		return map[string]any{"t": "chain", "es": es, "v": 0}
	}

	switch x := err.(type) { //nolint:errorlint
	case interface{ Unwrap() error }:
		inner := x.Unwrap()
		if inner == nil {
			return map[string]any{"t": "foreign", "v": 3}
		}

		return map[string]any{"t": "wrap", "e": c12TermOf(inner, depth+1), "v": 0}
	case interface{ Unwrap() []error }:
		es := []any{}
		for _, e := range x.Unwrap() {
			es = append(es, c12TermOf(e, depth+1))
		}

		return map[string]any{"t": "join", "es": es, "v": 0}
	}

	return map[string]any{"t": "foreign", "v": 0}
}

// ---------------------------------------------------------------------------------------------------------------
// canonical response

type c12Resp struct {
	Out    string     `json:"out"` // "resp" | "panic" | "ok" (an allowed / successful answer) | "rpcerr"
	Status int        `json:"status"`
	Hdrs   [][]string `json:"hdrs"`
	Body   bool       `json:"body"`
	Fmt    string     `json:"fmt"`  // how the body is formatted: html | json | xml | plain | ""
	GRPC   int        `json:"grpc"` // gRPC status code of the CheckResponse, -1 for HTTP
}

func c12BodyFmt(body []byte) string {
	s := string(body)

	switch {
	case len(s) == 0:
		return ""
	case strings.HasPrefix(s, "<p>") && strings.HasSuffix(s, "</p>"):
		return "html"
	case strings.HasPrefix(s, "{") && json.Valid(body):
		return "json"
	case strings.HasPrefix(s, "<"):
		dec := xml.NewDecoder(bytes.NewReader(body))
		for {
			if _, err := dec.Token(); err != nil {
				if err.Error() == "EOF" {
					return "xml"
				}

				return "plain"
			}
		}
	default:
		return "plain"
	}
}

func c12SortHdrs(h [][]string) [][]string {
	sort.Slice(h, func(i, j int) bool {
		if h[i][0] != h[j][0] {
			return h[i][0] < h[j][0]
		}

		return h[i][1] < h[j][1]
	})

	if h == nil {
		h = [][]string{}
	}

	return h
}

func c12FromRecorder(rec *httptest.ResponseRecorder) c12Resp {
	res := rec.Result()
	defer res.Body.Close()

	var hdrs [][]string

	for k, vs := range res.Header {
		for _, v := range vs {
			hdrs = append(hdrs, []string{k, v})
		}
	}

	body := rec.Body.Bytes()

	return c12Resp{Out: "resp", Status: res.StatusCode, Hdrs: c12SortHdrs(hdrs), Body: len(body) != 0,
		Fmt: c12BodyFmt(body), GRPC: -1}
}

func c12FromCheckResponse(res any, err error) c12Resp {
	if err != nil {
		return c12Resp{Out: "rpcerr", GRPC: -2, Hdrs: [][]string{}}
	}

	cr, ok := res.(*envoy_auth.CheckResponse)
	if !ok || cr == nil {
		return c12Resp{Out: "rpcerr", GRPC: -3, Hdrs: [][]string{}}
	}

	code := int(cr.GetStatus().GetCode())

	denied := cr.GetDeniedResponse()
	if denied == nil {
		// an OkHttpResponse (or nothing): Envoy lets the request pass when the gRPC code is OK
		return c12Resp{Out: "ok", GRPC: code, Hdrs: [][]string{}}
	}

	var hdrs [][]string
	for _, h := range denied.GetHeaders() {
		hdrs = append(hdrs, []string{http.CanonicalHeaderKey(h.GetHeader().GetKey()), h.GetHeader().GetValue()})
	}

	return c12Resp{Out: "resp", Status: int(denied.GetStatus().GetCode()), Hdrs: c12SortHdrs(hdrs),
		Body: len(denied.GetBody()) != 0, Fmt: c12BodyFmt([]byte(denied.GetBody())), GRPC: code}
}

// ---------------------------------------------------------------------------------------------------------------
// op "handler": the two translators in isolation

type c12Cfg struct {
	verbose                                          bool
	authn, authz, comm, precond, noRule, internalErr int
}

func c12ReadCfg(m map[string]any) c12Cfg {
	ov := obj(m["ov"])

	return c12Cfg{
		verbose: getBool(m, "verbose"),
		authn:   getInt(ov, "authn"), authz: getInt(ov, "authz"), comm: getInt(ov, "comm"),
		precond: getInt(ov, "precond"), noRule: getInt(ov, "noRule"), internalErr: getInt(ov, "internal"),
	}
}

func c12HTTPHandler(cfg c12Cfg) httpeh.ErrorHandler {
	return httpeh.New(
		httpeh.WithVerboseErrors(cfg.verbose),
		httpeh.WithPreconditionErrorCode(cfg.precond),
		httpeh.WithAuthenticationErrorCode(cfg.authn),
		httpeh.WithAuthorizationErrorCode(cfg.authz),
		httpeh.WithCommunicationErrorCode(cfg.comm),
		httpeh.WithNoRuleErrorCode(cfg.noRule),
		httpeh.WithInternalServerErrorCode(cfg.internalErr),
	)
}

func c12GRPCInterceptor(cfg c12Cfg) grpc.UnaryServerInterceptor {
	return grpceh.New(
		grpceh.WithVerboseErrors(cfg.verbose),
		grpceh.WithPreconditionErrorCode(cfg.precond),
		grpceh.WithAuthenticationErrorCode(cfg.authn),
		grpceh.WithAuthorizationErrorCode(cfg.authz),
		grpceh.WithCommunicationErrorCode(cfg.comm),
		grpceh.WithNoRuleErrorCode(cfg.noRule),
		grpceh.WithInternalServerErrorCode(cfg.internalErr),
	)
}

func c12CheckRequest(method, path string, hdrs map[string]string) *envoy_auth.CheckRequest {
	return &envoy_auth.CheckRequest{
		Attributes: &envoy_auth.AttributeContext{
			Request: &envoy_auth.AttributeContext_Request{
				Http: &envoy_auth.AttributeContext_HttpRequest{
					Method: method, Path: path, Host: "svc.local", Scheme: "http", Headers: hdrs,
				},
			},
		},
	}
}

// c12RequestContext: the context of a request in the given state ("live", "cancelled": the client went away or
// half-closed its connection, "deadline": its deadline has passed)
func c12RequestContext(state string) (context.Context, context.CancelFunc) {
	switch state {
	case "cancelled":
		ctx, cancel := context.WithCancel(context.Background())
		cancel()

		return ctx, cancel
	case "deadline":
		return context.WithDeadline(context.Background(), time.Now().Add(-time.Minute))
	}

	return context.WithCancel(context.Background())
}

func c12HTTPRequest(accept any, rctx string) (*http.Request, context.CancelFunc) {
	ctx, cancel := c12RequestContext(rctx)
	req := httptest.NewRequest(http.MethodGet, "/some/path", nil).WithContext(ctx)

	if a, ok := accept.(string); ok {
		req.Header.Set("Accept", a)
	}

	return req, cancel
}

func c12RunHTTP(cfg c12Cfg, accept any, err error, rctx string) (res c12Resp) {
	defer func() {
		if r := recover(); r != nil {
			res = c12Resp{Out: "panic", GRPC: -1, Hdrs: [][]string{}}
		}
	}()

	rec := httptest.NewRecorder()
	req, cancel := c12HTTPRequest(accept, rctx)

	defer cancel()

	c12HTTPHandler(cfg).HandleError(rec, req, err)

	return c12FromRecorder(rec)
}

// c12FailingExecutor is the rule executor of the in-process service handlers: the pipeline fails with `err`, which
// is either returned, or kept as pipeline error by the request context (so that `Finalize` returns it).
type c12FailingExecutor struct {
	err         error
	viaFinalize bool
}

func (e c12FailingExecutor) Execute(ctx heimdall.Context) (rule.Backend, error) {
	if e.viaFinalize {
		ctx.SetPipelineError(e.err)

		return nil, nil //nolint:nilnil
	}

	return nil, e.err
}

// c12TrackingWriter tells a response which was written from the implicit `200 OK` net/http sends when a handler
// returns without having written anything.
type c12TrackingWriter struct {
	*httptest.ResponseRecorder
	wrote bool
}

func (w *c12TrackingWriter) WriteHeader(code int) {
	w.wrote = true
	w.ResponseRecorder.WriteHeader(code)
}

func (w *c12TrackingWriter) Write(b []byte) (int, error) {
	w.wrote = true

	return w.ResponseRecorder.Write(b)
}

// c12RunServiceHandler: the real `(*handler).ServeHTTP` of internal/handler/service with the request context
// factory of the decision / proxy service and the real error handler, for a request whose context is in state rctx.
func c12RunServiceHandler(svc string, cfg c12Cfg, accept any, err error, rctx string, viaFinalize bool) (res c12Resp) {
	defer func() {
		if r := recover(); r != nil {
			res = c12Resp{Out: "panic", GRPC: -1, Hdrs: [][]string{}}
		}
	}()

	var factory requestcontext.ContextFactory
	if svc == "proxy" {
		factory = proxy.VerifC12ContextFactory()
	} else {
		factory = decision.VerifC12ContextFactory()
	}

	rw := &c12TrackingWriter{ResponseRecorder: httptest.NewRecorder()}
	req, cancel := c12HTTPRequest(accept, rctx)

	defer cancel()

	service.NewHandler(factory, c12FailingExecutor{err: err, viaFinalize: viaFinalize}, c12HTTPHandler(cfg)).
		ServeHTTP(rw, req)

	if !rw.wrote {
		// nothing was written: net/http answers `200 OK` with an empty body, the positive answer
		return c12Resp{Out: "ok", Status: http.StatusOK, GRPC: -1, Hdrs: [][]string{}}
	}

	return c12FromRecorder(rw.ResponseRecorder)
}

// c12RunEnvoyHandler: the real `Handler.Check` of the Envoy gRPC service behind the real error interceptor, for an
// RPC whose context is in state rctx.
func c12RunEnvoyHandler(cfg c12Cfg, accept any, err error, rctx string, viaFinalize bool) (res c12Resp) {
	defer func() {
		if r := recover(); r != nil {
			res = c12Resp{Out: "panic", GRPC: -1, Hdrs: [][]string{}}
		}
	}()

	hdrs := map[string]string{}
	if a, ok := accept.(string); ok {
		hdrs["accept"] = a
	}

	ctx, cancel := c12RequestContext(rctx)
	defer cancel()

	handler := grpcv3.VerifC12NewHandler(c12FailingExecutor{err: err, viaFinalize: viaFinalize})

	out, rerr := c12GRPCInterceptor(cfg)(ctx, c12CheckRequest("GET", "/some/path", hdrs),
		&grpc.UnaryServerInfo{FullMethod: "/envoy.service.auth.v3.Authorization/Check"},
		func(ctx context.Context, req any) (any, error) {
			return handler.Check(ctx, req.(*envoy_auth.CheckRequest)) //nolint:forcetypeassert
		})

	return c12FromCheckResponse(out, rerr)
}

func c12RunGRPC(cfg c12Cfg, accept any, err error, rctx string) (res c12Resp) {
	defer func() {
		if r := recover(); r != nil {
			res = c12Resp{Out: "panic", GRPC: -1, Hdrs: [][]string{}}
		}
	}()

	hdrs := map[string]string{}
	if a, ok := accept.(string); ok {
		hdrs["accept"] = a
	}

	ctx, cancel := c12RequestContext(rctx)
	defer cancel()

	out, rerr := c12GRPCInterceptor(cfg)(ctx, c12CheckRequest("GET", "/some/path", hdrs),
		&grpc.UnaryServerInfo{FullMethod: "/envoy.service.auth.v3.Authorization/Check"},
		func(context.Context, any) (any, error) { return nil, err })

	return c12FromCheckResponse(out, rerr)
}

func runErrMap(c map[string]any) (any, error) {
	switch getStr(c, "op") {
	case "handler":
		err, berr := c12BuildErr(obj(c["err"]))
		if berr != nil {
			return nil, berr
		}

		cfg := c12ReadCfg(obj(c["cfg"]))

		// state of the context of the request / RPC when the failure is translated (absent: live)
		rctx := getStr(c, "rctx")
		if rctx == "" {
			rctx = "live"
		}

		// the two translators
		viaHTTP := c12RunHTTP(cfg, c["accept"], err, rctx)
		viaGRPC := c12RunGRPC(cfg, c["accept"], err, rctx)
		out := map[string]any{"http": viaHTTP, "grpc": viaGRPC}

		if getBool(c, "translators_only") {
			// the thorough tier sends part of its random cases through the translators only
			return out, nil
		}

		// the handlers of the services around them: the failure returned by the rule executor, or kept as pipeline
		// error and returned by Finalize. An answer equal to the translator's own is written as "=http" / "=grpc"
		// (the lines get long otherwise; the Python side expands it again).
		side := func(name string, resp c12Resp, base c12Resp, ref string) {
			if reflect.DeepEqual(resp, base) {
				out[name] = ref
			} else {
				out[name] = resp
			}
		}
		side("dec", c12RunServiceHandler("decision", cfg, c["accept"], err, rctx, false), viaHTTP, "=http")
		side("prx", c12RunServiceHandler("proxy", cfg, c["accept"], err, rctx, false), viaHTTP, "=http")
		side("env", c12RunEnvoyHandler(cfg, c["accept"], err, rctx, false), viaGRPC, "=grpc")
		side("decfin", c12RunServiceHandler("decision", cfg, c["accept"], err, rctx, true), viaHTTP, "=http")
		side("prxfin", c12RunServiceHandler("proxy", cfg, c["accept"], err, rctx, true), viaHTTP, "=http")
		side("envfin", c12RunEnvoyHandler(cfg, c["accept"], err, rctx, true), viaGRPC, "=grpc")

		return out, nil
	case "mech":
		return c12RunMech(c)
	case "ctxprobe":
		return c12RunCtxProbe(c)
	case "wireprobe":
		return c12RunWireProbe(c)
	case "epprobe":
		return c12RunEndpointProbe(c)
	case "svc":
		return c12RunServices(c)
	case "cfgkeys":
		return c12RunCfgKeys(c)
	}

	return nil, fmt.Errorf("unknown op %q", getStr(c, "op"))
}

// op "mech": a redirect error handler is created by the real mechanism factory function from configuration and
// executed on a request context; the pipeline error it leaves goes through both translators.
type c12MechCtx struct {
	req      *heimdall.Request
	upstream http.Header
	err      error
}

func (c *c12MechCtx) Request() *heimdall.Request              { return c.req }
func (c *c12MechCtx) AddHeaderForUpstream(name, value string) { c.upstream.Add(name, value) }
func (c *c12MechCtx) AddCookieForUpstream(_, _ string)        {}
func (c *c12MechCtx) AppContext() context.Context             { return context.Background() }
func (c *c12MechCtx) SetPipelineError(err error)              { c.err = err }
func (c *c12MechCtx) Outputs() map[string]any                 { return map[string]any{} }

func c12RunMech(c map[string]any) (any, error) {
	conf := map[string]any{"to": getStr(c, "to")}
	if _, ok := c["code"]; ok && !getBool(c, "unset") {
		conf["code"] = getInt(c, "code")
	}

	eh, err := errorhandlers.CreatePrototype(nil, "verif_redirect", "redirect", conf)
	if err != nil {
		return map[string]any{"create": "rejected"}, nil //nolint:nilerr
	}

	mctx := &c12MechCtx{
		req: &heimdall.Request{Method: http.MethodGet, URL: &heimdall.URL{URL: url.URL{Path: "/some/path"}}},
		upstream: http.Header{},
	}

	if err = eh.Execute(mctx, errorchain.New(heimdall.ErrAuthentication)); err != nil {
		return nil, fmt.Errorf("redirect handler: %w", err)
	}

	if mctx.err == nil {
		return nil, errors.New("redirect handler left no pipeline error")
	}

	cfg := c12ReadCfg(obj(c["cfg"]))

	return map[string]any{
		"http": c12RunHTTP(cfg, c["accept"], mctx.err, "live"), "grpc": c12RunGRPC(cfg, c["accept"], mctx.err, "live"),
	}, nil
}

var _ = envoy_core.HeaderValue{}
