package main

// Family "pipeline" (property C01): a generated rule (and/or default rule) whose mechanisms replay a scripted
// outcome vector is loaded through the REAL rule-set parser, rule-set processor, rule factory (real CEL conditions,
// real error handlers), repository and rule executor, and one request is sent through each of the three REAL
// entry points (decision service, proxy service with a counting upstream test server, Envoy ext_authz gRPC
// service), all listening on loopback ports handed out by the kernel. The error handlers are the real ones and their
// configuration may read the request (`to` templates over the header X-C01-To, the query parameter `to`, URL parts;
// `if` conditions on them); the case says what the client sends.

import (
	"context"
	"encoding/json"
	"errors"
	"fmt"
	"io"
	"net"
	"net/http"
	"net/http/httptest"
	"net/url"
	"strings"
	"sync"
	"sync/atomic"
	"time"

	envoy_auth "github.com/envoyproxy/go-control-plane/envoy/service/auth/v3"
	"github.com/rs/zerolog"
	"google.golang.org/grpc"
	"google.golang.org/grpc/credentials/insecure"
	"google.golang.org/grpc/status"

	"github.com/dadrus/heimdall/internal/cache/noop"
	"github.com/dadrus/heimdall/internal/config"
	"github.com/dadrus/heimdall/internal/handler/decision"
	"github.com/dadrus/heimdall/internal/handler/envoyextauth/grpcv3"
	"github.com/dadrus/heimdall/internal/handler/proxy"
	"github.com/dadrus/heimdall/internal/heimdall"
	"github.com/dadrus/heimdall/internal/rules"
	rulesconfig "github.com/dadrus/heimdall/internal/rules/config"
	"github.com/dadrus/heimdall/internal/rules/mechanisms/authenticators"
	"github.com/dadrus/heimdall/internal/rules/mechanisms/authorizers"
	"github.com/dadrus/heimdall/internal/rules/mechanisms/contextualizers"
	"github.com/dadrus/heimdall/internal/rules/mechanisms/errorhandlers"
	"github.com/dadrus/heimdall/internal/rules/mechanisms/finalizers"
	"github.com/dadrus/heimdall/internal/rules/mechanisms/subject"
	"github.com/dadrus/heimdall/internal/rules/rule"
	"github.com/dadrus/heimdall/internal/x/errorchain"
)

func init() { families["pipeline"] = runPipeline }

// ---------------------------------------------------------------------------------------------------------------
// case format

type c01Cond struct {
	Lit *bool   `json:"lit"`
	Sub *string `json:"sub"`
	Err *string `json:"err"`
	Bad bool    `json:"bad"`
	// for `lit` conditions: the request attribute the expression looks at ("" = none: a literal or the method;
	// hdr | q | rawq | path; `neg`: the negated question). The truth value `lit` is what the expression has for
	// the request of the case.
	On  string `json:"on"`
	Neg bool   `json:"neg"`
}

type c01Step struct {
	ID    string   `json:"id"`
	Typ   string   `json:"typ"` // authorizer | contextualizer | finalizer
	Cond  *c01Cond `json:"cond"`
	Out   string   `json:"out"` // ok | err | panic
	Sub   string   `json:"sub"`
	Kinds []string `json:"kinds"`
	FB    bool     `json:"fb"`
	CoE   bool     `json:"coe"`
}

type c01EH struct {
	ID     string   `json:"id"`
	Cond   *c01Cond `json:"cond"`
	Kind   string   `json:"kind"` // default | redirect | www
	Render bool     `json:"render"`
	Code   int      `json:"code"`
	// redirect: which `to` template (see c01ToTemplates; "" = static when render, failing otherwise)
	To string `json:"to"`
	// www_authenticate: realm of the catalogue entry (nil = "c01") and of the rule-level `config` (nil = none)
	Realm     *string `json:"realm"`
	RuleRealm *string `json:"rrealm"`
}

// c01Req is the client-controlled request data the `to` templates and the request-dependent `if` conditions read:
// the value of the header X-C01-To and of the query parameter `to` (nil = absent) — and what the middlewares in front
// of the service handler read: the Origin header (nil = absent) and whether the request is a CORS preflight request
// (method OPTIONS with `Access-Control-Request-Method: GET`; otherwise the method is GET).
type c01Req struct {
	Hdr       *string `json:"hdr"`
	Q         *string `json:"q"`
	Origin    *string `json:"origin"`
	Preflight bool    `json:"preflight"`
}

// c01Cors is `serve.<service>.cors` (config.CORS): allowed_origins, allowed_methods (nil = not set), allow_credentials.
type c01Cors struct {
	Origins []string `json:"origins"`
	Methods []string `json:"methods"`
	Creds   bool     `json:"creds"`
}

type c01Rule struct {
	Auth    []c01Step `json:"auth"`
	Hand    []c01Step `json:"hand"`
	Fin     []c01Step `json:"fin"`
	EH      []c01EH   `json:"eh"`
	Backend bool      `json:"backend"`
}

type c01Cfg struct {
	Accepted int `json:"accepted"`
	Argument int `json:"argument"`
	Authn    int `json:"authn"`
	Authz    int `json:"authz"`
	Comm     int `json:"comm"`
	Internal int `json:"internal"`
	NoRule   int `json:"norule"`
	// respond.verbose of all three services
	Verbose bool `json:"verbose"`
	// log.level: trace | debug | info | warn | disabled (absent = disabled)
	Log string `json:"log"`
	// serve.decision.cors and serve.proxy.cors (nil = not configured). Only the proxy service has a CORS middleware.
	Cors *c01Cors `json:"cors"`
}

// key identifies a service configuration (the struct holds a pointer and slices, so it cannot be a map key itself)
func (c c01Cfg) key() string {
	data, err := json.Marshal(c)
	if err != nil {
		panic(err)
	}

	return string(data)
}

type c01Case struct {
	Cfg      c01Cfg   `json:"cfg"`
	Rule     *c01Rule `json:"rule"`
	Default  *c01Rule `json:"default"`
	Hit      bool     `json:"hit"`
	Upstream int      `json:"upstream"`
	Style    int      `json:"style"`
	// value of the request's Accept header (nil = no header)
	Accept *string `json:"accept"`
	Req    c01Req  `json:"req"`
}

// ---------------------------------------------------------------------------------------------------------------
// scripted mechanisms (the only non-real part: they replay the outcome the case prescribes)

type c01Script struct {
	mu    sync.Mutex
	steps map[string]c01Step
	ehs   map[string]c01EH
	style int
	trace []string
}

func (s *c01Script) record(id string) {
	s.mu.Lock()
	s.trace = append(s.trace, id)
	s.mu.Unlock()
}

func (s *c01Script) takeTrace() []string {
	s.mu.Lock()
	defer s.mu.Unlock()

	res := s.trace
	s.trace = nil

	if res == nil {
		res = []string{}
	}

	return res
}

var c01Kinds = map[string]error{ //nolint:gochecknoglobals
	"argument":       heimdall.ErrArgument,
	"authentication": heimdall.ErrAuthentication,
	"authorization":  heimdall.ErrAuthorization,
	"communication":  heimdall.ErrCommunication,
	"timeout":        heimdall.ErrCommunicationTimeout,
	"configuration":  heimdall.ErrConfiguration,
	"internal":       heimdall.ErrInternal,
	"norule":         heimdall.ErrNoRuleFound,
}

var errC01Foreign = errors.New("scripted foreign error") //nolint:gochecknoglobals

// c01MakeErr builds a Go error value whose errors.Is-visible sentinels are exactly `kinds`, in one of several
// shapes the real mechanisms use (error chain with context, bare sentinel, fmt %w wrap, joined errors).
func c01MakeErr(kinds []string, style int, src any) error {
	var sentinels []error

	for _, k := range kinds {
		e, ok := c01Kinds[k]
		if !ok {
			panic("harness: unknown kind " + k)
		}

		sentinels = append(sentinels, e)
	}

	if len(sentinels) == 0 {
		if style%2 == 1 {
			return fmt.Errorf("wrapped: %w", errC01Foreign)
		}

		return errC01Foreign
	}

	chain := func() error {
		ec := errorchain.NewWithMessage(sentinels[0], "scripted failure")
		for _, s := range sentinels[1:] {
			ec = ec.CausedBy(s)
		}

		return ec.WithErrorContext(src)
	}

	switch style % 4 {
	case 0:
		return chain()
	case 1:
		if len(sentinels) == 1 {
			return sentinels[0]
		}

		return errors.Join(sentinels...)
	case 2:
		return fmt.Errorf("wrapped: %w", chain())
	default:
		return errorchain.NewWithMessage(sentinels[0], "outer").CausedBy(errors.Join(sentinels...)).CausedBy(errC01Foreign)
	}
}

// c01Panic panics with a non-error value (no kinds) or with an error value in which `kinds` are visible.
func c01Panic(kinds []string, style int) {
	if len(kinds) == 0 {
		if style%2 == 0 {
			panic("scripted panic")
		}

		panic(42)
	}

	panic(c01MakeErr(kinds, style, nil))
}

type c01Authn struct {
	s    *c01Script
	spec c01Step
}

func (a *c01Authn) ID() string                     { return a.spec.ID }
func (a *c01Authn) IsFallbackOnErrorAllowed() bool { return a.spec.FB }
func (a *c01Authn) WithConfig(map[string]any) (authenticators.Authenticator, error) {
	return a, nil
}

func (a *c01Authn) Execute(_ heimdall.Context) (*subject.Subject, error) {
	a.s.record(a.spec.ID)

	switch a.spec.Out {
	case "ok":
		return &subject.Subject{ID: a.spec.Sub, Attributes: map[string]any{"from": a.spec.ID}}, nil
	case "panic":
		c01Panic(a.spec.Kinds, a.s.style)
	}

	return nil, c01MakeErr(a.spec.Kinds, a.s.style, a)
}

type c01Handler struct {
	s    *c01Script
	spec c01Step
}

func (h *c01Handler) ID() string            { return h.spec.ID }
func (h *c01Handler) ContinueOnError() bool { return h.spec.CoE }

func (h *c01Handler) Execute(_ heimdall.Context, _ *subject.Subject) error {
	h.s.record(h.spec.ID)

	switch h.spec.Out {
	case "ok":
		return nil
	case "panic":
		c01Panic(h.spec.Kinds, h.s.style)
	}

	return c01MakeErr(h.spec.Kinds, h.s.style, h)
}

type c01Authz struct{ c01Handler }

func (h *c01Authz) WithConfig(map[string]any) (authorizers.Authorizer, error) { return h, nil }

type c01Ctxz struct{ c01Handler }

func (h *c01Ctxz) WithConfig(map[string]any) (contextualizers.Contextualizer, error) { return h, nil }

type c01Fin struct{ c01Handler }

func (h *c01Fin) WithConfig(map[string]any) (finalizers.Finalizer, error) { return h, nil }

// c01Factory implements mechanisms.MechanismFactory. Error handlers are the REAL ones.
type c01Factory struct{ s *c01Script }

var errC01Unknown = errors.New("harness: unknown mechanism id") //nolint:gochecknoglobals

func (f *c01Factory) step(id string) (c01Step, error) {
	st, ok := f.s.steps[id]
	if !ok {
		return st, fmt.Errorf("%w: %s", errC01Unknown, id)
	}

	return st, nil
}

func (f *c01Factory) CreateAuthenticator(_, id string, _ config.MechanismConfig) (authenticators.Authenticator, error) {
	st, err := f.step(id)
	if err != nil {
		return nil, err
	}

	return &c01Authn{s: f.s, spec: st}, nil
}

func (f *c01Factory) CreateAuthorizer(_, id string, _ config.MechanismConfig) (authorizers.Authorizer, error) {
	st, err := f.step(id)
	if err != nil {
		return nil, err
	}

	return &c01Authz{c01Handler{s: f.s, spec: st}}, nil
}

func (f *c01Factory) CreateContextualizer(_, id string, _ config.MechanismConfig) (
	contextualizers.Contextualizer, error,
) {
	st, err := f.step(id)
	if err != nil {
		return nil, err
	}

	return &c01Ctxz{c01Handler{s: f.s, spec: st}}, nil
}

func (f *c01Factory) CreateFinalizer(_, id string, _ config.MechanismConfig) (finalizers.Finalizer, error) {
	st, err := f.step(id)
	if err != nil {
		return nil, err
	}

	return &c01Fin{c01Handler{s: f.s, spec: st}}, nil
}

// c01ToTemplates: the `to` templates of the redirect error handler. Besides the static ones they read what the client
// controls — a request header, a query parameter, parts of the URL — so that, depending on the request, they render
// to a URL, to nothing, to blanks, to several lines, or fail (templates that demand a value).
var c01ToTemplates = map[string]string{ //nolint:gochecknoglobals
	"static": "http://127.0.0.1:1/login?origin={{ .Request.URL | urlenc }}",
	// rendering fails at run time for every request (the template itself parses)
	"fail":   `http://127.0.0.1:1/{{ fail "scripted render failure" }}`,
	"hdr":    `{{ .Request.Header "X-C01-To" }}`,
	"q":      `{{ .Request.URL.Query.Get "to" }}`,
	"path":   `{{ .Request.URL.Path }}`,
	"rawq":   `{{ .Request.URL.RawQuery }}`,
	"ml-hdr": "\n  {{ .Request.Header \"X-C01-To\" }}\n",
	"ml-q":   "{{- /* login page */ -}}\n{{ .Request.URL.Query.Get \"to\" }}\n\n",
	"sel": `{{ if .Request.Header "X-C01-To" }}{{ .Request.Header "X-C01-To" }}{{ else }}` +
		`{{ .Request.URL.Query.Get "to" }}{{ end }}`,
	// rendering fails iff the query parameter is absent or empty / absent or blank
	"need-q":      `{{ $v := .Request.URL.Query.Get "to" }}{{ if not $v }}{{ fail "no login url" }}{{ end }}{{ $v }}`,
	"need-q-trim": `{{ $v := .Request.URL.Query.Get "to" | trim }}{{ if not $v }}{{ fail "no login url" }}{{ end }}{{ $v }}`,
}

func (f *c01Factory) CreateErrorHandler(_, id string, conf config.MechanismConfig) (errorhandlers.ErrorHandler, error) {
	eh, ok := f.s.ehs[id]
	if !ok {
		return nil, fmt.Errorf("%w: %s", errC01Unknown, id)
	}

	var (
		proto errorhandlers.ErrorHandler
		err   error
	)

	switch eh.Kind {
	case "default":
		proto, err = errorhandlers.CreatePrototype(nil, id, errorhandlers.ErrorHandlerDefault, nil)
	case "www":
		realm := "c01"
		if eh.Realm != nil {
			realm = *eh.Realm
		}

		proto, err = errorhandlers.CreatePrototype(nil, id, errorhandlers.ErrorHandlerWWWAuthenticate,
			map[string]any{"realm": realm})
	case "redirect":
		name := eh.To
		if name == "" {
			name = "static"
			if !eh.Render {
				name = "fail"
			}
		}

		to, known := c01ToTemplates[name]
		if !known {
			return nil, fmt.Errorf("%w: to template %s", errC01Unknown, name)
		}

		rc := map[string]any{"to": to}
		if eh.Code != 0 {
			rc["code"] = eh.Code
		}

		proto, err = errorhandlers.CreatePrototype(nil, id, errorhandlers.ErrorHandlerRedirect, rc)
	default:
		return nil, fmt.Errorf("%w: kind %s", errC01Unknown, eh.Kind)
	}

	if err != nil {
		return nil, err
	}

	// like mechanismsFactory.CreateErrorHandler: a rule-level `config` reconfigures the prototype
	if conf != nil {
		return proto.WithConfig(conf)
	}

	return proto, nil
}

// ---------------------------------------------------------------------------------------------------------------
// rule-set documents

func c01CondExpr(c *c01Cond, style int) (string, bool) {
	switch {
	case c == nil:
		return "", false
	case c.Lit != nil && c.On != "":
		// an expression over what the client sent; the case says which truth value it has for its request
		var expr string

		switch c.On {
		case "hdr":
			expr = `Request.Header("X-C01-To").startsWith("http")`
		case "q":
			expr = `Request.URL.Query().exists(k, k == "to" && Request.URL.Query()[k].exists(v, v.startsWith("http")))`
		case "rawq":
			expr = `Request.URL.RawQuery != ""`
		case "path":
			expr = `Request.URL.Path.startsWith("/c01/")`
		default:
			panic("harness: unknown request attribute " + c.On)
		}

		if c.Neg {
			return "!(" + expr + ")", true
		}

		return expr, true
	case c.Lit != nil:
		if style%2 == 0 {
			return fmt.Sprintf("%v", *c.Lit), true
		}

		// the request is a GET, or an OPTIONS (preflight) request
		if *c.Lit {
			return `Request.Method != "PATCH"`, true
		}

		return `Request.Method == "PATCH"`, true
	case c.Sub != nil:
		return fmt.Sprintf("Subject.ID == %q", *c.Sub), true
	case c.Err != nil:
		return fmt.Sprintf("type(Error) == %s", *c.Err), true
	case c.Bad:
		if style%2 == 0 {
			return `Request.URL.Captures["c01-missing"] == "x"`, true
		}

		return `1 / (Request.Method == "PATCH" ? 1 : 0) == 1`, true
	}

	return "", false
}

func c01Pipeline(r *c01Rule, style int) ([]map[string]any, []map[string]any) {
	var exec, onErr []map[string]any

	for _, a := range r.Auth {
		exec = append(exec, map[string]any{"authenticator": a.ID})
	}

	add := func(st c01Step, typ string) {
		m := map[string]any{typ: st.ID}
		if expr, ok := c01CondExpr(st.Cond, style); ok {
			m["if"] = expr
		}

		exec = append(exec, m)
	}

	for _, h := range r.Hand {
		typ := h.Typ
		if typ != "contextualizer" {
			typ = "authorizer"
		}

		add(h, typ)
	}

	for _, f := range r.Fin {
		add(f, "finalizer")
	}

	for _, e := range r.EH {
		m := map[string]any{"error_handler": e.ID}
		if expr, ok := c01CondExpr(e.Cond, style); ok {
			m["if"] = expr
		}

		if e.Kind == "www" && e.RuleRealm != nil {
			m["config"] = map[string]any{"realm": *e.RuleRealm}
		}

		onErr = append(onErr, m)
	}

	return exec, onErr
}

func c01Register(s *c01Script, r *c01Rule) {
	if r == nil {
		return
	}

	for _, l := range [][]c01Step{r.Auth, r.Hand, r.Fin} {
		for _, st := range l {
			s.steps[st.ID] = st
		}
	}

	for _, e := range r.EH {
		s.ehs[e.ID] = e
	}
}

func c01ToMechConfigs(in []map[string]any) []config.MechanismConfig {
	var res []config.MechanismConfig
	for _, m := range in {
		res = append(res, config.MechanismConfig(m))
	}

	return res
}

// ---------------------------------------------------------------------------------------------------------------
// the three real services, cached per status-override configuration

type c01Switch struct{ cur atomic.Pointer[rule.Executor] }

var errC01NoExecutor = errors.New("harness: no executor installed") //nolint:gochecknoglobals

func (s *c01Switch) Execute(ctx heimdall.Context) (rule.Backend, error) {
	e := s.cur.Load()
	if e == nil {
		return nil, errC01NoExecutor
	}

	return (*e).Execute(ctx)
}

func (s *c01Switch) set(e rule.Executor) {
	if e == nil {
		s.cur.Store(nil)

		return
	}

	s.cur.Store(&e)
}

type c01Services struct {
	decisionURL string
	proxyURL    string
	envoy       envoy_auth.AuthorizationClient
	decSwitch   *c01Switch // decision + envoy (decision operation mode)
	prxSwitch   *c01Switch // proxy operation mode
}

var (
	c01Once        sync.Once                   //nolint:gochecknoglobals
	c01Upstream    *httptest.Server            //nolint:gochecknoglobals
	c01Hits        atomic.Int64                //nolint:gochecknoglobals
	c01UpStatus    atomic.Int64                //nolint:gochecknoglobals
	c01Transport   *http.Transport             //nolint:gochecknoglobals
	c01ServicesMap = map[string]*c01Services{} //nolint:gochecknoglobals
)

func c01Init() {
	c01Once.Do(func() {
		c01Upstream = httptest.NewServer(http.HandlerFunc(func(rw http.ResponseWriter, _ *http.Request) {
			c01Hits.Add(1)
			rw.Header().Set("X-C01-Upstream", "1")
			rw.WriteHeader(int(c01UpStatus.Load()))
			_, _ = rw.Write([]byte("upstream"))
		}))
		c01Transport = &http.Transport{MaxIdleConnsPerHost: 8}
	})
}

func c01ServeConf(cfg c01Cfg) *config.Configuration {
	var rc config.RespondConfig

	rc.With.Accepted.Code = cfg.Accepted
	rc.With.ArgumentError.Code = cfg.Argument
	rc.With.AuthenticationError.Code = cfg.Authn
	rc.With.AuthorizationError.Code = cfg.Authz
	rc.With.CommunicationError.Code = cfg.Comm
	rc.With.InternalError.Code = cfg.Internal
	rc.With.NoRuleError.Code = cfg.NoRule
	rc.Verbose = cfg.Verbose

	sc := config.ServiceConfig{Host: "127.0.0.1", Respond: rc}

	if cfg.Cors != nil {
		// the same block for both services, as an operator may write it; the decision service has no CORS middleware
		sc.CORS = &config.CORS{
			AllowedOrigins:   cfg.Cors.Origins,
			AllowedMethods:   cfg.Cors.Methods,
			AllowCredentials: cfg.Cors.Creds,
			MaxAge:           time.Minute,
		}
	}

	return &config.Configuration{Serve: config.ServeConfig{Decision: sc, Proxy: sc}}
}

// c01Logger builds the logger handed to the services the way logging.NewLogger does for the configured
// `log.level` (zerolog.New(writer).Level(level).With().Timestamp().Logger()), except that the output is discarded
// (stdout is the line protocol). The real logger middleware / interceptor of each service puts it into the context
// of every request, where the pipeline code finds it with zerolog.Ctx.
func c01Logger(level string) (zerolog.Logger, error) {
	var lc config.LoggingConfig

	switch level {
	case "", "disabled":
		lc.Level = zerolog.Disabled
	default:
		lvl, err := zerolog.ParseLevel(level)
		if err != nil {
			return zerolog.Nop(), err
		}

		lc.Level = lvl
	}

	return zerolog.New(io.Discard).Level(lc.Level).With().Timestamp().Logger(), nil
}

func c01GetServices(cfg c01Cfg) (*c01Services, error) {
	if s, ok := c01ServicesMap[cfg.key()]; ok {
		return s, nil
	}

	conf := c01ServeConf(cfg)
	log, err := c01Logger(cfg.Log)
	if err != nil {
		return nil, err
	}
	svc := &c01Services{decSwitch: &c01Switch{}, prxSwitch: &c01Switch{}}

	listen := func() (net.Listener, error) { return net.Listen("tcp", "127.0.0.1:0") }

	dl, err := listen()
	if err != nil {
		return nil, err
	}

	dsrv := decision.VerifC01NewService(conf, &noop.Cache{}, log, svc.decSwitch)
	go func() { _ = dsrv.Serve(dl) }()

	svc.decisionURL = "http://" + dl.Addr().String()

	pl, err := listen()
	if err != nil {
		return nil, err
	}

	psrv := proxy.VerifC01NewService(conf, &noop.Cache{}, log, svc.prxSwitch)
	go func() { _ = psrv.Serve(pl) }()

	svc.proxyURL = "http://" + pl.Addr().String()

	gl, err := listen()
	if err != nil {
		return nil, err
	}

	gsrv := grpcv3.VerifC01NewService(conf, &noop.Cache{}, log, svc.decSwitch)
	go func() { _ = gsrv.Serve(gl) }()

	conn, err := grpc.NewClient(gl.Addr().String(), grpc.WithTransportCredentials(insecure.NewCredentials()))
	if err != nil {
		return nil, err
	}

	svc.envoy = envoy_auth.NewAuthorizationClient(conn)
	c01ServicesMap[cfg.key()] = svc

	return svc, nil
}

// c01Load builds factory -> repository -> executor for one operation mode and loads the rule set through the
// real parser and rule-set processor. A nil executor with a nil error means "configuration rejected".
func c01Load(c *c01Case, s *c01Script, mode config.OperationMode) (rule.Executor, string, error) {
	conf := &config.Configuration{}

	if c.Default != nil {
		exec, onErr := c01Pipeline(c.Default, c.Style)
		conf.Default = &config.DefaultRule{
			Execute:      c01ToMechConfigs(exec),
			ErrorHandler: c01ToMechConfigs(onErr),
		}
	}

	factory, err := rules.NewRuleFactory(&c01Factory{s: s}, conf, mode, zerolog.Nop())
	if err != nil {
		if errors.Is(err, errC01Unknown) {
			return nil, "", err
		}

		return nil, "default-rule-rejected", nil
	}

	repo := rules.VerifC01NewRepository(factory)

	if c.Rule != nil {
		exec, onErr := c01Pipeline(c.Rule, c.Style)
		rl := map[string]any{
			"id":    "c01-rule",
			"match": map[string]any{"routes": []any{map[string]any{"path": "/c01/**"}}},
		}

		if len(exec) != 0 {
			rl["execute"] = exec
		}

		if len(onErr) != 0 {
			rl["on_error"] = onErr
		}

		if c.Rule.Backend {
			rl["forward_to"] = map[string]any{"host": strings.TrimPrefix(c01Upstream.URL, "http://")}
		}

		doc, err := json.Marshal(map[string]any{"version": rulesconfig.CurrentRuleSetVersion, "name": "c01",
			"rules": []any{rl}})
		if err != nil {
			return nil, "", err
		}

		rs, err := rulesconfig.ParseRules("application/json", strings.NewReader(string(doc)), false)
		if err != nil {
			return nil, "rule-set-rejected", nil //nolint:nilerr
		}

		rs.Source = "c01-src"

		if err = rules.NewRuleSetProcessor(repo, factory).OnCreated(rs); err != nil {
			if errors.Is(err, errC01Unknown) {
				return nil, "", err
			}

			return nil, "rule-rejected", nil
		}
	}

	return rules.VerifC01NewRuleExecutor(repo), "", nil
}

func c01Path(c *c01Case) string {
	p := "/elsewhere/resource"
	if c.Hit {
		p = "/c01/some/resource"
	}

	if c.Req.Q != nil {
		p += "?to=" + url.QueryEscape(*c.Req.Q)
	}

	return p
}

func runPipeline(raw map[string]any) (any, error) {
	data, err := json.Marshal(raw)
	if err != nil {
		return nil, err
	}

	var c c01Case
	if err = json.Unmarshal(data, &c); err != nil {
		return nil, err
	}

	c01Init()

	if c.Upstream == 0 {
		c.Upstream = http.StatusOK
	}

	svc, err := c01GetServices(c.Cfg)
	if err != nil {
		return nil, err
	}

	script := &c01Script{steps: map[string]c01Step{}, ehs: map[string]c01EH{}, style: c.Style}
	c01Register(script, c.Default)
	c01Register(script, c.Rule)

	res := map[string]any{}
	// what the Location header of the answers looked like: evidence only (keys starting with "_" are not compared)
	obs := map[string]any{}
	res["_obs"] = obs

	// --- decision operation mode: decision service and Envoy ext_authz service
	exec, rejected, err := c01Load(&c, script, config.DecisionMode)
	if err != nil {
		return nil, err
	}

	if exec == nil {
		res["decision"] = map[string]any{"load": rejected}
		res["envoy"] = map[string]any{"load": rejected}
	} else {
		svc.decSwitch.set(exec)

		script.takeTrace()

		da, err := c01HTTP(svc.decisionURL+c01Path(&c), c.Accept, &c.Req)
		if err != nil {
			return nil, err
		}

		res["decision"] = map[string]any{
			"status": da.status, "errbody": da.errBody, "trace": script.takeTrace(), "pre": da.pre,
		}
		obs["decision"] = c01RenderClass(da.location)

		er, err := c01Envoy(svc, c01Path(&c), c.Accept, &c.Req)
		if err != nil {
			return nil, err
		}

		er["trace"] = script.takeTrace()
		obs["envoy"] = er["_loc"]
		delete(er, "_loc")
		res["envoy"] = er

		svc.decSwitch.set(nil)
	}

	// --- proxy operation mode
	exec, rejected, err = c01Load(&c, script, config.ProxyMode)
	if err != nil {
		return nil, err
	}

	if exec == nil {
		res["proxy"] = map[string]any{"load": rejected}
	} else {
		svc.prxSwitch.set(exec)
		c01UpStatus.Store(int64(c.Upstream))

		before := c01Hits.Load()

		script.takeTrace()

		pa, err := c01HTTP(svc.proxyURL+c01Path(&c), c.Accept, &c.Req)
		if err != nil {
			return nil, err
		}

		res["proxy"] = map[string]any{
			"status": pa.status, "hits": c01Hits.Load() - before, "relayed": pa.relayed, "errbody": pa.errBody,
			"trace": script.takeTrace(), "pre": pa.pre,
		}
		obs["proxy"] = c01RenderClass(pa.location)

		svc.prxSwitch.set(nil)
	}

	return res, nil
}

type c01HTTPAnswer struct {
	status   int
	relayed  bool
	errBody  bool
	location *string
	// which of the watched response headers a middleware in front of the service handler has set (c01FrontHeaders)
	pre []string
}

// c01FrontHeaders: response headers that only a middleware in front of the service handler sets (the CORS middleware
// of the proxy): neither the error translator, nor the decision response, nor the upstream test server sets them.
var c01FrontHeaders = []string{ //nolint:gochecknoglobals
	"Vary", "Access-Control-Allow-Origin", "Access-Control-Allow-Credentials",
}

// c01HTTP sends the request; errBody = the error translator negotiated a body (it marks such responses with
// X-Content-Type-Options: nosniff; neither the positive decision response nor the upstream test server does; the
// header is looked at rather than the bytes because net/http drops the body of 204/304 responses). The request goes
// through the transport directly: http.Client would try to parse the Location header of a redirect response (and
// report an error for an unparsable one) before it asks CheckRedirect.
func c01HTTP(target string, accept *string, rq *c01Req) (c01HTTPAnswer, error) {
	ctx, cancel := context.WithTimeout(context.Background(), 20*time.Second)
	defer cancel()

	hdr := rq.Hdr
	method := http.MethodGet

	if rq.Preflight {
		method = http.MethodOptions
	}

	req, err := http.NewRequestWithContext(ctx, method, target, nil)
	if err != nil {
		return c01HTTPAnswer{}, err
	}

	if rq.Preflight {
		req.Header.Set("Access-Control-Request-Method", http.MethodGet)
	}

	if rq.Origin != nil {
		req.Header.Set("Origin", *rq.Origin)
	}

	if accept != nil {
		req.Header.Set("Accept", *accept)
	}

	if hdr != nil {
		req.Header.Set("X-C01-To", *hdr)
	}

	resp, err := c01Transport.RoundTrip(req)
	if err != nil {
		// no HTTP response at all (connection dropped): reported as status -1, certainly not a positive answer
		return c01HTTPAnswer{status: -1, pre: []string{}}, nil //nolint:nilerr
	}

	defer resp.Body.Close()

	buf := make([]byte, 256)

	for {
		if _, rerr := resp.Body.Read(buf); rerr != nil {
			break
		}
	}

	res := c01HTTPAnswer{status: resp.StatusCode, relayed: resp.Header.Get("X-C01-Upstream") == "1"}
	res.errBody = !res.relayed && resp.Header.Get("X-Content-Type-Options") == "nosniff"

	if vals, ok := resp.Header["Location"]; ok && len(vals) != 0 {
		res.location = &vals[0]
	}

	res.pre = []string{}

	for _, name := range c01FrontHeaders {
		if _, ok := resp.Header[name]; ok {
			res.pre = append(res.pre, name)
		}
	}

	return res, nil
}

// c01RenderClass: what kind of value an error handler put into the Location header (evidence only, never compared:
// the value of the header is not C01's subject)
func c01RenderClass(loc *string) string {
	switch {
	case loc == nil:
		return "none"
	case *loc == "":
		return "empty"
	case strings.TrimSpace(*loc) == "":
		return "blank"
	case strings.ContainsAny(strings.TrimSpace(*loc), "\r\n"):
		return "multi-line"
	case strings.TrimSpace(*loc) != *loc:
		return "padded"
	}

	return "present"
}

func c01Envoy(svc *c01Services, path string, accept *string, rq *c01Req) (map[string]any, error) {
	ctx, cancel := context.WithTimeout(context.Background(), 20*time.Second)
	defer cancel()

	hdr := rq.Hdr
	method := http.MethodGet

	var headers map[string]string
	if accept != nil || hdr != nil || rq.Origin != nil || rq.Preflight {
		headers = map[string]string{}
	}

	if rq.Preflight {
		method = http.MethodOptions
		headers["access-control-request-method"] = http.MethodGet
	}

	if rq.Origin != nil {
		headers["origin"] = *rq.Origin
	}

	if accept != nil {
		headers["accept"] = *accept
	}

	if hdr != nil {
		headers["x-c01-to"] = *hdr
	}

	resp, err := svc.envoy.Check(ctx, &envoy_auth.CheckRequest{
		Attributes: &envoy_auth.AttributeContext{
			Request: &envoy_auth.AttributeContext_Request{
				Http: &envoy_auth.AttributeContext_HttpRequest{
					Method: method, Path: path, Host: "c01.test", Scheme: "http", Headers: headers,
				},
			},
		},
	})
	if err != nil {
		st, ok := status.FromError(err)
		if !ok {
			return nil, err
		}

		return map[string]any{"rpcerr": int(st.Code()), "_loc": "none"}, nil
	}

	out := map[string]any{"code": int(resp.GetStatus().GetCode()), "_loc": "none"}

	for _, h := range resp.GetDeniedResponse().GetHeaders() {
		if strings.EqualFold(h.GetHeader().GetKey(), "Location") {
			v := h.GetHeader().GetValue()
			out["_loc"] = c01RenderClass(&v)
		}
	}

	switch {
	case resp.GetOkResponse() != nil:
		out["ok"] = true
		out["http"] = 0
		out["body"] = false
	case resp.GetDeniedResponse() != nil:
		out["ok"] = false
		out["http"] = int(resp.GetDeniedResponse().GetStatus().GetCode())
		out["body"] = len(resp.GetDeniedResponse().GetBody()) != 0
	default:
		out["ok"] = false
		out["http"] = -1
		out["body"] = false
	}

	return out, nil
}
