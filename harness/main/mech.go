package main

// Family "mech" (C17): the real mechanism catalogue (mechanisms.NewMechanismFactory), real rule-level variants
// (Create* -> WithConfig), real executions against a loopback test server, and a deep reflective dump of every
// object handed out so far after every operation.

import (
	"bytes"
	"context"
	"crypto/ecdsa"
	"crypto/elliptic"
	"crypto/rand"
	"crypto/x509"
	"encoding/base64"
	"encoding/json"
	"encoding/pem"
	"errors"
	"fmt"
	"io"
	"net/http"
	"net/http/httptest"
	"net/url"
	"os"
	"path/filepath"
	"reflect"
	"sort"
	"strings"
	"sync"
	"sync/atomic"
	"time"
	"unsafe"

	"github.com/go-jose/go-jose/v4"
	"github.com/go-jose/go-jose/v4/jwt"
	"github.com/rs/zerolog"

	"github.com/dadrus/heimdall/internal/cache"
	"github.com/dadrus/heimdall/internal/cache/memory"
	"github.com/dadrus/heimdall/internal/config"
	"github.com/dadrus/heimdall/internal/handler/requestcontext"
	"github.com/dadrus/heimdall/internal/heimdall"
	"github.com/dadrus/heimdall/internal/keyholder"
	"github.com/dadrus/heimdall/internal/otel/metrics/certificate"
	"github.com/dadrus/heimdall/internal/rules/mechanisms"
	"github.com/dadrus/heimdall/internal/rules/mechanisms/subject"
	"github.com/dadrus/heimdall/internal/watcher"
)

func init() { families["mech"] = runMech }

const mechModule = "github.com/dadrus/heimdall/"

// ---------------------------------------------------------------------------------------------------------------
// environment: one test server and one key per process

type mechEnv struct {
	srv    *httptest.Server
	host   string
	key    *ecdsa.PrivateKey
	signer jose.Signer
	jwks   []byte
	ksPath string
	tokens sync.Map // claims -> signed token
	// requests received under /count/ (the endpoints whose traffic is observed): the answers under these paths are
	// the same every time, so that reusing an earlier answer shows in this number only
	counted atomic.Int64
}

var (
	mechEnvOnce sync.Once
	mechEnvVal  *mechEnv
	mechEnvErr  error
)

func mechGetEnv() (*mechEnv, error) {
	mechEnvOnce.Do(func() {
		env := &mechEnv{}

		key, err := ecdsa.GenerateKey(elliptic.P256(), rand.Reader)
		if err != nil {
			mechEnvErr = err

			return
		}

		env.key = key

		env.signer, err = jose.NewSigner(
			jose.SigningKey{Algorithm: jose.ES256, Key: jose.JSONWebKey{Key: key, KeyID: "k1", Algorithm: "ES256"}},
			(&jose.SignerOptions{}).WithType("JWT"))
		if err != nil {
			mechEnvErr = err

			return
		}

		env.jwks, _ = json.Marshal(jose.JSONWebKeySet{Keys: []jose.JSONWebKey{
			{Key: key.Public(), KeyID: "k1", Algorithm: "ES256", Use: "sig"},
		}})

		dir := os.Getenv("VERIF_MECH_TMP")
		if dir == "" {
			dir, err = os.MkdirTemp("", "verif-mech-")
			if err != nil {
				mechEnvErr = err

				return
			}
		}

		der, err := x509.MarshalECPrivateKey(key)
		if err != nil {
			mechEnvErr = err

			return
		}

		env.ksPath = filepath.Join(dir, fmt.Sprintf("mech-keystore-%d.pem", os.Getpid()))
		if err = os.WriteFile(env.ksPath, pem.EncodeToMemory(&pem.Block{Type: "EC PRIVATE KEY", Bytes: der}), 0o600); err != nil {
			mechEnvErr = err

			return
		}

		// the mechanisms reach the test server through http.DefaultTransport: keep one idle connection per
		// concurrently running execution, so that a batch does not open (and leave in TIME-WAIT) a new loopback
		// connection per request
		if tr, ok := http.DefaultTransport.(*http.Transport); ok {
			tr.MaxIdleConnsPerHost = 64
			tr.MaxIdleConns = 256
		}

		ln, err := verifListen("127.0.0.1:0")
		if err != nil {
			mechEnvErr = err

			return
		}

		env.srv = httptest.NewUnstartedServer(http.HandlerFunc(env.serve))
		_ = env.srv.Listener.Close()
		env.srv.Listener = ln
		env.srv.Start()
		env.host = strings.TrimPrefix(env.srv.URL, "http://")
		mechEnvVal = env
	})

	return mechEnvVal, mechEnvErr
}

// the test server: deterministic answers that make the effective configuration of the caller visible
func (e *mechEnv) serve(rw http.ResponseWriter, req *http.Request) {
	body, _ := io.ReadAll(req.Body)
	base := "http://" + e.host

	writeJSON := func(v any) {
		data, _ := json.Marshal(v)

		rw.Header().Set("Content-Type", "application/json")
		rw.Header().Set("X-Echo", req.Method)
		rw.WriteHeader(http.StatusOK)
		_, _ = rw.Write(data)
	}

	if strings.HasPrefix(req.URL.Path, "/count/") {
		e.counted.Add(1)

		if strings.HasPrefix(req.URL.Path, "/count/busy/") {
			// an upstream that is never available: a client that retries asks again, nothing can be kept of the answer
			rw.WriteHeader(http.StatusServiceUnavailable)

			return
		}
	}

	switch {
	case strings.HasPrefix(req.URL.Path, "/.well-known/"):
		writeJSON(map[string]any{
			"issuer": base, "jwks_uri": base + "/jwks", "introspection_endpoint": base + "/introspect",
		})
	case req.URL.Path == "/jwks":
		rw.Header().Set("Content-Type", "application/json")
		_, _ = rw.Write(e.jwks)
	case req.URL.Path == "/introspect":
		form, _ := url.ParseQuery(string(body))
		tok := form.Get("token")
		iss := req.URL.Query().Get("iss")

		if iss == "" {
			iss = base
		}

		// token: tok|aud=a,b|scope=s t|sub=x
		resp := map[string]any{"active": !strings.HasPrefix(tok, "inactive"), "iss": iss, "exp": 4102444800, "iat": 1600000000}

		for _, part := range strings.Split(tok, "|")[1:] {
			kv := strings.SplitN(part, "=", 2)
			if len(kv) != 2 {
				continue
			}

			switch kv[0] {
			case "aud":
				resp["aud"] = strings.Split(kv[1], ",")
			case "scope":
				resp["scope"] = kv[1]
			case "sub":
				resp["sub"] = kv[1]
			}
		}

		resp["hint"] = form.Get("token_type_hint")
		resp["accept"] = req.Header.Get("Accept")
		writeJSON(resp)
	case req.URL.Path == "/token":
		form, _ := url.ParseQuery(string(body))
		user, _, basic := req.BasicAuth()

		how := "body:" + form.Get("client_id")
		if basic {
			how = "basic:" + user
		}

		writeJSON(map[string]any{
			"access_token": "at[" + form.Get("scope") + "][" + how + "]", "token_type": "Bearer", "expires_in": 3600,
		})
	case req.URL.Path == "/deny":
		rw.WriteHeader(http.StatusForbidden)
	default:
		// echo
		hdrs := map[string]string{}

		for name, vals := range req.Header {
			if strings.HasPrefix(name, "X-") || name == "Accept" || name == "Content-Type" || name == "Authorization" ||
				name == "Cookie" {
				hdrs[name] = strings.Join(vals, ",")
			}
		}

		writeJSON(map[string]any{
			"method": req.Method, "path": req.URL.Path, "query": req.URL.RawQuery, "headers": hdrs, "body": string(body),
			"sub": "u:" + req.Header.Get("Authorization") + req.Header.Get("X-User"),
		})
	}
}

type (
	mechWatcher  struct{}
	mechKHR      struct{}
	mechObserver struct{}
)

func (mechWatcher) Add(string, watcher.ChangeListener) error { return nil }
func (mechKHR) AddKeyHolder(keyholder.KeyHolder)             {}
func (mechKHR) Keys() []jose.JSONWebKey                      { return nil }
func (mechObserver) Add(certificate.Supplier)                {}
func (mechObserver) Start() error                            { return nil }

// ---------------------------------------------------------------------------------------------------------------
// configuration

func (e *mechEnv) subst(v any) any {
	switch x := v.(type) {
	case string:
		return strings.ReplaceAll(strings.ReplaceAll(x, "SERVER", e.host), "KEYSTORE", e.ksPath)
	case json.Number:
		if i, err := x.Int64(); err == nil {
			return int(i)
		}

		f, _ := x.Float64()

		return f
	case []any:
		res := make([]any, len(x))
		for i, el := range x {
			res[i] = e.subst(el)
		}

		return res
	case map[string]any:
		res := make(map[string]any, len(x))
		for k, el := range x {
			res[k] = e.subst(el)
		}

		return res
	default:
		return v
	}
}

func (e *mechEnv) mechConfig(v any) config.MechanismConfig {
	m, ok := v.(map[string]any)
	if !ok {
		return nil
	}

	res, _ := e.subst(m).(map[string]any)

	return res
}

func (e *mechEnv) newFactory(entries []map[string]any) (mechanisms.MechanismFactory, error) {
	protos := &config.MechanismPrototypes{}

	for _, m := range entries {
		mech := config.Mechanism{ID: getStr(m, "id"), Type: getStr(m, "type"), Config: e.mechConfig(m["config"])}
		if mech.Config == nil {
			mech.Config = config.MechanismConfig{}
		}

		switch getStr(m, "kind") {
		case "authenticator":
			protos.Authenticators = append(protos.Authenticators, mech)
		case "authorizer":
			protos.Authorizers = append(protos.Authorizers, mech)
		case "contextualizer":
			protos.Contextualizers = append(protos.Contextualizers, mech)
		case "finalizer":
			protos.Finalizers = append(protos.Finalizers, mech)
		case "error_handler":
			protos.ErrorHandlers = append(protos.ErrorHandlers, mech)
		default:
			return nil, fmt.Errorf("unknown mechanism kind %q", getStr(m, "kind"))
		}
	}

	return mechanisms.NewMechanismFactory(&config.Configuration{Prototypes: protos}, zerolog.Nop(), mechWatcher{},
		mechKHR{}, mechObserver{})
}

func mechCreate(f mechanisms.MechanismFactory, kind, id string, conf config.MechanismConfig) (any, error) {
	var (
		res any
		err error
	)

	switch kind {
	case "authenticator":
		res, err = f.CreateAuthenticator("", id, conf)
	case "authorizer":
		res, err = f.CreateAuthorizer("", id, conf)
	case "contextualizer":
		res, err = f.CreateContextualizer("", id, conf)
	case "finalizer":
		res, err = f.CreateFinalizer("", id, conf)
	case "error_handler":
		res, err = f.CreateErrorHandler("", id, conf)
	default:
		err = fmt.Errorf("unknown mechanism kind %q", kind)
	}

	if err != nil {
		return nil, err
	}

	return res, nil
}

func mechErrKind(err error) string {
	var redirect *heimdall.RedirectError

	switch {
	case err == nil:
		return "ok"
	case errors.As(err, &redirect):
		return "redirect"
	case errors.Is(err, mechanisms.ErrNoSuchPipelineObject):
		return "notfound"
	case errors.Is(err, heimdall.ErrConfiguration):
		return "config"
	case errors.Is(err, heimdall.ErrArgument):
		return "argument"
	case errors.Is(err, heimdall.ErrAuthentication):
		return "authentication"
	case errors.Is(err, heimdall.ErrAuthorization):
		return "authorization"
	case errors.Is(err, heimdall.ErrCommunicationTimeout):
		return "timeout"
	case errors.Is(err, heimdall.ErrCommunication):
		return "communication"
	case errors.Is(err, heimdall.ErrInternal):
		return "internal"
	default:
		return "other"
	}
}

// ---------------------------------------------------------------------------------------------------------------
// deep reflective dump

type mechDumper struct {
	ids    map[uintptr]int
	erased bool // structure only: identities are not printed (comparison with an object built independently)
}

func (d *mechDumper) id(p uintptr) any {
	if d.erased {
		return "*"
	}

	n, ok := d.ids[p]
	if !ok {
		n = len(d.ids) + 1
		d.ids[p] = n
	}

	return n
}

func mechForeign(t reflect.Type) bool {
	p := t.PkgPath()

	return p != "" && !strings.HasPrefix(p+"/", mechModule)
}

// an addressable, settable copy of a value reached through unexported fields
func mechAddressable(v reflect.Value) reflect.Value {
	if v.CanAddr() {
		return reflect.NewAt(v.Type(), unsafe.Pointer(v.UnsafeAddr())).Elem()
	}

	tmp := reflect.New(v.Type()).Elem()
	tmp.Set(v)

	return tmp
}

func mechFuncID(v reflect.Value) uintptr {
	a := mechAddressable(v)

	return uintptr(*(*unsafe.Pointer)(unsafe.Pointer(a.UnsafeAddr())))
}

func (d *mechDumper) dump(v reflect.Value, seen map[uintptr]bool, depth int) any {
	if depth > 40 {
		return "too deep"
	}

	if !v.IsValid() {
		return nil
	}

	t := v.Type()

	switch v.Kind() {
	case reflect.Bool:
		return v.Bool()
	case reflect.Int, reflect.Int8, reflect.Int16, reflect.Int32, reflect.Int64:
		return v.Int()
	case reflect.Uint, reflect.Uint8, reflect.Uint16, reflect.Uint32, reflect.Uint64, reflect.Uintptr:
		return v.Uint()
	case reflect.Float32, reflect.Float64:
		return fmt.Sprint(v.Float())
	case reflect.Complex64, reflect.Complex128:
		return fmt.Sprint(v.Complex())
	case reflect.String:
		return v.String()
	case reflect.Ptr:
		if v.IsNil() {
			return nil
		}

		p := v.Pointer()
		if t.Elem().Kind() == reflect.Struct && mechForeign(t.Elem()) {
			return map[string]any{"&": d.id(p), "opaque": t.Elem().String()}
		}

		if seen[p] {
			return map[string]any{"&": d.id(p), "again": true}
		}

		seen[p] = true
		res := map[string]any{"&": d.id(p), "v": d.dump(v.Elem(), seen, depth+1)}
		delete(seen, p)

		return res
	case reflect.Interface:
		if v.IsNil() {
			return nil
		}

		el := v.Elem()

		return map[string]any{"t": el.Type().String(), "v": d.dump(el, seen, depth+1)}
	case reflect.Struct:
		if t == reflect.TypeOf(time.Time{}) {
			tm, _ := mechAddressable(v).Interface().(time.Time)

			return tm.UTC().Format(time.RFC3339Nano)
		}

		if mechForeign(t) {
			return map[string]any{"opaque": t.String()}
		}

		a := mechAddressable(v)
		res := map[string]any{}

		for i := 0; i < t.NumField(); i++ {
			res[t.Field(i).Name] = d.dump(mechAddressable(a.Field(i)), seen, depth+1)
		}

		return res
	case reflect.Map:
		if v.IsNil() || (d.erased && v.Len() == 0) {
			// structure only: no entries, however represented
			return nil
		}

		type kv struct {
			k string
			v any
		}

		var items []kv

		iter := v.MapRange()
		for iter.Next() {
			items = append(items, kv{fmt.Sprint(d.dump(iter.Key(), seen, depth+1)), d.dump(iter.Value(), seen, depth+1)})
		}

		sort.Slice(items, func(i, j int) bool { return items[i].k < items[j].k })

		list := make([]any, len(items))
		for i, it := range items {
			list[i] = []any{it.k, it.v}
		}

		return map[string]any{"#": d.id(v.Pointer()), "m": list}
	case reflect.Slice:
		if v.IsNil() || (d.erased && v.Len() == 0) {
			return nil
		}

		if t.Elem().Kind() == reflect.Uint8 {
			return map[string]any{"#": d.id(v.Pointer()), "bytes": base64.StdEncoding.EncodeToString(v.Bytes())}
		}

		list := make([]any, v.Len())
		for i := 0; i < v.Len(); i++ {
			list[i] = d.dump(v.Index(i), seen, depth+1)
		}

		return map[string]any{"#": d.id(v.Pointer()), "s": list}
	case reflect.Array:
		list := make([]any, v.Len())
		for i := 0; i < v.Len(); i++ {
			list[i] = d.dump(v.Index(i), seen, depth+1)
		}

		return list
	case reflect.Func:
		if v.IsNil() {
			return nil
		}

		return map[string]any{"fn": d.id(mechFuncID(v))}
	case reflect.Chan, reflect.UnsafePointer:
		return map[string]any{"&": d.id(v.Pointer())}
	default:
		return "?" + v.Kind().String()
	}
}

func (d *mechDumper) dumpObj(obj any) string {
	data, _ := json.Marshal(d.dump(reflect.ValueOf(obj), map[uintptr]bool{}, 0))

	return string(data)
}

// leaf fields of a mechanism struct: fields of embedded by-value structs of the module are followed
type mechLeaf struct {
	path string
	ref  bool
	v    reflect.Value
}

func mechLeaves(v reflect.Value, prefix string, out *[]mechLeaf) {
	a := mechAddressable(v)
	t := a.Type()

	for i := 0; i < t.NumField(); i++ {
		f := mechAddressable(a.Field(i))
		name := prefix + t.Field(i).Name

		if f.Kind() == reflect.Struct && !mechForeign(f.Type()) {
			mechLeaves(f, name+".", out)

			continue
		}

		switch f.Kind() {
		case reflect.Ptr, reflect.Map, reflect.Slice, reflect.Interface, reflect.Func, reflect.Chan:
			*out = append(*out, mechLeaf{name, true, f})
		default:
			*out = append(*out, mechLeaf{name, false, f})
		}
	}
}

// identity of what a reference refers to; ok=false: it has none (nil, or an interface holding a plain value)
func mechIdentity(v reflect.Value) (uintptr, bool) {
	switch v.Kind() {
	case reflect.Ptr, reflect.Map, reflect.Chan:
		if v.IsNil() {
			return 0, false
		}

		return v.Pointer(), true
	case reflect.Slice:
		if v.IsNil() {
			return 0, false
		}

		return v.Pointer(), true
	case reflect.Func:
		if v.IsNil() {
			return 0, false
		}

		return mechFuncID(v), true
	case reflect.Interface:
		if v.IsNil() {
			return 0, false
		}

		return mechIdentity(v.Elem())
	default:
		return 0, false
	}
}

func mechSharing(proto, variant any) map[string]any {
	var pl, vl []mechLeaf

	mechLeaves(reflect.ValueOf(proto).Elem(), "", &pl)
	mechLeaves(reflect.ValueOf(variant).Elem(), "", &vl)

	res := map[string]any{}
	d := &mechDumper{erased: true}

	for i, l := range vl {
		if !l.ref || i >= len(pl) {
			continue
		}

		pid, pok := mechIdentity(pl[i].v)
		vid, vok := mechIdentity(l.v)

		switch {
		case pok && vok:
			if pid == vid {
				res[l.path] = "inherited"
			} else {
				res[l.path] = "fresh"
			}
		case pok != vok:
			res[l.path] = "fresh"
		default:
			a, _ := json.Marshal(d.dump(pl[i].v, map[uintptr]bool{}, 0))
			b, _ := json.Marshal(d.dump(l.v, map[uintptr]bool{}, 0))

			if bytes.Equal(a, b) {
				res[l.path] = "inherited"
			} else {
				res[l.path] = "fresh"
			}
		}
	}

	return res
}

// ---------------------------------------------------------------------------------------------------------------
// executions

func (e *mechEnv) request(spec map[string]any) (*http.Request, error) {
	method := getStr(spec, "method")
	if method == "" {
		method = http.MethodGet
	}

	path := getStr(spec, "path")
	if path == "" {
		path = "/"
	}

	var body io.Reader
	if b := getStr(spec, "body"); b != "" {
		body = strings.NewReader(b)
	}

	req := httptest.NewRequest(method, "http://heimdall.test"+path, body)

	for k, v := range obj(spec["headers"]) {
		s, _ := v.(string)
		req.Header.Set(k, s)
	}

	for k, v := range obj(spec["cookies"]) {
		s, _ := v.(string)
		req.AddCookie(&http.Cookie{Name: k, Value: s})
	}

	if claims := obj(spec["jwt"]); claims != nil {
		cl := map[string]any{"exp": 4102444800, "iat": 1600000000}

		for k, v := range claims {
			cl[k] = e.subst(v)
		}

		if _, ok := cl["iss"]; !ok {
			cl["iss"] = "http://" + e.host
		}

		// ECDSA signatures are randomised: the same claims always travel as the same token, so that an endpoint
		// echoing the token answers the same for the same request
		key, _ := json.Marshal(cl)

		tok, ok := e.tokens.Load(string(key))
		if !ok {
			fresh, err := jwt.Signed(e.signer).Claims(cl).Serialize()
			if err != nil {
				return nil, err
			}

			tok, _ = e.tokens.LoadOrStore(string(key), fresh)
		}

		req.Header.Set("Authorization", "Bearer "+tok.(string))
	}

	if tok := getStr(spec, "token"); tok != "" {
		req.Header.Set("Authorization", "Bearer "+tok)
	}

	if basic := getStr(spec, "basic"); basic != "" {
		req.Header.Set("Authorization", "Basic "+base64.StdEncoding.EncodeToString([]byte(basic)))
	}

	return req, nil
}

// JWTs issued during the execution differ in their time stamps: show the claims without them
func mechNormalize(s string) string {
	parts := strings.Split(s, " ")
	last := parts[len(parts)-1]
	seg := strings.Split(last, ".")

	if len(seg) == 3 && strings.HasPrefix(last, "eyJ") {
		if raw, err := base64.RawURLEncoding.DecodeString(seg[1]); err == nil {
			var claims map[string]any
			if json.Unmarshal(raw, &claims) == nil {
				for _, k := range []string{"iat", "exp", "nbf", "jti"} {
					delete(claims, k)
				}

				data, _ := json.Marshal(claims)
				parts[len(parts)-1] = "JWT" + string(data)

				return strings.Join(parts, " ")
			}
		}
	}

	return s
}

// an execution that ends with a communication error says nothing about the mechanism (no case makes the test
// server refuse a request): it is repeated, and reported as inconclusive if that does not help
func (e *mechEnv) exec(target any, spec map[string]any, cch cache.Cache) map[string]any {
	var out map[string]any

	for attempt := 0; attempt < 4; attempt++ {
		out = e.execOnce(target, spec, cch)
		if k, _ := out["err"].(string); k != "communication" && k != "timeout" {
			return out
		}

		time.Sleep(time.Duration(50*(attempt+1)) * time.Millisecond)
	}

	out["inconclusive"] = true

	return out
}

func mechInconclusive(out map[string]any) bool { b, _ := out["inconclusive"].(bool); return b }

// an execution with the cache of the object, and the number of requests the observed endpoints (/count/...) received
// meanwhile.  `fails`: the upstream of the object answers 503 to everything, a communication error is the expected
// outcome; otherwise a communication error says nothing about the mechanism and the execution is repeated (a failed
// exchange leaves nothing in the cache)
func (e *mechEnv) execCounted(target any, spec map[string]any, cch cache.Cache, fails bool) (map[string]any, int64) {
	var (
		out   map[string]any
		calls int64
	)

	for attempt := 0; attempt < 4; attempt++ {
		before := e.counted.Load()
		out = e.execOnce(target, spec, cch)
		calls = e.counted.Load() - before

		if k, _ := out["err"].(string); fails || (k != "communication" && k != "timeout") {
			return out, calls
		}

		time.Sleep(time.Duration(50*(attempt+1)) * time.Millisecond)
	}

	out["inconclusive"] = true

	return out, calls
}

func (e *mechEnv) execOnce(target any, spec map[string]any, cch cache.Cache) (out map[string]any) {
	defer func() {
		if r := recover(); r != nil {
			out = map[string]any{"panic": fmt.Sprint(r)}
		}
	}()

	req, err := e.request(spec)
	if err != nil {
		return map[string]any{"badrequest": err.Error()}
	}

	appCtx := context.Background()
	if cch != nil {
		appCtx = cache.WithContext(appCtx, cch)
	}

	ctx := requestcontext.New(req.WithContext(appCtx))
	sub := &subject.Subject{ID: "u1", Attributes: map[string]any{"role": "admin", "n": 3}}

	if s := obj(spec["sub"]); s != nil {
		sub = &subject.Subject{ID: getStr(s, "id"), Attributes: map[string]any{}}
		for k, v := range obj(s["attrs"]) {
			sub.Attributes[k] = v
		}
	}

	res := map[string]any{}

	switch m := target.(type) {
	case interface {
		Execute(ctx heimdall.Context) (*subject.Subject, error)
	}:
		s, err := m.Execute(ctx)
		res["err"] = mechErrKind(err)

		if s != nil {
			attrs, _ := json.Marshal(s.Attributes)
			res["sub"] = s.ID
			res["attrs"] = string(attrs)
		}
	case interface {
		Execute(ctx heimdall.Context, sub *subject.Subject) error
	}:
		res["err"] = mechErrKind(m.Execute(ctx, sub))
	case interface {
		Execute(ctx heimdall.Context, cause error) error
	}:
		res["err"] = mechErrKind(m.Execute(ctx, heimdall.ErrAuthentication))
	default:
		res["err"] = "not executable"
	}

	hdrs := map[string]string{}
	for k, v := range ctx.UpstreamHeaders() {
		for i := range v {
			v[i] = mechNormalize(v[i])
		}

		hdrs[k] = strings.Join(v, ",")
	}

	cookies := map[string]string{}
	for k, v := range ctx.UpstreamCookies() {
		cookies[k] = mechNormalize(v)
	}

	res["up_headers"] = hdrs
	res["up_cookies"] = cookies

	outputs, _ := json.Marshal(ctx.Outputs())
	res["outputs"] = string(outputs)

	if perr := ctx.PipelineError(); perr != nil {
		res["pipeline_err"] = mechErrKind(perr)

		var redirect *heimdall.RedirectError
		if errors.As(perr, &redirect) {
			res["redirect"] = fmt.Sprintf("%d %s", redirect.Code, redirect.RedirectTo)
		}
	}

	switch m := target.(type) {
	case interface{ IsFallbackOnErrorAllowed() bool }:
		res["flag"] = m.IsFallbackOnErrorAllowed()
	case interface{ ContinueOnError() bool }:
		res["flag"] = m.ContinueOnError()
	}

	return res
}

// what an execution has to render according to the model (`want`: the renderings of the object's own templates of the
// named-template fragment, and whether one of them cannot be rendered with its own definitions): the renderings are
// looked for in everything the execution produced (upstream headers / cookies, outputs, redirect target, the request
// the test server echoed), quoting and white space aside; the claims of an issued JWT are looked at without the
// claims the finalizer adds itself
func mechStrip(s string) string {
	return strings.NewReplacer("\\", "", "\"", "", " ", "", "\t", "", "\n", "").Replace(s)
}

func (e *mechEnv) rendered(out map[string]any, want map[string]any) (bool, map[string]any) {
	hay := mechStrip(e.canon(out))

	for _, group := range []string{"up_headers", "up_cookies"} {
		vals, _ := out[group].(map[string]string)
		for _, v := range vals {
			i := strings.Index(v, "JWT{")
			if i < 0 {
				continue
			}

			var claims map[string]any
			if json.Unmarshal([]byte(v[i+3:]), &claims) != nil {
				continue
			}

			for _, k := range []string{"iss", "sub", "aud", "jti", "iat", "nbf", "exp"} {
				delete(claims, k)
			}

			data, _ := json.Marshal(claims)
			hay += " " + mechStrip(string(data))
		}
	}

	var missing []any

	for _, w := range getArr(want, "strs") {
		s, _ := w.(string)
		if !strings.Contains(hay, mechStrip(strings.ReplaceAll(s, e.host, "SERVER"))) {
			missing = append(missing, s)
		}
	}

	errKind, _ := out["err"].(string)
	details := map[string]any{}

	if len(missing) != 0 {
		details["not_rendered"] = missing
	}

	if getBool(want, "fails") && errKind == "ok" {
		details["rendered_although_own_definitions_do_not_suffice"] = true
	}

	return len(details) == 0, details
}

func (e *mechEnv) canon(v any) string {
	data, _ := json.Marshal(v)

	return strings.ReplaceAll(string(data), e.host, "SERVER")
}

// ---------------------------------------------------------------------------------------------------------------

type mechHandle struct {
	obj   any
	ref   any    // the same configuration loaded as a prototype of its own (nil if that failed)
	dump  string // deep dump at the time it was handed out
	proto any
}

func runMech(c map[string]any) (any, error) {
	env, err := mechGetEnv()
	if err != nil {
		return nil, err
	}

	var catalogue []map[string]any
	for _, m := range getArr(c, "catalogue") {
		catalogue = append(catalogue, obj(m))
	}

	factory, err := env.newFactory(catalogue)
	if err != nil {
		return map[string]any{"res": map[string]any{"catalogue_error": mechErrKind(err)}, "obs": err.Error()}, nil
	}

	dumper := &mechDumper{ids: map[uintptr]int{}}
	erased := &mechDumper{erased: true}

	var (
		handles []*mechHandle
		resList []any
		obsList []any
	)

	// a cache per OBJECT for the executions whose upstream traffic is observed (`want_calls`): what an object finds
	// there is what its own earlier executions have left, so the only way from one object to another is the one the
	// property forbids (two handles for the prototype are one object)
	ownCaches := map[uintptr]cache.Cache{}

	defer func() {
		for _, cch := range ownCaches {
			if s, ok := cch.(interface{ Stop(ctx context.Context) error }); ok {
				_ = s.Stop(context.Background())
			}
		}
	}()

	ownCache := func(target any) cache.Cache {
		v := reflect.ValueOf(target)
		if v.Kind() != reflect.Ptr {
			return nil
		}

		if cch, ok := ownCaches[v.Pointer()]; ok {
			return cch
		}

		cch, err := memory.NewCache(nil, nil, nil)
		if err != nil {
			return nil
		}

		if s, ok := cch.(interface{ Start(ctx context.Context) error }); ok {
			_ = s.Start(context.Background())
		}

		ownCaches[v.Pointer()] = cch

		return cch
	}

	changed := func() ([]any, []any) {
		list, details := []any{}, []any{}

		for i, h := range handles {
			if h == nil {
				continue
			}

			if now := dumper.dumpObj(h.obj); now != h.dump {
				list = append(list, i)
				details = append(details, map[string]any{"handle": i, "before": h.dump, "after": now})
			}
		}

		return list, details
	}

	catalogueEntry := func(kind, id string) map[string]any {
		for _, m := range catalogue {
			if getStr(m, "kind") == kind && getStr(m, "id") == id {
				return m
			}
		}

		return nil
	}

	// the reference object: a catalogue of its own whose entry carries the effective configuration
	reference := func(kind, id string, eff any) (any, string) {
		entry := catalogueEntry(kind, id)
		if entry == nil {
			return nil, "no catalogue entry"
		}

		conf, ok := eff.(map[string]any)
		if !ok {
			return nil, "no effective configuration given"
		}

		rf, err := env.newFactory([]map[string]any{{"kind": kind, "id": id, "type": getStr(entry, "type"), "config": conf}})
		if err != nil {
			return nil, "effective configuration not loadable: " + err.Error()
		}

		ref, err := mechCreate(rf, kind, id, nil)
		if err != nil {
			return nil, err.Error()
		}

		return ref, ""
	}

	// what is reported about an object the factory has handed out for `spec` (a create operation, or an entry of
	// the `creates` of a concurrent batch)
	describe := func(spec map[string]any, created any, err error) (map[string]any, map[string]any) {
		kind, id := getStr(spec, "kind"), getStr(spec, "id")
		res, obs := map[string]any{}, map[string]any{}

		if err != nil {
			res["st"] = mechErrKind(err)
			obs["error"] = err.Error()
			handles = append(handles, nil)

			return res, obs
		}

		proto, _ := mechCreate(factory, kind, id, nil)
		h := &mechHandle{obj: created, proto: proto}
		res["st"] = "ok"
		res["alias"] = created == proto

		if created != proto {
			res["shared"] = mechSharing(proto, created)
		}

		ref, why := reference(kind, id, spec["eff"])
		h.ref = ref

		if ref == nil {
			res["ref"] = false
			obs["ref_error"] = why
		} else {
			a, b := erased.dumpObj(created), erased.dumpObj(ref)
			res["ref"] = a == b

			if a != b {
				obs["variant"] = a
				obs["reference"] = b
			}
		}

		// the specification's effective configuration ("own setting always wins"), where it differs from the model's
		if spec["eff_spec"] != nil {
			sref, why := reference(kind, id, spec["eff_spec"])

			switch {
			case sref == nil:
				obs["spec"] = "unloadable"
				obs["spec_error"] = why
			case erased.dumpObj(created) == erased.dumpObj(sref):
				obs["spec"] = "same"
			default:
				obs["spec"] = "differs"
				obs["spec_reference"] = erased.dumpObj(sref)
				obs["spec_variant"] = erased.dumpObj(created)
			}
		}

		handles = append(handles, h)
		h.dump = dumper.dumpObj(created)

		return res, obs
	}

	for _, o := range getArr(c, "ops") {
		op := obj(o)

		switch getStr(op, "op") {
		case "create":
			var conf config.MechanismConfig
			if op["config"] != nil {
				conf = env.mechConfig(op["config"])
			}

			created, err := mechCreate(factory, getStr(op, "kind"), getStr(op, "id"), conf)
			res, obs := describe(op, created, err)

			ch, details := changed()
			res["changed"] = ch

			if len(details) != 0 {
				obs["changed"] = details
			}

			resList = append(resList, res)
			obsList = append(obsList, obs)
		case "exec":
			hi := getInt(op, "h")
			res := map[string]any{}
			obs := map[string]any{}

			if hi < 0 || hi >= len(handles) || handles[hi] == nil {
				res["ran"] = false
			} else {
				h := handles[hi]

				var out map[string]any

				wantCalls := obj(op["want_calls"])
				if wantCalls != nil {
					// the requests the endpoint of the mechanism receives during this execution (executions are
					// sequential here, the reference object is executed afterwards)
					var calls int64

					out, calls = env.execCounted(h.obj, obj(op["req"]), ownCache(h.obj), getBool(wantCalls, "fails"))
					if mechInconclusive(out) {
						res["calls"] = getInt(wantCalls, "n")
					} else {
						res["calls"] = int(calls)
					}
				} else {
					out = env.exec(h.obj, obj(op["req"]), nil)
				}

				res["ran"] = true
				obs["out"] = json.RawMessage(env.canon(out))

				if want := obj(op["want"]); want != nil && !mechInconclusive(out) {
					ok, details := env.rendered(out, want)
					res["rendered"] = ok

					if !ok {
						obs["rendering"] = details
					}
				} else if want != nil {
					res["rendered"] = true
				}

				switch {
				case h.ref == nil:
					res["ref"] = false
				case mechInconclusive(out):
					res["ref"] = true
					obs["inconclusive"] = true
				default:
					var rout map[string]any
					if wantCalls != nil && getBool(wantCalls, "fails") {
						// the upstream of this object never answers: the failure is the expected outcome, not
						// something to be repeated
						rout = env.execOnce(h.ref, obj(op["req"]), nil)
					} else {
						rout = env.exec(h.ref, obj(op["req"]), nil)
					}

					res["ref"] = mechInconclusive(rout) || env.canon(out) == env.canon(rout)

					if mechInconclusive(rout) {
						obs["inconclusive"] = true
					}

					if res["ref"] == false {
						obs["ref_out"] = json.RawMessage(env.canon(rout))
					}
				}
			}

			ch, details := changed()
			res["changed"] = ch

			if len(details) != 0 {
				obs["changed"] = details
			}

			resList = append(resList, res)
			obsList = append(obsList, obs)
		case "par":
			res, obs, made := env.parallel(factory, handles, op)

			// the objects created during the batch are handed out now, in the order of `creates` (a batch without
			// anything to execute is skipped as a whole; the numbers of its creations stay unused)
			createdRes, createdObs := []any{}, []any{}

			for j, cr := range getArr(op, "creates") {
				if res["ran"] != true {
					handles = append(handles, nil)

					continue
				}

				var r, ob map[string]any

				if j < len(made) {
					r, ob = describe(obj(cr), made[j].obj, made[j].err)
				} else {
					r, ob = describe(obj(cr), nil, errors.New("not created"))
				}

				createdRes = append(createdRes, r)
				createdObs = append(createdObs, ob)
			}

			if res["ran"] == true {
				res["created"] = createdRes
				obs["created"] = createdObs
			}

			ch, details := changed()
			res["changed"] = ch

			if len(details) != 0 {
				obs["changed"] = details
			}

			resList = append(resList, res)
			obsList = append(obsList, obs)
		default:
			return nil, fmt.Errorf("unknown op %q", getStr(op, "op"))
		}
	}

	return map[string]any{"res": resList, "obs": obsList}, nil
}

type mechMade struct {
	obj any
	err error
}

// n goroutines execute the given handles at the same time (handle and request chosen round-robin), `rounds`
// times each, while two more goroutines create the variants listed under `creates` (alternately); every result is
// compared with the result of the same execution done alone beforehand; the objects created are returned
func (e *mechEnv) parallel(factory mechanisms.MechanismFactory, handles []*mechHandle, op map[string]any) (
	map[string]any, map[string]any, []mechMade,
) {
	var live []*mechHandle

	for _, hi := range getInts(op, "hs") {
		if hi >= 0 && hi < len(handles) && handles[hi] != nil {
			live = append(live, handles[hi])
		}
	}

	res, obs := map[string]any{}, map[string]any{}

	if len(live) == 0 {
		res["ran"] = false

		return res, obs, nil
	}

	reqs := getArr(op, "reqs")
	if len(reqs) == 0 {
		reqs = []any{map[string]any{}}
	}

	n := getInt(op, "n")
	rounds := getInt(op, "rounds")

	if rounds <= 0 {
		rounds = 1
	}

	// a cache of its own for every goroutine: what one request caches must not be served to another one (whether
	// the cache keys tell requests apart is the subject of another property)
	newCache := func() (cache.Cache, func()) {
		if !getBool(op, "cache") {
			return nil, func() {}
		}

		mc, err := memory.NewCache(nil, nil, nil)
		if err != nil {
			return nil, func() {}
		}

		starter, ok := mc.(interface {
			Start(ctx context.Context) error
			Stop(ctx context.Context) error
		})
		if !ok || starter.Start(context.Background()) != nil {
			return nil, func() {}
		}

		return mc, func() { _ = starter.Stop(context.Background()) }
	}

	// solo results first - unless the very first use is to happen concurrently
	solo := map[string]string{}
	key := func(j int) (int, int) { return j % len(live), j % len(reqs) }

	if !getBool(op, "cold") {
		for j := 0; j < n; j++ {
			hi, ri := key(j)
			k := fmt.Sprintf("%d/%d", hi, ri)

			if _, ok := solo[k]; !ok {
				solo[k] = e.canon(e.exec(live[hi].obj, obj(reqs[ri]), nil))
			}
		}
	}

	var (
		wg      sync.WaitGroup
		start   = make(chan struct{})
		results = make([][]string, n)
	)

	for j := 0; j < n; j++ {
		wg.Add(1)

		go func() {
			defer wg.Done()

			hi, ri := key(j)
			cch, stop := newCache()

			defer stop()

			<-start

			for r := 0; r < rounds; r++ {
				results[j] = append(results[j], e.canon(e.exec(live[hi].obj, obj(reqs[ri]), cch)))
			}
		}()
	}

	creates := getArr(op, "creates")
	made := make([]mechMade, len(creates))

	const creators = 2

	for g := 0; g < creators; g++ {
		wg.Add(1)

		go func() {
			defer wg.Done()

			<-start

			for j := g; j < len(creates); j += creators {
				m := obj(creates[j])

				var conf config.MechanismConfig
				if m["config"] != nil {
					conf = e.mechConfig(m["config"])
				}

				made[j].obj, made[j].err = mechCreate(factory, getStr(m, "kind"), getStr(m, "id"), conf)
			}
		}()
	}

	close(start)
	wg.Wait()

	// with a cold start the solo results are taken afterwards
	if getBool(op, "cold") {
		for j := 0; j < n; j++ {
			hi, ri := key(j)
			k := fmt.Sprintf("%d/%d", hi, ri)

			if _, ok := solo[k]; !ok {
				solo[k] = e.canon(e.exec(live[hi].obj, obj(reqs[ri]), nil))
			}
		}
	}

	ok := true
	inconclusive := 0

	var diffs []any

	for j := 0; j < n; j++ {
		hi, ri := key(j)
		want := solo[fmt.Sprintf("%d/%d", hi, ri)]

		for _, got := range results[j] {
			if strings.Contains(got, `"inconclusive":true`) || strings.Contains(want, `"inconclusive":true`) {
				inconclusive++

				continue
			}

			if got != want {
				ok = false

				if len(diffs) < 3 {
					diffs = append(diffs, map[string]any{"goroutine": j, "alone": want, "concurrent": got})
				}
			}
		}
	}

	created := 0

	for _, m := range made {
		if m.err == nil && m.obj != nil {
			created++
		}
	}

	res["ran"] = true
	res["par_ok"] = ok
	obs["executions"] = n * rounds
	obs["created_concurrently"] = created
	obs["inconclusive"] = inconclusive

	if len(diffs) != 0 {
		obs["diffs"] = diffs
	}

	return res, obs, made
}
