package main

// Family "fwd" (property C09): forwarded headers from untrusted peers never influence a decision.
//
// The implementation side runs the REAL services: decision.newService / proxy.newService (complete alice chain:
// trustedproxy, accesslog, logger, dump, recovery, otel, cache, service handler, request context, Finalize with
// httputil.ReverseProxy), the real rule executor / repository / rule factory / mechanisms (anonymous authenticator,
// header finalizers whose templates echo the request view), assembled through the fx modules of heimdall from a
// configuration file and a rule-set file loaded by the file_system provider. Requests are parsed by net/http itself
// (http.ReadRequest on the raw bytes, or a real TCP connection from a chosen loopback source address), the upstream
// of the proxy is a real HTTP server on a loopback port chosen by the kernel.

import (
	"bufio"
	"bytes"
	"context"
	"crypto/tls"
	"encoding/base64"
	"encoding/json"
	"errors"
	"fmt"
	"io"
	"net"
	"net/http"
	"net/http/httptest"
	"net/url"
	"os"
	"path/filepath"
	"sort"
	"strings"
	"sync"
	"time"

	"github.com/rs/zerolog"
	"go.uber.org/fx"

	"github.com/dadrus/heimdall/internal/cache"
	cachemodule "github.com/dadrus/heimdall/internal/cache/module"
	"github.com/dadrus/heimdall/internal/config"
	"github.com/dadrus/heimdall/internal/handler/decision"
	"github.com/dadrus/heimdall/internal/handler/middleware/http/trustedproxy"
	"github.com/dadrus/heimdall/internal/handler/proxy"
	"github.com/dadrus/heimdall/internal/keyholder"
	"github.com/dadrus/heimdall/internal/otel/metrics/certificate"
	"github.com/dadrus/heimdall/internal/rules"
	"github.com/dadrus/heimdall/internal/rules/mechanisms"
	"github.com/dadrus/heimdall/internal/rules/rule"
	"github.com/dadrus/heimdall/internal/watcher"
)

func init() { families["fwd"] = fwdRun }

type fwdApp struct {
	conf *config.Configuration
	cch  cache.Cache
	exec rule.Executor
	app  *fx.App
}

type fwdState struct {
	mu       sync.Mutex
	ready    bool
	err      error
	upstream *httptest.Server
	apps     map[string]*fwdApp // "decision" | "proxy"
	servers  map[string]*http.Server
	order    []string
	ipv6     bool
}

var fwd = &fwdState{apps: map[string]*fwdApp{}, servers: map[string]*http.Server{}}

const fwdViewTemplate = `{{ dict "m" .Request.Method "s" .Request.URL.Scheme "h" .Request.URL.Host "p" .Request.URL.Path ` +
	`"rp" .Request.URL.RawPath "q" .Request.URL.RawQuery "ips" .Request.ClientIPAddresses "hdrs" .Request.Headers ` +
	`"xfm" (.Request.Header "x-forwarded-method") | toJson | b64enc }}`

var fwdRules = []struct{ id, match string }{
	{"r-any", "routes: [{path: '/**'}]"},
	{"r-method", "routes: [{path: '/m/**'}]\n      methods: [DELETE]\n      backtracking_enabled: true"},
	{"r-scheme", "routes: [{path: '/s/**'}]\n      scheme: https\n      backtracking_enabled: true"},
	{"r-host", "routes: [{path: '/h/**'}]\n      hosts: [{type: exact, value: trusted.example.com}]\n" +
		"      backtracking_enabled: true"},
	{"r-path", "routes: [{path: '/admin/**'}]"},
}

func fwdWriteConfig(dir, mode, upstreamHost string) (string, error) {
	var rs strings.Builder

	rs.WriteString("version: \"1alpha4\"\nname: c09\nrules:\n")

	for _, r := range fwdRules {
		rs.WriteString("  - id: " + r.id + "\n    match:\n      " + r.match + "\n")

		if mode == "proxy" {
			rs.WriteString("    forward_to:\n      host: \"" + upstreamHost + "\"\n      rewrite:\n        scheme: http\n")
		}

		rs.WriteString("    execute:\n      - authenticator: anon\n      - finalizer: view\n      - finalizer: tag-" +
			r.id + "\n")
	}

	rulesDir := filepath.Join(dir, mode+"-rules")
	if err := os.MkdirAll(rulesDir, 0o755); err != nil {
		return "", err
	}

	if err := os.WriteFile(filepath.Join(rulesDir, "rules.yaml"), []byte(rs.String()), 0o600); err != nil {
		return "", err
	}

	var cf strings.Builder

	// the two lists are markers: the harness reports what the real configuration loader made of them
	cf.WriteString("serve:\n  decision:\n    trusted_proxies: [\"192.0.2.1\", \"198.51.100.0/24\"]\n" +
		"  proxy:\n    trusted_proxies: [\"2001:db8::/32\", \"not-an-ip\"]\n    timeout:\n      idle: 2s\n")
	cf.WriteString("log:\n  level: error\n")
	cf.WriteString("mechanisms:\n  authenticators:\n    - id: anon\n      type: anonymous\n  finalizers:\n")
	cf.WriteString("    - id: view\n      type: header\n      config:\n        headers:\n          X-Verif-View: '" +
		fwdViewTemplate + "'\n")

	for _, r := range fwdRules {
		cf.WriteString("    - id: tag-" + r.id + "\n      type: header\n      config:\n        headers:\n" +
			"          X-Verif-Rule: \"" + r.id + "\"\n")
	}

	cf.WriteString("providers:\n  file_system:\n    src: " + rulesDir + "\n    watch: false\n")

	path := filepath.Join(dir, mode+"-heimdall.yaml")

	return path, os.WriteFile(path, []byte(cf.String()), 0o600)
}

func fwdBoot(dir, mode, upstreamHost string) (*fwdApp, error) {
	path, err := fwdWriteConfig(dir, mode, upstreamHost)
	if err != nil {
		return nil, err
	}

	opMode := config.DecisionMode
	if mode == "proxy" {
		opMode = config.ProxyMode
	}

	res := &fwdApp{}

	app := fx.New(
		fx.NopLogger,
		fx.Supply(config.ConfigurationPath(path), config.EnvVarPrefix("VERIFC09UNUSED_"), opMode),
		fx.Supply(zerolog.Nop()),
		fx.Provide(config.NewConfiguration),
		fx.Provide(certificate.NewObserver),
		watcher.Module,
		keyholder.Module,
		cachemodule.Module,
		mechanisms.Module,
		rules.Module,
		fx.Populate(&res.conf, &res.cch, &res.exec),
	)
	if err := app.Err(); err != nil {
		return nil, err
	}

	ctx, cancel := context.WithTimeout(context.Background(), 60*time.Second)
	defer cancel()

	if err := app.Start(ctx); err != nil {
		return nil, err
	}

	res.app = app

	return res, nil
}

// the upstream of the proxy service: reports what it received
func fwdUpstreamHandler(rw http.ResponseWriter, req *http.Request) {
	hdrs := map[string][]string{}
	for k, v := range req.Header {
		hdrs[k] = v
	}

	rw.Header().Set("Content-Type", "application/json")
	_ = json.NewEncoder(rw).Encode(map[string]any{
		"method": req.Method, "uri": req.RequestURI, "host": req.Host, "headers": hdrs,
	})
}

func fwdSetup(c map[string]any) (any, error) {
	fwd.mu.Lock()
	defer fwd.mu.Unlock()

	if !fwd.ready && fwd.err == nil {
		dir := getStr(c, "tmp")
		if dir == "" {
			return nil, errors.New("setup needs tmp")
		}

		if err := os.MkdirAll(dir, 0o755); err != nil {
			return nil, err
		}

		uln, err := verifListen("127.0.0.1:0")
		if err != nil {
			return nil, err
		}

		fwd.upstream = httptest.NewUnstartedServer(http.HandlerFunc(fwdUpstreamHandler))
		_ = fwd.upstream.Listener.Close()
		fwd.upstream.Listener = uln
		fwd.upstream.Start()
		upstreamHost := strings.TrimPrefix(fwd.upstream.URL, "http://")

		for _, mode := range []string{"decision", "proxy"} {
			a, err := fwdBoot(dir, mode, upstreamHost)
			if err != nil {
				fwd.err = fmt.Errorf("boot %s: %w", mode, err)

				return nil, fwd.err
			}

			fwd.apps[mode] = a
		}

		if ln, err := net.Listen("tcp", "[::1]:0"); err == nil {
			fwd.ipv6 = true
			_ = ln.Close()
		}

		fwd.ready = true
	}

	if fwd.err != nil {
		return nil, fwd.err
	}

	deref := func(p *[]string) any {
		if p == nil {
			return nil
		}

		return *p
	}

	return map[string]any{
		"ok":           true,
		"ipv6":         fwd.ipv6,
		"cfg_decision": deref(fwd.apps["decision"].conf.Serve.Decision.TrustedProxies),
		"cfg_proxy":    deref(fwd.apps["proxy"].conf.Serve.Proxy.TrustedProxies),
	}, nil
}

// one *http.Server per (mode, trusted_proxies) — built by the real constructor from a copy of the loaded
// configuration in which only the trusted_proxies of the service under test are replaced; the *other* service's list
// is set to "trust everybody", so a constructor reading the wrong list is noticed.
func fwdServer(mode string, trusted []string, configured bool) *http.Server {
	key := mode + "\x00" + fmt.Sprint(configured) + "\x00" + strings.Join(trusted, "\x00")
	if srv, ok := fwd.servers[key]; ok {
		return srv
	}

	a := fwd.apps[mode]
	conf := *a.conf

	var own *[]string
	if configured {
		l := append([]string{}, trusted...)
		own = &l
	}

	other := []string{"0.0.0.0/0", "::/0"}

	var srv *http.Server

	if mode == "decision" {
		conf.Serve.Decision.TrustedProxies = own
		conf.Serve.Proxy.TrustedProxies = &other
		srv = decision.VerifC09NewService(&conf, a.cch, zerolog.Nop(), a.exec)
	} else {
		conf.Serve.Proxy.TrustedProxies = own
		conf.Serve.Decision.TrustedProxies = &other
		srv = proxy.VerifC09NewService(&conf, a.cch, zerolog.Nop(), a.exec)
	}

	if len(fwd.order) >= 64 {
		delete(fwd.servers, fwd.order[0])
		fwd.order = fwd.order[1:]
	}

	fwd.servers[key] = srv
	fwd.order = append(fwd.order, key)

	return srv
}

func fwdRaw(c map[string]any) []byte {
	var b bytes.Buffer

	fmt.Fprintf(&b, "%s %s HTTP/1.1\r\nHost: %s\r\n", getStr(c, "method"), getStr(c, "target"), getStr(c, "host"))

	for _, h := range getArr(c, "headers") {
		kv, _ := h.([]any)
		if len(kv) != 2 {
			continue
		}

		k, _ := kv[0].(string)
		v, _ := kv[1].(string)
		fmt.Fprintf(&b, "%s: %s\r\n", k, v)
	}

	b.WriteString("\r\n")

	return b.Bytes()
}

type fwdAnswer struct {
	status int
	header http.Header
	body   []byte
}

func fwdInProcess(srv *http.Server, c map[string]any) (*fwdAnswer, any, error) {
	req, err := http.ReadRequest(bufio.NewReader(bytes.NewReader(fwdRaw(c))))
	if err != nil {
		return nil, nil, fmt.Errorf("request not parsable by net/http: %w", err)
	}

	// what net/http made of the request line; the model takes these as the "actual request"
	if req.Method != getStr(c, "method") || req.Host != getStr(c, "host") || req.URL.RawPath != getStr(c, "raw_path") ||
		req.URL.EscapedPath() != getStr(c, "esc_path") || req.URL.RawQuery != getStr(c, "raw_query") {
		return nil, nil, fmt.Errorf("precondition: net/http parsed method=%q host=%q rawpath=%q path=%q query=%q",
			req.Method, req.Host, req.URL.RawPath, req.URL.EscapedPath(), req.URL.RawQuery)
	}

	req.RemoteAddr = getStr(c, "remote")
	if getBool(c, "tls") {
		req.TLS = &tls.ConnectionState{}
	}

	rec := httptest.NewRecorder()
	srv.Handler.ServeHTTP(rec, req)

	return &fwdAnswer{status: rec.Code, header: rec.Header(), body: rec.Body.Bytes()}, nil, nil
}

func fwdOverTCP(srv *http.Server, c map[string]any) (*fwdAnswer, any, error) {
	from := getStr(c, "tcp_from")
	ip := net.ParseIP(from)

	if ip == nil {
		return nil, nil, errors.New("bad tcp_from")
	}

	listenOn := "127.0.0.1:0"
	if ip.To4() == nil {
		if !fwd.ipv6 {
			return nil, map[string]any{"skip": "no ipv6 loopback"}, nil
		}

		listenOn = "[::1]:0"
	}

	ln, err := verifListen(listenOn)
	if err != nil {
		return nil, nil, err
	}

	// a fresh server value sharing the handler and the ConnContext hook of the real one
	s := &http.Server{Handler: srv.Handler, ConnContext: srv.ConnContext, ReadHeaderTimeout: 10 * time.Second}
	done := make(chan struct{})

	go func() { _ = s.Serve(ln); close(done) }()

	defer func() { _ = s.Close(); <-done }()

	d := net.Dialer{LocalAddr: &net.TCPAddr{IP: ip}, Timeout: 10 * time.Second}

	conn, err := d.Dial("tcp", ln.Addr().String())
	if err != nil {
		// the environment does not let us use this loopback source address
		return nil, map[string]any{"skip": "dial from " + from + ": " + err.Error()}, nil
	}

	defer verifCloseNow(conn)

	_ = conn.SetDeadline(time.Now().Add(20 * time.Second))

	if _, err = conn.Write(fwdRaw(c)); err != nil {
		return nil, nil, err
	}

	resp, err := http.ReadResponse(bufio.NewReader(conn), nil)
	if err != nil {
		return nil, nil, err
	}

	defer resp.Body.Close()

	body, _ := io.ReadAll(resp.Body)

	return &fwdAnswer{status: resp.StatusCode, header: resp.Header, body: body}, nil, nil
}

var fwdFamily = []string{ //nolint:gochecknoglobals
	"Forwarded", "X-Forwarded-For", "X-Forwarded-Proto", "X-Forwarded-Host", "X-Forwarded-Uri", "X-Forwarded-Path",
	"X-Forwarded-Method",
}

// the service instance a case is addressed to
func fwdServerFor(c map[string]any) (*http.Server, string, error) {
	fwd.mu.Lock()
	defer fwd.mu.Unlock()

	if !fwd.ready {
		return nil, "", errors.New("fwd: setup case missing")
	}

	mode := getStr(c, "mode")
	if mode != "decision" && mode != "proxy" {
		return nil, "", errors.New("bad mode")
	}

	_, configured := c["trusted"].([]any)

	return fwdServer(mode, getStrs(c, "trusted"), configured), mode, nil
}

func fwdReq(c map[string]any) (any, error) {
	srv, mode, err := fwdServerFor(c)
	if err != nil {
		return nil, err
	}

	return fwdDo(srv, mode, c)
}

// a sequence of requests in one process, answers in order (state kept between requests becomes replayable)
func fwdSeq(c map[string]any) (any, error) {
	out := []any{}

	for _, sub := range getArr(c, "cases") {
		res, err := fwdReq(obj(sub))
		if err != nil {
			res = map[string]any{"harness_error": err.Error()}
		}

		out = append(out, res)
	}

	return out, nil
}

// several peers served IN PARALLEL by one service instance: every worker sends its request `rounds` times from its
// own goroutine; per worker the distinct answers are reported (exactly one when requests do not interfere)
func fwdPar(c map[string]any) (any, error) {
	srv, mode, err := fwdServerFor(c)
	if err != nil {
		return nil, err
	}

	workers := getArr(c, "workers")
	rounds := getInt(c, "rounds")
	results := make([][]any, len(workers))
	start := make(chan struct{})

	var wg sync.WaitGroup

	for w := range workers {
		wg.Add(1)

		go func(w int) {
			defer wg.Done()

			wc := obj(workers[w])
			seen := map[string]any{}

			<-start

			for i := 0; i < rounds && len(seen) < 4; i++ {
				res, err := fwdDo(srv, mode, wc)
				if err != nil {
					res = map[string]any{"harness_error": err.Error()}
				}

				raw, _ := json.Marshal(res)
				if _, ok := seen[string(raw)]; !ok {
					seen[string(raw)] = res
				}
			}

			keys := make([]string, 0, len(seen))
			for k := range seen {
				keys = append(keys, k)
			}

			sort.Strings(keys)

			for _, k := range keys {
				results[w] = append(results[w], seen[k])
			}
		}(w)
	}

	close(start)
	wg.Wait()

	out := make([]any, len(results))
	for i, r := range results {
		out[i] = r
	}

	return out, nil
}

// one request through the given service instance (no shared harness state is touched: safe to call concurrently)
func fwdDo(srv *http.Server, mode string, c map[string]any) (any, error) {
	var (
		ans  *fwdAnswer
		skip any
		err  error
	)

	if getStr(c, "tcp_from") != "" {
		ans, skip, err = fwdOverTCP(srv, c)
	} else {
		ans, skip, err = fwdInProcess(srv, c)
	}

	if err != nil {
		return nil, err
	}

	if skip != nil {
		return skip, nil
	}

	out := map[string]any{"status": ans.status}
	viewSrc := ans.header
	out["up"] = nil

	if mode == "proxy" && ans.status == http.StatusOK {
		var echo struct {
			Method  string              `json:"method"`
			URI     string              `json:"uri"`
			Host    string              `json:"host"`
			Headers map[string][]string `json:"headers"`
		}

		if err := json.Unmarshal(ans.body, &echo); err != nil {
			return nil, fmt.Errorf("upstream echo not readable: %w (%q)", err, string(ans.body))
		}

		viewSrc = http.Header(echo.Headers)
		fw := [][]string{}

		for _, name := range fwdFamily {
			for _, v := range echo.Headers[name] {
				fw = append(fw, []string{name, v})
			}
		}

		out["up"] = map[string]any{"method": echo.Method, "uri": echo.URI, "fwd": fw}
	}

	if ans.status != http.StatusOK {
		return out, nil
	}

	raw, err := base64.StdEncoding.DecodeString(viewSrc.Get("X-Verif-View"))
	if err != nil || len(raw) == 0 {
		return nil, fmt.Errorf("no view echoed (status %d): %v", ans.status, err)
	}

	var view struct {
		M    string            `json:"m"`
		S    string            `json:"s"`
		H    string            `json:"h"`
		P    string            `json:"p"`
		RP   string            `json:"rp"`
		Q    string            `json:"q"`
		IPs  []string          `json:"ips"`
		Hdrs map[string]string `json:"hdrs"`
		XFM  string            `json:"xfm"`
	}

	if err := json.Unmarshal(raw, &view); err != nil {
		return nil, err
	}

	unesc, _ := url.PathUnescape(view.RP)

	hdrs := [][]string{}
	for k, v := range view.Hdrs {
		hdrs = append(hdrs, []string{k, v})
	}

	sort.Slice(hdrs, func(i, j int) bool { return hdrs[i][0] < hdrs[j][0] })

	if view.IPs == nil {
		view.IPs = []string{}
	}

	out["rule"] = viewSrc.Get("X-Verif-Rule")
	out["view"] = map[string]any{
		"method": view.M, "scheme": view.S, "host": view.H, "rawpath": view.RP, "query": view.Q, "ips": view.IPs,
	}
	// URL.Path is a function of URL.RawPath alone (checked here with the real net/url)
	out["path_ok"] = strings.ToValidUTF8(unesc, "�") == view.P
	out["hdrs"] = hdrs
	out["xfm"] = view.XFM

	return out, nil
}

// the trust decision of the real middleware in isolation (high volume): is the forwarded family kept or deleted?
func fwdTrust(c map[string]any) (any, error) {
	var kept []string

	h := trustedproxy.New(zerolog.Nop(), getStrs(c, "trusted")...)(http.HandlerFunc(
		func(_ http.ResponseWriter, req *http.Request) {
			for _, name := range fwdFamily {
				if req.Header.Get(name) != "" {
					kept = append(kept, name)
				}
			}
		}))

	req := &http.Request{Method: http.MethodGet, URL: &url.URL{Path: "/"}, Header: http.Header{}}
	req.RemoteAddr = getStr(c, "remote")

	for _, name := range fwdFamily {
		req.Header.Set(name, "x")
	}

	h.ServeHTTP(httptest.NewRecorder(), req)

	switch len(kept) {
	case 0:
		return map[string]any{"trusted": false}, nil
	case len(fwdFamily):
		return map[string]any{"trusted": true}, nil
	}

	return map[string]any{"trusted": "partly", "kept": kept}, nil
}

// what the real net/url makes of X-Forwarded-Uri values (url.Parse) and of request targets (url.ParseRequestURI, as
// the net/http request reader does): RawPath, EscapedPath(), RawQuery. The model treats net/url as a parameter;
// heimdall's own treatment of these parts (escapedPath, RawQuery as received) is modelled.
func fwdURI(c map[string]any) (any, error) {
	res := [][]any{}
	parse := url.Parse

	if getBool(c, "request_target") {
		parse = url.ParseRequestURI
	}

	for _, v := range getStrs(c, "vals") {
		u, err := parse(v)
		if err != nil {
			res = append(res, []any{v, false, "", "", ""})

			continue
		}

		res = append(res, []any{v, true, u.RawPath, u.EscapedPath(), u.RawQuery})
	}

	return res, nil
}

func fwdRun(c map[string]any) (any, error) {
	switch getStr(c, "op") {
	case "setup":
		return fwdSetup(c)
	case "req":
		return fwdReq(c)
	case "seq":
		return fwdSeq(c)
	case "par":
		return fwdPar(c)
	case "trust":
		return fwdTrust(c)
	case "uri":
		return fwdURI(c)
	}

	return nil, errors.New("fwd: unknown op")
}
