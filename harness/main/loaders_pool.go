package main

// Family "loaders", operation "pool" (property C19): generates the key and certificate material from which
// tools/gen_loaders.py assembles key store and trust store files.  The result is committed as
// tools/gen_loaders_pool.json (regenerate with `python3 tools/gen_loaders.py --regenerate-pool`), so that check runs
// are deterministic and do not spend time on RSA key generation.

import (
	"crypto"
	"crypto/ecdsa"
	"crypto/ed25519"
	"crypto/elliptic"
	"crypto/rand"
	"crypto/rsa"
	"crypto/sha1" //nolint:gosec
	"crypto/x509"
	"crypto/x509/pkix"
	"encoding/hex"
	"encoding/pem"
	"fmt"
	"math/big"
	"strings"
	"time"

	"github.com/youmark/pkcs8"
)

const c19PoolPassword = "secret"

type c19Key struct {
	name string
	kind string // rsa | ecdsa | other
	bits int
	priv crypto.Signer
}

func c19PEM(typ string, der []byte) string {
	return string(pem.EncodeToMemory(&pem.Block{Type: typ, Bytes: der}))
}

// c19OldKey returns the key of that name from a pool generated earlier (PKCS#8 form), so that extending the pool
// does not replace the material the corpus was written with
func c19OldKey(old map[string]any, name string) crypto.Signer {
	forms := obj(obj(obj(old["keys"])[name])["forms"])

	block, _ := pem.Decode([]byte(getStr(forms, "pkcs8")))
	if block == nil {
		return nil
	}

	parsed, err := x509.ParsePKCS8PrivateKey(block.Bytes)
	if err != nil {
		return nil
	}

	signer, _ := parsed.(crypto.Signer)

	return signer
}

func c19OldCert(old map[string]any, name string) *x509.Certificate {
	block, _ := pem.Decode([]byte(getStr(obj(obj(old["certs"])[name]), "pem")))
	if block == nil {
		return nil
	}

	cert, err := x509.ParseCertificate(block.Bytes)
	if err != nil {
		return nil
	}

	return cert
}

func c19GenKeys(old map[string]any) ([]*c19Key, error) {
	var keys []*c19Key

	for _, bits := range []int{1024, 1536, 2048, 3072, 4096} {
		for n := 0; n < 2; n++ {
			if n == 1 && bits != 2048 {
				continue
			}

			name := fmt.Sprintf("rsa%d_%d", bits, n)
			if k := c19OldKey(old, name); k != nil {
				keys = append(keys, &c19Key{name: name, kind: "rsa", bits: bits, priv: k})

				continue
			}

			k, err := rsa.GenerateKey(rand.Reader, bits)
			if err != nil {
				return nil, err
			}

			keys = append(keys, &c19Key{name: name, kind: "rsa", bits: bits, priv: k})
		}
	}

	ecKey := func(name string, curve elliptic.Curve) error {
		if k := c19OldKey(old, name); k != nil {
			keys = append(keys, &c19Key{name: name, kind: "ecdsa", bits: curve.Params().BitSize, priv: k})

			return nil
		}

		k, err := ecdsa.GenerateKey(curve, rand.Reader)
		if err != nil {
			return err
		}

		keys = append(keys, &c19Key{name: name, kind: "ecdsa", bits: curve.Params().BitSize, priv: k})

		return nil
	}

	for _, curve := range []elliptic.Curve{elliptic.P224(), elliptic.P256(), elliptic.P384(), elliptic.P521()} {
		for n := 0; n < 5; n++ {
			if n >= 1 && curve.Params().BitSize != 256 {
				continue
			}

			if err := ecKey(fmt.Sprintf("ec%d_%d", curve.Params().BitSize, n), curve); err != nil {
				return nil, err
			}
		}
	}

	// keys of the authorities that certify each other in cycles of three and four, and of a renewed intermediate
	for n := 0; n < 8; n++ {
		if err := ecKey(fmt.Sprintf("ca_%d", n), elliptic.P256()); err != nil {
			return nil, err
		}
	}

	if k := c19OldKey(old, "ed25519_0"); k != nil {
		keys = append(keys, &c19Key{name: "ed25519_0", kind: "other", bits: 256, priv: k})
	} else {
		_, ed, err := ed25519.GenerateKey(rand.Reader)
		if err != nil {
			return nil, err
		}

		keys = append(keys, &c19Key{name: "ed25519_0", kind: "other", bits: 256, priv: ed})
	}

	return keys, nil
}

func c19KeyForms(k *c19Key) (map[string]string, error) {
	forms := map[string]string{}

	p8, err := x509.MarshalPKCS8PrivateKey(k.priv)
	if err != nil {
		return nil, err
	}

	forms["pkcs8"] = c19PEM("PRIVATE KEY", p8)

	enc, err := pkcs8.MarshalPrivateKey(k.priv, []byte(c19PoolPassword), nil)
	if err == nil {
		forms["encrypted"] = c19PEM("ENCRYPTED PRIVATE KEY", enc)
	}

	switch t := k.priv.(type) {
	case *rsa.PrivateKey:
		forms["pkcs1"] = c19PEM("RSA PRIVATE KEY", x509.MarshalPKCS1PrivateKey(t))
		// the same bytes under the label of the other algorithm: does not parse
		forms["mislabelled"] = c19PEM("EC PRIVATE KEY", x509.MarshalPKCS1PrivateKey(t))
	case *ecdsa.PrivateKey:
		der, err := x509.MarshalECPrivateKey(t)
		if err != nil {
			return nil, err
		}

		forms["sec1"] = c19PEM("EC PRIVATE KEY", der)
		forms["mislabelled"] = c19PEM("RSA PRIVATE KEY", der)
	}

	pub, err := x509.MarshalPKIXPublicKey(k.priv.Public())
	if err != nil {
		return nil, err
	}

	forms["public"] = c19PEM("PUBLIC KEY", pub)

	return forms, nil
}

type c19CertSpec struct {
	name    string
	key     string // name of the certified key
	subject string
	signer  string // name of the issuing certificate ("" = self-signed)
	valid   bool
	ca      bool
	digSig  bool
	ski     bool // carries a subject key identifier
}

type c19Cert struct {
	spec c19CertSpec
	cert *x509.Certificate
}

func c19PubSKI(pub crypto.PublicKey) []byte {
	der, _ := x509.MarshalPKIXPublicKey(pub)
	sum := sha1.Sum(der) //nolint:gosec

	return sum[:]
}

func c19GenCerts(keys map[string]*c19Key, old map[string]any) ([]*c19Cert, error) {
	specs := []c19CertSpec{
		// self-signed end entity certificates
		{name: "ss_rsa2048", key: "rsa2048_0", subject: "ss-rsa2048", valid: true, digSig: true, ski: true},
		{name: "ss_rsa2048_renewed", key: "rsa2048_0", subject: "ss-rsa2048", valid: true, digSig: true, ski: true},
		{name: "ss_rsa3072", key: "rsa3072_0", subject: "ss-rsa3072", valid: true, digSig: true},
		{name: "ss_rsa4096", key: "rsa4096_0", subject: "ss-rsa4096", valid: true, digSig: true, ski: true},
		{name: "ss_rsa1024", key: "rsa1024_0", subject: "ss-rsa1024", valid: true, digSig: true, ski: true},
		{name: "ss_ec256", key: "ec256_0", subject: "ss-ec256", valid: true, digSig: true},
		{name: "ss_ec256_renewed", key: "ec256_0", subject: "ss-ec256", valid: true, digSig: true},
		{name: "ss_ec224", key: "ec224_0", subject: "ss-ec224", valid: true, digSig: true},
		{name: "ss_ec521", key: "ec521_0", subject: "ss-ec521", valid: true, digSig: true, ski: true},
		{name: "ss_ec384_nousage", key: "ec384_0", subject: "ss-ec384-nousage", valid: true, digSig: false},
		{name: "ss_ec256b_expired", key: "ec256_1", subject: "ss-ec256b-expired", valid: false, digSig: true},
		// a two-level and a three-level hierarchy
		{name: "root", key: "ec384_0", subject: "root-ca", valid: true, ca: true, ski: true},
		{name: "inter", key: "rsa2048_1", subject: "inter-ca", signer: "root", valid: true, ca: true, ski: true},
		{name: "leaf2_ec256b", key: "ec256_1", subject: "leaf2", signer: "root", valid: true, digSig: true, ski: true},
		{name: "leaf3_rsa3072", key: "rsa3072_0", subject: "leaf3", signer: "inter", valid: true, digSig: true, ski: true},
		{name: "leaf3_rsa1536", key: "rsa1536_0", subject: "leaf3-1536", signer: "inter", valid: true, digSig: true, ski: true},
		// two authorities that certify each other (cross certification), and a leaf below one of them
		{name: "cross_a", key: "ec521_0", subject: "cross-a", signer: "cross_b_boot", valid: true, ca: true, ski: true},
		{name: "cross_b", key: "rsa4096_0", subject: "cross-b", signer: "cross_a", valid: true, ca: true, ski: true},
		{name: "leaf_cross", key: "ec256_0", subject: "leaf-cross", signer: "cross_a", valid: true, digSig: true, ski: true},
		// renewal chains: up to four generations of one self-signed certificate (same subject, same key), linked
		// by name (no key identifiers) and by key identifiers
		{name: "ss_ec256_renewed2", key: "ec256_0", subject: "ss-ec256", valid: true, digSig: true},
		{name: "ss_ec256_renewed3", key: "ec256_0", subject: "ss-ec256", valid: true, digSig: true},
		{name: "ss_rsa2048_renewed2", key: "rsa2048_0", subject: "ss-rsa2048", valid: true, digSig: true, ski: true},
		{name: "ss_rsa2048_renewed3", key: "rsa2048_0", subject: "ss-rsa2048", valid: true, digSig: true, ski: true},
		// an authority in three generations
		{name: "root_gen2", key: "ec384_0", subject: "root-ca", valid: true, ca: true, ski: true},
		{name: "root_gen3", key: "ec384_0", subject: "root-ca", valid: true, ca: true, ski: true},
		// three authorities certifying each other in a cycle (a <- c, b <- a, c <- b), and a leaf below a
		{name: "c3_a", key: "ca_0", subject: "c3-a", signer: "c3_c_boot", valid: true, ca: true, ski: true},
		{name: "c3_b", key: "ca_1", subject: "c3-b", signer: "c3_a", valid: true, ca: true, ski: true},
		{name: "c3_c", key: "ca_2", subject: "c3-c", signer: "c3_b", valid: true, ca: true, ski: true},
		{name: "leaf_c3", key: "ec256_2", subject: "leaf-c3", signer: "c3_a", valid: true, digSig: true, ski: true},
		// four authorities in a cycle (a <- d, b <- a, c <- b, d <- c), and a leaf below a
		{name: "c4_a", key: "ca_3", subject: "c4-a", signer: "c4_d_boot", valid: true, ca: true, ski: true},
		{name: "c4_b", key: "ca_4", subject: "c4-b", signer: "c4_a", valid: true, ca: true, ski: true},
		{name: "c4_c", key: "ca_5", subject: "c4-c", signer: "c4_b", valid: true, ca: true, ski: true},
		{name: "c4_d", key: "ca_6", subject: "c4-d", signer: "c4_c", valid: true, ca: true, ski: true},
		{name: "leaf_c4", key: "ec256_3", subject: "leaf-c4", signer: "c4_a", valid: true, digSig: true, ski: true},
		// mixed: an intermediate below the two cross certified authorities, issued three times (same subject and
		// key), and a leaf below it
		{name: "mx_inter", key: "ca_7", subject: "mx-inter", signer: "cross_a", valid: true, ca: true, ski: true},
		{name: "mx_inter_gen2", key: "ca_7", subject: "mx-inter", signer: "cross_a", valid: true, ca: true, ski: true},
		{name: "mx_inter_gen3", key: "ca_7", subject: "mx-inter", signer: "cross_a", valid: true, ca: true, ski: true},
		{name: "leaf_mx", key: "ec256_4", subject: "leaf-mx", signer: "mx_inter", valid: true, digSig: true, ski: true},
	}

	res := []*c19Cert{}
	byName := map[string]*c19Cert{}
	serial := int64(1000)

	// serial numbers identify certificates in the answers of the harness: new ones continue behind the old ones
	for _, v := range obj(old["certs"]) {
		var n int64
		if _, err := fmt.Sscan(getStr(obj(v), "serial"), &n); err == nil && n >= serial {
			serial = n + 100
		}
	}

	build := func(spec c19CertSpec, signerCert *x509.Certificate, signerKey crypto.Signer) (*x509.Certificate, error) {
		serial++

		notBefore := time.Date(2020, 1, 1, 0, 0, 0, 0, time.UTC)
		notAfter := time.Date(2120, 1, 1, 0, 0, 0, 0, time.UTC)

		if !spec.valid {
			notBefore = time.Date(2000, 1, 1, 0, 0, 0, 0, time.UTC)
			notAfter = time.Date(2001, 1, 1, 0, 0, 0, 0, time.UTC)
		}

		key := keys[spec.key]

		tpl := &x509.Certificate{
			SerialNumber:          big.NewInt(serial),
			Subject:               pkix.Name{CommonName: spec.subject, Organization: []string{"verif"}},
			NotBefore:             notBefore,
			NotAfter:              notAfter,
			BasicConstraintsValid: true,
			IsCA:                  spec.ca,
		}

		switch {
		case spec.ca:
			tpl.KeyUsage = x509.KeyUsageCertSign | x509.KeyUsageCRLSign
			tpl.MaxPathLen = -1
		case spec.digSig:
			tpl.KeyUsage = x509.KeyUsageDigitalSignature
		default:
			tpl.KeyUsage = x509.KeyUsageKeyEncipherment
		}

		if spec.ski {
			tpl.SubjectKeyId = c19PubSKI(key.priv.Public())
		}

		parent := tpl
		if signerCert != nil {
			parent = signerCert
		} else {
			signerKey = key.priv
		}

		der, err := x509.CreateCertificate(rand.Reader, tpl, parent, key.priv.Public(), signerKey)
		if err != nil {
			return nil, fmt.Errorf("%s: %w", spec.name, err)
		}

		return x509.ParseCertificate(der)
	}

	specByName := map[string]c19CertSpec{}
	for _, spec := range specs {
		specByName[spec.name] = spec
	}

	for _, spec := range specs {
		if cert := c19OldCert(old, spec.name); cert != nil {
			c := &c19Cert{spec: spec, cert: cert}
			byName[spec.name] = c
			res = append(res, c)

			continue
		}

		var (
			signerCert *x509.Certificate
			signerKey  crypto.Signer
		)

		if spec.signer != "" {
			s, ok := byName[spec.signer]
			if !ok && strings.HasSuffix(spec.signer, "_boot") {
				// bootstrap of a certification cycle: the issuer first exists as a self-signed certificate with
				// the subject, key and key identifier it will have; the certificate that ends up in the pool is
				// issued later by the last member of the cycle
				base, known := specByName[strings.TrimSuffix(spec.signer, "_boot")]
				if !known {
					return nil, fmt.Errorf("%s: unknown signer %s", spec.name, spec.signer)
				}

				base.signer = ""

				boot, err := build(base, nil, nil)
				if err != nil {
					return nil, err
				}

				s, ok = &c19Cert{cert: boot, spec: base}, true
			}

			if !ok {
				return nil, fmt.Errorf("%s: unknown signer %s", spec.name, spec.signer)
			}

			signerCert, signerKey = s.cert, keys[s.spec.key].priv
		}

		cert, err := build(spec, signerCert, signerKey)
		if err != nil {
			return nil, err
		}

		c := &c19Cert{spec: spec, cert: cert}
		byName[spec.name] = c
		res = append(res, c)
	}

	return res, nil
}

// c19Pool: {"extend": pool generated earlier} keeps the keys and certificates that exist already
func c19Pool(c map[string]any) (any, error) {
	old := obj(c["extend"])

	keys, err := c19GenKeys(old)
	if err != nil {
		return nil, err
	}

	byName := map[string]*c19Key{}
	keyOut := map[string]any{}

	for _, k := range keys {
		byName[k.name] = k

		forms, err := c19KeyForms(k)
		if err != nil {
			return nil, err
		}

		// the encrypted form is salted: keep the one that exists
		if enc := getStr(obj(obj(obj(old["keys"])[k.name])["forms"]), "encrypted"); enc != "" {
			forms["encrypted"] = enc
		}

		keyOut[k.name] = map[string]any{
			"kind": k.kind, "bits": k.bits, "forms": forms, "kid": hex.EncodeToString(c19PubSKI(k.priv.Public())),
		}
	}

	certs, err := c19GenCerts(byName, old)
	if err != nil {
		return nil, err
	}

	certOut := map[string]any{}

	for _, c := range certs {
		certOut[c.spec.name] = map[string]any{
			"pem":     c19PEM("CERTIFICATE", c.cert.Raw),
			"key":     c.spec.key,
			"subject": c.cert.Subject.CommonName,
			"issuer":  c.cert.Issuer.CommonName,
			"ski":     hex.EncodeToString(c.cert.SubjectKeyId),
			"aki":     hex.EncodeToString(c.cert.AuthorityKeyId),
			"serial":  c.cert.SerialNumber.String(),
			"valid":   c.spec.valid,
			"ca":      c.spec.ca,
			"digsig":  c.spec.digSig,
		}
	}

	return map[string]any{"password": c19PoolPassword, "keys": keyOut, "certs": certOut}, nil
}
