package main

import (
	"fmt"
	"net/http"
	"sync"
	"sync/atomic"
	"time"

	"github.com/rs/zerolog"

	"github.com/dadrus/heimdall/internal/config"
	"github.com/dadrus/heimdall/internal/handler/requestcontext"
	"github.com/dadrus/heimdall/internal/heimdall"
	"github.com/dadrus/heimdall/internal/rules"
	rconfig "github.com/dadrus/heimdall/internal/rules/config"
	"github.com/dadrus/heimdall/internal/rules/rule"
	"github.com/dadrus/heimdall/internal/zzverif/zzsync"
)

// Family "conc": concurrent rule-set changes and lookups against the real repository; every operation is
// recorded with logical start/end timestamps so that the history can be checked for linearizability.

func init() { families["conc"] = runConc }

// far beyond what the operations of one case need (milliseconds), also under the race detector
const concDeadline = 20 * time.Second

func findOnce(repo rule.Repository, op map[string]any) any {
	req, err := newHTTPRequest(getStr(op, "method"), getStr(op, "target"), getStr(op, "host"), getStr(op, "scheme"))
	if err != nil {
		return map[string]any{"badrequest": true}
	}

	ctx := requestcontext.New(req)
	res := map[string]any{}

	rul, err := repo.FindRule(ctx)
	if err != nil {
		res["rule"] = nil
		res["err"] = errKind(err)

		return res
	}

	res["rule"] = rul.SrcID() + "/" + rul.ID()

	_, err = rul.Execute(ctx)
	res["exec"] = errKind(err)

	if err == nil {
		res["caps"] = sortedPairs(ctx.Request().URL.Captures)
		if ver := ctx.UpstreamHeaders().Get("X-Verif-Ver"); ver != "" {
			res["ver"] = ver
		}
	}

	return res
}

func applyChange(proc rule.SetProcessor, op map[string]any) string {
	switch getStr(op, "op") {
	case "add":
		return errKind(proc.OnCreated(toRuleSet(op)))
	case "upd":
		return errKind(proc.OnUpdated(toRuleSet(op)))
	default:
		return errKind(proc.OnDeleted(&rconfig.RuleSet{MetaData: rconfig.MetaData{Source: getStr(op, "src")}}))
	}
}

func runConc(c map[string]any) (any, error) {
	if getStr(c, "mode") == "panic" {
		return runConcPanic(c)
	}

	conf := &config.Configuration{}
	if getBool(c, "dr") {
		conf.Default = &config.DefaultRule{
			BacktrackingEnabled: getBool(c, "dr_bt"),
			Execute:             []config.MechanismConfig{{"authenticator": "d"}},
		}
	}

	factory, err := rules.NewRuleFactory(stubFactory{}, conf, config.DecisionMode, zerolog.Nop())
	if err != nil {
		return nil, err
	}

	repo := rules.VerifNewRepository(factory)
	proc := rules.NewRuleSetProcessor(repo, factory)

	initRes := []any{}
	for _, o := range getArr(c, "init") {
		initRes = append(initRes, applyChange(proc, obj(o)))
	}

	var (
		clock atomic.Int64
		wg    sync.WaitGroup
		start = make(chan struct{})
	)

	type rec struct {
		S, E int64
		K    int
		Res  any
	}

	// readers repeat their lookups (at most `laps` times) while changes are still being made
	laps := getInt(c, "laps")
	if laps < 1 {
		laps = 1
	}

	var writersLeft atomic.Int64

	writers := getArr(c, "writers")
	readers := getArr(c, "readers")
	wres := make([][]rec, len(writers))
	rres := make([][]rec, len(readers))

	writersLeft.Store(int64(len(writers)))

	zzsync.Enable(true, uint64(getInt(c, "seed")))
	defer zzsync.Enable(false, 0)

	for i, w := range writers {
		ops, _ := w.([]any)
		wres[i] = make([]rec, len(ops))

		wg.Add(1)

		go func() {
			defer wg.Done()
			defer writersLeft.Add(-1)
			<-start

			for k, o := range ops {
				s := clock.Add(1)
				r := applyChange(proc, obj(o))
				e := clock.Add(1)
				wres[i][k] = rec{s, e, k, r}
			}
		}()
	}

	for i, rd := range readers {
		ops, _ := rd.([]any)
		rres[i] = make([]rec, 0, len(ops)*laps)

		wg.Add(1)

		go func() {
			defer wg.Done()
			<-start

			for lap := 0; lap < laps && (lap == 0 || writersLeft.Load() > 0); lap++ {
				for k, o := range ops {
					s := clock.Add(1)
					r := findOnce(repo, obj(o))
					e := clock.Add(1)
					rres[i] = append(rres[i], rec{s, e, k, r})
				}
			}
		}()
	}

	close(start)

	// a deadlock between changes and lookups must be reported, not waited for
	finished := make(chan struct{})

	go func() {
		wg.Wait()
		close(finished)
	}()

	select {
	case <-finished:
	case <-time.After(concDeadline):
		return map[string]any{"deadlock": true, "after_ms": concDeadline.Milliseconds()}, nil
	}

	conv := func(rs [][]rec) []any {
		out := make([]any, len(rs))
		for i, l := range rs {
			lo := make([]any, len(l))
			for k, r := range l {
				lo[k] = map[string]any{"s": r.S, "e": r.E, "k": r.K, "res": r.Res}
			}

			out[i] = lo
		}

		return out
	}

	// everything has finished: what the repository answers now is the state all changes have led to
	final := []any{}
	for _, o := range getArr(c, "final") {
		final = append(final, findOnce(repo, obj(o)))
	}

	return map[string]any{"init": initRes, "writers": conv(wres), "readers": conv(rres), "final": final}, nil
}

// ---------------------------------------------------------------------------------------------------------------
// Scenario family "panicking lookup" (mode = "panic"): what a goroutine that panics inside the repository leaves
// behind. A route matcher is code of a rule and runs inside the index lookup, i.e. under the read lock of FindRule;
// Routes() of a rule runs inside the computation on the private clone, i.e. under knownRulesMutex. A panic there is
// recovered far above the repository (the recover middleware of the request goroutine; here: recover around the
// call), the process lives on, and every lock the goroutine held must have been released (deferred unlocks) —
// otherwise the next rule-set change, and behind the pending writer every later lookup, waits for ever.
//
// The faulty rule is a rule.Rule / rule.Route implementation of the harness registered through the exported
// rule.Repository interface of the real repository; everything else goes the ordinary way (rule-set processor,
// real factory). The steps run one after the other (`par`: concurrently, with scheduling jitter) under a watchdog:
// a step that does not finish within the (short) time limit of the case is reported as a deadlock together with the
// step and the number of panics recovered before it.

const (
	faultyPath   = "/zzfaulty/p"
	faultyMethod = http.MethodTrace // the marker request: matching it panics
)

type faultyRule struct {
	id, src   string
	panicFrom int32 // Routes() panics from this call on (counted from 0); negative: never
	calls     atomic.Int32
}

type faultyRoute struct{ r *faultyRule }

func (f *faultyRule) ID() string                                     { return f.id }
func (f *faultyRule) SrcID() string                                  { return f.src }
func (f *faultyRule) Execute(heimdall.Context) (rule.Backend, error) { return nil, nil } //nolint:nilnil
func (f *faultyRule) SameAs(o rule.Rule) bool                        { return o.ID() == f.id && o.SrcID() == f.src }
func (f *faultyRule) EqualTo(o rule.Rule) bool                       { return f.SameAs(o) }
func (f *faultyRule) AllowsBacktracking() bool                       { return false }

func (f *faultyRule) Routes() []rule.Route {
	if n := f.calls.Add(1) - 1; f.panicFrom >= 0 && n >= f.panicFrom {
		panic("verif: Routes() of a rule failed hard")
	}

	return []rule.Route{faultyRoute{f}}
}

func (f faultyRoute) Path() string {
	if f.r.src == "zzfaulty" {
		return faultyPath
	}

	return "/" + f.r.src + "/p"
}

func (f faultyRoute) Rule() rule.Rule { return f.r }

func (f faultyRoute) Matches(ctx heimdall.Context, _, _ []string) bool {
	if ctx.Request().Method == faultyMethod {
		panic("verif: route matcher failed hard")
	}

	return true
}

// recovered runs f the way a request goroutine (or a provider's event loop) runs it: a panic ends the call, not the
// process
func recovered(f func()) (panicked bool) {
	defer func() {
		if r := recover(); r != nil {
			panicked = true
		}
	}()

	f()

	return false
}

func runConcPanic(c map[string]any) (any, error) {
	conf := &config.Configuration{}
	if getBool(c, "dr") {
		conf.Default = &config.DefaultRule{
			BacktrackingEnabled: getBool(c, "dr_bt"),
			Execute:             []config.MechanismConfig{{"authenticator": "d"}},
		}
	}

	factory, err := rules.NewRuleFactory(stubFactory{}, conf, config.DecisionMode, zerolog.Nop())
	if err != nil {
		return nil, err
	}

	repo := rules.VerifNewRepository(factory)
	proc := rules.NewRuleSetProcessor(repo, factory)

	initRes := []any{}
	for _, o := range getArr(c, "init") {
		initRes = append(initRes, applyChange(proc, obj(o)))
	}

	// the rule whose matcher panics for the marker request; an ordinary request finds it
	if err = repo.AddRuleSet("zzfaulty", []rule.Rule{&faultyRule{id: "zzf", src: "zzfaulty", panicFrom: -1}}); err != nil {
		return nil, err
	}

	probe := findOnce(repo, map[string]any{"method": "GET", "host": "a.example.com", "target": faultyPath})
	if m, _ := probe.(map[string]any); m == nil || m["rule"] != "zzfaulty/zzf" {
		return nil, fmt.Errorf("the faulty rule is not reachable through the index: %v", probe)
	}

	var (
		panics  atomic.Int64
		current atomic.Int64
		mu      sync.Mutex
		results []any
	)

	var step func(o map[string]any) any

	step = func(o map[string]any) any {
		switch op := getStr(o, "op"); op {
		case "find":
			return findOnce(repo, o)
		case "add", "upd", "del":
			return applyChange(proc, o)
		case "panicfind":
			n := max(getInt(o, "n"), 1)
			got := 0

			for range n {
				if recovered(func() {
					findOnce(repo, map[string]any{"method": faultyMethod, "host": "a.example.com", "target": faultyPath})
				}) {
					got++

					panics.Add(1)
				}
			}

			return map[string]any{"panics": got, "of": n}
		case "panicadd":
			// Routes() panics inside addRulesTo: AddRuleSet panics while it holds knownRulesMutex
			src := getStr(o, "src")
			p := recovered(func() { _ = repo.AddRuleSet(src, []rule.Rule{&faultyRule{id: "g", src: src, panicFrom: 0}}) })

			if p {
				panics.Add(1)
			}

			return map[string]any{"panic": p}
		case "panicdel":
			// the rule set is loaded (first call of Routes()), deleting it panics inside removeRulesFrom
			src := getStr(o, "src")
			if err := repo.AddRuleSet(src, []rule.Rule{&faultyRule{id: "g", src: src, panicFrom: 1}}); err != nil {
				return map[string]any{"harness_error": "loading the rule set to delete failed: " + errKind(err)}
			}

			p := recovered(func() { _ = repo.DeleteRuleSet(src) })
			if p {
				panics.Add(1)
			}

			return map[string]any{"panic": p}
		case "par":
			ops := getArr(o, "ops")
			res := make([]any, len(ops))

			var wg sync.WaitGroup

			for i, sub := range ops {
				wg.Add(1)

				go func() {
					defer wg.Done()

					res[i] = step(obj(sub))
				}()
			}

			wg.Wait()

			return res
		default:
			return map[string]any{"harness_error": "unknown step " + op}
		}
	}

	limit := time.Duration(getInt(c, "timeout_ms")) * time.Millisecond
	if limit <= 0 {
		limit = 4 * time.Second
	}

	zzsync.Enable(true, uint64(getInt(c, "seed")))
	defer zzsync.Enable(false, 0)

	steps := getArr(c, "steps")
	finished := make(chan struct{})

	go func() {
		defer close(finished)

		for k, o := range steps {
			current.Store(int64(k))

			r := step(obj(o))

			mu.Lock()
			results = append(results, r)
			mu.Unlock()
		}
	}()

	select {
	case <-finished:
	case <-time.After(limit):
		mu.Lock()
		done := append([]any{}, results...)
		mu.Unlock()

		k := int(current.Load())

		return map[string]any{
			"deadlock": true, "after_ms": limit.Milliseconds(), "step": k, "op": getStr(obj(steps[k]), "op"),
			"panics_before": panics.Load(), "done": done, "init": initRes,
		}, nil
	}

	return map[string]any{"init": initRes, "steps": results, "panics": panics.Load()}, nil
}
