package main

import (
	"sync"
	"sync/atomic"
	"time"

	"github.com/rs/zerolog"

	"github.com/dadrus/heimdall/internal/config"
	"github.com/dadrus/heimdall/internal/handler/requestcontext"
	"github.com/dadrus/heimdall/internal/rules"
	rconfig "github.com/dadrus/heimdall/internal/rules/config"
	"github.com/dadrus/heimdall/internal/rules/rule"
	"github.com/dadrus/heimdall/internal/zzverif/zzsync"
)

// Family "conc": concurrent rule-set changes and lookups against the real repository; every operation is
// recorded with logical start/end timestamps so that the history can be checked for linearizability.

func init() { families["conc"] = runConc }

// far beyond what the operations of one case need (milliseconds), also under the race detector
const concDeadline = 20 * time.Second

func findOnce(repo rule.Repository, op map[string]any) any {
	req, err := newHTTPRequest(getStr(op, "method"), getStr(op, "target"), getStr(op, "host"), getStr(op, "scheme"))
	if err != nil {
		return map[string]any{"badrequest": true}
	}

	ctx := requestcontext.New(req)
	res := map[string]any{}

	rul, err := repo.FindRule(ctx)
	if err != nil {
		res["rule"] = nil
		res["err"] = errKind(err)

		return res
	}

	res["rule"] = rul.SrcID() + "/" + rul.ID()

	_, err = rul.Execute(ctx)
	res["exec"] = errKind(err)

	if err == nil {
		res["caps"] = sortedPairs(ctx.Request().URL.Captures)
		if ver := ctx.UpstreamHeaders().Get("X-Verif-Ver"); ver != "" {
			res["ver"] = ver
		}
	}

	return res
}

func applyChange(proc rule.SetProcessor, op map[string]any) string {
	switch getStr(op, "op") {
	case "add":
		return errKind(proc.OnCreated(toRuleSet(op)))
	case "upd":
		return errKind(proc.OnUpdated(toRuleSet(op)))
	default:
		return errKind(proc.OnDeleted(&rconfig.RuleSet{MetaData: rconfig.MetaData{Source: getStr(op, "src")}}))
	}
}

func runConc(c map[string]any) (any, error) {
	conf := &config.Configuration{}
	if getBool(c, "dr") {
		conf.Default = &config.DefaultRule{
			BacktrackingEnabled: getBool(c, "dr_bt"),
			Execute:             []config.MechanismConfig{{"authenticator": "d"}},
		}
	}

	factory, err := rules.NewRuleFactory(stubFactory{}, conf, config.DecisionMode, zerolog.Nop())
	if err != nil {
		return nil, err
	}

	repo := rules.VerifNewRepository(factory)
	proc := rules.NewRuleSetProcessor(repo, factory)

	initRes := []any{}
	for _, o := range getArr(c, "init") {
		initRes = append(initRes, applyChange(proc, obj(o)))
	}

	var (
		clock atomic.Int64
		wg    sync.WaitGroup
		start = make(chan struct{})
	)

	type rec struct {
		S, E int64
		K    int
		Res  any
	}

	// readers repeat their lookups (at most `laps` times) while changes are still being made
	laps := getInt(c, "laps")
	if laps < 1 {
		laps = 1
	}

	var writersLeft atomic.Int64

	writers := getArr(c, "writers")
	readers := getArr(c, "readers")
	wres := make([][]rec, len(writers))
	rres := make([][]rec, len(readers))

	writersLeft.Store(int64(len(writers)))

	zzsync.Enable(true, uint64(getInt(c, "seed")))
	defer zzsync.Enable(false, 0)

	for i, w := range writers {
		ops, _ := w.([]any)
		wres[i] = make([]rec, len(ops))

		wg.Add(1)

		go func() {
			defer wg.Done()
			defer writersLeft.Add(-1)
			<-start

			for k, o := range ops {
				s := clock.Add(1)
				r := applyChange(proc, obj(o))
				e := clock.Add(1)
				wres[i][k] = rec{s, e, k, r}
			}
		}()
	}

	for i, rd := range readers {
		ops, _ := rd.([]any)
		rres[i] = make([]rec, 0, len(ops)*laps)

		wg.Add(1)

		go func() {
			defer wg.Done()
			<-start

			for lap := 0; lap < laps && (lap == 0 || writersLeft.Load() > 0); lap++ {
				for k, o := range ops {
					s := clock.Add(1)
					r := findOnce(repo, obj(o))
					e := clock.Add(1)
					rres[i] = append(rres[i], rec{s, e, k, r})
				}
			}
		}()
	}

	close(start)

	// a deadlock between changes and lookups must be reported, not waited for
	finished := make(chan struct{})

	go func() {
		wg.Wait()
		close(finished)
	}()

	select {
	case <-finished:
	case <-time.After(concDeadline):
		return map[string]any{"deadlock": true, "after_ms": concDeadline.Milliseconds()}, nil
	}

	conv := func(rs [][]rec) []any {
		out := make([]any, len(rs))
		for i, l := range rs {
			lo := make([]any, len(l))
			for k, r := range l {
				lo[k] = map[string]any{"s": r.S, "e": r.E, "k": r.K, "res": r.Res}
			}

			out[i] = lo
		}

		return out
	}

	// everything has finished: what the repository answers now is the state all changes have led to
	final := []any{}
	for _, o := range getArr(c, "final") {
		final = append(final, findOnce(repo, obj(o)))
	}

	return map[string]any{"init": initRes, "writers": conv(wres), "readers": conv(rres), "final": final}, nil
}
