package main

// Family "loaders", operations "remote" and "raw" (property C19): inputs that arrive over the network.
//
//   remote  heimdall's real jwt, oauth2_introspection and generic authenticators, remote authorizer and generic
//           contextualizer are executed against a loopback server that answers with the status, content type and
//           body of the case (key sets, introspection / identity / authorization responses), with the token of the
//           case as credential
//   raw     the real decision service (real middleware chain, real rule executor, repository, rules using the
//           request body, headers and query) is sent the bytes of the case over TCP
//
// Both report how the call ended; "raw" ends with a well-formed request of the harness' own to see that the service
// still answers.

import (
	"bufio"
	"crypto/ecdsa"
	"crypto/x509"
	"encoding/json"
	"encoding/pem"
	"errors"
	"fmt"
	"io"
	"net"
	"net/http"
	"net/http/httptest"
	"os"
	"strings"
	"sync"
	"time"

	"github.com/go-jose/go-jose/v4"
	"github.com/go-jose/go-jose/v4/jwt"
	"github.com/rs/zerolog"

	"github.com/dadrus/heimdall/internal/cache/noop"
	"github.com/dadrus/heimdall/internal/config"
	"github.com/dadrus/heimdall/internal/handler/decision"
	"github.com/dadrus/heimdall/internal/handler/requestcontext"
	"github.com/dadrus/heimdall/internal/rules"
	rulecfg "github.com/dadrus/heimdall/internal/rules/config"
	"github.com/dadrus/heimdall/internal/rules/mechanisms"
	"github.com/dadrus/heimdall/internal/rules/mechanisms/subject"
	"github.com/dadrus/heimdall/internal/watcher"
)

type c19Script struct {
	mu     sync.Mutex
	status int
	ctype  string
	body   []byte
}

func (s *c19Script) ServeHTTP(rw http.ResponseWriter, req *http.Request) {
	io.Copy(io.Discard, req.Body) //nolint:errcheck

	s.mu.Lock()
	status, ctype, body := s.status, s.ctype, s.body
	s.mu.Unlock()

	if ctype != "" {
		rw.Header().Set("Content-Type", ctype)
	}

	// the server closes the connection, so that the sockets left in TIME-WAIT do not occupy ephemeral ports
	rw.Header().Set("Connection", "close")

	rw.WriteHeader(status)
	rw.Write(body) //nolint:errcheck
}

type c19RemoteEnv struct {
	err    error
	script *c19Script
	srv    *httptest.Server
	mf     mechanisms.MechanismFactory
}

// c19TokenMaterial signs a token with the given key (PKCS#8 PEM) and renders the key set publishing it; the check
// derives malformed tokens and key sets from the two texts
func c19TokenMaterial(keyPEM string) (any, error) {
	block, _ := pem.Decode([]byte(keyPEM))
	if block == nil {
		return nil, errors.New("loaders: remote: no key")
	}

	parsed, err := x509.ParsePKCS8PrivateKey(block.Bytes)
	if err != nil {
		return nil, err
	}

	key, ok := parsed.(*ecdsa.PrivateKey)
	if !ok {
		return nil, errors.New("loaders: remote: not an ECDSA key")
	}

	jwks, err := json.Marshal(jose.JSONWebKeySet{Keys: []jose.JSONWebKey{
		{Key: key.Public(), KeyID: "k1", Algorithm: "ES256", Use: "sig"},
	}})
	if err != nil {
		return nil, err
	}

	signer, err := jose.NewSigner(jose.SigningKey{Algorithm: jose.ES256, Key: key},
		new(jose.SignerOptions).WithType("JWT").WithHeader("kid", "k1"))
	if err != nil {
		return nil, err
	}

	now := time.Now()

	token, err := jwt.Signed(signer).Claims(map[string]any{
		"iss": "verif", "sub": "alice", "exp": now.Add(24 * time.Hour).Unix(), "iat": now.Unix(),
		"nbf": now.Add(-time.Minute).Unix(), "scope": "a b", "aud": []string{"x"},
	}).Serialize()
	if err != nil {
		return nil, err
	}

	return map[string]any{"token": token, "jwks": string(jwks)}, nil
}

var (
	c19RemoteOnce sync.Once
	c19Remote     c19RemoteEnv
)

const c19RemoteCatalogue = `
mechanisms:
  authenticators:
    - id: jwt
      type: jwt
      config:
        jwks_endpoint:
          url: BASE/jwks
        assertions:
          issuers: [verif]
        cache_ttl: 0s
    - id: intro
      type: oauth2_introspection
      config:
        introspection_endpoint:
          url: BASE/introspect
        assertions:
          issuers: [verif]
        cache_ttl: 0s
    - id: idinfo
      type: generic
      config:
        identity_info_endpoint:
          url: BASE/idinfo
        authentication_data_source:
          - header: Authorization
            scheme: Bearer
        subject:
          id: sub
        cache_ttl: 0s
  authorizers:
    - id: authz
      type: remote
      config:
        endpoint:
          url: BASE/authz
        payload: "{}"
        expressions:
          - expression: "Payload.allowed == true"
        forward_response_headers_to_upstream: [X-Out]
        cache_ttl: 0s
  contextualizers:
    - id: ctx
      type: generic
      config:
        endpoint:
          url: BASE/ctx
        cache_ttl: 0s
  finalizers:
    - id: noop
      type: noop
`

func c19LatinBytes(s string) []byte {
	raw := make([]byte, 0, len(s))
	for _, r := range s {
		raw = append(raw, byte(r))
	}

	return raw
}

func c19SetupRemote() {
	env := &c19Remote
	env.script = &c19Script{status: http.StatusOK}
	ln, err := c19Listen()
	if err != nil {
		env.err = err

		return
	}

	env.srv = &httptest.Server{Listener: ln, Config: &http.Server{Handler: env.script}} //nolint:gosec
	env.srv.Start()

	file, err := os.CreateTemp("", "verif-c19-remote-*.yaml")
	if err != nil {
		env.err = err

		return
	}

	path := file.Name()

	defer os.Remove(path)

	_, err = file.WriteString(strings.ReplaceAll(c19RemoteCatalogue, "BASE", env.srv.URL))
	if cerr := file.Close(); err == nil {
		err = cerr
	}

	if err != nil {
		env.err = err

		return
	}

	conf, err := config.NewConfiguration("VERIFC19NOENV", config.ConfigurationPath(path))
	if err != nil {
		env.err = err

		return
	}

	env.mf, env.err = mechanisms.NewMechanismFactory(conf, zerolog.Nop(), &watcher.NoopWatcher{}, nil, nil)
}

// c19RemoteOp: {"mech", "token"?, "status", "ctype", "body"} ; "material": true asks for the valid token and key set
func c19RemoteOp(c map[string]any) (any, error) {
	if getBool(c, "material") {
		return c19TokenMaterial(getStr(c, "key_pem"))
	}

	c19RemoteOnce.Do(c19SetupRemote)

	env := &c19Remote
	if env.err != nil {
		return nil, errors.New("loaders: remote environment: " + env.err.Error())
	}

	body := getStr(c, "body")
	token := getStr(c, "token")

	env.script.mu.Lock()
	env.script.status, env.script.ctype, env.script.body = getInt(c, "status"), getStr(c, "ctype"), c19LatinBytes(body)
	env.script.mu.Unlock()

	req := httptest.NewRequest(http.MethodGet, "http://heimdall.test/some/path?x=1", nil)
	req.Header.Set("Authorization", "Bearer "+token)

	ctx := requestcontext.New(req)
	sub := &subject.Subject{ID: "alice", Attributes: map[string]any{"a": "b"}}
	mech := getStr(c, "mech")

	var id string

	cls, detail := c19Guard(func() error {
		switch mech {
		case "jwt", "intro", "idinfo":
			a, err := env.mf.CreateAuthenticator("1alpha4", mech, nil)
			if err != nil {
				return fmt.Errorf("harness: %w", err)
			}

			s, err := a.Execute(ctx)
			if err == nil && s != nil {
				id = s.ID
			}

			return err
		case "authz":
			a, err := env.mf.CreateAuthorizer("1alpha4", mech, nil)
			if err != nil {
				return fmt.Errorf("harness: %w", err)
			}

			return a.Execute(ctx, sub)
		case "ctx":
			a, err := env.mf.CreateContextualizer("1alpha4", mech, nil)
			if err != nil {
				return fmt.Errorf("harness: %w", err)
			}

			return a.Execute(ctx, sub)
		}

		return errors.New("harness: unknown mechanism " + mech)
	})

	if strings.HasPrefix(detail, "harness:") {
		return nil, errors.New(detail)
	}

	res := map[string]any{"cls": cls}
	if cls == "ok" && id != "" {
		res["sub"] = id
	}

	if cls == "panic" {
		res["detail"] = detail
	}

	return res, nil
}

// ---------------------------------------------------------------------------------------------------------
// raw requests

const c19RawRules = `
version: "1alpha4"
name: raw
rules:
- id: anon
  match:
    routes:
    - path: /anon
    - path: /anon/**
  execute:
  - authenticator: anon
  - finalizer: noop
- id: body
  match:
    routes:
    - path: /body
    methods: [GET, POST, PUT]
  execute:
  - authenticator: anon
  - authorizer: cel
    config:
      expressions:
      - expression: "Request.Body() != null || true"
  - finalizer: hdr
    config:
      headers:
        X-Body: "{{ toJson .Request.Body }}"
        X-In: '{{ .Request.Header "X-In" }}'
        X-Query: "{{ .Request.URL.RawQuery }}"
        X-Cookie: '{{ .Request.Cookie "c" }}'
`

type c19RawEnv struct {
	err  error
	addr string
}

var (
	c19RawOnce sync.Once
	c19Raw     c19RawEnv
)

func c19SetupRaw() {
	c19EnvOnce.Do(c19SetupRulesEnv)

	if c19Env.err != nil {
		c19Raw.err = c19Env.err

		return
	}

	ruleSet, err := rulecfg.ParseRules("application/yaml", strings.NewReader(c19RawRules), false)
	if err != nil {
		c19Raw.err = err

		return
	}

	ruleSet.Source = "raw"

	repo := rules.VerifC19NewRepository(c19Env.factory)
	if err = rules.NewRuleSetProcessor(repo, c19Env.factory).OnCreated(ruleSet); err != nil {
		c19Raw.err = err

		return
	}

	ln, err := c19Listen()
	if err != nil {
		c19Raw.err = err

		return
	}

	srv := decision.VerifC19NewService(c19Env.conf, &noop.Cache{}, zerolog.New(io.Discard),
		rules.VerifC19NewRuleExecutor(repo))

	go srv.Serve(ln) //nolint:errcheck

	c19Raw.addr = ln.Addr().String()
}

func c19SendRaw(addr string, raw []byte) string {
	var (
		conn net.Conn
		err  error
	)

	// dialing can fail for want of a free ephemeral port (see c19Listen)
	for attempt := 0; attempt < 150; attempt++ {
		if conn, err = net.DialTimeout("tcp", addr, c19WaitLimit); err == nil {
			break
		}

		time.Sleep(200 * time.Millisecond)
	}

	if err != nil {
		return "unreachable"
	}

	defer conn.Close()

	if tcp, ok := conn.(*net.TCPConn); ok {
		tcp.SetLinger(0) //nolint:errcheck // no TIME-WAIT on this side
	}

	conn.SetDeadline(time.Now().Add(c19WaitLimit)) //nolint:errcheck
	conn.Write(raw)                                //nolint:errcheck

	if tcp, ok := conn.(*net.TCPConn); ok {
		tcp.CloseWrite() //nolint:errcheck
	}

	line, err := bufio.NewReader(conn).ReadString('\n')
	if err != nil && line == "" {
		return "dropped"
	}

	fields := strings.Fields(line)
	if len(fields) >= 2 && strings.HasPrefix(fields[0], "HTTP/") {
		return fields[1]
	}

	return "garbled"
}

// c19RawOp: {"requests": [latin-1 texts]}
func c19RawOp(c map[string]any) (any, error) {
	c19RawOnce.Do(c19SetupRaw)

	if c19Raw.err != nil {
		return nil, errors.New("loaders: raw environment: " + c19Raw.err.Error())
	}

	replies := []string{}
	for _, r := range getStrs(c, "requests") {
		replies = append(replies, c19SendRaw(c19Raw.addr, c19LatinBytes(r)))
	}

	last := c19SendRaw(c19Raw.addr, []byte("GET /anon HTTP/1.1\r\nHost: heimdall.test\r\nConnection: close\r\n\r\n"))

	return map[string]any{"alive": last == "200", "probe": last, "replies": replies}, nil
}
