package main

// Family "loaders", operations "remote" and "raw" (property C19): inputs that arrive over the network.
//
//   remote  heimdall's real jwt, oauth2_introspection and generic authenticators, remote authorizer and generic
//           contextualizer are executed against a loopback server that answers with the status, content type and
//           body of the case (key sets, introspection / identity / authorization responses), with the token of the
//           case as credential
//   raw     the real decision service (real middleware chain, real rule executor, repository, rules using the
//           request body, headers and query) is sent the bytes of the case over TCP
//
// Both report how the call ended; "raw" ends with a well-formed request of the harness' own to see that the service
// still answers.

import (
	"bufio"
	"context"
	"crypto/ecdsa"
	"crypto/x509"
	"encoding/json"
	"encoding/pem"
	"errors"
	"fmt"
	"io"
	"net"
	"net/http"
	"net/http/httptest"
	"os"
	"strings"
	"sync"
	"syscall"
	"time"

	"github.com/go-jose/go-jose/v4"
	"github.com/go-jose/go-jose/v4/jwt"
	"github.com/rs/zerolog"

	"github.com/dadrus/heimdall/internal/cache/noop"
	"github.com/dadrus/heimdall/internal/config"
	"github.com/dadrus/heimdall/internal/handler/decision"
	"github.com/dadrus/heimdall/internal/handler/requestcontext"
	"github.com/dadrus/heimdall/internal/rules"
	rulecfg "github.com/dadrus/heimdall/internal/rules/config"
	"github.com/dadrus/heimdall/internal/rules/mechanisms"
	"github.com/dadrus/heimdall/internal/rules/mechanisms/subject"
	"github.com/dadrus/heimdall/internal/watcher"
)

// c19Reply is what the loopback server answers with. `damage` says what goes wrong below HTTP:
//
//	""               nothing: status, content type, body, Content-Length as net/http computes it
//	"cl-short"       Content-Length announces the whole body, `cut` bytes of it arrive, then the connection is closed
//	"chunked-short"  chunked transfer encoding, `cut` bytes arrive (in two chunks), the terminating chunk never does
//	"cl-long"        Content-Length announces `cut` bytes, the whole body is sent (the client sees the first `cut`)
//	"reset"          the whole response is sent, but the client's connection fails with ECONNRESET after the headers
//	                 and `cut` bytes of the body have been read (injected below net/http's transport, see c19FaultConn)
type c19Reply struct {
	status int
	ctype  string
	body   []byte
	damage string
	cut    int
}

type c19Script struct {
	mu    sync.Mutex
	dflt  c19Reply
	paths map[string]c19Reply
	addr  string
}

// set installs the answers of the next requests; dfltPath is the path the default answer is meant for (only needed
// for the damage "reset", which is injected on the client's side of the connection carrying that request)
func (s *c19Script) set(dflt c19Reply, dfltPath string, paths map[string]c19Reply) {
	s.mu.Lock()
	s.dflt, s.paths = dflt, paths
	s.mu.Unlock()

	c19Faults.Range(func(k, _ any) bool {
		c19Faults.Delete(k)

		return true
	})

	arm := func(path string, r c19Reply) {
		if r.damage == "reset" {
			cut := min(max(r.cut, 0), len(r.body))
			head := r.head(fmt.Sprintf("Content-Length: %d\r\n", len(r.body)))
			c19Faults.Store(s.addr+path, int64(len(head)+cut))
		}
	}

	arm(dfltPath, dflt)

	for path, r := range paths {
		arm(path, r)
	}
}

func (r c19Reply) head(extra string) string {
	ctype := ""
	if r.ctype != "" {
		ctype = "Content-Type: " + r.ctype + "\r\n"
	}

	return fmt.Sprintf("HTTP/1.1 %d %s\r\n%s%sConnection: close\r\n\r\n", r.status, http.StatusText(r.status), ctype, extra)
}

func (s *c19Script) ServeHTTP(rw http.ResponseWriter, req *http.Request) {
	io.Copy(io.Discard, req.Body) //nolint:errcheck

	s.mu.Lock()
	reply, ok := s.paths[req.URL.Path]
	if !ok {
		reply = s.dflt
	}
	s.mu.Unlock()

	cut := min(max(reply.cut, 0), len(reply.body))

	switch reply.damage {
	case "cl-short":
		head := reply.head(fmt.Sprintf("Content-Length: %d\r\n", len(reply.body)))
		c19RawReply(rw, append([]byte(head), reply.body[:cut]...), false)
	case "chunked-short":
		raw := []byte(reply.head("Transfer-Encoding: chunked\r\n"))

		for _, part := range [][]byte{reply.body[:cut/2], reply.body[cut/2 : cut]} {
			if len(part) != 0 {
				raw = append(raw, fmt.Sprintf("%x\r\n", len(part))...)
				raw = append(raw, part...)
				raw = append(raw, "\r\n"...)
			}
		}

		c19RawReply(rw, raw, false)
	case "cl-long":
		head := reply.head(fmt.Sprintf("Content-Length: %d\r\n", cut))
		c19RawReply(rw, append([]byte(head), reply.body...), false)
	case "reset":
		// the connection this request came over fails on the client's side (see c19Script.set)
		head := reply.head(fmt.Sprintf("Content-Length: %d\r\n", len(reply.body)))
		c19RawReply(rw, append([]byte(head), reply.body...), false)
	default:
		if reply.ctype != "" {
			rw.Header().Set("Content-Type", reply.ctype)
		}

		// the server closes the connection, so that the sockets left in TIME-WAIT do not occupy ephemeral ports
		rw.Header().Set("Connection", "close")

		rw.WriteHeader(reply.status)
		rw.Write(reply.body) //nolint:errcheck
	}
}

// c19Faults: "server address + request path" -> number of response bytes after which a connection carrying such a
// request is reset. http.DefaultTransport (which every endpoint of heimdall uses) dials through the function
// installed by c19InstallDialer.
var (
	c19Faults     sync.Map
	c19DialerOnce sync.Once
)

type c19FaultConn struct {
	net.Conn
	addr string

	mu     sync.Mutex
	key    string
	read   int64
	broken bool
}

func (c *c19FaultConn) Write(p []byte) (int, error) {
	c.mu.Lock()
	if c.key == "" {
		if fields := strings.Fields(string(p[:min(len(p), 512)])); len(fields) >= 2 {
			path, _, _ := strings.Cut(fields[1], "?")
			c.key = c.addr + path
		}
	}
	c.mu.Unlock()

	return c.Conn.Write(p)
}

// Read hands on what arrives until the number of bytes of the fault registered for the request of this connection
// has been reached; what arrives beyond is dropped and the connection fails the way a reset connection does
func (c *c19FaultConn) Read(p []byte) (int, error) {
	reset := &net.OpError{Op: "read", Net: "tcp", Addr: c.RemoteAddr(), Err: syscall.ECONNRESET}

	c.mu.Lock()
	broken := c.broken
	c.mu.Unlock()

	if broken {
		return 0, reset
	}

	n, err := c.Conn.Read(p)

	c.mu.Lock()
	defer c.mu.Unlock()

	if v, ok := c19Faults.Load(c.key); ok && c.key != "" {
		limit := v.(int64) //nolint:forcetypeassert
		if c.read+int64(n) >= limit {
			n = int(max(limit-c.read, 0))
			c.read += int64(n)
			c.broken = true

			if n == 0 {
				return 0, reset
			}

			return n, nil
		}
	}

	c.read += int64(n)

	return n, err
}

func c19InstallDialer() {
	c19DialerOnce.Do(func() {
		tr, ok := http.DefaultTransport.(*http.Transport)
		if !ok {
			return
		}

		base := tr.DialContext
		tr.DialContext = func(ctx context.Context, network, addr string) (net.Conn, error) {
			conn, err := base(ctx, network, addr)
			if err != nil {
				return nil, err
			}

			return &c19FaultConn{Conn: conn, addr: addr}, nil
		}
	})
}

type c19RemoteEnv struct {
	err    error
	script *c19Script
	srv    *httptest.Server
	mf     mechanisms.MechanismFactory
}

// c19TokenMaterial signs a token with the given key (PKCS#8 PEM) and renders the key set publishing it; the check
// derives malformed tokens and key sets from the two texts
func c19TokenMaterial(keyPEM string) (any, error) {
	block, _ := pem.Decode([]byte(keyPEM))
	if block == nil {
		return nil, errors.New("loaders: remote: no key")
	}

	parsed, err := x509.ParsePKCS8PrivateKey(block.Bytes)
	if err != nil {
		return nil, err
	}

	key, ok := parsed.(*ecdsa.PrivateKey)
	if !ok {
		return nil, errors.New("loaders: remote: not an ECDSA key")
	}

	jwks, err := json.Marshal(jose.JSONWebKeySet{Keys: []jose.JSONWebKey{
		{Key: key.Public(), KeyID: "k1", Algorithm: "ES256", Use: "sig"},
	}})
	if err != nil {
		return nil, err
	}

	signer, err := jose.NewSigner(jose.SigningKey{Algorithm: jose.ES256, Key: key},
		new(jose.SignerOptions).WithType("JWT").WithHeader("kid", "k1"))
	if err != nil {
		return nil, err
	}

	now := time.Now()

	token, err := jwt.Signed(signer).Claims(map[string]any{
		"iss": "verif", "sub": "alice", "exp": now.Add(24 * time.Hour).Unix(), "iat": now.Unix(),
		"nbf": now.Add(-time.Minute).Unix(), "scope": "a b", "aud": []string{"x"},
	}).Serialize()
	if err != nil {
		return nil, err
	}

	return map[string]any{"token": token, "jwks": string(jwks)}, nil
}

var (
	c19RemoteOnce sync.Once
	c19Remote     c19RemoteEnv
)

const c19RemoteCatalogue = `
mechanisms:
  authenticators:
    - id: jwt
      type: jwt
      config:
        jwks_endpoint:
          url: BASE/jwks
        assertions:
          issuers: [verif]
        cache_ttl: 0s
    - id: intro
      type: oauth2_introspection
      config:
        introspection_endpoint:
          url: BASE/introspect
        assertions:
          issuers: [verif]
        cache_ttl: 0s
    - id: jwtmeta
      type: jwt
      config:
        metadata_endpoint:
          url: BASE/meta
          disable_issuer_identifier_verification: true
          http_cache:
            enabled: false
        assertions:
          issuers: [verif]
        cache_ttl: 0s
    - id: intrometa
      type: oauth2_introspection
      config:
        metadata_endpoint:
          url: BASE/meta
          disable_issuer_identifier_verification: true
          http_cache:
            enabled: false
        assertions:
          issuers: [verif]
        cache_ttl: 0s
    - id: idinfo
      type: generic
      config:
        identity_info_endpoint:
          url: BASE/idinfo
        authentication_data_source:
          - header: Authorization
            scheme: Bearer
        subject:
          id: sub
        cache_ttl: 0s
  authorizers:
    - id: authz
      type: remote
      config:
        endpoint:
          url: BASE/authz
        payload: "{}"
        expressions:
          - expression: "Payload.allowed == true"
        forward_response_headers_to_upstream: [X-Out]
        cache_ttl: 0s
  contextualizers:
    - id: ctx
      type: generic
      config:
        endpoint:
          url: BASE/ctx
        cache_ttl: 0s
  finalizers:
    - id: noop
      type: noop
    - id: cc
      type: oauth2_client_credentials
      config:
        token_url: BASE/token
        client_id: verif
        client_secret: secret
        cache_ttl: 0s
`

func c19LatinBytes(s string) []byte {
	raw := make([]byte, 0, len(s))
	for _, r := range s {
		raw = append(raw, byte(r))
	}

	return raw
}

func c19SetupRemote() {
	env := &c19Remote
	env.script = &c19Script{dflt: c19Reply{status: http.StatusOK}}
	ln, err := c19Listen()
	if err != nil {
		env.err = err

		return
	}

	env.script.addr = ln.Addr().String()

	c19InstallDialer()

	env.srv = &httptest.Server{Listener: ln, Config: &http.Server{Handler: env.script}} //nolint:gosec
	env.srv.Start()

	file, err := os.CreateTemp("", "verif-c19-remote-*.yaml")
	if err != nil {
		env.err = err

		return
	}

	path := file.Name()

	defer os.Remove(path)

	_, err = file.WriteString(strings.ReplaceAll(c19RemoteCatalogue, "BASE", env.srv.URL))
	if cerr := file.Close(); err == nil {
		err = cerr
	}

	if err != nil {
		env.err = err

		return
	}

	conf, err := config.NewConfiguration("VERIFC19NOENV", config.ConfigurationPath(path))
	if err != nil {
		env.err = err

		return
	}

	env.mf, env.err = mechanisms.NewMechanismFactory(conf, zerolog.Nop(), &watcher.NoopWatcher{}, nil, nil)
}

// c19MechPath: the path of the document a mechanism fetches (for the two-stage mechanisms: the second one)
var c19MechPath = map[string]string{
	"jwt": "/jwks", "intro": "/introspect", "idinfo": "/idinfo", "authz": "/authz", "ctx": "/ctx",
	"jwtmeta": "/jwks", "intrometa": "/introspect", "cc": "/token",
}

func c19ReplyOf(c map[string]any, base string) c19Reply {
	status := getInt(c, "status")
	if status == 0 {
		status = http.StatusOK
	}

	return c19Reply{
		status: status, ctype: getStr(c, "ctype"),
		body:   c19LatinBytes(strings.ReplaceAll(getStr(c, "body"), "$BASE", base)),
		damage: getStr(c, "damage"), cut: getInt(c, "cut"),
	}
}

// c19RemoteOp: {"mech", "token"?, "status", "ctype", "body", "damage"?, "cut"?, "path"?, "paths"?: {path: reply},
// "cuts"?: [from, to, step]}; "material": true asks for the valid token and key set.
// The answer of the case is served under "path" (default: the path of the document the mechanism fetches), "paths"
// are the other documents of a fetch in two stages (metadata document, then key set / introspection); "$BASE" in a
// body stands for the address of the loopback server. With "cuts" the case is run once per value of "cut" in the
// range (to = -1: up to the length of the body) and answers with the list of outcomes.
func c19RemoteOp(c map[string]any) (any, error) {
	if getBool(c, "material") {
		return c19TokenMaterial(getStr(c, "key_pem"))
	}

	c19RemoteOnce.Do(c19SetupRemote)

	env := &c19Remote
	if env.err != nil {
		return nil, errors.New("loaders: remote environment: " + env.err.Error())
	}

	mech := getStr(c, "mech")
	reply := c19ReplyOf(c, env.srv.URL)
	path := getStr(c, "path")

	if path == "" {
		path = c19MechPath[mech]
	}

	paths := map[string]c19Reply{}
	for p, r := range obj(c["paths"]) {
		paths[p] = c19ReplyOf(obj(r), env.srv.URL)
	}

	if cuts := getInts(c, "cuts"); len(cuts) == 3 {
		if cuts[1] < 0 {
			cuts[1] = len(reply.body) + 1
		}

		all := []string{}

		for cut := cuts[0]; cut < cuts[1]; cut += max(cuts[2], 1) {
			reply.cut = cut
			paths[path] = reply
			env.script.set(c19Reply{status: http.StatusNotFound}, "", paths)

			res, err := c19RemoteOnce1(env, mech, getStr(c, "token"))
			if err != nil {
				return nil, err
			}

			cls, _ := res["cls"].(string)
			if cls == "panic" {
				cls = fmt.Sprintf("panic: %v", res["detail"])
			}

			all = append(all, cls)
		}

		return map[string]any{"cls": all, "len": len(reply.body)}, nil
	}

	if len(paths) == 0 {
		env.script.set(reply, path, nil)
	} else {
		paths[path] = reply
		env.script.set(c19Reply{status: http.StatusNotFound}, "", paths)
	}

	res, err := c19RemoteOnce1(env, mech, getStr(c, "token"))
	if err != nil {
		return nil, err
	}

	return res, nil
}

// c19RemoteOnce1 executes the mechanism once against what the loopback server has been told to answer
func c19RemoteOnce1(env *c19RemoteEnv, mech, token string) (map[string]any, error) {
	req := httptest.NewRequest(http.MethodGet, "http://heimdall.test/some/path?x=1", nil)
	req.Header.Set("Authorization", "Bearer "+token)

	ctx := requestcontext.New(req)
	sub := &subject.Subject{ID: "alice", Attributes: map[string]any{"a": "b"}}

	var id string

	cls, detail := c19Guard(func() error {
		switch mech {
		case "jwt", "intro", "idinfo", "jwtmeta", "intrometa":
			a, err := env.mf.CreateAuthenticator("1alpha4", mech, nil)
			if err != nil {
				return fmt.Errorf("harness: %w", err)
			}

			s, err := a.Execute(ctx)
			if err == nil && s != nil {
				id = s.ID
			}

			return err
		case "authz":
			a, err := env.mf.CreateAuthorizer("1alpha4", mech, nil)
			if err != nil {
				return fmt.Errorf("harness: %w", err)
			}

			return a.Execute(ctx, sub)
		case "ctx":
			a, err := env.mf.CreateContextualizer("1alpha4", mech, nil)
			if err != nil {
				return fmt.Errorf("harness: %w", err)
			}

			return a.Execute(ctx, sub)
		case "cc":
			a, err := env.mf.CreateFinalizer("1alpha4", mech, nil)
			if err != nil {
				return fmt.Errorf("harness: %w", err)
			}

			return a.Execute(ctx, sub)
		}

		return errors.New("harness: unknown mechanism " + mech)
	})

	if strings.HasPrefix(detail, "harness:") {
		return nil, errors.New(detail)
	}

	res := map[string]any{"cls": cls}
	if cls == "ok" && id != "" {
		res["sub"] = id
	}

	if cls == "panic" {
		res["detail"] = detail
	}

	return res, nil
}

// ---------------------------------------------------------------------------------------------------------
// raw requests

const c19RawRules = `
version: "1alpha4"
name: raw
rules:
- id: anon
  match:
    routes:
    - path: /anon
    - path: /anon/**
  execute:
  - authenticator: anon
  - finalizer: noop
- id: body
  match:
    routes:
    - path: /body
    methods: [GET, POST, PUT]
  execute:
  - authenticator: anon
  - authorizer: cel
    config:
      expressions:
      - expression: "Request.Body() != null || true"
  - finalizer: hdr
    config:
      headers:
        X-Body: "{{ toJson .Request.Body }}"
        X-In: '{{ .Request.Header "X-In" }}'
        X-Query: "{{ .Request.URL.RawQuery }}"
        X-Cookie: '{{ .Request.Cookie "c" }}'
`

type c19RawEnv struct {
	err  error
	addr string
}

var (
	c19RawOnce sync.Once
	c19Raw     c19RawEnv
)

func c19SetupRaw() {
	c19EnvOnce.Do(c19SetupRulesEnv)

	if c19Env.err != nil {
		c19Raw.err = c19Env.err

		return
	}

	ruleSet, err := rulecfg.ParseRules("application/yaml", strings.NewReader(c19RawRules), false)
	if err != nil {
		c19Raw.err = err

		return
	}

	ruleSet.Source = "raw"

	repo := rules.VerifC19NewRepository(c19Env.factory)
	if err = rules.NewRuleSetProcessor(repo, c19Env.factory).OnCreated(ruleSet); err != nil {
		c19Raw.err = err

		return
	}

	ln, err := c19Listen()
	if err != nil {
		c19Raw.err = err

		return
	}

	srv := decision.VerifC19NewService(c19Env.conf, &noop.Cache{}, zerolog.New(io.Discard),
		rules.VerifC19NewRuleExecutor(repo))

	go srv.Serve(ln) //nolint:errcheck

	c19Raw.addr = ln.Addr().String()
}

func c19SendRaw(addr string, raw []byte) string {
	var (
		conn net.Conn
		err  error
	)

	// dialing can fail for want of a free ephemeral port (see c19Listen)
	for attempt := 0; attempt < 150; attempt++ {
		if conn, err = net.DialTimeout("tcp", addr, c19WaitLimit); err == nil {
			break
		}

		time.Sleep(200 * time.Millisecond)
	}

	if err != nil {
		return "unreachable"
	}

	defer conn.Close()

	if tcp, ok := conn.(*net.TCPConn); ok {
		tcp.SetLinger(0) //nolint:errcheck // no TIME-WAIT on this side
	}

	conn.SetDeadline(time.Now().Add(c19WaitLimit)) //nolint:errcheck
	conn.Write(raw)                                //nolint:errcheck

	if tcp, ok := conn.(*net.TCPConn); ok {
		tcp.CloseWrite() //nolint:errcheck
	}

	line, err := bufio.NewReader(conn).ReadString('\n')
	if err != nil && line == "" {
		return "dropped"
	}

	fields := strings.Fields(line)
	if len(fields) >= 2 && strings.HasPrefix(fields[0], "HTTP/") {
		return fields[1]
	}

	return "garbled"
}

// c19RawOp: {"requests": [latin-1 texts]}
func c19RawOp(c map[string]any) (any, error) {
	c19RawOnce.Do(c19SetupRaw)

	if c19Raw.err != nil {
		return nil, errors.New("loaders: raw environment: " + c19Raw.err.Error())
	}

	replies := []string{}
	for _, r := range getStrs(c, "requests") {
		replies = append(replies, c19SendRaw(c19Raw.addr, c19LatinBytes(r)))
	}

	last := c19SendRaw(c19Raw.addr, []byte("GET /anon HTTP/1.1\r\nHost: heimdall.test\r\nConnection: close\r\n\r\n"))

	return map[string]any{"alive": last == "200", "probe": last, "replies": replies}, nil
}
