package main

import (
	"bufio"
	"context"
	"errors"
	"io"
	"net"
	"net/http"
	"net/http/httptest"
	"strings"

	"github.com/dadrus/heimdall/internal/handler/proxy"
	"github.com/dadrus/heimdall/internal/rules/rule"
)

// Part of family "repo" (cases carrying `"proxy": true`, property C08): the lookup is made a further time through the
// request context of the PROXY service (its own context factory), and the backend the rule returns is handed to its
// Finalize: the real httputil.ReverseProxy with the real rewriteRequest hook writes the request to the upstream
// connection.  The connection is an in-memory pipe; the other end records the request line exactly as written and
// answers 204.  Reported under "sent": the request target of that line (what stands between the method and the
// protocol version), i.e. the path and query the upstream service receives.  Nothing is reported when nothing was
// written (no rule, precondition error, no backend, a scheme net/http's transport does not speak).

var errNotProxyContext = errors.New("the request context of the proxy service is not of the expected type")

// recordingTransport: a transport of net/http whose connections (plain and "TLS" alike: DialTLSContext hands out a
// connection that counts as established) end in a goroutine recording the first line it reads
func recordingTransport(lines chan<- string) *http.Transport {
	dial := func(context.Context, string, string) (net.Conn, error) {
		client, server := net.Pipe()

		go func() {
			defer server.Close()

			br := bufio.NewReader(server)

			line, err := br.ReadString('\n')
			if err != nil {
				return
			}

			for {
				l, err := br.ReadString('\n')
				if err != nil || l == "\r\n" || l == "\n" {
					break
				}
			}

			select {
			case lines <- strings.TrimRight(line, "\r\n"):
			default:
			}

			_, _ = io.WriteString(server, "HTTP/1.1 204 No Content\r\nConnection: close\r\n\r\n")
		}()

		return client, nil
	}

	return &http.Transport{DialContext: dial, DialTLSContext: dial, DisableKeepAlives: true}
}

// targetOf: the request target of a request line `METHOD SP target SP HTTP/x.y`
func targetOf(line string) string {
	first := strings.IndexByte(line, ' ')
	last := strings.LastIndexByte(line, ' ')

	if first < 0 || last <= first {
		return line
	}

	return line[first+1 : last]
}

// proxySent: (request target written to the upstream, something was written)
func proxySent(repo rule.Repository, op map[string]any) (string, bool, error) {
	req, err := newHTTPRequest(getStr(op, "method"), getStr(op, "target"), getStr(op, "host"), getStr(op, "scheme"))
	if err != nil {
		return "", false, nil //nolint:nilerr
	}

	lines := make(chan string, 1)

	ctx := proxy.VerifC08NewContext(httptest.NewRecorder(), req, recordingTransport(lines))
	if ctx == nil {
		return "", false, errNotProxyContext
	}

	rul, err := repo.FindRule(ctx)
	if err != nil {
		return "", false, nil //nolint:nilerr
	}

	be, err := rul.Execute(ctx)
	if err != nil || be == nil {
		return "", false, nil //nolint:nilerr
	}

	_ = ctx.Finalize(be)

	select {
	case line := <-lines:
		return targetOf(line), true, nil
	default:
		return "", false, nil
	}
}
