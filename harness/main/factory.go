package main

// Family "factory" (property C14): loads a default rule and a history of rule sets through heimdall's real loading
// path, all rule sets of a case by ONE rule factory, and reports per rule the load verdict and, for an accepted
// rule, what is executed for a handful of probe requests.
//
//   config file (YAML, real schema validation)  -> config.NewConfiguration            (shared by cases)
//   mechanism catalogue (real mechanisms)       -> mechanisms.NewMechanismFactory     (shared by cases)
//   default rule                                -> rules.NewRuleFactory               (one per case)
//   rule set document, YAML or JSON text        -> rules/config.ParseRules
//   or kubernetes RuleSet resource (JSON)       -> encoding/json + the provider's toRuleSetConfiguration
//   rule set                                    -> rules.NewRuleSetProcessor(repository, factory).OnCreated
//   probe requests                              -> repository.FindRule + rule.Execute on requestcontext.New(req)
//
// Lists (`execute`, `on_error`) reach the documents exactly as spelled in the case: key absent, null, [] or steps.
// Every mechanism of the catalogue leaves a visible mark when it runs: generic authenticators, remote authorizers
// and generic contextualizers call a loopback server that records the call; header finalizers append to one
// upstream header; error handlers redirect to a location naming them. Ids may be shared between kinds. The cel
// authorizers call nobody; they show WHICH catalogue entry they are through the error they raise: their prototype
// expression (and some of the expressions rule level overrides give them) is false for the one probe that sends
// `X-Deny: 1`, and every probe reports the source of its error - what `Error.Source` is for the `if` of an `on_error`
// step (cellib.WrapError) - next to the error kind.
//
// Operation "cel" (facCel): static result type and compile verdict of CEL expressions in heimdall's environment.

import (
	"encoding/json"
	"errors"
	"fmt"
	"io"
	"net/http"
	"net/http/httptest"
	"os"
	"sort"
	"strings"
	"sync"

	"github.com/google/cel-go/cel"
	"github.com/rs/zerolog"
	"gopkg.in/yaml.v3"

	"github.com/dadrus/heimdall/internal/config"
	"github.com/dadrus/heimdall/internal/handler/requestcontext"
	"github.com/dadrus/heimdall/internal/heimdall"
	"github.com/dadrus/heimdall/internal/rules"
	rulecfg "github.com/dadrus/heimdall/internal/rules/config"
	"github.com/dadrus/heimdall/internal/rules/mechanisms"
	"github.com/dadrus/heimdall/internal/rules/mechanisms/cellib"
	"github.com/dadrus/heimdall/internal/rules/provider/kubernetes"
	"github.com/dadrus/heimdall/internal/rules/provider/kubernetes/api/v1alpha4"
	"github.com/dadrus/heimdall/internal/rules/rule"
	"github.com/dadrus/heimdall/internal/watcher"
)

func init() { families["factory"] = runFactory }

// ---------------------------------------------------------------------------------------------------------
// loopback facRecorder

type facRecorder struct {
	mu      sync.Mutex
	calls   []string
	authnOK bool
}

var (
	facOnce sync.Once
	facSrv  *httptest.Server
	facRec  = &facRecorder{}
)

func (r *facRecorder) ServeHTTP(rw http.ResponseWriter, req *http.Request) {
	body, _ := io.ReadAll(req.Body)

	r.mu.Lock()
	defer r.mu.Unlock()

	parts := strings.Split(strings.Trim(req.URL.Path, "/"), "/")
	if len(parts) != 2 {
		rw.WriteHeader(http.StatusNotFound)

		return
	}

	entry := parts[0] + ":" + parts[1]
	if len(body) != 0 {
		entry += ":" + string(body)
	}

	r.calls = append(r.calls, entry)

	switch parts[0] {
	case "authn":
		if !r.authnOK {
			rw.WriteHeader(http.StatusUnauthorized)

			return
		}

		rw.Header().Set("Content-Type", "application/json")
		fmt.Fprintf(rw, `{"sub":"%s"}`, parts[1])
	default:
		rw.WriteHeader(http.StatusOK)
	}
}

func (r *facRecorder) reset(authnOK bool) {
	r.mu.Lock()
	defer r.mu.Unlock()

	r.calls = nil
	r.authnOK = authnOK
}

func (r *facRecorder) taken() []string {
	r.mu.Lock()
	defer r.mu.Unlock()

	res := append([]string{}, r.calls...)

	return res
}

func facSetup() { facSrv = httptest.NewServer(facRec) }

// ---------------------------------------------------------------------------------------------------------
// catalogue

// facMechanism builds the configuration entry of one catalogue mechanism from its declaration in the case
// ({"kind","id","type"}); every type is configured so that running the mechanism leaves a visible mark.
func facMechanism(base string, decl map[string]any) (string, map[string]any, error) {
	kind, id, typ := getStr(decl, "kind"), getStr(decl, "id"), getStr(decl, "type")

	switch kind + "/" + typ {
	case "authn/generic":
		return "authenticators", map[string]any{"id": id, "type": "generic", "config": map[string]any{
			"identity_info_endpoint":     map[string]any{"url": base + "/authn/" + id, "method": "GET"},
			"authentication_data_source": []any{map[string]any{"header": "X-Cred"}},
			"subject":                    map[string]any{"id": "sub"},
			"allow_fallback_on_error":    true,
		}}, nil
	case "authn/anonymous":
		return "authenticators", map[string]any{"id": id, "type": "anonymous",
			"config": map[string]any{"subject": "anon"}}, nil
	case "authz/remote":
		return "authorizers", map[string]any{"id": id, "type": "remote", "config": map[string]any{
			"endpoint": map[string]any{"url": base + "/authz/" + id, "method": "POST"},
			"payload":  "{{ .Subject.ID }}/{{ .Values.v }}",
			"values":   map[string]any{"v": "base"},
		}}, nil
	case "authz/cel":
		// calls nobody; refuses the probe that sends X-Deny: 1, the error names it as its source
		return "authorizers", map[string]any{"id": id, "type": "cel", "config": map[string]any{
			"expressions": []any{map[string]any{"expression": `Request.Header("X-Deny") != "1"`}},
		}}, nil
	case "ctx/generic":
		return "contextualizers", map[string]any{"id": id, "type": "generic", "config": map[string]any{
			"endpoint":  map[string]any{"url": base + "/ctx/" + id, "method": "POST"},
			"payload":   "{{ .Subject.ID }}/{{ .Values.v }}",
			"values":    map[string]any{"v": "base"},
			"cache_ttl": "0s",
		}}, nil
	case "fin/header":
		return "finalizers", map[string]any{"id": id, "type": "header", "config": map[string]any{
			"headers": map[string]any{"X-Fin": id + "/{{ .Subject.ID }}/base"},
		}}, nil
	case "eh/redirect":
		return "error_handlers", map[string]any{"id": id, "type": "redirect", "config": map[string]any{
			"to": "http://eh.test/" + id,
		}}, nil
	case "eh/default":
		return "error_handlers", map[string]any{"id": id, "type": "default"}, nil
	case "eh/www_authenticate":
		return "error_handlers", map[string]any{"id": id, "type": "www_authenticate", "config": map[string]any{
			"realm": "base",
		}}, nil
	}

	return "", nil, fmt.Errorf("catalogue: unsupported %s/%s", kind, typ)
}

func facCatalogue(base string, decls []any) (map[string]any, error) {
	res := map[string]any{}

	for _, d := range decls {
		section, entry, err := facMechanism(base, obj(d))
		if err != nil {
			return nil, err
		}

		list, _ := res[section].([]any)
		res[section] = append(list, entry)
	}

	return res, nil
}

// ---------------------------------------------------------------------------------------------------------
// case -> YAML

// facStep turns a step of the case into the map heimdall reads: the reference keys, the literal `if` and the
// literal `config` (the fields "cond" and "cfg" are the same information for the Lean side).
func facStep(s map[string]any) map[string]any {
	res := map[string]any{}

	for k, v := range obj(s["keys"]) {
		res[k] = v
	}

	if v, ok := s["if"]; ok {
		res["if"] = facPlain(v)
	}

	if v, ok := s["config"]; ok && v != nil {
		res["config"] = facPlain(v)
	}

	return res
}

// facPlain replaces json.Number by int so that YAML shows numbers as numbers
func facPlain(v any) any {
	switch t := v.(type) {
	case json.Number:
		i, _ := t.Int64()

		return int(i)
	case map[string]any:
		res := make(map[string]any, len(t))
		for k, e := range t {
			res[k] = facPlain(e)
		}

		return res
	case []any:
		res := make([]any, len(t))
		for i, e := range t {
			res[i] = facPlain(e)
		}

		return res
	}

	return v
}

func facSteps(m map[string]any, k string) []any {
	res := []any{}
	for _, s := range getArr(m, k) {
		res = append(res, facStep(obj(s)))
	}

	return res
}

// facEnv is what cases may share: the loaded configuration and the mechanism catalogue built from it. The rule
// factory is created anew for every case, so that whatever a factory remembers stays inside the case.
type facEnv struct {
	err  string
	conf *config.Configuration
	mf   mechanisms.MechanismFactory
}

var facEnvs = map[string]*facEnv{}

func facErrClass(err error) string {
	switch {
	case err == nil:
		return ""
	case errors.Is(err, mechanisms.ErrNoSuchPipelineObject):
		return "unknown_ref"
	case errors.Is(err, mechanisms.ErrAuthenticatorCreation), errors.Is(err, mechanisms.ErrAuthorizerCreation),
		errors.Is(err, mechanisms.ErrContextualizerCreation), errors.Is(err, mechanisms.ErrFinalizerCreation),
		errors.Is(err, mechanisms.ErrErrorHandlerCreation):
		return "bad_override"
	case errors.Is(err, heimdall.ErrConfiguration):
		return "configuration"
	case errors.Is(err, heimdall.ErrInternal):
		return "internal"
	default:
		return "other"
	}
}

func facErrKind(err error) string {
	var redir *heimdall.RedirectError

	switch {
	case err == nil:
		return ""
	case errors.As(err, &redir):
		return "redirect:" + redir.RedirectTo
	case errors.Is(err, heimdall.ErrAuthentication):
		return "authentication"
	case errors.Is(err, heimdall.ErrAuthorization):
		return "authorization"
	case errors.Is(err, heimdall.ErrCommunication):
		return "communication"
	case errors.Is(err, heimdall.ErrNoRuleFound):
		return "no_rule"
	case errors.Is(err, heimdall.ErrArgument):
		return "argument"
	case errors.Is(err, heimdall.ErrInternal):
		return "internal"
	case errors.Is(err, heimdall.ErrConfiguration):
		return "configuration"
	default:
		return "other"
	}
}

// facList copies one of the lists of a definition into the document heimdall reads, keeping its spelling: key
// absent, `null`, or a list (possibly empty).
func facList(from map[string]any, key string, to map[string]any) {
	v, ok := from[key]
	if !ok {
		return
	}

	if v == nil {
		to[key] = nil

		return
	}

	to[key] = facSteps(from, key)
}

func facGetEnv(c map[string]any) *facEnv {
	def := c["default"]

	keyRaw, _ := json.Marshal(map[string]any{"default": def, "cat": c["cat"]})
	key := string(keyRaw)

	if env, ok := facEnvs[key]; ok {
		return env
	}

	if len(facEnvs) > 4000 {
		facEnvs = map[string]*facEnv{}
	}

	env := &facEnv{}
	facEnvs[key] = env

	catalogue, err := facCatalogue(facSrv.URL, getArr(c, "cat"))
	if err != nil {
		env.err = "harness:" + err.Error()

		return env
	}

	doc := map[string]any{"mechanisms": catalogue}

	if d := obj(def); d != nil {
		dr := map[string]any{}
		if v, ok := d["bt"]; ok && v != nil {
			dr["backtracking_enabled"] = v
		}

		facList(d, "execute", dr)
		facList(d, "on_error", dr)

		doc["default_rule"] = dr
	}

	raw, err := yaml.Marshal(doc)
	if err != nil {
		env.err = "harness:" + err.Error()

		return env
	}

	// the configuration loader wants a file; it lives in $TMPDIR (the check points that to its run directory)
	// for the duration of the call only
	file, err := os.CreateTemp("", "verif-c14-*.yaml")
	if err != nil {
		env.err = "harness:" + err.Error()

		return env
	}

	path := file.Name()

	defer os.Remove(path)

	_, err = file.Write(raw)
	if cerr := file.Close(); err == nil {
		err = cerr
	}

	if err != nil {
		env.err = "harness:" + err.Error()

		return env
	}

	conf, err := config.NewConfiguration("VERIFC14NOENV", config.ConfigurationPath(path))
	if err != nil {
		env.err = "config:" + facErrClass(err)

		return env
	}

	mf, err := mechanisms.NewMechanismFactory(conf, zerolog.Nop(), &watcher.NoopWatcher{}, nil, nil)
	if err != nil {
		env.err = "harness:catalogue:" + err.Error()

		return env
	}

	env.conf, env.mf = conf, mf

	return env
}

// facRuleSet renders the k-th rule of the case, together with the companion rule, as the rule set document of
// the requested load path: the YAML or JSON text a file/endpoint/bucket provider reads, or the JSON of a
// kubernetes RuleSet resource.
func facRuleSet(r map[string]any, loadPath string, k int) ([]byte, error) {
	fwd := map[string]any{"host": "upstream.test:8080"}

	match := map[string]any{"routes": []any{map[string]any{"path": "/r/:x"}}, "methods": []any{"GET"}}
	if v, ok := r["bt"]; ok && v != nil {
		match["backtracking_enabled"] = v
	}

	main := map[string]any{"id": "main", "match": match}
	if getBool(r, "forward_to") {
		main["forward_to"] = fwd
	}

	facList(r, "execute", main)
	facList(r, "on_error", main)

	companion := map[string]any{
		"id":         "companion",
		"match":      map[string]any{"routes": []any{map[string]any{"path": "/r/**"}}},
		"forward_to": fwd,
		"execute":    []any{map[string]any{"authenticator": "anon"}},
	}

	name := fmt.Sprintf("c14-%d", k)

	switch loadPath {
	case "k8s":
		return json.Marshal(map[string]any{
			"apiVersion": "heimdall.dadrus.github.com/v1alpha4", "kind": "RuleSet",
			"metadata": map[string]any{"name": name, "namespace": "verif", "uid": name},
			"spec":     map[string]any{"authClassName": "verif", "rules": []any{main, companion}},
		})
	case "json":
		return json.Marshal(map[string]any{
			"version": rulecfg.CurrentRuleSetVersion, "name": name, "rules": []any{main, companion},
		})
	default:
		return yaml.Marshal(map[string]any{
			"version": rulecfg.CurrentRuleSetVersion, "name": name, "rules": []any{main, companion},
		})
	}
}

// facParse is the decoding step of the load path: rules/config.ParseRules (with its validation) for documents of
// the file based providers, the JSON decoding of the resource and the kubernetes provider's own conversion
// (no validation: that is the API server's and the admission controller's business) for "k8s".
func facParse(raw []byte, loadPath string, k int) (*rulecfg.RuleSet, error) {
	switch loadPath {
	case "k8s":
		var res v1alpha4.RuleSet
		if err := json.Unmarshal(raw, &res); err != nil {
			return nil, err
		}

		return kubernetes.VerifC14ToRuleSetConfiguration(&res), nil
	case "json":
		rs, err := rulecfg.ParseRules("application/json", strings.NewReader(string(raw)), false)
		if err == nil {
			rs.Source = fmt.Sprintf("c14-%d", k)
		}

		return rs, err
	default:
		rs, err := rulecfg.ParseRules("application/yaml", strings.NewReader(string(raw)), false)
		if err == nil {
			rs.Source = fmt.Sprintf("c14-%d", k)
		}

		return rs, err
	}
}

// facErrSource is what `Error.Source` is in the `if` of an `on_error` step for this error: the id of the mechanism
// that raised it (cellib.WrapError is the function behind that variable).
func facErrSource(err error) string {
	if err == nil {
		return ""
	}

	return cellib.WrapError(err).Source
}

func facProbe(repo rule.Repository, method, path string, authnOK, skip, deny bool) map[string]any {
	req := httptest.NewRequest(method, "http://heimdall.test"+path, nil)
	req.Header.Set("X-Cred", "t")

	if skip {
		req.Header.Set("X-Skip", "1")
	}

	if deny {
		req.Header.Set("X-Deny", "1")
	}

	ctx := requestcontext.New(req)

	facRec.reset(authnOK)

	res := map[string]any{}

	rul, err := repo.FindRule(ctx)
	if err != nil {
		res["rule"] = "none:" + facErrKind(err)

		return res
	}

	res["rule"] = rul.ID()

	be, err := rul.Execute(ctx)

	res["calls"] = facRec.taken()
	res["ret"] = facErrKind(err)
	res["perr"] = facErrKind(ctx.PipelineError())
	res["fin"] = append([]string{}, ctx.UpstreamHeaders().Values("X-Fin")...)
	res["hdr"] = facOtherHeaders(ctx.UpstreamHeaders())
	res["upstream"] = be != nil

	if err != nil {
		res["src"] = facErrSource(err)
	} else {
		res["src"] = facErrSource(ctx.PipelineError())
	}

	return res
}

// facOtherHeaders: what the pipeline has set for the upstream besides the finalizers' common header, as sorted
// "Name=value[,value]" entries (header finalizers with a rule level `headers` setting, the challenge of a
// www_authenticate error handler)
func facOtherHeaders(h http.Header) []string {
	res := []string{}

	for name, values := range h {
		if name != "X-Fin" {
			res = append(res, name+"="+strings.Join(values, ","))
		}
	}

	sort.Strings(res)

	return res
}

// facLoad loads one rule set through the given factory into a repository of its own and probes it.
func facLoad(rf rule.Factory, r map[string]any, loadPath string, k int) (map[string]any, error) {
	raw, err := facRuleSet(r, loadPath, k)
	if err != nil {
		return nil, err
	}

	ruleSet, err := facParse(raw, loadPath, k)
	if err != nil {
		return map[string]any{"load": "rejected", "class": "parse:" + facErrClass(err)}, nil //nolint:nilerr
	}

	repo := rules.VerifC14NewRepository(rf)
	proc := rules.NewRuleSetProcessor(repo, rf)

	if err = proc.OnCreated(ruleSet); err != nil {
		return map[string]any{"load": "rejected", "class": "create:" + facErrClass(err)}, nil //nolint:nilerr
	}

	return map[string]any{"load": "accepted", "probes": []any{
		facProbe(repo, "GET", "/r/a", false, false, false),
		facProbe(repo, "GET", "/r/a", false, true, false),
		facProbe(repo, "GET", "/r/a", true, false, false),
		facProbe(repo, "GET", "/r/a", true, true, false),
		facProbe(repo, "POST", "/r/a", true, false, false),
		facProbe(repo, "GET", "/other", true, false, false),
		facProbe(repo, "GET", "/r/a", true, false, true),
		facProbe(repo, "GET", "/r/a", true, true, true),
	}}, nil
}

// facCel is the op "cel" of the family: what heimdall's CEL environment (cellib.Library, the one execution
// conditions and the expressions of the cel / remote authorizers are compiled in) says about each expression of the
// case: the static result type its checker computes ("error" when the expression does not parse or does not check)
// and whether cellib.CompileExpression - the load time check - lets it through.
func facCel(c map[string]any) (any, error) {
	env, err := cel.NewEnv(cellib.Library())
	if err != nil {
		return nil, err
	}

	res := []any{}

	for _, e := range getArr(c, "exprs") {
		expr, _ := e.(string)
		typ := "error"

		if ast, iss := env.Compile(expr); iss == nil || iss.Err() == nil {
			typ = ast.OutputType().String()
		}

		_, cerr := cellib.CompileExpression(env, expr, "false")

		res = append(res, map[string]any{"type": typ, "accepted": cerr == nil})
	}

	return map[string]any{"cel": res}, nil
}

func runFactory(c map[string]any) (any, error) {
	if getStr(c, "op") == "cel" {
		return facCel(c)
	}

	facOnce.Do(facSetup)

	env := facGetEnv(c)
	if env.mf == nil {
		if strings.HasPrefix(env.err, "harness:") {
			return nil, errors.New(env.err)
		}

		return map[string]any{"factory": "rejected", "class": env.err}, nil
	}

	opMode := config.DecisionMode
	if getStr(c, "mode") == "proxy" {
		opMode = config.ProxyMode
	}

	// one real rule factory for the whole history of the case
	rf, err := rules.NewRuleFactory(env.mf, env.conf, opMode, zerolog.Nop())
	if err != nil {
		return map[string]any{"factory": "rejected", "class": "factory:" + facErrClass(err)}, nil //nolint:nilerr
	}

	loads := []any{}

	for k, r := range getArr(c, "rules") {
		res, err := facLoad(rf, obj(r), getStr(c, "path"), k)
		if err != nil {
			return nil, err
		}

		loads = append(loads, res)
	}

	return map[string]any{"factory": "ok", "loads": loads}, nil
}
