package main

import "github.com/dadrus/heimdall/internal/x/radixtree"

// @optional for rtree.go: white-box structural dump of the real tree for family rtree. It names unexported fields of the tree
// (through harness/inject/internal__x__radixtree/rtree.go); when those are renamed the family runs without it.
func init() {
	rtreeDump = func(tree *radixtree.Tree[*trieVal]) any {
		return radixtree.VerifRTreeDump(tree, func(v *trieVal) int { return v.id })
	}
}
