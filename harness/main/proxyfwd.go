package main

// Family "proxyfwd" (property C15): one raw HTTP/1.1 request is written byte by byte to the REAL proxy service
// (trusted-proxy middleware, request context, rule executor, reverse proxy) which listens on a loopback port handed
// out by the kernel.  The rule is loaded through the REAL rule-set parser, rule factory, repository and executor and
// carries the generated `forward_to` / `rewrite` / `allow_encoded_slashes` configuration; its pipeline consists of REAL
// `header` and `cookie` finalizers or of a scripted finalizer calling AddHeaderForUpstream / AddCookieForUpstream /
// Request.Body() directly.  The real finalizers are obtained from the REAL mechanism factory
// (mechanisms.NewMechanismFactory over a catalogue with one `header` and one `cookie` prototype); every pipeline step
// of the generated rule overrides the prototype's configuration (`config: {headers: {<name>: <template>}}`), so the
// templates travel through the real rule-set parser, the rule factory, `WithConfig` and the template decoder.  The
// templates read the attributes of the subject a scripted authenticator creates from the case (`pipe.subject`) and the
// request (`.Request.Header`), and render to the values the case lists in `pipe.headers` / `pipe.cookies` (among them
// empty and blank ones).  Headers with the same `pipe.fin` index are configured in ONE finalizer (a Go map: the case
// generator gives them distinct canonical names).  The upstream is a raw TCP (optionally TLS) listener that records
// exactly what arrives: request line, header lines, body.
//
// Byte strings travel as JSON strings with one code point (< 256) per byte.

import (
	"bufio"
	"bytes"
	"crypto/ecdsa"
	"crypto/elliptic"
	"crypto/rand"
	"crypto/tls"
	"crypto/x509"
	"crypto/x509/pkix"
	"encoding/json"
	"errors"
	"fmt"
	"io"
	"math/big"
	"net"
	"net/http"
	"net/http/httputil"
	"sort"
	"strconv"
	"strings"
	"sync"
	"sync/atomic"
	"time"

	"github.com/rs/zerolog"

	"github.com/dadrus/heimdall/internal/cache/noop"
	"github.com/dadrus/heimdall/internal/config"
	"github.com/dadrus/heimdall/internal/handler/proxy"
	"github.com/dadrus/heimdall/internal/heimdall"
	"github.com/dadrus/heimdall/internal/rules"
	rulesconfig "github.com/dadrus/heimdall/internal/rules/config"
	"github.com/dadrus/heimdall/internal/rules/mechanisms"
	"github.com/dadrus/heimdall/internal/rules/mechanisms/authenticators"
	"github.com/dadrus/heimdall/internal/rules/mechanisms/authorizers"
	"github.com/dadrus/heimdall/internal/rules/mechanisms/contextualizers"
	"github.com/dadrus/heimdall/internal/rules/mechanisms/errorhandlers"
	"github.com/dadrus/heimdall/internal/rules/mechanisms/finalizers"
	"github.com/dadrus/heimdall/internal/rules/mechanisms/subject"
	"github.com/dadrus/heimdall/internal/rules/rule"
)

func init() { families["proxyfwd"] = runProxyFwd }

// ---------------------------------------------------------------------------------------------------------------
// case format

type c15Rewrite struct {
	Scheme string   `json:"scheme"`
	Strip  string   `json:"strip"`
	Add    string   `json:"add"`
	StripQ []string `json:"strip_q"`
}

type c15Rule struct {
	Slashes string      `json:"slashes"` // off | on | no_decode
	Host    string      `json:"host"`    // ip | name : how forward_to.host addresses the upstream test server
	Rewrite *c15Rewrite `json:"rewrite"`
}

type c15Subject struct {
	ID    string         `json:"id"`
	Attrs map[string]any `json:"attrs"`
}

type c15Pipe struct {
	// what the pipeline is expected to produce: AddHeaderForUpstream / AddCookieForUpstream calls (name, value)
	Headers  [][]string `json:"headers"`
	Cookies  [][]string `json:"cookies"`
	ReadBody bool       `json:"read_body"`
	Scripted bool       `json:"scripted"`
	// real finalizers: template source per header / cookie (absent: the value itself is the template), the finalizer
	// a header is configured in (absent: one finalizer per header), the subject the templates are rendered over
	Tmpl    []string    `json:"tmpl"`
	CTmpl   []string    `json:"ctmpl"`
	Fin     []int       `json:"fin"`
	Subject *c15Subject `json:"subject"`
}

type c15Req struct {
	Method  string     `json:"method"`
	Target  string     `json:"target"`
	Host    string     `json:"host"`
	Headers [][]string `json:"headers"`
	Body    string     `json:"body"`
	Chunked bool       `json:"chunked"`
}

type c15Case struct {
	Trusted []string `json:"trusted"`
	TLS     bool     `json:"tls"` // the client talks TLS to the proxy service (second listener of the service)
	Peer    string   `json:"peer"`
	Rule    c15Rule  `json:"rule"`
	Pipe    c15Pipe  `json:"pipe"`
	Req     c15Req   `json:"req"`
}

func c15Bytes(s string) []byte {
	res := make([]byte, 0, len(s))
	for _, r := range s {
		res = append(res, byte(r))
	}

	return res
}

// c15Str renders observed bytes for the result line: printable ASCII (except the backslash) as is, every other
// byte as \xHH, so that the line never contains anything a line splitter could take for a separator.
func c15Str(b []byte) string {
	var sb strings.Builder

	for _, c := range b {
		if c >= 0x20 && c < 0x7f && c != '\\' {
			sb.WriteByte(c)
		} else {
			fmt.Fprintf(&sb, "\\x%02x", c)
		}
	}

	return sb.String()
}

// ---------------------------------------------------------------------------------------------------------------
// upstream: raw listener recording what arrives

type c15Seen struct {
	Dial    string
	TLS     bool
	Line    string
	Headers [][2]string
	Body    []byte
	Err     string
}

type c15UpstreamT struct {
	name string
	ln   net.Listener
	cert tls.Certificate
	pool *x509.CertPool
	mu   sync.Mutex
	seen []*c15Seen
}

func (u *c15UpstreamT) take() []*c15Seen {
	u.mu.Lock()
	defer u.mu.Unlock()

	res := u.seen
	u.seen = nil

	return res
}

func (u *c15UpstreamT) put(s *c15Seen) {
	u.mu.Lock()
	u.seen = append(u.seen, s)
	u.mu.Unlock()
}

type c15PeekConn struct {
	net.Conn
	r *bufio.Reader
}

func (c *c15PeekConn) Read(p []byte) (int, error) { return c.r.Read(p) }

func (u *c15UpstreamT) serve() {
	for {
		conn, err := u.ln.Accept()
		if err != nil {
			return
		}

		go u.handle(conn)
	}
}

func c15ReadLine(r *bufio.Reader) (string, error) {
	line, err := r.ReadString('\n')
	if err != nil {
		return "", err
	}

	line = strings.TrimSuffix(line, "\n")
	line = strings.TrimSuffix(line, "\r")

	return line, nil
}

func (u *c15UpstreamT) handle(conn net.Conn) {
	defer conn.Close()

	_ = conn.SetDeadline(time.Now().Add(20 * time.Second))

	seen := &c15Seen{Dial: u.name}
	br := bufio.NewReader(conn)

	first, err := br.Peek(1)
	if err != nil {
		return
	}

	var rw io.ReadWriter = &c15PeekConn{Conn: conn, r: br}

	if first[0] == 0x16 { // TLS handshake record
		seen.TLS = true

		tc := tls.Server(&c15PeekConn{Conn: conn, r: br}, &tls.Config{
			Certificates: []tls.Certificate{u.cert},
			NextProtos:   []string{"http/1.1"},
			MinVersion:   tls.VersionTLS12,
		})
		if err = tc.Handshake(); err != nil {
			seen.Err = "handshake"
			u.put(seen)

			return
		}

		rw = tc
		br = bufio.NewReader(tc)
	}

	// the record is stored before the response is written: the client must not be able to see the answer first
	answered := false

	defer func() {
		if !answered {
			u.put(seen)
		}
	}()

	if seen.Line, err = c15ReadLine(br); err != nil {
		seen.Err = "request line"

		return
	}

	var (
		clen           = -1
		chunked        bool
		expectContinue bool
	)

	for {
		line, err := c15ReadLine(br)
		if err != nil {
			seen.Err = "header"

			return
		}

		if line == "" {
			break
		}

		name, value, _ := strings.Cut(line, ":")
		value = strings.Trim(value, " \t")
		seen.Headers = append(seen.Headers, [2]string{name, value})

		switch strings.ToLower(name) {
		case "expect":
			if strings.EqualFold(value, "100-continue") {
				expectContinue = true
			}
		case "content-length":
			if clen, err = strconv.Atoi(value); err != nil {
				seen.Err = "content-length"

				return
			}
		case "transfer-encoding":
			chunked = strings.EqualFold(value, "chunked")
		}
	}

	if expectContinue {
		_, _ = io.WriteString(rw, "HTTP/1.1 100 Continue\r\n\r\n")
	}

	switch {
	case chunked:
		seen.Body, err = io.ReadAll(httputil.NewChunkedReader(br))
		if err == nil {
			for { // trailer section
				line, lerr := c15ReadLine(br)
				if lerr != nil || line == "" {
					break
				}
			}
		}
	case clen > 0:
		seen.Body = make([]byte, clen)
		_, err = io.ReadFull(br, seen.Body)
	}

	if err != nil {
		seen.Err = "body"

		return
	}

	resp := "HTTP/1.1 200 OK\r\nContent-Length: 2\r\nX-C15-Upstream: 1\r\nConnection: close\r\n\r\n"
	if !strings.HasPrefix(seen.Line, "HEAD ") {
		resp += "ok"
	}

	answered = true

	u.put(seen)

	_, _ = io.WriteString(rw, resp)
}

func c15NewUpstream(name string) (*c15UpstreamT, error) {
	key, err := ecdsa.GenerateKey(elliptic.P256(), rand.Reader)
	if err != nil {
		return nil, err
	}

	tmpl := &x509.Certificate{
		SerialNumber:          big.NewInt(15),
		Subject:               pkix.Name{CommonName: "c15 upstream"},
		NotBefore:             time.Now().Add(-time.Hour),
		NotAfter:              time.Now().Add(240 * time.Hour),
		KeyUsage:              x509.KeyUsageDigitalSignature | x509.KeyUsageCertSign,
		ExtKeyUsage:           []x509.ExtKeyUsage{x509.ExtKeyUsageServerAuth},
		BasicConstraintsValid: true,
		IsCA:                  true,
		IPAddresses:           []net.IP{net.ParseIP("127.0.0.1")},
		DNSNames:              []string{"localhost"},
	}

	der, err := x509.CreateCertificate(rand.Reader, tmpl, tmpl, &key.PublicKey, key)
	if err != nil {
		return nil, err
	}

	leaf, err := x509.ParseCertificate(der)
	if err != nil {
		return nil, err
	}

	pool := x509.NewCertPool()
	pool.AddCert(leaf)

	ln, err := verifListen("127.0.0.1:0")
	if err != nil {
		return nil, err
	}

	u := &c15UpstreamT{name: name, ln: ln, cert: tls.Certificate{Certificate: [][]byte{der}, PrivateKey: key}, pool: pool}

	go u.serve()

	return u, nil
}

// ---------------------------------------------------------------------------------------------------------------
// mechanisms: real header / cookie finalizers, scripted authenticator and scripted finalizer

type c15Authn struct{ pipe *c15Pipe }

func (a *c15Authn) ID() string                     { return "c15-anon" }
func (a *c15Authn) IsFallbackOnErrorAllowed() bool { return false }
func (a *c15Authn) WithConfig(map[string]any) (authenticators.Authenticator, error) {
	return a, nil
}

func (a *c15Authn) Execute(heimdall.Context) (*subject.Subject, error) {
	sub := &subject.Subject{ID: "c15", Attributes: map[string]any{}}

	if s := a.pipe.Subject; s != nil {
		sub.ID = s.ID

		for k, v := range s.Attrs {
			sub.Attributes[k] = v
		}
	}

	return sub, nil
}

type c15Fin struct {
	id   string
	pipe *c15Pipe
	all  bool
}

func (f *c15Fin) ID() string                                              { return f.id }
func (f *c15Fin) ContinueOnError() bool                                   { return false }
func (f *c15Fin) WithConfig(map[string]any) (finalizers.Finalizer, error) { return f, nil }

func (f *c15Fin) Execute(ctx heimdall.Context, _ *subject.Subject) error {
	if f.pipe.ReadBody {
		_ = ctx.Request().Body()
	}

	if f.all {
		for _, h := range f.pipe.Headers {
			ctx.AddHeaderForUpstream(h[0], h[1])
		}

		for _, c := range f.pipe.Cookies {
			ctx.AddCookieForUpstream(c[0], c[1])
		}
	}

	return nil
}

// c15Factory hands out the scripted authenticator and the scripted finalizers itself; `header` and `cookie`
// finalizers come from the real mechanism factory
type c15Factory struct {
	pipe *c15Pipe
	real mechanisms.MechanismFactory
}

const (
	c15HeaderProto = "c15-header"
	c15CookieProto = "c15-cookie"
)

func c15NewFactory(pipe *c15Pipe) (*c15Factory, error) {
	real, err := mechanisms.NewMechanismFactory(&config.Configuration{
		Prototypes: &config.MechanismPrototypes{
			Finalizers: []config.Mechanism{
				{ID: c15HeaderProto, Type: finalizers.FinalizerHeader, Config: config.MechanismConfig{
					"headers": map[string]any{"X-C15-Prototype": "{{ .Subject.ID }}"},
				}},
				{ID: c15CookieProto, Type: finalizers.FinalizerCookie, Config: config.MechanismConfig{
					"cookies": map[string]any{"c15-prototype": "{{ .Subject.ID }}"},
				}},
			},
		},
	}, zerolog.Nop(), nil, nil, nil)
	if err != nil {
		return nil, err
	}

	return &c15Factory{pipe: pipe, real: real}, nil
}

var errC15Unknown = errors.New("harness: unknown mechanism id") //nolint:gochecknoglobals

func (f *c15Factory) CreateAuthenticator(_, _ string, _ config.MechanismConfig) (authenticators.Authenticator, error) {
	return &c15Authn{pipe: f.pipe}, nil
}

func (f *c15Factory) CreateAuthorizer(_, id string, _ config.MechanismConfig) (authorizers.Authorizer, error) {
	return nil, fmt.Errorf("%w: %s", errC15Unknown, id)
}

func (f *c15Factory) CreateContextualizer(_, id string, _ config.MechanismConfig) (
	contextualizers.Contextualizer, error,
) {
	return nil, fmt.Errorf("%w: %s", errC15Unknown, id)
}

func (f *c15Factory) CreateErrorHandler(_, id string, _ config.MechanismConfig) (errorhandlers.ErrorHandler, error) {
	return nil, fmt.Errorf("%w: %s", errC15Unknown, id)
}

func (f *c15Factory) CreateFinalizer(version, id string, conf config.MechanismConfig) (finalizers.Finalizer, error) {
	switch id {
	case "body":
		return &c15Fin{id: id, pipe: f.pipe}, nil
	case "scripted":
		return &c15Fin{id: id, pipe: f.pipe, all: true}, nil
	case c15HeaderProto, c15CookieProto:
		return f.real.CreateFinalizer(version, id, conf)
	}

	return nil, fmt.Errorf("%w: %s", errC15Unknown, id)
}

// c15Template is the template source of the i-th header / cookie: listed explicitly, else the value as a constant
func c15Template(tmpl []string, i int, value string) string {
	if i < len(tmpl) {
		return tmpl[i]
	}

	return value
}

// c15FinalizerSteps: the pipeline steps producing pipe.Headers and pipe.Cookies with real finalizers.  Headers with
// the same pipe.Fin index (consecutive ones) share a finalizer.
func c15FinalizerSteps(p *c15Pipe) []any {
	var steps []any

	for i := 0; i < len(p.Headers); {
		hs := map[string]any{}
		j := i

		for ; j < len(p.Headers) && (j == i || (j < len(p.Fin) && i < len(p.Fin) && p.Fin[j] == p.Fin[i])); j++ {
			hs[p.Headers[j][0]] = c15Template(p.Tmpl, j, p.Headers[j][1])
		}

		steps = append(steps, map[string]any{"finalizer": c15HeaderProto, "config": map[string]any{"headers": hs}})
		i = j
	}

	for i, c := range p.Cookies {
		steps = append(steps, map[string]any{"finalizer": c15CookieProto,
			"config": map[string]any{"cookies": map[string]any{c[0]: c15Template(p.CTmpl, i, c[1])}}})
	}

	return steps
}

// ---------------------------------------------------------------------------------------------------------------
// the real proxy service, one per trusted-proxies configuration

type c15Switch struct{ cur atomic.Pointer[rule.Executor] }

var errC15NoExecutor = errors.New("harness: no executor installed") //nolint:gochecknoglobals

func (s *c15Switch) Execute(ctx heimdall.Context) (rule.Backend, error) {
	e := s.cur.Load()
	if e == nil {
		return nil, errC15NoExecutor
	}

	return (*e).Execute(ctx)
}

func (s *c15Switch) set(e rule.Executor) {
	if e == nil {
		s.cur.Store(nil)

		return
	}

	s.cur.Store(&e)
}

type c15Service struct {
	addr string
	sw   *c15Switch
}

var (
	c15Once     sync.Once                  //nolint:gochecknoglobals
	c15Up       *c15UpstreamT              //nolint:gochecknoglobals
	c15Decoy    *c15UpstreamT              //nolint:gochecknoglobals
	c15UpErr    error                      //nolint:gochecknoglobals
	c15Services = map[string]*c15Service{} //nolint:gochecknoglobals
)

// c15GetService starts the real proxy service for one trusted-proxies configuration, either on a plain or on a TLS
// listener (the certificate of the upstream test server is reused).
func c15GetService(trusted []string, withTLS bool) (*c15Service, error) {
	key := fmt.Sprintf("%v|%s", withTLS, strings.Join(trusted, "|"))
	if s, ok := c15Services[key]; ok {
		return s, nil
	}

	sc := config.ServiceConfig{Host: "127.0.0.1"}

	if trusted != nil {
		tp := append([]string{}, trusted...)
		sc.TrustedProxies = &tp
	}

	conf := &config.Configuration{Serve: config.ServeConfig{Proxy: sc}}

	ln, err := verifListen("127.0.0.1:0")
	if err != nil {
		return nil, err
	}

	svc := &c15Service{addr: ln.Addr().String(), sw: &c15Switch{}}
	srv := proxy.VerifC15NewService(conf, &noop.Cache{}, zerolog.Nop(), svc.sw,
		&tls.Config{RootCAs: c15Up.pool, MinVersion: tls.VersionTLS12})

	if withTLS {
		srv.TLSConfig = &tls.Config{
			Certificates: []tls.Certificate{c15Up.cert},
			NextProtos:   []string{"http/1.1"},
			MinVersion:   tls.VersionTLS12,
		}

		go func() { _ = srv.ServeTLS(ln, "", "") }()
	} else {
		go func() { _ = srv.Serve(ln) }()
	}

	c15Services[key] = svc

	return svc, nil
}

func c15UpstreamHost(kind string) string {
	_, port, _ := net.SplitHostPort(c15Up.ln.Addr().String())
	if kind == "name" {
		return "localhost:" + port
	}

	return "127.0.0.1:" + port
}

// c15Load builds factory -> repository -> executor and loads the generated rule through the real parser and
// rule-set processor.  A non-empty string is the stage that rejected the configuration.
func c15Load(c *c15Case) (rule.Executor, string, error) {
	mf, err := c15NewFactory(&c.Pipe)
	if err != nil {
		return nil, "", err
	}

	factory, err := rules.NewRuleFactory(mf, &config.Configuration{}, config.ProxyMode, zerolog.Nop())
	if err != nil {
		return nil, "", err
	}

	repo := rules.VerifC15NewRepository(factory)

	exec := []any{map[string]any{"authenticator": "anon"}}

	switch {
	case c.Pipe.Scripted:
		exec = append(exec, map[string]any{"finalizer": "scripted"})
	default:
		if c.Pipe.ReadBody {
			exec = append(exec, map[string]any{"finalizer": "body"})
		}

		exec = append(exec, c15FinalizerSteps(&c.Pipe)...)
	}

	fwd := map[string]any{"host": c15UpstreamHost(c.Rule.Host)}

	if rw := c.Rule.Rewrite; rw != nil {
		m := map[string]any{}
		if rw.Scheme != "" {
			m["scheme"] = rw.Scheme
		}

		if rw.Strip != "" {
			m["strip_path_prefix"] = rw.Strip
		}

		if rw.Add != "" {
			m["add_path_prefix"] = rw.Add
		}

		if len(rw.StripQ) != 0 {
			m["strip_query_parameters"] = rw.StripQ
		}

		fwd["rewrite"] = m
	}

	rl := map[string]any{
		"id":         "c15-rule",
		"match":      map[string]any{"routes": []any{map[string]any{"path": "/"}, map[string]any{"path": "/**"}}},
		"execute":    exec,
		"forward_to": fwd,
	}

	if c.Rule.Slashes != "" {
		rl["allow_encoded_slashes"] = c.Rule.Slashes
	}

	doc, err := json.Marshal(map[string]any{"version": rulesconfig.CurrentRuleSetVersion, "name": "c15",
		"rules": []any{rl}})
	if err != nil {
		return nil, "", err
	}

	rs, err := rulesconfig.ParseRules("application/json", bytes.NewReader(doc), false)
	if err != nil {
		return nil, "rule-set-rejected", nil //nolint:nilerr
	}

	rs.Source = "c15-src"

	if err = rules.NewRuleSetProcessor(repo, factory).OnCreated(rs); err != nil {
		if errors.Is(err, errC15Unknown) {
			return nil, "", err
		}

		return nil, "rule-rejected", nil
	}

	return rules.VerifC15NewRuleExecutor(repo), "", nil
}

// ---------------------------------------------------------------------------------------------------------------
// raw client

func c15Send(addr, peer string, withTLS bool, r *c15Req) (int, bool, error) {
	d := net.Dialer{Timeout: 10 * time.Second}

	if peer != "" {
		d.LocalAddr = &net.TCPAddr{IP: net.ParseIP(peer)}
	}

	var (
		tcp net.Conn
		err error
	)

	// the sandbox is shared: a momentary shortage of ephemeral ports is not a property of the code under test
	for attempt := 0; attempt < 20; attempt++ {
		if tcp, err = d.Dial("tcp", addr); err == nil {
			break
		}

		time.Sleep(250 * time.Millisecond)
	}

	if err != nil {
		return 0, false, err
	}

	defer verifCloseNow(tcp)

	_ = tcp.SetDeadline(time.Now().Add(15 * time.Second))

	var conn io.ReadWriter = tcp

	if withTLS {
		tc := tls.Client(tcp, &tls.Config{
			InsecureSkipVerify: true, //nolint:gosec
			NextProtos:         []string{"http/1.1"},
			MinVersion:         tls.VersionTLS12,
		})
		if err = tc.Handshake(); err != nil {
			return 0, false, err
		}

		conn = tc
	}

	var buf bytes.Buffer

	buf.Write(c15Bytes(r.Method))
	buf.WriteByte(' ')
	buf.Write(c15Bytes(r.Target))
	buf.WriteString(" HTTP/1.1\r\n")
	buf.WriteString("Host: ")
	buf.Write(c15Bytes(r.Host))
	buf.WriteString("\r\n")

	for _, h := range r.Headers {
		buf.Write(c15Bytes(h[0]))
		buf.WriteString(": ")
		buf.Write(c15Bytes(h[1]))
		buf.WriteString("\r\n")
	}

	body := c15Bytes(r.Body)

	switch {
	case r.Chunked:
		buf.WriteString("Transfer-Encoding: chunked\r\n\r\n")

		for len(body) > 0 {
			n := min(len(body), 7+len(body)/3)
			fmt.Fprintf(&buf, "%x\r\n", n)
			buf.Write(body[:n])
			buf.WriteString("\r\n")

			body = body[n:]
		}

		buf.WriteString("0\r\n\r\n")
	case len(body) > 0:
		fmt.Fprintf(&buf, "Content-Length: %d\r\n\r\n", len(body))
		buf.Write(body)
	default:
		buf.WriteString("\r\n")
	}

	// Go's HTTP server answers a request line it cannot parse (400) and closes without reading the body: writing a
	// large body then fails with a reset while the answer is already there.  The answer is what counts.
	_, werr := conn.Write(buf.Bytes())

	br := bufio.NewReader(conn)

	resp, err := http.ReadResponse(br, &http.Request{Method: r.Method})
	for err == nil && resp.StatusCode >= 100 && resp.StatusCode < 200 {
		// interim response (100 Continue): the final one follows
		resp, err = http.ReadResponse(br, &http.Request{Method: r.Method})
	}

	if err != nil {
		if werr != nil {
			return 0, false, werr
		}

		return -1, false, nil //nolint:nilerr
	}

	defer resp.Body.Close()

	_, _ = io.Copy(io.Discard, resp.Body)

	return resp.StatusCode, resp.Header.Get("X-C15-Upstream") == "1", nil
}

// ---------------------------------------------------------------------------------------------------------------

func c15DistinctCookies(p *c15Pipe) int {
	names := map[string]bool{}
	for _, c := range p.Cookies {
		names[c[0]] = true
	}

	return len(names)
}

// transport framing is the business of net/http, not of heimdall: the body is compared as bytes
func c15IsFraming(name string) bool {
	switch strings.ToLower(name) {
	case "content-length", "transfer-encoding":
		return true
	}

	return false
}

func c15Subst(v [][]string, from, to string) {
	for _, h := range v {
		if len(h) > 1 {
			h[1] = strings.ReplaceAll(h[1], from, to)
		}
	}
}

func runProxyFwd(raw map[string]any) (any, error) {
	data, err := json.Marshal(raw)
	if err != nil {
		return nil, err
	}

	var c c15Case
	if err = json.Unmarshal(data, &c); err != nil {
		return nil, err
	}

	c15Once.Do(func() {
		if c15Up, c15UpErr = c15NewUpstream("UP"); c15UpErr == nil {
			c15Decoy, c15UpErr = c15NewUpstream("DECOY")
		}
	})

	if c15UpErr != nil {
		return nil, c15UpErr
	}

	// "DECOY" in the Host of the client, in header values of the client and of the pipeline stands for the address of
	// a second listener: a request sent anywhere else than to forward_to.host is observable
	decoy := c15Decoy.ln.Addr().String()
	c.Req.Host = strings.ReplaceAll(c.Req.Host, "DECOY", decoy)
	c15Subst(c.Req.Headers, "DECOY", decoy)
	c15Subst(c.Pipe.Headers, "DECOY", decoy)

	svc, err := c15GetService(c.Trusted, c.TLS)
	if err != nil {
		return nil, err
	}

	exec, rejected, err := c15Load(&c)
	if err != nil {
		return nil, err
	}

	if exec == nil {
		return map[string]any{"load": rejected}, nil
	}

	svc.sw.set(exec)
	defer svc.sw.set(nil)

	c15Up.take()
	c15Decoy.take()

	status, relayed, err := c15Send(svc.addr, c.Peer, c.TLS, &c.Req)
	if err != nil {
		return nil, err
	}

	seen := append(c15Up.take(), c15Decoy.take()...)
	res := map[string]any{"status": status, "relayed": relayed, "hits": len(seen)}

	if len(seen) == 0 {
		res["up"] = nil

		return res, nil
	}

	s := seen[len(seen)-1]
	upHost := c15UpstreamHost(c.Rule.Host)
	canon := func(v string) string {
		return c15Str([]byte(strings.ReplaceAll(strings.ReplaceAll(v, upHost, "UP"), decoy, "DECOY")))
	}
	up := map[string]any{"tls": s.TLS, "dial": s.Dial}

	if s.Err != "" {
		up["err"] = s.Err
	}

	method, rest, _ := strings.Cut(s.Line, " ")
	target := rest
	proto := ""

	if i := strings.LastIndex(rest, " "); i >= 0 {
		target, proto = rest[:i], rest[i+1:]
	}

	up["method"] = c15Str([]byte(method))
	up["target"] = c15Str([]byte(target))
	up["proto"] = proto

	hdrs := make([][2]string, 0, len(s.Headers))
	host := []string{}

	for _, h := range s.Headers {
		switch {
		case strings.EqualFold(h[0], "host"):
			host = append(host, canon(h[1]))
		case c15IsFraming(h[0]):
		default:
			v := h[1]
			if n := c15DistinctCookies(&c.Pipe); h[0] == "Cookie" && n > 1 {
				// cookies produced by the pipeline are appended in Go map order: sort that tail
				parts := strings.Split(v, "; ")
				if len(parts) >= n {
					sort.Strings(parts[len(parts)-n:])
				}

				v = strings.Join(parts, "; ")
			}

			hdrs = append(hdrs, [2]string{c15Str([]byte(h[0])), canon(v)})
		}
	}

	sort.SliceStable(hdrs, func(i, j int) bool { return hdrs[i][0] < hdrs[j][0] })

	up["host"] = host
	up["headers"] = hdrs
	up["body"] = c15Str(s.Body)
	res["up"] = up

	return res, nil
}
