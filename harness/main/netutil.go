// Shared network helpers of the harness families.
package main

import (
	"net"
	"time"
)

// verifCloseNow closes a client connection with linger 0, so that the kernel does not keep the ephemeral port of the
// client side in TIME-WAIT for a minute. The families open tens of thousands of short loopback connections; without
// this the ephemeral port range of the sandbox can run out when several checks run side by side, and a listener on
// port 0 then fails with "address already in use" although nothing is wrong with the code under test.
func verifCloseNow(c net.Conn) {
	if tc, ok := c.(*net.TCPConn); ok {
		_ = tc.SetLinger(0)
	}

	_ = c.Close()
}

// verifListen listens on the given address (port 0) and retries for a while when the port range is exhausted.
func verifListen(addr string) (net.Listener, error) {
	var (
		ln  net.Listener
		err error
	)

	for i := 0; i < 60; i++ {
		if ln, err = net.Listen("tcp", addr); err == nil {
			return ln, nil
		}

		time.Sleep(500 * time.Millisecond)
	}

	return nil, err
}
