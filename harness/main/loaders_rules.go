package main

// Family "loaders", operation "ruleset" (property C19): a rule set file is created / changed / removed under the real
// file_system rule provider, which hands it to the real parser (rules/config.ParseRules), rule set processor, rule
// factory (with heimdall's real mechanism catalogue) and repository.  Reported: how each of the two provider calls
// ended (ok / error / panic) and which rule answers a list of probe requests afterwards.

import (
	"errors"
	"fmt"
	"net/http/httptest"
	"os"
	"path/filepath"
	"strings"
	"sync"
	"syscall"

	"github.com/fsnotify/fsnotify"
	"github.com/rs/zerolog"

	"github.com/dadrus/heimdall/internal/config"
	"github.com/dadrus/heimdall/internal/handler/requestcontext"
	"github.com/dadrus/heimdall/internal/rules"
	"github.com/dadrus/heimdall/internal/rules/mechanisms"
	"github.com/dadrus/heimdall/internal/rules/provider/filesystem"
	"github.com/dadrus/heimdall/internal/rules/rule"
	"github.com/dadrus/heimdall/internal/watcher"
	"github.com/dadrus/heimdall/internal/x/radixtree"
)

// the mechanism catalogue of the check; ids are what the generated rule sets refer to
const c19Catalogue = `
mechanisms:
  authenticators:
    - id: anon
      type: anonymous
    - id: jwt
      type: jwt
      config:
        jwks_endpoint:
          url: http://127.0.0.1:1/jwks
        assertions:
          issuers: [verif]
    - id: intro
      type: oauth2_introspection
      config:
        introspection_endpoint:
          url: http://127.0.0.1:1/introspect
        assertions:
          issuers: [verif]
  authorizers:
    - id: allow
      type: allow
    - id: cel
      type: cel
      config:
        expressions:
          - expression: "true"
  contextualizers:
    - id: ctx
      type: generic
      config:
        endpoint:
          url: http://127.0.0.1:1/ctx
  finalizers:
    - id: hdr
      type: header
      config:
        headers:
          X-User: "{{ .Subject.ID }}"
    - id: noop
      type: noop
  error_handlers:
    - id: dflt
      type: default
    - id: redir
      type: redirect
      config:
        to: http://127.0.0.1:1/login
`

type c19RulesEnv struct {
	conf    *config.Configuration
	factory rule.Factory
	err     error
}

var (
	c19EnvOnce sync.Once
	c19Env     c19RulesEnv
)

func c19SetupRulesEnv() {
	file, err := os.CreateTemp("", "verif-c19-*.yaml")
	if err != nil {
		c19Env.err = err

		return
	}

	path := file.Name()

	defer os.Remove(path)

	_, err = file.WriteString(c19Catalogue)
	if cerr := file.Close(); err == nil {
		err = cerr
	}

	if err != nil {
		c19Env.err = err

		return
	}

	conf, err := config.NewConfiguration("VERIFC19NOENV", config.ConfigurationPath(path))
	if err != nil {
		c19Env.err = err

		return
	}

	mf, err := mechanisms.NewMechanismFactory(conf, zerolog.Nop(), &watcher.NoopWatcher{}, nil, nil)
	if err != nil {
		c19Env.err = err

		return
	}

	rf, err := rules.NewRuleFactory(mf, conf, config.DecisionMode, zerolog.Nop())
	if err != nil {
		c19Env.err = err

		return
	}

	c19Env.conf, c19Env.factory = conf, rf
}

func c19Probe(repo rule.Repository, paths []string) []string {
	res := make([]string, 0, len(paths))

	for _, p := range paths {
		var id string

		cls, _ := c19Guard(func() error {
			req := httptest.NewRequest("GET", "http://heimdall.test"+p, nil)

			rul, err := repo.FindRule(requestcontext.New(req))
			if err != nil {
				id = "-"

				return nil
			}

			id = rul.ID()

			return nil
		})
		if cls == "panic" {
			id = "panic"
		}

		res = append(res, id)
	}

	return res
}

// c19RuleSet: {"first": text|null, "second": text|null, "probes": [paths]}
func c19RuleSet(c map[string]any) (any, error) {
	c19EnvOnce.Do(c19SetupRulesEnv)

	if c19Env.err != nil {
		return nil, errors.New("loaders: environment: " + c19Env.err.Error())
	}

	dir, err := c19TempDir()
	if err != nil {
		return nil, err
	}

	defer os.RemoveAll(dir)

	repo := rules.VerifC19NewRepository(c19Env.factory)
	proc := rules.NewRuleSetProcessor(repo, c19Env.factory)

	conf := *c19Env.conf
	conf.Providers.FileSystem = map[string]any{"src": dir, "watch": false}

	prov, err := filesystem.NewProvider(&conf, proc, zerolog.Nop())
	if err != nil {
		return nil, err
	}

	path := filepath.Join(dir, "rules.yaml")
	probes := getStrs(c, "probes")
	res := map[string]any{}

	apply := func(content any, exists bool, vanish bool) (string, string, bool) {
		text, ok := content.(string)
		if !ok {
			if exists {
				if err := os.Remove(path); err != nil {
					return "harness", err.Error(), false
				}
			}

			cls, detail := c19Guard(func() error { return prov.VerifC19Changed(path, fsnotify.Remove) })

			return cls, detail, false
		}

		raw := []byte(text)
		if getBool(c, "latin1") {
			// one byte per character: the case carries arbitrary bytes as Latin-1 text
			raw = raw[:0]
			for _, r := range text {
				raw = append(raw, byte(r))
			}
		}

		if vanish {
			// the file can be opened and read to the end, but is gone when the provider asks for its
			// modification time: a named pipe whose writer unlinks it before closing
			os.Remove(path)

			if err := syscall.Mkfifo(path, 0o600); err != nil {
				return "harness", err.Error(), exists
			}

			go func() {
				fifo, err := os.OpenFile(path, os.O_WRONLY, 0)
				if err != nil {
					return
				}

				fifo.Write(raw) //nolint:errcheck
				os.Remove(path)
				fifo.Close()
			}()

			cls, detail := c19Guard(func() error { return prov.VerifC19Changed(path, fsnotify.Write) })

			return cls, detail, false
		}

		if err := os.WriteFile(path, raw, 0o600); err != nil {
			return "harness", err.Error(), exists
		}

		op := fsnotify.Write
		if !exists {
			op = fsnotify.Create
		}

		cls, detail := c19Guard(func() error { return prov.VerifC19Changed(path, op) })

		return cls, detail, true
	}

	cls, detail, exists := "skipped", "", false
	if _, ok := c["first"].(string); ok {
		cls, detail, exists = apply(c["first"], false, false)
	}

	res["start"] = cls

	if cls == "panic" || cls == "harness" {
		res["detail0"] = detail
	}

	res["state0"] = c19Probe(repo, probes)

	cls, detail, _ = apply(c["second"], exists, getBool(c, "vanish"))
	res["reload"] = cls

	if cls == "panic" || cls == "harness" {
		res["detail"] = detail
	}

	if getBool(c, "why") {
		res["why"] = detail
	}

	res["state1"] = c19Probe(repo, probes)

	return res, nil
}

// c19Lookup answers probes ("/path" or "METHOD /path") with the rule found: "<file>/<rule id>@<n>", n being the step
// after which this very rule object was seen first (so that a rule replaced by an equally named one shows), "-" if
// no rule is found, "panic" if the lookup panics.
type c19Lookup struct {
	repo  rule.Repository
	born  map[rule.Rule]int
	files map[string]string
}

func (l *c19Lookup) answers(step int, probes []string) []string {
	res := make([]string, 0, len(probes))

	for _, p := range probes {
		method, target := "GET", p
		if m, t, ok := strings.Cut(p, " "); ok {
			method, target = m, t
		}

		var answer string

		cls, _ := c19Guard(func() error {
			req := httptest.NewRequest(method, "http://heimdall.test"+target, nil)

			rul, err := l.repo.FindRule(requestcontext.New(req))
			if err != nil {
				answer = "-"

				return nil
			}

			if _, known := l.born[rul]; !known {
				l.born[rul] = step
			}

			src := strings.TrimSuffix(filepath.Base(strings.TrimPrefix(rul.SrcID(), "file_system:")), ".yaml")
			answer = fmt.Sprintf("%s/%s@%d", src, rul.ID(), l.born[rul])

			return nil
		})
		if cls == "panic" {
			answer = "panic"
		}

		res = append(res, answer)
	}

	return res
}

// c19Stage: where a change was rejected (evidence only, never compared)
func c19Stage(err error) string {
	switch {
	case err == nil:
		return ""
	case errors.Is(err, radixtree.ErrInvalidPath):
		return "insertion: path expression"
	case errors.Is(err, radixtree.ErrConstraintsViolation):
		return "insertion: path of another source"
	case errors.Is(err, radixtree.ErrFailedToDelete):
		return "insertion: delete"
	case errors.Is(err, rules.ErrUnsupportedRuleSetVersion):
		return "version"
	case strings.Contains(err.Error(), "failed to parse"):
		return "decoding"
	default:
		return "factory"
	}
}

// c19RuleHistory: {"steps": [{"file": name, "text": text|null}], "probes": [..]}
func c19RuleHistory(c map[string]any) (any, error) {
	c19EnvOnce.Do(c19SetupRulesEnv)

	if c19Env.err != nil {
		return nil, errors.New("loaders: environment: " + c19Env.err.Error())
	}

	dir, err := c19TempDir()
	if err != nil {
		return nil, err
	}

	defer os.RemoveAll(dir)

	repo := rules.VerifC19NewRepository(c19Env.factory)
	proc := rules.NewRuleSetProcessor(repo, c19Env.factory)

	conf := *c19Env.conf
	conf.Providers.FileSystem = map[string]any{"src": dir, "watch": false}

	prov, err := filesystem.NewProvider(&conf, proc, zerolog.Nop())
	if err != nil {
		return nil, err
	}

	probes := getStrs(c, "probes")
	look := &c19Lookup{repo: repo, born: map[rule.Rule]int{}}
	outcomes, stages, answers := []any{}, []any{}, []any{look.answers(0, probes)}
	exists := map[string]bool{}
	res := map[string]any{}

	for n, raw := range getArr(c, "steps") {
		step, _ := raw.(map[string]any)
		path := filepath.Join(dir, getStr(step, "file")+".yaml")
		op := fsnotify.Write

		if text, ok := step["text"].(string); ok {
			if err = os.WriteFile(path, c19Latin1(text, getBool(step, "latin1")), 0o600); err != nil {
				return nil, err
			}

			if !exists[path] {
				op = fsnotify.Create
			}

			exists[path] = true
		} else {
			if exists[path] {
				if err = os.Remove(path); err != nil {
					return nil, err
				}
			}

			exists[path] = false
			op = fsnotify.Remove
		}

		var cause error

		cls, detail := c19Guard(func() error {
			cause = prov.VerifC19Changed(path, op)

			return cause
		})

		outcomes = append(outcomes, cls)
		stages = append(stages, c19Stage(cause))
		answers = append(answers, look.answers(n+1, probes))

		if cls == "panic" {
			res["detail"] = detail
		}
	}

	res["outcomes"], res["answers"], res["why"] = outcomes, answers, stages

	return res, nil
}
