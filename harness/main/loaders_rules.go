package main

// Family "loaders", operation "ruleset" (property C19): a rule set file is created / changed / removed under the real
// file_system rule provider, which hands it to the real parser (rules/config.ParseRules), rule set processor, rule
// factory (with heimdall's real mechanism catalogue) and repository.  Reported: how each of the two provider calls
// ended (ok / error / panic) and which rule answers a list of probe requests afterwards.

import (
	"errors"
	"net/http/httptest"
	"os"
	"path/filepath"
	"sync"
	"syscall"

	"github.com/fsnotify/fsnotify"
	"github.com/rs/zerolog"

	"github.com/dadrus/heimdall/internal/config"
	"github.com/dadrus/heimdall/internal/handler/requestcontext"
	"github.com/dadrus/heimdall/internal/rules"
	"github.com/dadrus/heimdall/internal/rules/mechanisms"
	"github.com/dadrus/heimdall/internal/rules/provider/filesystem"
	"github.com/dadrus/heimdall/internal/rules/rule"
	"github.com/dadrus/heimdall/internal/watcher"
)

// the mechanism catalogue of the check; ids are what the generated rule sets refer to
const c19Catalogue = `
mechanisms:
  authenticators:
    - id: anon
      type: anonymous
    - id: jwt
      type: jwt
      config:
        jwks_endpoint:
          url: http://127.0.0.1:1/jwks
        assertions:
          issuers: [verif]
    - id: intro
      type: oauth2_introspection
      config:
        introspection_endpoint:
          url: http://127.0.0.1:1/introspect
        assertions:
          issuers: [verif]
  authorizers:
    - id: allow
      type: allow
    - id: cel
      type: cel
      config:
        expressions:
          - expression: "true"
  contextualizers:
    - id: ctx
      type: generic
      config:
        endpoint:
          url: http://127.0.0.1:1/ctx
  finalizers:
    - id: hdr
      type: header
      config:
        headers:
          X-User: "{{ .Subject.ID }}"
    - id: noop
      type: noop
  error_handlers:
    - id: dflt
      type: default
    - id: redir
      type: redirect
      config:
        to: http://127.0.0.1:1/login
`

type c19RulesEnv struct {
	conf    *config.Configuration
	factory rule.Factory
	err     error
}

var (
	c19EnvOnce sync.Once
	c19Env     c19RulesEnv
)

func c19SetupRulesEnv() {
	file, err := os.CreateTemp("", "verif-c19-*.yaml")
	if err != nil {
		c19Env.err = err

		return
	}

	path := file.Name()

	defer os.Remove(path)

	_, err = file.WriteString(c19Catalogue)
	if cerr := file.Close(); err == nil {
		err = cerr
	}

	if err != nil {
		c19Env.err = err

		return
	}

	conf, err := config.NewConfiguration("VERIFC19NOENV", config.ConfigurationPath(path))
	if err != nil {
		c19Env.err = err

		return
	}

	mf, err := mechanisms.NewMechanismFactory(conf, zerolog.Nop(), &watcher.NoopWatcher{}, nil, nil)
	if err != nil {
		c19Env.err = err

		return
	}

	rf, err := rules.NewRuleFactory(mf, conf, config.DecisionMode, zerolog.Nop())
	if err != nil {
		c19Env.err = err

		return
	}

	c19Env.conf, c19Env.factory = conf, rf
}

func c19Probe(repo rule.Repository, paths []string) []string {
	res := make([]string, 0, len(paths))

	for _, p := range paths {
		var id string

		cls, _ := c19Guard(func() error {
			req := httptest.NewRequest("GET", "http://heimdall.test"+p, nil)

			rul, err := repo.FindRule(requestcontext.New(req))
			if err != nil {
				id = "-"

				return nil
			}

			id = rul.ID()

			return nil
		})
		if cls == "panic" {
			id = "panic"
		}

		res = append(res, id)
	}

	return res
}

// c19RuleSet: {"first": text|null, "second": text|null, "probes": [paths]}
func c19RuleSet(c map[string]any) (any, error) {
	c19EnvOnce.Do(c19SetupRulesEnv)

	if c19Env.err != nil {
		return nil, errors.New("loaders: environment: " + c19Env.err.Error())
	}

	dir, err := c19TempDir()
	if err != nil {
		return nil, err
	}

	defer os.RemoveAll(dir)

	repo := rules.VerifC19NewRepository(c19Env.factory)
	proc := rules.NewRuleSetProcessor(repo, c19Env.factory)

	conf := *c19Env.conf
	conf.Providers.FileSystem = map[string]any{"src": dir, "watch": false}

	prov, err := filesystem.NewProvider(&conf, proc, zerolog.Nop())
	if err != nil {
		return nil, err
	}

	path := filepath.Join(dir, "rules.yaml")
	probes := getStrs(c, "probes")
	res := map[string]any{}

	apply := func(content any, exists bool, vanish bool) (string, string, bool) {
		text, ok := content.(string)
		if !ok {
			if exists {
				if err := os.Remove(path); err != nil {
					return "harness", err.Error(), false
				}
			}

			cls, detail := c19Guard(func() error { return prov.VerifC19Changed(path, fsnotify.Remove) })

			return cls, detail, false
		}

		raw := []byte(text)
		if getBool(c, "latin1") {
			// one byte per character: the case carries arbitrary bytes as Latin-1 text
			raw = raw[:0]
			for _, r := range text {
				raw = append(raw, byte(r))
			}
		}

		if vanish {
			// the file can be opened and read to the end, but is gone when the provider asks for its
			// modification time: a named pipe whose writer unlinks it before closing
			os.Remove(path)

			if err := syscall.Mkfifo(path, 0o600); err != nil {
				return "harness", err.Error(), exists
			}

			go func() {
				fifo, err := os.OpenFile(path, os.O_WRONLY, 0)
				if err != nil {
					return
				}

				fifo.Write(raw) //nolint:errcheck
				os.Remove(path)
				fifo.Close()
			}()

			cls, detail := c19Guard(func() error { return prov.VerifC19Changed(path, fsnotify.Write) })

			return cls, detail, false
		}

		if err := os.WriteFile(path, raw, 0o600); err != nil {
			return "harness", err.Error(), exists
		}

		op := fsnotify.Write
		if !exists {
			op = fsnotify.Create
		}

		cls, detail := c19Guard(func() error { return prov.VerifC19Changed(path, op) })

		return cls, detail, true
	}

	cls, detail, exists := "skipped", "", false
	if _, ok := c["first"].(string); ok {
		cls, detail, exists = apply(c["first"], false, false)
	}

	res["start"] = cls

	if cls == "panic" || cls == "harness" {
		res["detail0"] = detail
	}

	res["state0"] = c19Probe(repo, probes)

	cls, detail, _ = apply(c["second"], exists, getBool(c, "vanish"))
	res["reload"] = cls

	if cls == "panic" || cls == "harness" {
		res["detail"] = detail
	}

	if getBool(c, "why") {
		res["why"] = detail
	}

	res["state1"] = c19Probe(repo, probes)

	return res, nil
}
