package main

import (
	"encoding/hex"
	"fmt"
	"context"
	"errors"
	"net/http"
	"net/http/httptest"
	"net/url"
	"sort"

	envoy_auth "github.com/envoyproxy/go-control-plane/envoy/service/auth/v3"
	"github.com/rs/zerolog"

	"github.com/dadrus/heimdall/internal/config"
	"github.com/dadrus/heimdall/internal/handler/envoyextauth/grpcv3"
	"github.com/dadrus/heimdall/internal/handler/requestcontext"
	"github.com/dadrus/heimdall/internal/heimdall"
	"github.com/dadrus/heimdall/internal/rules"
	rconfig "github.com/dadrus/heimdall/internal/rules/config"
	"github.com/dadrus/heimdall/internal/rules/mechanisms/authenticators"
	"github.com/dadrus/heimdall/internal/rules/mechanisms/authorizers"
	"github.com/dadrus/heimdall/internal/rules/mechanisms/contextualizers"
	"github.com/dadrus/heimdall/internal/rules/mechanisms/errorhandlers"
	"github.com/dadrus/heimdall/internal/rules/mechanisms/finalizers"
	"github.com/dadrus/heimdall/internal/rules/mechanisms/subject"
	"github.com/dadrus/heimdall/internal/rules/rule"
)

// Family "repo": rule-set histories against the real rule factory, rule-set processor and repository;
// lookups go through the real request context (URL extraction), FindRule and ruleImpl.Execute.
//
// Every lookup is made twice, through the two constructors of a request context the code base has: the one of the
// HTTP based services (requestcontext.New on a request parsed as net/http's server parses the request line) and the
// one of the Envoy ext_authz service (grpcv3.NewRequestContext on a CheckRequest whose `path` is the request target
// as received, which is what Envoy delivers). The answer of the second one is reported under "envoy". (Cases of this
// family that are built by other families for their own purposes, e.g. the sequential replays of C07, do not ask for
// it: it is made for cases carrying `"envoy": true`, which every generator of tools/gen_repo.py sets.)
//
// For a rule with a backend (`forward_to`) the URL the proxy would send the request to is reported under "up":
// scheme, host, the path as written into the request line (EscapedPath) and the raw query of what
// Backend.CreateURL / URLRewriter.Rewrite produce from the request URL after ruleImpl.Execute. For cases carrying
// `"proxy": true` such a lookup is made a third time through the request context of the proxy service, whose Finalize
// writes the request to a recording upstream connection: "sent" is the request target found there (repo_proxy.go).

func init() { families["repo"] = runRepo }

type stubAuthn struct{ id string }

func (s *stubAuthn) ID() string { return s.id }
func (s *stubAuthn) Execute(ctx heimdall.Context) (*subject.Subject, error) {
	// which version of the rule is executing (the id of its authenticator stands for everything a version of a
	// rule consists of besides its matching conditions)
	if len(s.id) > 1 && s.id[0] == 'v' {
		ctx.AddHeaderForUpstream("X-Verif-Ver", s.id[1:])
	}

	return &subject.Subject{ID: "anon"}, nil
}
func (s *stubAuthn) WithConfig(map[string]any) (authenticators.Authenticator, error) { return s, nil }
func (s *stubAuthn) IsFallbackOnErrorAllowed() bool                                   { return false }

type stubFactory struct{}

var errNoSuchMechanism = errors.New("no such mechanism")

func (stubFactory) CreateAuthenticator(_, id string, _ config.MechanismConfig) (authenticators.Authenticator, error) {
	return &stubAuthn{id: id}, nil
}

func (stubFactory) CreateAuthorizer(string, string, config.MechanismConfig) (authorizers.Authorizer, error) {
	return nil, errNoSuchMechanism
}

func (stubFactory) CreateContextualizer(string, string, config.MechanismConfig) (
	contextualizers.Contextualizer, error,
) {
	return nil, errNoSuchMechanism
}

func (stubFactory) CreateFinalizer(string, string, config.MechanismConfig) (finalizers.Finalizer, error) {
	return nil, errNoSuchMechanism
}

func (stubFactory) CreateErrorHandler(string, string, config.MechanismConfig) (errorhandlers.ErrorHandler, error) {
	return nil, errNoSuchMechanism
}

func errKind(err error) string {
	switch {
	case err == nil:
		return "ok"
	case errors.Is(err, heimdall.ErrArgument):
		return "argument"
	case errors.Is(err, heimdall.ErrNoRuleFound):
		return "norule"
	case errors.Is(err, heimdall.ErrConfiguration):
		return "configuration"
	case errors.Is(err, heimdall.ErrInternal):
		return "internal"
	case errors.Is(err, heimdall.ErrAuthentication):
		return "authentication"
	case errors.Is(err, heimdall.ErrAuthorization):
		return "authorization"
	case errors.Is(err, heimdall.ErrCommunication):
		return "communication"
	default:
		return "other"
	}
}

func toRuleSet(op map[string]any) *rconfig.RuleSet {
	rs := &rconfig.RuleSet{
		MetaData: rconfig.MetaData{Source: getStr(op, "src")},
		Version:  rconfig.CurrentRuleSetVersion,
		Name:     getStr(op, "src"),
	}

	for _, r := range getArr(op, "rules") {
		rm := obj(r)
		rc := rconfig.Rule{
			ID:                     getStr(rm, "id"),
			EncodedSlashesHandling: rconfig.EncodedSlashesHandling(getStr(rm, "esh")),
			Execute:                []config.MechanismConfig{{"authenticator": "a"}},
		}

		if ver := getInt(rm, "ver"); ver > 0 {
			rc.Execute = []config.MechanismConfig{{"authenticator": fmt.Sprintf("v%d", ver)}}
		}

		if bt, ok := rm["bt"].(bool); ok {
			rc.Matcher.BacktrackingEnabled = &bt
		}

		rc.Matcher.Scheme = getStr(rm, "scheme")
		rc.Matcher.Methods = getStrs(rm, "methods")

		for _, h := range getArr(rm, "hosts") {
			hm := obj(h)
			rc.Matcher.Hosts = append(rc.Matcher.Hosts, rconfig.HostMatcher{Type: getStr(hm, "type"), Value: getStr(hm, "value")})
		}

		for _, rt := range getArr(rm, "routes") {
			rtm := obj(rt)
			route := rconfig.Route{Path: getStr(rtm, "path")}

			for _, pp := range getArr(rtm, "pp") {
				ppm := obj(pp)
				route.PathParams = append(route.PathParams, rconfig.ParameterMatcher{
					Name: getStr(ppm, "name"), Type: getStr(ppm, "type"), Value: getStr(ppm, "value"),
				})
			}

			rc.Matcher.Routes = append(rc.Matcher.Routes, route)
		}

		if fw, ok := rm["forward_to"].(map[string]any); ok {
			be := &rconfig.Backend{Host: getStr(fw, "host")}
			if rw, ok := fw["rewrite"].(map[string]any); ok {
				be.URLRewriter = &rconfig.URLRewriter{
					Scheme:              getStr(rw, "scheme"),
					PathPrefixToCut:     rconfig.PrefixCutter(getStr(rw, "strip")),
					PathPrefixToAdd:     rconfig.PrefixAdder(getStr(rw, "add")),
					QueryParamsToRemove: getStrs(rw, "strip_query"),
				}
			}

			rc.Backend = be
		}

		rs.Rules = append(rs.Rules, rc)
	}

	return rs
}

// outStr prints a byte string: the text itself if it is ASCII, hex otherwise (JSON cannot carry arbitrary bytes; the
// Lean driver prints the same)
func outStr(s string) string {
	for i := 0; i < len(s); i++ {
		if s[i] >= 0x80 { //nolint:mnd
			return "hex:" + hex.EncodeToString([]byte(s))
		}
	}

	return s
}

func sortedPairs(m map[string]string) [][]string {
	res := [][]string{}
	for k, v := range m {
		res = append(res, []string{outStr(k), outStr(v)})
	}

	sort.Slice(res, func(i, j int) bool { return res[i][0] < res[j][0] })

	return res
}

// rawTarget is the request target exactly as it would stand in the request line
func newHTTPRequest(method, rawTarget, host string, scheme ...string) (*http.Request, error) {
	req := httptest.NewRequest(method, "http://placeholder/", nil)

	// as net/http's server does for the request line
	u, err := url.ParseRequestURI(rawTarget)
	if err != nil {
		return nil, err
	}

	req.URL = u
	req.RequestURI = rawTarget
	req.Host = host

	if len(scheme) == 1 && scheme[0] != "" && scheme[0] != "http" {
		// what a trusted proxy in front of heimdall reports (the trusted-proxy middleware is not part of this family)
		req.Header.Set("X-Forwarded-Proto", scheme[0])
	}

	return req.WithContext(context.Background()), nil
}

// serveLookup: FindRule + ruleImpl.Execute on the given request context, as the rule executor does
func serveLookup(repo rule.Repository, ctx heimdall.Context, version func(heimdall.Context) string) map[string]any {
	res := map[string]any{}

	rul, err := repo.FindRule(ctx)
	if err != nil {
		res["rule"] = nil
		res["err"] = errKind(err)

		return res
	}

	res["rule"] = rul.SrcID() + "/" + rul.ID()

	var be rule.Backend

	be, err = rul.Execute(ctx)
	res["exec"] = errKind(err)

	if err == nil {
		res["caps"] = sortedPairs(ctx.Request().URL.Captures)
		if ver := version(ctx); ver != "" {
			res["ver"] = ver
		}

		if be != nil {
			res["up"] = map[string]any{
				"scheme": outStr(be.URL().Scheme), "host": outStr(be.URL().Host),
				"path": outStr(be.URL().EscapedPath()), "query": outStr(be.URL().RawQuery),
			}
		}
	}

	return res
}

// envoyLookup: the same lookup through the request context of the Envoy ext_authz service. Envoy delivers the request
// target "as it appears in the first line of the HTTP request" in `path`; scheme, host and method are attributes.
func envoyLookup(repo rule.Repository, op map[string]any) map[string]any {
	scheme := getStr(op, "scheme")
	if scheme == "" {
		scheme = "http"
	}

	ctx := grpcv3.NewRequestContext(context.Background(), &envoy_auth.CheckRequest{
		Attributes: &envoy_auth.AttributeContext{
			Request: &envoy_auth.AttributeContext_Request{
				Http: &envoy_auth.AttributeContext_HttpRequest{
					Method: getStr(op, "method"),
					Scheme: scheme,
					Host:   getStr(op, "host"),
					Path:   getStr(op, "target"),
				},
			},
		},
	})

	return serveLookup(repo, ctx, func(heimdall.Context) string {
		// the headers for the upstream are only visible in the response handed to Envoy
		resp, err := ctx.Finalize()
		if err != nil {
			return ""
		}

		for _, h := range resp.GetOkResponse().GetHeaders() {
			if h.GetHeader().GetKey() == "X-Verif-Ver" {
				return h.GetHeader().GetValue()
			}
		}

		return ""
	})
}

func runRepo(c map[string]any) (any, error) {
	conf := &config.Configuration{}
	if getBool(c, "dr") {
		conf.Default = &config.DefaultRule{
			BacktrackingEnabled: getBool(c, "dr_bt"),
			Execute:             []config.MechanismConfig{{"authenticator": "d"}},
		}
	}

	factory, err := rules.NewRuleFactory(stubFactory{}, conf, config.DecisionMode, zerolog.Nop())
	if err != nil {
		return nil, err
	}

	repo := rules.VerifNewRepository(factory)
	proc := rules.NewRuleSetProcessor(repo, factory)
	out := []any{}
	bothContexts := getBool(c, "envoy")
	throughProxy := getBool(c, "proxy") // see repo_proxy.go

	for _, o := range getArr(c, "ops") {
		op := obj(o)
		switch getStr(op, "op") {
		case "add":
			out = append(out, errKind(proc.OnCreated(toRuleSet(op))))
		case "upd":
			out = append(out, errKind(proc.OnUpdated(toRuleSet(op))))
		case "del":
			out = append(out, errKind(proc.OnDeleted(&rconfig.RuleSet{MetaData: rconfig.MetaData{Source: getStr(op, "src")}})))
		case "find":
			req, err := newHTTPRequest(getStr(op, "method"), getStr(op, "target"), getStr(op, "host"), getStr(op, "scheme"))
			if err != nil {
				res := map[string]any{"badrequest": true}
				if bothContexts {
					res["envoy"] = envoyLookup(repo, op)
				}

				out = append(out, res)

				continue
			}

			res := serveLookup(repo, requestcontext.New(req), func(ctx heimdall.Context) string {
				return ctx.(*requestcontext.RequestContext).UpstreamHeaders().Get("X-Verif-Ver") //nolint:forcetypeassert
			})
			if throughProxy {
				sent, written, err := proxySent(repo, op)
				if err != nil {
					return nil, err
				}

				if written {
					res["sent"] = outStr(sent)
				}
			}

			if bothContexts {
				res["envoy"] = envoyLookup(repo, op)
			}

			out = append(out, res)
		}
	}

	return out, nil
}
