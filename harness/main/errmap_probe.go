package main

// Family "errmap", ops "ctxprobe" and "wireprobe" (property C12): facts about the running code which the Lean tables
// are generated from (together with probes sent through op "handler"): do the request contexts hand the collected
// challenge on and do the translators send it; which configuration field feeds which class in each service.

import (
	"context"
	"errors"
	"fmt"
	"net"
	"net/http"
	"net/http/httptest"
	"strings"

	"github.com/rs/zerolog"
	"google.golang.org/grpc"
	"google.golang.org/grpc/credentials/insecure"

	"github.com/dadrus/heimdall/internal/cache/memory"
	"github.com/dadrus/heimdall/internal/config"
	"github.com/dadrus/heimdall/internal/handler/decision"
	"github.com/dadrus/heimdall/internal/handler/envoyextauth/grpcv3"
	"github.com/dadrus/heimdall/internal/handler/proxy"
	"github.com/dadrus/heimdall/internal/heimdall"
	"github.com/dadrus/heimdall/internal/rules/endpoint"
	"github.com/dadrus/heimdall/internal/rules/rule"
	"github.com/dadrus/heimdall/internal/x/errorchain"
)

const c12ProbeChallenge = "Basic realm=probe"

// c12FinalizedError: what `Finalize` of a real request context returns after an error handler collected a challenge
// (and another header) and set the pipeline error.
func c12FinalizedError(kind string) (error, error) {
	cause := errorchain.New(heimdall.ErrAuthentication)

	switch kind {
	case "decision", "proxy":
		rec := httptest.NewRecorder()
		req := httptest.NewRequest(http.MethodGet, "/some/path", nil)

		var rc interface {
			AddHeaderForUpstream(name, value string)
			SetPipelineError(err error)
			Finalize(backend rule.Backend) error
		}

		if kind == "decision" {
			rc = decision.VerifC12NewContext(rec, req)
		} else {
			rc = proxy.VerifC12NewContext(rec, req)
		}

		rc.AddHeaderForUpstream("X-Probe-Other", "other")
		rc.AddHeaderForUpstream("WWW-Authenticate", c12ProbeChallenge)
		rc.SetPipelineError(cause)

		return rc.Finalize(nil), nil
	case "envoy":
		rc := grpcv3.NewRequestContext(context.Background(), c12CheckRequest("GET", "/some/path", map[string]string{}))
		rc.AddHeaderForUpstream("X-Probe-Other", "other")
		rc.AddHeaderForUpstream("WWW-Authenticate", c12ProbeChallenge)
		rc.SetPipelineError(cause)

		_, err := rc.Finalize()

		return err, nil
	}

	return nil, errors.New("unknown context " + kind)
}

func c12RunCtxProbe(_ map[string]any) (any, error) {
	cfg := c12Cfg{}
	out := map[string]any{}

	for _, kind := range []string{"decision", "proxy", "envoy"} {
		ferr, err := c12FinalizedError(kind)
		if err != nil {
			return nil, err
		}

		if ferr == nil {
			return nil, fmt.Errorf("%s: Finalize returned no error for a failed pipeline", kind)
		}

		out[kind] = map[string]any{"http": c12RunHTTP(cfg, nil, ferr, "live"), "grpc": c12RunGRPC(cfg, nil, ferr, "live")}
	}

	return out, nil
}

// c12ScriptedExecutor fails every request with the kind named by the last path segment.
type c12ScriptedExecutor struct{}

func (c12ScriptedExecutor) Execute(ctx heimdall.Context) (rule.Backend, error) {
	path := ctx.Request().URL.Path
	kind := path[strings.LastIndex(path, "/")+1:]

	sentinel, ok := errmapKinds[kind]
	if !ok {
		return nil, errorchain.NewWithMessage(heimdall.ErrInternal, "unknown kind "+kind)
	}

	return nil, errorchain.NewWithMessage(sentinel, "scripted failure")
}

// op "wireprobe": the three services built by their own constructors from a configuration in which every response
// override of the decision and of the proxy section carries a code of its own.
func c12RunWireProbe(_ map[string]any) (any, error) {
	conf := &config.Configuration{}
	fields := map[string]map[string]int{"Decision": {}, "Proxy": {}}

	set := func(section string, rc *config.RespondConfig, base int, verbose bool) {
		rc.Verbose = verbose
		rc.With.Accepted.Code = base
		rc.With.ArgumentError.Code = base + 1
		rc.With.AuthenticationError.Code = base + 2
		rc.With.AuthorizationError.Code = base + 3
		rc.With.CommunicationError.Code = base + 4
		rc.With.InternalError.Code = base + 5
		rc.With.NoRuleError.Code = base + 6
		fields[section] = map[string]int{
			"accepted": base, "argumentError": base + 1, "authenticationError": base + 2,
			"authorizationError": base + 3, "communicationError": base + 4, "internalError": base + 5,
			"noRuleError": base + 6,
		}
	}
	set("Decision", &conf.Serve.Decision.Respond, 440, true)
	set("Proxy", &conf.Serve.Proxy.Respond, 460, false)

	cch, err := memory.NewCache(nil, nil, nil)
	if err != nil {
		return nil, err
	}

	st := &c12Stack{addr: map[string]string{}}
	defer st.stop()

	exec := c12ScriptedExecutor{}
	logger := zerolog.Nop()

	for _, name := range []string{"decision", "proxy"} {
		ln, err := net.Listen("tcp", "127.0.0.1:0")
		if err != nil {
			return nil, err
		}

		var srv *http.Server
		if name == "decision" {
			srv = decision.VerifC12NewService(conf, cch, logger, exec)
		} else {
			srv = proxy.VerifC12NewService(conf, cch, logger, exec)
		}

		st.listeners = append(st.listeners, ln)
		st.servers = append(st.servers, srv)
		st.addr[name] = ln.Addr().String()

		go srv.Serve(ln) //nolint:errcheck
	}

	ln, err := net.Listen("tcp", "127.0.0.1:0")
	if err != nil {
		return nil, err
	}

	st.listeners = append(st.listeners, ln)
	st.grpcSrv = grpcv3.VerifC12NewService(conf, cch, logger, exec)
	st.addr["envoy"] = ln.Addr().String()

	go st.grpcSrv.Serve(ln) //nolint:errcheck

	st.conn, err = grpc.NewClient(st.addr["envoy"], grpc.WithTransportCredentials(insecure.NewCredentials()))
	if err != nil {
		return nil, err
	}

	answers := map[string]map[string]any{}

	for _, svc := range []string{"decision", "proxy", "envoy"} {
		answers[svc] = map[string]any{}

		for kind := range errmapKinds {
			if svc == "envoy" {
				answers[svc][kind] = st.doGRPC("/k/"+kind, nil, nil)
			} else {
				answers[svc][kind] = st.doHTTP(svc, "/k/"+kind, nil, nil)
			}
		}
	}

	return map[string]any{"fields": fields, "answers": answers}, nil
}

// c12ProbeStrategy is an authentication strategy of an endpoint which fails with a given error.
type c12ProbeStrategy struct{ err error }

func (s c12ProbeStrategy) Apply(context.Context, *http.Request) error { return s.err }
func (s c12ProbeStrategy) Hash() []byte                               { return []byte("probe") }

// op "epprobe" (round 5): what `Endpoint.CreateRequest` and `Endpoint.SendRequest` return when the authentication
// strategy of the endpoint fails — one probe per error kind (an errorchain headed by the sentinel) and one for a
// foreign error: which errors are put in front of the strategy's error, and does it stay in the chain.
func c12RunEndpointProbe(_ map[string]any) (any, error) {
	causes := map[string]error{"foreign": errors.New("probe: foreign failure of the strategy")}
	for k, s := range errmapKinds {
		causes[k] = errorchain.NewWithMessage(s, "probe: failure of the strategy")
	}

	out := map[string]any{}

	for name, cause := range causes {
		ep := endpoint.Endpoint{
			URL: "http://127.0.0.1:9/probe", Method: http.MethodGet, AuthStrategy: c12ProbeStrategy{err: cause},
		}

		_, cerr := ep.CreateRequest(context.Background(), nil, nil)
		_, serr := ep.SendRequest(context.Background(), nil, nil)

		out[name] = map[string]any{"cause": c12TermOf(cause, 0), "create": c12TermOf(cerr, 0), "send": c12TermOf(serr, 0)}
	}

	return out, nil
}
