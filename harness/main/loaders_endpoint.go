package main

// Family "loaders", operation "endpoint" (property C19): rule sets fetched from a polled http_endpoint.
//
// The real http_endpoint rule provider (ruleSetEndpoint.FetchRuleSet, provider.watchChanges: the job the scheduler
// runs every watch_interval) polls the loopback server of loaders_remote.go, which answers each poll with the
// response of the case - complete, or damaged below HTTP (body broken off under an announced Content-Length or in
// the middle of a chunked transfer, connection reset, see c19Reply).  Rule sets go to the real rule set processor,
// factory and repository; after every poll the rules answering the probe requests are recorded.

import (
	"context"
	"errors"

	"github.com/rs/zerolog"

	"github.com/dadrus/heimdall/internal/cache"
	"github.com/dadrus/heimdall/internal/cache/noop"
	"github.com/dadrus/heimdall/internal/rules"
	rulecfg "github.com/dadrus/heimdall/internal/rules/config"
	"github.com/dadrus/heimdall/internal/rules/provider/httpendpoint"
	"github.com/dadrus/heimdall/internal/rules/rule"
)

// c19CallProc notes what the provider asks the rule set processor to do and how that ended
type c19CallProc struct {
	inner rule.SetProcessor
	calls []string
}

func (p *c19CallProc) note(what string, err error) error {
	if err != nil {
		what += ":refused"
	}

	p.calls = append(p.calls, what)

	return err
}

func (p *c19CallProc) OnCreated(rs *rulecfg.RuleSet) error {
	return p.note("created", p.inner.OnCreated(rs))
}
func (p *c19CallProc) OnUpdated(rs *rulecfg.RuleSet) error {
	return p.note("updated", p.inner.OnUpdated(rs))
}
func (p *c19CallProc) OnDeleted(rs *rulecfg.RuleSet) error {
	return p.note("deleted", p.inner.OnDeleted(rs))
}

// c19Endpoint: {"steps": [{"status", "ctype", "body", "damage"?, "cut"?}], "probes": [paths]}
func c19Endpoint(c map[string]any) (any, error) {
	c19EnvOnce.Do(c19SetupRulesEnv)

	if c19Env.err != nil {
		return nil, errors.New("loaders: environment: " + c19Env.err.Error())
	}

	c19RemoteOnce.Do(c19SetupRemote)

	env := &c19Remote
	if env.err != nil {
		return nil, errors.New("loaders: remote environment: " + env.err.Error())
	}

	repo := rules.VerifC19NewRepository(c19Env.factory)
	proc := &c19CallProc{inner: rules.NewRuleSetProcessor(repo, c19Env.factory)}
	log := &c19Log{}
	logger := zerolog.New(log).Level(zerolog.WarnLevel)

	conf := *c19Env.conf
	conf.Providers.HTTPEndpoint = map[string]any{"endpoints": []any{map[string]any{
		"url": env.srv.URL + "/rules", "http_cache": map[string]any{"enabled": false},
	}}}

	cch := &noop.Cache{}

	prov, err := httpendpoint.VerifC19New(&conf, cch, proc, logger)
	if err != nil {
		return nil, err
	}

	defer prov.Close()

	ctx := logger.WithContext(cache.WithContext(context.Background(), cch))
	probes := getStrs(c, "probes")
	answers := [][]string{c19Probe(repo, probes)}
	polls := []string{}
	res := map[string]any{"alive": true}

	for _, s := range getArr(c, "steps") {
		env.script.set(c19ReplyOf(obj(s), env.srv.URL), "/rules", nil)

		proc.calls = nil
		kept := false

		cls, detail := c19Guard(func() error {
			// an error is returned exactly when the provider decides to leave everything as it is
			kept = prov.Poll(ctx, 0) != nil

			return nil
		})

		// "kept": the fetch failed and the provider left everything alone; otherwise what it asked the processor
		// to do ("created", "updated", "deleted", with ":refused" if the processor returned an error), "unchanged"
		// if it asked for nothing
		switch {
		case cls == "panic":
			polls = append(polls, "panic")
			res["detail"] = detail
		case kept:
			polls = append(polls, "kept")
		case len(proc.calls) == 0:
			polls = append(polls, "unchanged")
		default:
			polls = append(polls, proc.calls[len(proc.calls)-1])
		}

		answers = append(answers, c19Probe(repo, probes))
	}

	res["polls"] = polls
	res["answers"] = answers

	return res, nil
}
